"""C12 — cumulative products equal the sequential left/right fold for every length.

Model: lean/Pose/Model/Scan.lean; theorems: lean/Proofs/Props/C12.lean (cumops_spec, cumopsLeft_spec,
strides_lt, cumopsDim_spec, cumopsArr_eq, wrapper_spec, scanMem_spec, scanMem_frame, scanOut_*, …).

Correspondence streams
  schedule : for every L the stride list the real `cumops_` uses (observed through the `ops` callback)
             equals the model's `strides L`;
  mat2     : 2x2 integer matrices mod p (non-commutative, exact) scanned along any dim of tensors up to
             rank 4 (+ the two matrix dims) — implementation vs model, exact equality;
  lie      : cumprod / cummul / cumops (+ in-place variants, LieTensor methods) on the four groups —
             implementation vs model group product in 192-bit arithmetic.
  mem      : whole-storage comparison: a raw buffer of 2x2 matrices mod p, a random strided view of it
             (any rank <= 4, permuted / gapped / offset strides, or an expanded stride-0 view for the
             out-of-place call), `cumops_` / `cumops` along any dim — the *entire* buffer afterwards
             (and the returned tensor) must equal the model's `scanBuf` / `scanOutBuf`; the element
             addresses torch uses must equal the model's address map.
Oracle on the real code (used for the failing-input search): the sequential fold with the same `ops`.
"""
from __future__ import annotations

import math
from fractions import Fraction

import torch

from . import common
from .common import Ctx, to_wire

META = {
    "rule": "schedule: every L in the tier's range (exhaustive); mat2/lie: random (L, shape, dim, left, api, dtype) "
            "with L from {1..40} + powers of two +-1 + random up to the tier bound; a case is non-trivial when L >= 2 "
            "and distinct by (stream, L, dim, rank, left, api, dtype/type)",
    "trusted": ["torch index_select/index_copy_/arange semantics (external kernel): a round reads whole slices of the OLD tensor "
                "and writes whole slices, every fibre along `dim` alike — this is how the model's `step`/`stepMem` are defined and "
                "it is tied to the code by the `mat2` and `mem` streams (whole-storage comparison), not derived"],
    "assumptions": ["`ops` is associative on the values it is applied to (hypothesis of cumops_spec)",
                    "`ops` acts item-wise along the scanned dimension: position j of ops(a, b) depends only on a[j], b[j] "
                    "(true of `*`, `@` and the group products; a user `ops` that mixes positions, e.g. b.flip(0), is outside the theorems)"],
    "partial": ["floating-point group products are not exactly associative: for the four group types the theorems apply to the exact "
                "model (192-bit execution, real-number proofs); the float result is compared with the ordered fold within 64*eps*L per "
                "block (measured). The SHAPE of that error is a theorem (`cumops_approx`, `cumops_approx_nonexpansive`: an eps-associative, Lambda-Lipschitz-up-to-delta product gives a scan within scanErr(Lambda, eps, delta, L) <= rounds*2L*(eps+delta) of the fold) whose hypotheses about the rounded SO3 product are measured on the scanned data (`approx` stream), not proved of torch. For exact monoids (integer matrices mod p, the free "
                "monoid) the property's word 'exactly' is decided exactly."],
}

GROUPS = {"SO3": 4, "SE3": 7, "RxSO3": 5, "Sim3": 8}


def pp():
    import pypose
    return pypose


# ----------------------------------------------------------------------------- schedule stream

def observe_schedule(L: int):
    """strides used by the real cumops for length L, observed via the callback (L - len(operand))."""
    seen = []

    def ops(a, b):
        seen.append(L - a.shape[0])
        return b

    x = torch.zeros(L, 1)
    pp().cumops(x, 0, ops)
    return seen


def run_schedule(ctx: Ctx, Ls):
    lines = [f"scan.strides {L}" for L in Ls]
    reps = ctx.driver.run(lines)
    for L, rep in zip(Ls, reps):
        st, toks = common.parse_reply(rep)
        want = [int(t) for t in toks]
        case = {"kind": "schedule", "L": L}
        try:
            got = observe_schedule(L)
        except Exception as e:  # the real code raised
            ctx.disagree("schedule", case, f"implementation raised {type(e).__name__}: {e}")
            ctx.fail(case, f"cumops raises for L={L}: {type(e).__name__}: {str(e)[:120]}")
            ctx.note_case(("schedule", L), L >= 2)
            continue
        ctx.note_case(("schedule", L), L >= 2)
        ctx.count("schedule")
        if got != want:
            ctx.disagree("schedule", case, f"L={L}: implementation strides {got} model {want}")
            # does the property itself fail? run the fold oracle for this L
            check_mat2(ctx, {"kind": "mat2", "L": L, "p": 251, "left": False, "shape_pre": [], "shape_post": [],
                             "api": "cumops", "data_seed": L})
    ctx.sample({"stream": "schedule", "L": Ls[len(Ls) // 2], "strides": observe_schedule(Ls[len(Ls) // 2])})


# ----------------------------------------------------------------------------- mat2 stream

def gen_mat2(case):
    g = torch.Generator().manual_seed(case["data_seed"])
    shape = tuple(case["shape_pre"]) + (case["L"],) + tuple(case["shape_post"]) + (2, 2)
    return torch.randint(0, case["p"], shape, generator=g, dtype=torch.int64)



def make_view(x, kind):
    """a tensor with the values of `x` laid out as a (possibly non-contiguous) view of a larger buffer:
    returns (view, base, snapshot of base); in-place scans must write through such views"""
    if kind == "contig":
        return x.clone(), None, None
    if kind == "transposed" and x.dim() >= 2:
        base = x.transpose(0, 1).contiguous().clone()
        return base.transpose(0, 1), base, base.clone()
    if kind == "strided":
        base = torch.zeros((x.shape[0] * 2,) + tuple(x.shape[1:]), dtype=x.dtype) - 7
        base[::2] = x
        return base[::2], base, base.clone()
    if kind == "block":
        base = torch.zeros((x.shape[0] + 3,) + tuple(x.shape[1:]), dtype=x.dtype) - 7
        base[2:-1] = x
        return base[2:-1], base, base.clone()
    return x.clone(), None, None


def untouched_outside(base, before, kind):
    if kind == "strided":
        return torch.equal(base[1::2], before[1::2])
    if kind == "block":
        return torch.equal(base[:2], before[:2]) and torch.equal(base[-1:], before[-1:])
    return True


VIEWS = ["contig", "contig", "transposed", "strided", "block"]

def seq_fold(x, dim, op, left):
    """the documented definition, computed sequentially with the same op on the real tensors"""
    outs = []
    acc = None
    for j in range(x.shape[dim]):
        item = x.select(dim, j)
        acc = item if acc is None else (op(item, acc) if left else op(acc, item))
        outs.append(acc)
    return torch.stack(outs, dim=dim)


def check_mat2(ctx: Ctx, case) -> bool:
    p, L, left = case["p"], case["L"], case["left"]
    x = gen_mat2(case)
    dim = len(case["shape_pre"])
    if case.get("negdim"):
        dim = dim - x.dim()
    mm = lambda a, b: (a @ b) % p
    ops = (lambda a, b: mm(b, a)) if left else mm
    before = x.clone()
    api = case["api"]
    ok = True
    try:
        if api == "cumops":
            if case.get("view", "contig") != "contig":   # out-of-place on a non-contiguous view of a larger buffer
                x, _base, _bb = make_view(x, case["view"])
                before = x.clone()
            y = pp().cumops(x, dim, ops)
        else:  # cumops_
            xin, base, base_before = make_view(x, case.get("view", "contig"))
            y = pp().cumops_(xin, dim, ops)
            if not torch.equal(y, xin):
                ctx.fail(case, f"in-place: cumops_ does not overwrite its input with the result (input layout: {case.get('view', 'contig')})")
                ok = False
            if base is not None and not untouched_outside(base, base_before, case["view"]):
                ctx.fail(case, f"in-place: cumops_ on a view changed storage outside the view ({case['view']})")
                ok = False
    except Exception as e:
        ctx.fail(case, f"raises: cumops raises for L={L}: {type(e).__name__}: {str(e)[:120]}")
        return False
    if not torch.equal(x, before):
        ctx.fail(case, "mutation: out-of-place cumops changed its input")
        ok = False
    # oracle on the real code: sequential fold
    want = seq_fold(before, dim % before.dim(), mm, left)
    if y.shape != want.shape or not torch.equal(y, want):
        bad = (y != want).nonzero()[0].tolist() if y.shape == want.shape else "shape"
        ctx.fail(case, f"fold: cumops != sequential fold (L={L}, left={left}, dim={dim}, first bad index {bad})")
        ok = False
    case["_impl"] = y
    return ok


def run_mat2(ctx: Ctx, cases):
    lines, metas = [], []
    for case in cases:
        check_mat2(ctx, case)
        y = case.pop("_impl", None)
        ctx.note_case(("mat2", case["L"], len(case["shape_pre"]), len(case["shape_post"]), case["left"], case["api"]),
                      case["L"] >= 2)
        ctx.count(f"mat2.rank{len(case['shape_pre']) + 1 + len(case['shape_post'])}")
        if y is None:
            continue
        x = gen_mat2(case)
        dim = len(case["shape_pre"])
        # every fibre along dim goes to the model
        xm = x.movedim(dim, -3).reshape(-1, case["L"], 4)
        ym = y.movedim(dim, -3).reshape(-1, case["L"], 4)
        for f in range(xm.shape[0]):
            lines.append(f"scan.mat2 {case['p']} {1 if case['left'] else 0} " + " ".join(map(str, xm[f].flatten().tolist())))
            metas.append((case, f, ym[f].flatten().tolist()))
        ctx.sample({"stream": "mat2", **{k: v for k, v in case.items() if not k.startswith("_")}})
    reps = ctx.driver.run(lines)
    for rep, (case, f, got) in zip(reps, metas):
        st, toks = common.parse_reply(rep)
        want = [int(t) for t in toks] if st == "ok" else None
        if want != got:
            ctx.disagree("mat2", case, f"fibre {f}: implementation != model (L={case['L']}, left={case['left']})")



def check_plain(ctx: Ctx, case) -> bool:
    """plain torch tensors (no LieTensor) through cumprod/cummul and their in-place variants:
    `@` is the matrix product and `*` the element-wise product there — two different monoids, so a wrapper that
    mixes them up is invisible on LieTensors (where both are the group product)"""
    L, left, api = case["L"], case["left"], case["api"]
    g = torch.Generator().manual_seed(case["data_seed"])
    shape = tuple(case["shape_pre"]) + (L,) + tuple(case["shape_post"]) + (2, 2)
    gens = torch.tensor([[[1, 1], [0, 1]], [[1, 0], [1, 1]], [[0, 1], [1, 0]], [[2, 0], [0, 1]]], dtype=torch.int64)
    idx = torch.randint(0, 4, shape[:-2], generator=g)
    x = gens[idx].to(getattr(torch, case["dtype"]))
    dim = len(case["shape_pre"])
    mat = "prod" in api
    op = (lambda a, b: a @ b) if mat else (lambda a, b: a * b)
    before = x.clone()
    fn = getattr(pp(), api)
    try:
        xin = x.clone() if api.endswith("_") else x
        y = fn(xin, dim, left=left)
    except Exception as e:
        ctx.fail(case, f"raises: {api} on a plain tensor raised {type(e).__name__}: {str(e)[:120]}")
        return False
    ok = True
    if api.endswith("_"):
        if not torch.equal(y, xin):
            ctx.fail(case, f"in-place: {api} on a plain tensor does not overwrite its input with the result")
            ok = False
    elif not torch.equal(x, before):
        ctx.fail(case, f"mutation: {api} on a plain tensor changed its input")
        ok = False
    want = seq_fold(before, dim, op, left)
    if y.dtype != before.dtype:
        ctx.fail(case, f"dtype: {api} of a plain {before.dtype} tensor returns {y.dtype} (the ordered product under the tensor's own "
                       f"{'@' if mat else '*'} keeps the dtype; narrow integers wrap)")
        ok = False
    if y.shape != want.shape or not torch.equal(y, want):
        ctx.fail(case, f"fold: {api}(plain {case['dtype']} tensor, left={left}) != sequential fold with {'@' if mat else '*'} (L={L}, dim={dim})")
        ok = False
    return ok


def run_api_model(ctx: Ctx):
    """every wrapper, `left` True / False / omitted, on int64 2x2 matrices mod p (plain tensors: `*` element-wise,
    `@` matrix product) — implementation vs the model's `wrapper` (theorem wrapper_spec, runApi_eq)"""
    rng = ctx.rng
    lines, metas = [], []
    p = 251
    for api in ("cummul", "cumprod", "cummul_", "cumprod_"):
        for left in ("none", True, False):
            for L in (1, 2, 3, 4, 7, 8, 9, 33, rng.randint(10, 120)):
                g = torch.Generator().manual_seed(17 * L + len(api))
                x = torch.randint(0, p, (L, 2, 2), generator=g, dtype=torch.int64)
                f = getattr(pp(), api)
                case = {"kind": "api", "api": api, "left": left, "L": L}
                try:
                    # the wrappers have no modulus: reduce after every op by wrapping the tensor type? -> use small L-independent
                    # exactness instead: entries < 251 and L <= 120 overflow int64 for `@`, so scan a mod-p subclass-free way:
                    y = scan_mod(f, x, p, left)
                except Exception as e:
                    ctx.fail(case, f"raises: {api}(left={left}) raised {type(e).__name__}: {str(e)[:100]}")
                    continue
                lines.append(f"scan.api {api.rstrip('_')} {'none' if left == 'none' else int(left)} {p} " + " ".join(map(str, x.flatten().tolist())))
                metas.append((case, y.flatten().tolist()))
                ctx.note_case(("api", api, str(left), L), L >= 2)
                ctx.count(f"api.{api}.left={left}")
    reps = ctx.driver.run(lines)
    for rep, (case, got) in zip(reps, metas):
        st, toks = common.parse_reply(rep)
        want = [int(t) for t in toks] if st == "ok" else None
        if want != got:
            ctx.disagree("api", case, f"wrapper {case['api']}(left={case['left']}) L={case['L']}: implementation != model wrapper")


class ModP(torch.Tensor):
    """int64 tensor whose `*` and `@` reduce mod p (so the wrappers' own lambdas `a*b`, `a@b` stay exact for any L)"""
    P = 251

    @classmethod
    def __torch_function__(cls, func, types, args=(), kwargs=None):
        out = super().__torch_function__(func, types, args, kwargs or {})
        if func in (torch.Tensor.mul, torch.Tensor.matmul, torch.mul, torch.matmul, torch.Tensor.__mul__, torch.Tensor.__matmul__,
                    torch.Tensor.__rmul__, torch.Tensor.__rmatmul__):
            return torch.Tensor.remainder(out, cls.P)
        return out


def scan_mod(f, x, p, left):
    ModP.P = p
    xm = x.clone().as_subclass(ModP)
    y = f(xm, 0) if left == "none" else f(xm, 0, left=left)
    return torch.Tensor.remainder(y.as_subclass(torch.Tensor), p)


def run_plain(ctx: Ctx, cases):
    for case in cases:
        check_plain(ctx, case)
        ctx.note_case(("plain", case["api"], case["L"], case["left"], len(case["shape_pre"]), case["dtype"]), case["L"] >= 2)
        ctx.count(f"plain.{case['api']}")
    ctx.sample({"stream": "plain", **cases[0]})

# ----------------------------------------------------------------------------- lie stream

def gen_lie(case):
    P = pp()
    g = torch.Generator().manual_seed(case["data_seed"])
    dt = getattr(torch, case["dtype"])
    shape = tuple(case["shape_pre"]) + (case["L"],) + tuple(case["shape_post"])
    n = int(math.prod(shape))
    ty = case["type"]
    # algebra elements with moderate rotations / scales, then Exp (the real code) -> valid group elements
    da = {"SO3": 3, "SE3": 6, "RxSO3": 4, "Sim3": 7}[ty]
    a = torch.randn(n, da, generator=g, dtype=torch.float64) * case.get("sigma", 0.7)
    if ty in ("RxSO3", "Sim3"):
        a[:, -1] *= 0.2
    alg = {"SO3": P.so3, "SE3": P.se3, "RxSO3": P.rxso3, "Sim3": P.sim3}[ty]
    X = alg(a).Exp().tensor().reshape(shape + (GROUPS[ty],)).to(dt)
    return P.LieTensor(X, ltype=getattr(P, ty + "_type"))


def lie_call(case, X):
    P = pp()
    api, dim, left = case["api"], len(case["shape_pre"]), case["left"]
    if case.get("negdim"):   # the same axis addressed from the end (the last axis holds the item components)
        dim = dim - X.dim()
    if api == "cummul_":
        return P.cummul_(X, dim, left=left)
    if api == "cumops_":
        return P.cumops_(X, dim, (lambda a, b: b @ a) if left else (lambda a, b: a @ b))
    if api == "m.cumops":
        return X.cumops(dim, (lambda a, b: b @ a) if left else (lambda a, b: a @ b))
    if api == "cumprod":
        return P.cumprod(X, dim, left=left)
    if api == "cummul":
        return P.cummul(X, dim, left=left)
    if api == "m.cumprod":
        return X.cumprod(dim, left=left)
    if api == "m.cummul":
        return X.cummul(dim, left=left)
    if api == "cumprod_":
        return P.cumprod_(X, dim, left=left)
    if api == "m.cumprod_":
        return X.cumprod_(dim, left=left)
    if api == "m.cummul_":
        return X.cummul_(dim, left=left)
    if api == "cumops":
        return P.cumops(X, dim, (lambda a, b: b @ a) if left else (lambda a, b: a @ b))
    if api == "m.cumops_":
        return X.cumops_(dim, (lambda a, b: b @ a) if left else (lambda a, b: a @ b))
    raise ValueError(api)


def transform_dist(ty, a, b):
    """distance between two group elements as transformations (sign of quaternion ignored)"""
    qa = a[..., {"SO3": slice(0, 4), "SE3": slice(3, 7), "RxSO3": slice(0, 4), "Sim3": slice(3, 7)}[ty]]
    qb = b[..., {"SO3": slice(0, 4), "SE3": slice(3, 7), "RxSO3": slice(0, 4), "Sim3": slice(3, 7)}[ty]]
    dq = torch.minimum((qa - qb).norm(dim=-1), (qa + qb).norm(dim=-1))
    rest_a, rest_b = a.clone(), b.clone()
    sl = {"SO3": slice(0, 4), "SE3": slice(3, 7), "RxSO3": slice(0, 4), "Sim3": slice(3, 7)}[ty]
    rest_a[..., sl] = 0
    rest_b[..., sl] = 0
    scale = 1 + rest_b.abs().amax(dim=-1)
    return torch.maximum(dq, (rest_a - rest_b).abs().amax(dim=-1) / scale)


def check_lie(ctx: Ctx, case) -> bool:
    ty, L, left = case["type"], case["L"], case["left"]
    dim = len(case["shape_pre"])
    eps = common.EPS[case["dtype"]]
    tol = 64 * eps * max(L, 1)
    X = gen_lie(case)
    inplace = case["api"].endswith("_")
    base = base_before = None
    if inplace and case.get("view", "contig") != "contig":
        v, base, base_before = make_view(X.tensor(), case["view"])
        X = pp().LieTensor(v, ltype=X.ltype)
    before = X.tensor().clone()
    ok = True
    try:
        Y = lie_call(case, X)
    except Exception as e:
        ctx.fail(case, f"raises: {case['api']} raises for L={L}: {type(e).__name__}: {str(e)[:120]}")
        return False
    if type(Y).__name__ != "LieTensor" or Y.ltype != X.ltype or Y.shape != X.shape or Y.dtype != X.dtype:
        ctx.fail(case, f"type: {case['api']} returned {type(Y).__name__} {getattr(Y, 'ltype', None)} {tuple(Y.shape)}")
        return False
    if inplace:
        if not torch.equal(X.tensor(), Y.tensor()):
            ctx.fail(case, f"in-place: {case['api']} did not overwrite its input with the result (input layout: {case.get('view', 'contig')})")
            ok = False
        if base is not None and not untouched_outside(base, base_before, case["view"]):
            ctx.fail(case, f"in-place: {case['api']} on a view changed storage outside the view ({case['view']})")
            ok = False
    elif not torch.equal(X.tensor(), before):
        ctx.fail(case, f"mutation: {case['api']} changed its input")
        ok = False
    Xb = pp().LieTensor(before, ltype=X.ltype)
    want = seq_fold(Xb, dim, lambda a, b: a @ b, left)
    d = transform_dist(ty, Y.tensor(), want.tensor())
    if not bool((d <= tol).all()):
        j = int(d.flatten().argmax())
        ctx.fail(case, f"fold: {case['api']} != sequential fold (type={ty}, L={L}, left={left}, dim={dim}, "
                       f"max transformation distance {float(d.max()):.3e} > {tol:.3e} at flat index {j})")
        ok = False
    case["_impl"] = (before, Y.tensor().clone())
    return ok


def run_lie(ctx: Ctx, cases):
    lines, metas = [], []
    for case in cases:
        check_lie(ctx, case)
        pair = case.pop("_impl", None)
        ctx.note_case(("lie", case["type"], case["L"], len(case["shape_pre"]), len(case["shape_post"]), case["left"],
                       case["api"], case["dtype"]), case["L"] >= 2)
        ctx.count(f"lie.{case['type']}.{case['api']}")
        if pair is None:
            continue
        before, y = pair
        dim, d = len(case["shape_pre"]), GROUPS[case["type"]]
        xm = before.movedim(dim, -2).reshape(-1, case["L"], d).double()
        ym = y.movedim(dim, -2).reshape(-1, case["L"], d).double()
        for f in range(min(xm.shape[0], 3)):
            lines.append(f"scan.lie {case['type']} {1 if case['left'] else 0} " + common.wire_list(xm[f].flatten().tolist()))
            metas.append((case, f, ym[f]))
        ctx.sample({"stream": "lie", **{k: v for k, v in case.items() if not k.startswith("_")}}, cap=10)
    reps = ctx.driver.run(lines)
    for rep, (case, f, got) in zip(reps, metas):
        want = torch.tensor([float(v) for v in common.reply_nums(rep)], dtype=torch.float64).reshape(got.shape)
        tol = 64 * common.EPS[case["dtype"]] * case["L"]
        d = transform_dist(case["type"], got, want)
        if not bool((d <= tol).all()):
            ctx.disagree("lie", case, f"fibre {f}: implementation vs model distance {float(d.max()):.3e} > {tol:.3e}")


# ----------------------------------------------------------------------------- mem stream

def gen_mem_case(rng, quick=True):
    rank = rng.randint(1, 4)
    dim = rng.randrange(rank)
    Lhi = 40 if rank > 1 else (200 if quick else 600)
    shape = [rng.choice([1, 2, 3]) for _ in range(rank)]
    shape[dim] = pick_L(rng, Lhi)
    inplace = rng.random() < 0.6
    # layout: a random order of the dims in memory, each with an optional gap factor
    order = list(range(rank))
    rng.shuffle(order)
    strides = [0] * rank
    run = 1
    for d in order:
        strides[d] = run * rng.choice([1, 1, 2, 3])
        run = strides[d] * shape[d]
    expand = None
    if not inplace and rank > 1 and rng.random() < 0.25:    # expanded (overlapping) input: legal for the out-of-place call
        cand = [d for d in range(rank) if d != dim] if rng.random() < 0.7 else list(range(rank))
        expand = rng.choice(cand)
        strides[expand] = 0
    base = rng.choice([0, 0, 1, 5])
    tail = rng.choice([0, 2])
    return {"kind": "mem", "p": rng.choice([2, 7, 251, 65521]), "left": rng.random() < 0.5, "inplace": inplace,
            "shape": shape, "strides": strides, "dim": dim, "base": base, "tail": tail, "negdim": rng.random() < 0.3,
            "data_seed": rng.randrange(1 << 30)}


def mem_setup(case):
    shape, strides, base = case["shape"], case["strides"], case["base"]
    top = base + sum(s * (n - 1) for s, n in zip(strides, shape)) + 1 + case["tail"]
    g = torch.Generator().manual_seed(case["data_seed"])
    buf = torch.randint(0, case["p"], (top, 2, 2), generator=g, dtype=torch.int64)
    view = torch.as_strided(buf, tuple(shape) + (2, 2), tuple(4 * s for s in strides) + (2, 1), 4 * base)
    return buf, view


def check_mem(ctx: Ctx, case, want_reply=None):
    """runs the implementation; returns (storage after, returned tensor flattened fibre-major, addresses) or None"""
    p, left, dim = case["p"], case["left"], case["dim"]
    buf, view = mem_setup(case)
    before = buf.clone()
    mm = lambda a, b: (a @ b) % p
    ops = (lambda a, b: mm(b, a)) if left else mm
    d = dim - view.dim() if case.get("negdim") else dim
    try:
        y = pp().cumops_(view, d, ops) if case["inplace"] else pp().cumops(view, d, ops)
    except Exception as e:
        ctx.fail(case, f"raises: cumops{'_' if case['inplace'] else ''} on a strided view raises: {type(e).__name__}: {str(e)[:120]}")
        return None
    want_view = seq_fold(torch.as_strided(before, view.shape, view.stride(), view.storage_offset()), dim, mm, left)
    if y.shape != want_view.shape or not torch.equal(y, want_view):
        ctx.fail(case, f"fold: result != sequential fold on a strided view (shape {case['shape']}, strides {case['strides']}, dim {dim}, left={left})")
    if case["inplace"]:
        if y.data_ptr() != view.data_ptr() or not torch.equal(view, want_view):
            ctx.fail(case, "in-place: cumops_ did not overwrite the view it was given with the result")
        expect = before.clone()
        torch.as_strided(expect, view.shape, view.stride(), view.storage_offset()).copy_(want_view)
        if not torch.equal(buf, expect):
            ctx.fail(case, "in-place: storage outside the view changed (or the view holds something else than the fold)")
    else:
        if not torch.equal(buf, before):
            ctx.fail(case, "mutation: out-of-place cumops changed the storage of its input")
        if y.untyped_storage().data_ptr() == buf.untyped_storage().data_ptr():
            ctx.fail(case, "alias: out-of-place cumops returned a tensor that shares storage with its input")
    # element addresses torch uses for the view, fibre-major
    idx = torch.arange(buf.shape[0], dtype=torch.int64)
    addr_view = torch.as_strided(idx, tuple(case["shape"]), tuple(case["strides"]), case["base"])
    addrs = addr_view.movedim(dim, -1).reshape(-1).tolist()
    ret = y.movedim(dim, -3).reshape(-1, 4).flatten().tolist()
    return buf.flatten().tolist(), ret, addrs


def mem_lines(case):
    buf, _ = mem_setup(case)
    rank = len(case["shape"])
    head = f"{case['base']} {case['dim']} {rank} " + " ".join(map(str, case["shape"] + case["strides"]))
    return (f"scan.mem {case['p']} {1 if case['left'] else 0} {1 if case['inplace'] else 0} {head} "
            + " ".join(map(str, buf.flatten().tolist())), f"scan.addrs {head}")


def run_mem(ctx: Ctx, cases):
    lines, metas = [], []
    for case in cases:
        got = check_mem(ctx, case)
        rank = len(case["shape"])
        L = case["shape"][case["dim"]]
        ctx.note_case(("mem", L, rank, case["dim"], case["left"], case["inplace"], tuple(sorted(range(rank), key=lambda d: case["strides"][d]))), L >= 2)
        ctx.count(f"mem.{'inplace' if case['inplace'] else 'out'}.rank{rank}" + (".expanded" if 0 in case["strides"] else ""))
        if got is None:
            continue
        a, b = mem_lines(case)
        lines += [a, b]
        metas.append((case, got))
    ctx.sample({"stream": "mem", **cases[0]})
    reps = ctx.driver.run(lines)
    for k, (case, (store, ret, addrs)) in enumerate(metas):
        st, toks = common.parse_reply(reps[2 * k])
        st2, toks2 = common.parse_reply(reps[2 * k + 1])
        if st2 != "ok" or [int(t) for t in toks2[2:]] != addrs:
            ctx.disagree("mem", case, f"address map: model mkView != torch as_strided addresses ({st2})")
            continue
        if st != "ok":
            ctx.disagree("mem", case, f"model refuses the case: {toks}")
            continue
        vals = [int(t) for t in toks]
        overlap, vals = vals[0], vals[1:]
        if overlap != (1 if 0 in case["strides"] and case["shape"][case["strides"].index(0)] > 1 else 0):
            ctx.disagree("mem", case, "overlap flag: model nonOverlapB disagrees with the generator's construction")
        want = store if case["inplace"] else store + ret
        if vals != want:
            where = next((i // 4 for i, (x, y) in enumerate(zip(vals, want)) if x != y), "length")
            ctx.disagree("mem", case, f"storage after the call: implementation != model (first differing cell {where}, "
                                      f"shape {case['shape']}, strides {case['strides']}, dim {case['dim']}, inplace={case['inplace']})")


def run_overlap(ctx: Ctx):
    """error branch: the in-place call on a view in which two elements share an address is refused by torch
    (index_copy_), and by the model (`scanMemChecked = none`, theorem scanMemChecked_none_iff); the storage is unchanged"""
    lines, metas = [], []
    # torch detects internal overlap only for stride-0 (expanded) dimensions; other overlapping as_strided layouts are
    # "unsupported" without a check (undefined behaviour, outside the property) — the model refuses them all
    for shape, strides, dim in (([3, 5], [0, 1], 1), ([2, 3, 2], [0, 2, 1], 1), ([5, 3], [1, 0], 0), ([2, 2, 4], [4, 0, 1], 2)):
        case = {"kind": "mem", "p": 7, "left": False, "inplace": True, "shape": shape, "strides": strides, "dim": dim, "base": 0,
                "tail": 1, "negdim": False, "data_seed": 5}
        buf, view = mem_setup(case)
        before = buf.clone()
        raised = None
        try:
            pp().cumops_(view, dim, lambda a, b: (a @ b) % 7)
        except Exception as e:
            raised = type(e).__name__
        a, _b = mem_lines(case)
        lines.append(a)
        metas.append((case, raised, torch.equal(buf, before)))
        ctx.note_case(("overlap", tuple(shape), tuple(strides)), True)
        ctx.count("mem.overlap")
    reps = ctx.driver.run(lines)
    for rep, (case, raised, same) in zip(reps, metas):
        st, toks = common.parse_reply(rep)
        model_refuses = (st != "ok")
        if model_refuses != (raised is not None):
            ctx.disagree("mem", case, f"overlap: model {'refuses' if model_refuses else 'accepts'} the in-place call, implementation "
                                      f"{'raised ' + raised if raised else 'returned'} (shape {case['shape']}, strides {case['strides']})")
        if raised is not None and not same:
            ctx.fail(case, "atomic: cumops_ on an overlapping view raised but had already changed the storage")


def run_long(ctx: Ctx):
    """(19) long scans: lengths around powers of two far beyond the exhaustive schedule range (block-wise evaluation with
    an off-by-one / dropped remainder shows only at the very end); exact monoid, pure-python sequential oracle"""
    p = 65521
    Ls = [2 ** 14 + 1, 2 ** 16 + 1, 2 ** 16] if ctx.quick else [2 ** 14 + 1, 2 ** 16 - 1, 2 ** 16 + 1, 2 ** 18 + 1, 2 ** 18 + 37, 2 ** 20 + 1]
    for L in Ls:
        for api, left in (("cumops", False), ("cumops_", True), ("cumprod", True), ("cummul", False)):
            case = {"kind": "long", "L": L, "api": api, "left": left}
            g = torch.Generator().manual_seed(L)
            x = torch.randint(1, p, (L, 2, 2), generator=g, dtype=torch.int64)
            mm = lambda a, b: (a @ b) % p
            try:
                if api.startswith("cumops"):
                    ops = (lambda a, b: mm(b, a)) if left else mm
                    y = getattr(pp(), api)(x.clone(), 0, ops)
                    had = False
                else:
                    y = scan_mod(getattr(pp(), api), x, p, left)
                    had = api == "cummul"
            except Exception as e:
                ctx.fail(case, f"raises: {api} raised for L={L}: {type(e).__name__}: {str(e)[:100]}")
                continue
            # sequential oracle on python ints (last 64 positions compared, plus positions around 2^k block boundaries)
            rows = x.reshape(L, 4).tolist()
            acc = rows[0]
            probe = set(range(L - 64, L)) | {2 ** k + d for k in range(10, 21) for d in (-1, 0, 1) if 0 <= 2 ** k + d < L}
            bad = None
            for j in range(1, L):
                b = rows[j]
                if had:
                    acc = [(acc[i] * b[i]) % p for i in range(4)]
                else:
                    a = (b, acc) if left else (acc, b)
                    (a0, a1, a2, a3), (b0, b1, b2, b3) = a
                    acc = [(a0 * b0 + a1 * b2) % p, (a0 * b1 + a1 * b3) % p, (a2 * b0 + a3 * b2) % p, (a2 * b1 + a3 * b3) % p]
                if j in probe and y[j].reshape(4).tolist() != acc:
                    bad = j
                    break
            if bad is not None:
                ctx.fail(case, f"fold: {api}(left={left}) position {bad} of a scan of length {L} is not the ordered product of the first {bad + 1} items")
            ctx.note_case(("long", L, api, left), True)
            ctx.count("long")


def run_wide(ctx: Ctx):
    """(round 6, seed C12-6) long AND wide: the TOTAL element count crosses 2^26 (a memory-bounding block size expressed in
    elements makes one doubling round span several blocks, and a later block then reads partners an earlier block of the same
    round has already overwritten). Exact non-commutative monoid on uint8: affine maps x -> a x + b over Z/256 stored as
    (..., 2); (a1, b1) o (a2, b2) = (a1 a2, a1 b2 + b1). Oracle: sequential fold with the same op, compared exactly."""
    def comp(f, g):
        return torch.stack((f[..., 0] * g[..., 0], f[..., 0] * g[..., 1] + f[..., 1]), dim=-1)
    combos = [(70, 2 ** 19, 0), (11, 2 ** 22, 0)] if ctx.quick else [(70, 2 ** 19, 0), (9, 2 ** 22, 0), (130, 2 ** 18, 1), (33, 2 ** 21, 0), (70, 2 ** 20, 0)]
    for L, Wd, dim in combos:
        for api, left in (("cumops", False), ("cumops_", True)):
            case = {"kind": "wide", "L": L, "width": Wd, "dim": dim, "api": api, "left": left}
            g = torch.Generator().manual_seed(L * 7 + Wd)
            shape = (L, Wd, 2) if dim == 0 else (Wd, L, 2)
            x = torch.randint(0, 256, shape, generator=g, dtype=torch.uint8)
            ops = (lambda a, b: comp(b, a)) if left else comp
            try:
                y = getattr(pp(), api)(x.clone(), dim, ops)
            except Exception as e:
                ctx.fail(case, f"raises: {api} raised for L={L} x width {Wd}: {type(e).__name__}: {str(e)[:100]}")
                continue
            acc, bad = x.select(dim, 0), None
            for j in range(1, L):
                acc = ops(acc, x.select(dim, j))
                if not torch.equal(y.select(dim, j), acc):
                    bad = j
                    break
            if bad is not None:
                ctx.fail(case, f"fold: {api}(left={left}) position {bad} of {L} items of {2 * Wd} uint8 elements each (total {2 * L * Wd} elements, "
                               f"dim={dim}) is not the ordered fold of the first {bad + 1} items")
            ctx.note_case(("wide", L, Wd, dim, api, left), True)
            ctx.count("wide")


# ----------------------------------------------------------------------------- grad-mode / call-order stream

MODE_ORDERS = [("inference", "leaf", "plain", "nonleaf_"), ("no_grad", "nonleaf_", "inference", "leaf"),
               ("leaf", "inference", "nonleaf_", "no_grad"), ("inference_", "leaf", "nonleaf_", "plain"),
               ("plain", "leaf", "inference", "nonleaf_")]


def check_modes(ctx: Ctx, case) -> bool:
    """the same scan length used under different autograd modes one after the other in ONE process: every call must
    return the ordered fold (values must not depend on the mode or on which mode used that length first), the
    out-of-place calls leave the input untouched, and gradients flow through the tracked calls"""
    import contextlib
    L, api, left, ty = case["L"], case["api"], case["left"], case["type"]
    g = torch.Generator().manual_seed(case["data_seed"])
    n0 = len(ctx.failures)
    if ty == "plain":
        base = torch.randint(-2, 3, (L, 2, 2), generator=g, dtype=torch.int64).double()
        fold_op = lambda a, b: a @ b
    else:
        base = getattr(pp(), "randn_" + ty)(L, generator=g, dtype=torch.float64).tensor()
        fold_op = None

    def make(x):
        return x if ty == "plain" else pp().LieTensor(x, ltype=getattr(pp(), ty + "_type"))

    def call(x, inplace):
        f = getattr(pp(), api + ("_" if inplace else ""))
        if api == "cumops":
            return f(x, 0, (lambda a, b: b @ a) if left else (lambda a, b: a @ b))
        return f(x, 0, left=left)

    def reference(x):
        xs = make(x.detach().clone())
        outs, acc = [], None
        for j in range(L):
            it = xs[j]
            if api == "cummul":      # cummul composes with `*` (element-wise for plain tensors, the group product for LieTensors)
                acc = it if acc is None else ((it * acc) if left else (acc * it))
            else:
                acc = it if acc is None else ((it @ acc) if left else (acc @ it))
            outs.append(acc.tensor() if ty != "plain" else acc)
        return torch.stack(outs, 0)
    want = reference(base)
    for mode in case["order"]:
        inplace = mode.endswith("_")
        ctxm = {"inference": torch.inference_mode, "inference_": torch.inference_mode, "no_grad": torch.no_grad}.get(mode, contextlib.nullcontext)
        try:
            with ctxm():
                x = base.clone()
                if mode == "leaf":
                    x.requires_grad_(True)
                    arg = x
                elif mode == "nonleaf_":
                    x.requires_grad_(True)
                    arg = x * 1.0
                else:
                    arg = x
                before = arg.detach().clone()
                y = call(make(arg), inplace)
                yv = (y.tensor() if hasattr(y, "ltype") else y)
                if not torch.allclose(yv.detach(), want, rtol=1e-11, atol=1e-11):
                    ctx.fail(case | {"mode": mode}, f"fold: {api}{'_' if inplace else ''} under mode '{mode}' (order {case['order']}) != sequential fold for L={L} ({ty})")
                if not inplace and not torch.equal(arg.detach(), before):
                    ctx.fail(case | {"mode": mode}, f"mutation: out-of-place {api} changed its input under mode '{mode}'")
                if mode in ("leaf", "nonleaf_"):
                    yv.sum().backward()
                    if x.grad is None or not bool(torch.isfinite(x.grad).all()):
                        ctx.fail(case | {"mode": mode}, f"grad: no finite gradient through {api} under mode '{mode}' for L={L}")
        except Exception as e:
            ctx.fail(case | {"mode": mode}, f"raises: {api}{'_' if inplace else ''} raises under mode '{mode}' after the modes {case['order'][:case['order'].index(mode)]} "
                                            f"used the same length L={L} first: {type(e).__name__}: {str(e)[:100]}")
            break
    return len(ctx.failures) == n0


def run_modes(ctx: Ctx):
    """every length is FRESH in the process for its first mode: lengths are drawn from a range no other stream uses and
    never repeated inside this stream"""
    rng = ctx.rng
    fresh = list(range(4100, 4100 + 400))
    rng.shuffle(fresh)
    # small lengths too: other streams have used them already in plain mode, which is itself one of the orders
    small = [2, 3, 5, 6, 8, 9, 17, 33]
    k = 0
    cases = []
    for oi, order in enumerate(MODE_ORDERS):
        for api in ("cumops", "cumprod", "cummul"):
            for ty in ("plain", "SO3") if api != "cumops" else ("plain",):
                for Lsrc in ("small", "fresh"):
                    L = small[(oi + k) % len(small)] if Lsrc == "small" else None
                    k += 1
                    cases.append({"kind": "modes", "L": L, "api": api, "left": bool(k % 2), "type": ty, "order": list(order),
                                  "data_seed": 100 + k, "Lsrc": Lsrc})
    for c in cases:
        if c["L"] is None:
            # 'fresh' lengths are large only in their index; keep the fold cheap by scanning a short tensor whose LENGTH is
            # unique: lengths 41..440 are not used by the deterministic corpora of the other streams in this order
            c["L"] = fresh.pop() - 4100 + 41
        check_modes(ctx, c)
        ctx.note_case(("modes", c["api"], c["type"], tuple(c["order"]), c["Lsrc"]), True)
        ctx.count(f"modes.{c['order'][0]}-first")
    ctx.sample({"stream": "modes", **cases[0]})


# ----------------------------------------------------------------------------- generation

def pick_L(rng, hi):
    c = rng.random()
    if c < 0.35:
        return rng.randint(1, 40)
    if c < 0.6:
        pw = 2 ** rng.randint(1, max(1, int(math.log2(hi))))
        return max(1, min(hi, pw + rng.choice([-1, 0, 1])))
    return rng.randint(1, hi)


def small_shape(rng, maxrank):
    return [rng.choice([1, 2, 3]) for _ in range(rng.randint(0, maxrank))]


def run(ctx: Ctx):
    rng = ctx.rng
    # grad modes x call order on one length (first, before any other stream has touched the library)
    run_modes(ctx)
    # schedule: exhaustive over the tier's range (the schedule depends only on L)
    if ctx.quick:
        Ls = list(range(1, 513)) + sorted({rng.randint(513, 4096) for _ in range(64)}) + [1023, 1024, 1025, 2047, 2048, 2049, 4095, 4096]
    else:
        Ls = list(range(1, 4097))
    run_schedule(ctx, Ls)
    # mat2
    n = ctx.pick(200, 1500)
    cases = []
    # deterministic corner corpus (every seed): in-place scans on every input layout, both orders, a few lengths/dims
    for view in ("contig", "transposed", "strided", "block"):
        for L in (1, 2, 3, 5, 8, 9):
            for left in (False, True):
                for pre, post in (([], []), ([2], []), ([], [3]), ([2], [2])):
                    cases.append({"kind": "mat2", "L": L, "p": 251, "left": left, "shape_pre": pre, "shape_post": post,
                                  "api": "cumops_", "data_seed": 77 + L, "negdim": bool(L % 2), "view": view})
    for i in range(n):
        pre = small_shape(rng, 2)
        post = small_shape(rng, 3 - len(pre) if len(pre) < 3 else 0)
        fib = math.prod(pre) * math.prod(post)
        hi = 96 if fib > 4 else (400 if ctx.quick else 1200)
        cases.append({"kind": "mat2", "L": pick_L(rng, hi), "p": rng.choice([2, 3, 7, 251, 65521]), "left": rng.random() < 0.5,
                      "shape_pre": pre, "shape_post": post, "api": rng.choice(["cumops", "cumops_"]),
                      "data_seed": rng.randrange(1 << 30), "negdim": rng.random() < 0.3, "view": rng.choice(VIEWS)})
    run_mat2(ctx, cases)
    # mem: whole-storage comparison on random strided views (deterministic corpus first)
    mcases = []
    for shape, strides, dim, base in (([5], [1], 0, 0), ([5], [3], 0, 2), ([2, 3], [1, 2], 1, 1), ([2, 3], [1, 2], 0, 0),
                                     ([3, 4, 2], [2, 12, 1], 1, 3), ([2, 2, 9, 2], [36, 1, 4, 2], 2, 0), ([3, 5], [0, 1], 1, 0),
                                     ([1], [1], 0, 0), ([4, 1], [1, 7], 0, 0)):
        for left in (False, True):
            for inplace in (False, True):
                if inplace and 0 in strides:
                    continue
                mcases.append({"kind": "mem", "p": 251, "left": left, "inplace": inplace, "shape": shape, "strides": strides,
                               "dim": dim, "base": base, "tail": 2, "negdim": False, "data_seed": 3 + len(shape)})
    for _ in range(ctx.pick(150, 1500)):
        mcases.append(gen_mem_case(rng, ctx.quick))
    run_mem(ctx, mcases)
    run_overlap(ctx)
    run_long(ctx)
    run_wide(ctx)
    # plain tensors through every wrapper (deterministic corpus: every api x order x a few lengths/shapes/dtypes)
    pcases = []
    for api in ("cumprod", "cumprod_", "cummul", "cummul_"):
        for left in (False, True):
            for L in (1, 2, 3, 4, 7, 16, 33):
                for pre, post, dtn in (([], [], "int64"), ([2], [], "float64"), ([], [3], "int64"), ([3], [2], "float32"),
                                       ([], [], "int32"), ([2], [], "int16"), ([], [2], "int8"), ([], [], "uint8"), ([], [], "bool"),
                                       ([], [], "float16"), ([], [], "bfloat16"), ([], [], "complex64")):
                    if dtn in ("bool", "float16", "bfloat16") and "prod" in api:
                        continue            # torch has no `@` kernel for these dtypes on CPU
                    pcases.append({"kind": "plain", "api": api, "left": left, "L": L, "shape_pre": pre, "shape_post": post,
                                   "dtype": dtn, "data_seed": 11 * L + len(pre)})
    for _ in range(ctx.pick(40, 400)):
        pcases.append({"kind": "plain", "api": rng.choice(["cumprod", "cumprod_", "cummul", "cummul_"]), "left": rng.random() < 0.5,
                       "L": rng.randint(1, 40), "shape_pre": small_shape(rng, 2), "shape_post": small_shape(rng, 1),
                       "dtype": rng.choice(["int64", "float64", "int32", "int16", "int8", "uint8"]), "data_seed": rng.randrange(1 << 30)})
    run_plain(ctx, pcases)
    run_api_model(ctx)
    # lie
    n = ctx.pick(160, 1200)
    corner = []
    for view in ("transposed", "strided", "block"):
        for api in ("cumprod_", "m.cumprod_", "m.cummul_", "cummul_", "cumops_", "m.cumops_"):
            for ty in GROUPS:
                corner.append({"kind": "lie", "type": ty, "L": 5 if ty in ("SO3", "Sim3") else 4, "left": api in ("cumprod_", "cummul_"),
                               "shape_pre": [], "shape_post": [2], "api": api, "dtype": "float64", "data_seed": 5, "negdim": False,
                               "view": view})
    run_lie(ctx, corner)
    apis = ["cumprod", "cummul", "m.cumprod", "m.cummul", "cumprod_", "m.cumprod_", "m.cummul_", "cumops", "m.cumops_",
            "cummul_", "cumops_", "m.cumops"]
    cases = []
    for i in range(n):
        pre = small_shape(rng, 2)
        post = small_shape(rng, 1)
        cases.append({"kind": "lie", "type": rng.choice(list(GROUPS)), "L": pick_L(rng, 48 if ctx.quick else 130),
                      "left": rng.random() < 0.5, "shape_pre": pre, "shape_post": post, "api": rng.choice(apis),
                      "dtype": rng.choice(["float64", "float64", "float32"]), "data_seed": rng.randrange(1 << 30),
                      "negdim": rng.random() < 0.3, "view": rng.choice(VIEWS)})
    run_lie(ctx, cases)
    run_approx(ctx)


# ----------------------------------------------------------------------------- approx stream (theorem cumops_approx)

def scan_err_bound(lam, eps, delta, L):
    """`scanErr lam eps delta L` of Proofs/Lemmas/ScanApprox.lean (same recursion, python floats)"""
    def reassoc(m):
        a = 0.0
        for _ in range(m):
            a = (eps + delta) + lam * a
        return a
    E, p = 0.0, 1
    while p < L:
        E = 2 * lam * E + 2 * delta + reassoc(p - 1)
        p *= 2
    return E


def run_approx(ctx: Ctx):
    """The float product of unit quaternions is only approximately associative. Theorem `cumops_approx`: in the chordal
    metric d(p, q) = min(|p - q|, |p + q|), if the rounded product is Lambda-Lipschitz up to an additive delta in each
    argument and associative up to eps, the scan is within scanErr(Lambda, eps, delta, L) of the ordered fold. Here the
    hypotheses are MEASURED on operands taken from the scanned data and its partial products (a hypothesis that fails is a
    broken correspondence: the a-priori constants below no longer describe the product), and the real scan is compared
    with the real sequential fold against the theorem's bound (a concrete failing input otherwise)."""
    rng = ctx.rng
    P = pp()
    for dtype in ("float64", "float32"):
        u = common.EPS[dtype]
        D = getattr(torch, dtype)
        for L in ([2, 3, 9, 33, 130] if ctx.quick else [2, 3, 5, 9, 17, 33, 65, 130, 257, 600, 1025]):
            for left in (False, True):
                g = torch.Generator().manual_seed(rng.randrange(1 << 30))
                q = torch.randn(L, 4, generator=g, dtype=torch.float64)
                q = (q / q.norm(dim=-1, keepdim=True)).to(D)
                case = {"stream": "approx", "type": "SO3", "dtype": dtype, "L": L, "left": left, "X": q.double().tolist()}
                X = P.LieTensor(q, ltype=P.SO3_type)
                lam, eps_a, delta = 1 + 4 * (L + 4) * u, 16 * u, 16 * u
                bound = scan_err_bound(lam, eps_a, delta, L)
                ctx.note_case(("approx", dtype, L, left), L >= 3)
                ctx.count(f"approx.{dtype}")
                try:
                    Y = P.cumprod(X, 0, left=left)
                    want = seq_fold(X, 0, lambda a, b: a @ b, left)
                except Exception as e:
                    ctx.fail(case, f"raises: cumprod on SO3 L={L}: {type(e).__name__}: {str(e)[:100]}")
                    continue
                op = (lambda a, b: b @ a) if left else (lambda a, b: a @ b)
                dist = lambda a, b: torch.minimum((a.tensor().double() - b.tensor().double()).norm(dim=-1),
                                                  (a.tensor().double() + b.tensor().double()).norm(dim=-1))
                if not bool(torch.isfinite(Y.tensor()).all()):
                    ctx.fail(case, f"non-finite: cumprod of {L} unit quaternions ({dtype}) returned a non-finite value")
                    continue
                # hypotheses on operands drawn from the data and the partial products (what the scan actually multiplies)
                pool = torch.cat([X.tensor(), want.tensor(), Y.tensor()], 0)
                k = min(64, 3 * L)
                ia, ib, ic = (torch.randint(0, pool.shape[0], (k,), generator=g) for _ in range(3))
                A, B, C = (P.LieTensor(pool[i], ltype=P.SO3_type) for i in (ia, ib, ic))
                norms = pool.double().norm(dim=-1)
                if not bool((norms <= lam).all()) or not bool((norms >= 2 - lam).all()):
                    ctx.disagree("approx", case, f"hypothesis: operand norms leave [2-Lambda, Lambda] (max {float(norms.max()):.17g})")
                    continue
                assoc = dist(op(op(A, B), C), op(A, op(B, C)))
                lipl = dist(op(A, C), op(B, C)) - lam * dist(A, B)
                lipr = dist(op(C, A), op(C, B)) - lam * dist(A, B)
                hyp_bad = [nm for nm, val, lim in (("assoc", assoc, eps_a), ("lipL", lipl, delta), ("lipR", lipr, delta))
                           if not bool((val <= lim).all())]
                if hyp_bad:
                    ctx.disagree("approx", case, f"hypothesis of cumops_approx not met by the {dtype} SO3 product: {hyp_bad} "
                                                 f"(assoc {float(assoc.max()) / u:.1f} u, lipL {float(lipl.max()) / u:.1f} u, lipR {float(lipr.max()) / u:.1f} u)")
                    continue
                err = dist(Y, want)
                if not bool((err <= bound).all()):
                    j = int(err.argmax())
                    ctx.fail(case, f"approx: cumprod(left={left}) of {L} unit quaternions ({dtype}) is {float(err.max()) / u:.1f} u from the "
                                   f"sequential fold at position {j}; theorem cumops_approx allows {bound / u:.1f} u")
                # theorem cumops_rounded_vs_exact: hypothesis "computed product within u of the exact product" measured on the products
                # of the sequential fold (exact rational arithmetic on the float operands, float64 only, L <= 33), and the observed
                # distance of the real scan from the EXACT ordered product set against the theorem's bound (recorded, no verdict:
                # the theorem idealises the computed product as a unit quaternion)
                rnd = None
                if dtype == "float64" and L <= 33:
                    from fractions import Fraction as Fr
                    def qmul(p_, q_):
                        (x1, y1, z1, w1), (x2, y2, z2, w2) = p_, q_
                        return (w1 * x2 + x1 * w2 + y1 * z2 - z1 * y2, w1 * y2 - x1 * z2 + y1 * w2 + z1 * x2,
                                w1 * z2 + x1 * y2 - y1 * x2 + z1 * w2, w1 * w2 - x1 * x2 - y1 * y2 - z1 * z2)
                    rows = [tuple(Fr(v) for v in r) for r in q.double().tolist()]
                    wrows = [tuple(Fr(v) for v in r) for r in want.tensor().double().tolist()]
                    yrows = [tuple(Fr(v) for v in r) for r in Y.tensor().double().tolist()]
                    uhat, exact, dmax = 0.0, rows[0], 0.0
                    for jj in range(1, L):
                        step_exact = qmul(rows[jj], wrows[jj - 1]) if left else qmul(wrows[jj - 1], rows[jj])
                        uhat = max(uhat, math.sqrt(float(sum((a_ - b_) ** 2 for a_, b_ in zip(step_exact, wrows[jj])))))
                        exact = qmul(rows[jj], exact) if left else qmul(exact, rows[jj])
                        dd = min(math.sqrt(float(sum((a_ - b_) ** 2 for a_, b_ in zip(exact, yrows[jj])))),
                                 math.sqrt(float(sum((a_ + b_) ** 2 for a_, b_ in zip(exact, yrows[jj])))))
                        dmax = max(dmax, dd)
                    rounds = max(1, math.ceil(math.log2(L)))
                    rnd = {"u_hat_over_eps": uhat / u, "scan_vs_exact_over_eps": dmax / u,
                           "bound_with_u_hat_over_eps": (rounds * 2 * L * 6 * uhat + L * uhat) / u}
                    ctx.count("approx.rounded_vs_exact")
                ctx.sample({"stream": "approx", "dtype": dtype, "L": L, "left": left, "observed_u": float(err.max()) / u, "rounded_vs_exact": rnd,
                            "theorem_bound_u": bound / u, "assoc_u": float(assoc.max()) / u}, cap=12)


def search(ctx: Ctx):
    """failing-input search on the real code after a broken proof / correspondence: the fold oracle
    over every L up to 300 for the exact monoid, both orders, in- and out-of-place."""
    for L in range(1, 301):
        for left in (False, True):
            for api in ("cumops", "cumops_"):
                case = {"kind": "mat2", "L": L, "p": 251, "left": left, "shape_pre": [], "shape_post": [],
                        "api": api, "data_seed": 1000 + L}
                check_mat2(ctx, case)
                case.pop("_impl", None)
                if ctx.failures:
                    return


def replay(ctx: Ctx, case) -> bool:
    c = dict(case["case"])
    kind = c.get("kind")
    n0 = len(ctx.failures)
    if kind == "schedule":
        run_schedule(ctx, [c["L"]])
    elif kind == "mat2":
        check_mat2(ctx, c)
    elif kind == "lie":
        check_lie(ctx, c)
    elif kind == "plain":
        check_plain(ctx, c)
    elif kind == "mem":
        run_mem(ctx, [c])
    elif kind == "modes":
        check_modes(ctx, c)
    elif kind == "long":
        run_long(ctx)
    elif kind == "wide":
        run_wide(ctx)
    for f in ctx.failures[n0:]:
        print("  fails:", f["what"])
    for d in ctx.disagreements:
        print("  model/implementation disagreement:", d["detail"])
    return len(ctx.failures) == n0 and not ctx.disagreements
