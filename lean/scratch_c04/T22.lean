import Proofs.Lemmas.Autograd
import Proofs.Lemmas.So3Exp
import Mathlib.Analysis.SpecialFunctions.Trigonometric.Basic
set_option maxRecDepth 10000
set_option linter.unusedSimpArgs false
namespace PP.AD
open PP

/-- `so3_Jl(x) · so3_Jl_inv(x) = 1` on the closed-form branch (needs `sin(θ/2) ≠ 0`, i.e. `θ` not a multiple of `2π`) -/
theorem so3Jl_mul_so3JlInv (eps : ℝ) (x : Vec3 ℝ) (h : eps < x.norm) (h0 : 0 ≤ eps) (hs : Real.sin (1/2 * x.norm) ≠ 0) :
    (so3Jl eps x).mul (so3JlInv eps x) = Mat3.one := by
  have hpos : 0 < x.norm := lt_of_le_of_lt h0 h
  have hne : x.norm ≠ 0 := ne_of_gt hpos
  set θ := x.norm with hθ
  have hθ2 : θ * θ = x.x * x.x + x.y * x.y + x.z * x.z := Vec3.norm_sq x
  have hsc := Real.sin_sq_add_cos_sq (1/2 * θ)
  have hsin : Real.sin θ = 2 * Real.sin (1/2 * θ) * Real.cos (1/2 * θ) := by
    have := Real.sin_two_mul (1/2 * θ); rwa [show 2 * (1/2 * θ) = θ by ring] at this
  have hcos : Real.cos θ = 1 - 2 * Real.sin (1/2 * θ) ^ 2 := by
    have := Real.cos_two_mul (1/2 * θ); rw [show 2 * (1/2 * θ) = θ by ring] at this
    rw [this]; linarith [hsc]
  unfold so3Jl so3JlInv so3JlCoef so3JlInvCoef polyK
  simp only [← hθ, lt_real, h, decide_true, if_true, sin_real, cos_real]
  ext <;> lie_unfold <;> rw [hsin, hcos] <;> field_simp <;>
    (have hθ2' : θ ^ 2 = x.x ^ 2 + x.y ^ 2 + x.z ^ 2 := by rw [pow_two, hθ2]; ring
     have hsc' : Real.sin (θ / 2) ^ 2 + Real.cos (θ / 2) ^ 2 = 1 := Real.sin_sq_add_cos_sq (θ / 2)
     grind)
end PP.AD
