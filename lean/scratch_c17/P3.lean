import Proofs.Props.C17
namespace PP.C17
open PP Vec3 Quat Mat3 Align

/-! ## ICP -/

/-- contract of `knn(…, k=1)` (= `topk(k=1, largest=False)` over Euclidean distances) on a target cloud: the
returned index designates a target point that is at least as close as every other target point -/
def NNOk (nn : Cloud ℝ → Vec3 ℝ → Nat) (tgt : Cloud ℝ) : Prop :=
  ∀ p : Vec3 ℝ, tgt.getD (nn tgt p) Vec3.zero ∈ tgt ∧
    ∀ q ∈ tgt, (p.sub (tgt.getD (nn tgt p) Vec3.zero)).normSq ≤ (p.sub q).normSq

/-- contract of the aligner used inside ICP: a valid `SE3` element that is optimal among rigid transforms -/
structure AlignOk (align : Pairs ℝ → SE3 ℝ) : Prop where
  unit : ∀ ps, (align ps).q.normSq = 1
  opt : ∀ ps (X' : SE3 ℝ), X'.q.normSq = 1 → cost (SE3Act (align ps)) ps ≤ cost (SE3Act X') ps

/-- `svdtf` satisfies the aligner contract (SVD contract at every matrix it is given) -/
theorem svdtf_alignOk (svd : Mat3 ℝ → SVD3 ℝ) (detK : Mat3 ℝ → ℝ) (hdet : ∀ M, detK M = M.det) (atol : ℝ)
    (ha : |atol| < 1) (hsvd : ∀ M, SVDOk M (svd M)) : AlignOk (svdtf svd detK atol) :=
  ⟨fun ps => (svdtf_proper svd detK hdet atol ha ps (hsvd _)).1,
   fun ps X' hX' => svdtf_optimal svd detK hdet atol ha ps (hsvd _) X' hX'⟩

theorem SE3Act_one (p : Vec3 ℝ) : SE3Act (SE3one : SE3 ℝ) p = p := by
  simp only [SE3Act, SE3one, Quat.one_act]; apply Vec3.ext' <;> simp [Vec3.add, Vec3.zero]

theorem SE3Act_mul (X Y : SE3 ℝ) (hX : X.q.normSq = 1) (hY : Y.q.normSq = 1) (p : Vec3 ℝ) :
    SE3Act (SE3Mul X Y) p = SE3Act X (SE3Act Y p) := by
  simp only [SE3Act, SE3Mul, Quat.act_mul X.q Y.q hX hY, Quat.act_add]
  apply Vec3.ext' <;> simp only [Vec3.add] <;> ring

theorem sscd_eq_cost (nn : Cloud ℝ → Vec3 ℝ → Nat) (tgt cur : Cloud ℝ) :
    sscd nn tgt cur = cost (SE3Act SE3one) (matchNN nn tgt cur) := by
  simp only [sscd, cost, SE3Act_one]

/-- **One ICP pass never increases the sum of squared closest-point distances.** -/
theorem icpStep_le (align : Pairs ℝ → SE3 ℝ) (hal : AlignOk align) (nn : Cloud ℝ → Vec3 ℝ → Nat)
    (tgt : Cloud ℝ) (hnn : NNOk nn tgt) (cur : Cloud ℝ) :
    sscd nn tgt (icpStep align nn tgt cur) ≤ sscd nn tgt cur := by
  have h1 : cost (SE3Act (align (matchNN nn tgt cur))) (matchNN nn tgt cur) ≤ sscd nn tgt cur := by
    rw [sscd_eq_cost]
    exact hal.opt _ SE3one (by simp [SE3one, Quat.one, Quat.normSq])
  refine le_trans ?_ h1
  simp only [sscd, icpStep, cost, matchNN, List.map_map]
  apply ssum_le_ssum
  intro p _
  simp only [Function.comp]
  exact (hnn _).2 _ (hnn p).1

/-- any number of passes -/
theorem icpIter_le (align : Pairs ℝ → SE3 ℝ) (hal : AlignOk align) (nn : Cloud ℝ → Vec3 ℝ → Nat)
    (tgt : Cloud ℝ) (hnn : NNOk nn tgt) (n : Nat) (cur : Cloud ℝ) :
    sscd nn tgt (icpIter align nn tgt n cur) ≤ sscd nn tgt cur := by
  induction n generalizing cur with
  | zero => simp [icpIter]
  | succ n ih => exact le_trans (ih _) (icpStep_le align hal nn tgt hnn cur)

/-- monotone along the whole run: the value after `n+1` passes is at most the value after `n` passes -/
theorem icp_monotone (align : Pairs ℝ → SE3 ℝ) (hal : AlignOk align) (nn : Cloud ℝ → Vec3 ℝ → Nat)
    (tgt : Cloud ℝ) (hnn : NNOk nn tgt) (n : Nat) (cur : Cloud ℝ) :
    sscd nn tgt (icpIter align nn tgt (n + 1) cur) ≤ sscd nn tgt (icpIter align nn tgt n cur) := by
  have : ∀ (n : Nat) (c : Cloud ℝ), icpIter align nn tgt (n + 1) c = icpStep align nn tgt (icpIter align nn tgt n c) := by
    intro n; induction n with
    | zero => intro c; simp [icpIter]
    | succ n ih => intro c; rw [icpIter, ih]; simp [icpIter]
  rw [this]; exact icpStep_le align hal nn tgt hnn _

/-- the iterate stays a rigid image of the source cloud -/
theorem icpIter_rigid (align : Pairs ℝ → SE3 ℝ) (hal : AlignOk align) (nn : Cloud ℝ → Vec3 ℝ → Nat)
    (tgt : Cloud ℝ) (src : Cloud ℝ) (n : Nat) (X₀ : SE3 ℝ) (h₀ : X₀.q.normSq = 1) :
    ∃ X : SE3 ℝ, X.q.normSq = 1 ∧ icpIter align nn tgt n (src.map (SE3Act X₀)) = src.map (SE3Act X) := by
  induction n generalizing X₀ with
  | zero => exact ⟨X₀, h₀, rfl⟩
  | succ n ih =>
    simp only [icpIter, icpStep, List.map_map]
    have hT := hal.unit (matchNN nn tgt (src.map (SE3Act X₀)))
    obtain ⟨X, hX, hXe⟩ := ih (SE3Mul (align (matchNN nn tgt (src.map (SE3Act X₀)))) X₀)
      (by simp only [SE3Mul, Quat.normSq_mul, hT, h₀]; ring)
    refine ⟨X, hX, ?_⟩
    rw [← hXe]; congr 1
    apply List.map_congr_left; intro p _
    simp only [Function.comp, SE3Act_mul _ _ hT h₀]

theorem icpStart_rigid (init : Option (SE3 ℝ)) (hinit : ∀ T, init = some T → T.q.normSq = 1) (src : Cloud ℝ) :
    ∃ X₀ : SE3 ℝ, X₀.q.normSq = 1 ∧ icpStart init src = src.map (SE3Act X₀) := by
  cases init with
  | none =>
    refine ⟨SE3one, by simp [SE3one, Quat.one, Quat.normSq], ?_⟩
    simp only [icpStart]
    rw [List.map_congr_left (g := id) (fun p _ => SE3Act_one p), List.map_id]
  | some T => exact ⟨T, hinit T rfl, rfl⟩

theorem cost_zip_map (X : SE3 ℝ) (src : Cloud ℝ) : cost (SE3Act X) (src.zip (src.map (SE3Act X))) = 0 := by
  rw [cost_eq_zero_iff]
  intro p hp
  induction src with
  | nil => simp at hp
  | cons s ss ih =>
    simp only [List.map_cons, List.zip_cons_cons, List.mem_cons] at hp
    rcases hp with rfl | hp
    · rfl
    · exact ih hp

/-- the final `svdtf(source, temporal)` reproduces the accumulated rigid motion on every source point -/
theorem icp_final_exact (align : Pairs ℝ → SE3 ℝ) (hal : AlignOk align) (X : SE3 ℝ) (hX : X.q.normSq = 1)
    (src : Cloud ℝ) :
    src.map (SE3Act (align (src.zip (src.map (SE3Act X))))) = src.map (SE3Act X) := by
  have h0 := cost_zip_map X src
  have h1 := hal.opt (src.zip (src.map (SE3Act X))) X hX
  have h2 := cost_nonneg (SE3Act (align (src.zip (src.map (SE3Act X))))) (src.zip (src.map (SE3Act X)))
  have hz := (cost_eq_zero_iff _ _).mp (le_antisymm (by linarith) h2)
  generalize align (src.zip (src.map (SE3Act X))) = Y at hz ⊢
  clear h0 h1 h2
  induction src with
  | nil => rfl
  | cons s ss ih =>
    simp only [List.map_cons, List.zip_cons_cons] at hz ⊢
    rw [hz (s, SE3Act X s) (List.mem_cons_self ..), ih fun p hp => hz p (List.mem_cons_of_mem _ hp)]

/-- **ICP's result is never worse than its initial transform**: for every number of passes `n` (hence for every
stepper), every initial transform (or none), with an optimal aligner and a nearest-neighbour kernel meeting
their contracts: the sum — hence the mean — of squared closest-point distances of `result·source` is at most that
of `init·source`. -/
theorem icp_result_le_init (align : Pairs ℝ → SE3 ℝ) (hal : AlignOk align) (nn : Cloud ℝ → Vec3 ℝ → Nat)
    (src tgt : Cloud ℝ) (hnn : NNOk nn tgt) (init : Option (SE3 ℝ)) (hinit : ∀ T, init = some T → T.q.normSq = 1)
    (n : Nat) :
    sscd nn tgt (src.map (SE3Act (icp align nn init n src tgt))) ≤ sscd nn tgt (icpStart init src) := by
  obtain ⟨X₀, h₀, hs⟩ := icpStart_rigid init hinit src
  obtain ⟨X, hX, hXe⟩ := icpIter_rigid align hal nn tgt src n X₀ h₀
  unfold icp
  rw [hs, hXe, icp_final_exact align hal X hX src, ← hXe, ← hs]
  exact icpIter_le align hal nn tgt hnn n _

/-- the same for the mean squared closest-point distance (the property's wording) -/
theorem icp_result_mscd_le_init (align : Pairs ℝ → SE3 ℝ) (hal : AlignOk align) (nn : Cloud ℝ → Vec3 ℝ → Nat)
    (src tgt : Cloud ℝ) (hnn : NNOk nn tgt) (init : Option (SE3 ℝ)) (hinit : ∀ T, init = some T → T.q.normSq = 1)
    (n : Nat) :
    mscd nn tgt (src.map (SE3Act (icp align nn init n src tgt))) ≤ mscd nn tgt (icpStart init src) := by
  have h := icp_result_le_init align hal nn src tgt hnn init hinit n
  have hl : (icpStart init src).length = src.length := by cases init <;> simp [icpStart]
  simp only [mscd, List.length_map, hl, k_real, Nat.cast_one]
  exact mul_le_mul_of_nonneg_right h (by positivity)

/-- the loop driven by a stepper runs some number `m ≤ fuel` of passes -/
theorem icpLoop_eq_iter (align : Pairs ℝ → SE3 ℝ) (nn : Cloud ℝ → Vec3 ℝ → Nat) (cont : List ℝ → Bool)
    (tgt : Cloud ℝ) (fuel : Nat) (cur : Cloud ℝ) (errs : List ℝ) :
    ∃ m ≤ fuel, (icpLoop align nn cont tgt fuel cur errs).1 = icpIter align nn tgt m cur := by
  induction fuel generalizing cur errs with
  | zero => exact ⟨0, le_refl _, rfl⟩
  | succ f ih =>
    simp only [icpLoop]
    split_ifs with hc
    · obtain ⟨m, hm, he⟩ := ih (icpStep align nn tgt cur) (icpError nn tgt cur :: errs)
      exact ⟨m + 1, by omega, by rw [he]; rfl⟩
    · exact ⟨0, by omega, rfl⟩

/-- **…for every stepper** (`cont` decides from the history of errors whether to continue) and every bound on the
number of passes. -/
theorem icpWith_result_le_init (align : Pairs ℝ → SE3 ℝ) (hal : AlignOk align) (nn : Cloud ℝ → Vec3 ℝ → Nat)
    (src tgt : Cloud ℝ) (hnn : NNOk nn tgt) (init : Option (SE3 ℝ)) (hinit : ∀ T, init = some T → T.q.normSq = 1)
    (cont : List ℝ → Bool) (fuel : Nat) :
    sscd nn tgt (src.map (SE3Act (icpWith align nn cont fuel init src tgt))) ≤ sscd nn tgt (icpStart init src) := by
  obtain ⟨m, _, he⟩ := icpLoop_eq_iter align nn cont tgt fuel (icpStart init src) []
  have := icp_result_le_init align hal nn src tgt hnn init hinit m
  unfold icp at this
  unfold icpWith
  rw [he]; exact this

end PP.C17
