import Proofs.Lemmas.Quat
import Proofs.Lemmas.So3Exp
import Mathlib.Tactic.Positivity
import Mathlib.Tactic.NormNum
import Mathlib.Analysis.SpecialFunctions.Exp
/-!
# C03 — group product, inverse, identity and point action obey the group laws

All statements are over the model of `operation.py` at `α = ℝ` (exact arithmetic); "valid" means
unit quaternion (and positive scale).  Accumulated floating-point round-off is outside the theorem
and is measured by the correspondence check.
-/
namespace PP
open Vec3 Quat Mat3

def SO3.Valid (X : Quat ℝ) : Prop := X.normSq = 1
def SE3.Valid (X : SE3 ℝ) : Prop := X.q.normSq = 1
def RxSO3.Valid (X : RxSO3 ℝ) : Prop := X.q.normSq = 1 ∧ 0 < X.s
def Sim3.Valid (X : Sim3 ℝ) : Prop := X.q.normSq = 1 ∧ 0 < X.s

/-! ## SO3 -/
theorem SO3_mul_assoc (X Y Z : Quat ℝ) : (X.mul Y).mul Z = X.mul (Y.mul Z) := Quat.mul_assoc' X Y Z
theorem SO3_one_mul (X : Quat ℝ) : (SO3one : Quat ℝ).mul X = X := Quat.one_mul' X
theorem SO3_mul_one (X : Quat ℝ) : X.mul SO3one = X := Quat.mul_one' X
theorem SO3_mul_inv (X : Quat ℝ) (h : SO3.Valid X) : X.mul X.conj = SO3one := by
  rw [Quat.mul_conj, h]; ext <;> simp [SO3one, Quat.one]
theorem SO3_inv_mul (X : Quat ℝ) (h : SO3.Valid X) : X.conj.mul X = SO3one := by
  rw [Quat.conj_mul, h]; ext <;> simp [SO3one, Quat.one]
theorem SO3_valid_mul (X Y : Quat ℝ) (hX : SO3.Valid X) (hY : SO3.Valid Y) : SO3.Valid (X.mul Y) := by
  unfold SO3.Valid at *; rw [Quat.normSq_mul, hX, hY]; ring
theorem SO3_valid_inv (X : Quat ℝ) (hX : SO3.Valid X) : SO3.Valid X.conj := by
  unfold SO3.Valid at *; rw [Quat.normSq_conj, hX]
theorem SO3_valid_one : SO3.Valid (SO3one : Quat ℝ) := by unfold SO3.Valid SO3one; lie_unfold; ring
theorem SO3_act_mul (X Y : Quat ℝ) (hX : SO3.Valid X) (hY : SO3.Valid Y) (p : Vec3 ℝ) :
    (X.mul Y).act p = X.act (Y.act p) := Quat.act_mul X Y hX hY p
/-- `matrix()` (columns = images of the basis vectors) times `p` is `Act X p` — for every quaternion. -/
theorem SO3_matrix_mulVec (X : Quat ℝ) (p : Vec3 ℝ) : (SO3matrix X).mulVec p = X.act p := by
  unfold SO3matrix; ext <;> lie_unfold <;> ring
/-- homomorphism: `matrix (X·Y) = matrix X · matrix Y` -/
theorem SO3_matrix_mul (X Y : Quat ℝ) (hX : SO3.Valid X) (hY : SO3.Valid Y) :
    SO3matrix (X.mul Y) = (SO3matrix X).mul (SO3matrix Y) := by
  have key : ∀ p, (SO3matrix (X.mul Y)).mulVec p = ((SO3matrix X).mul (SO3matrix Y)).mulVec p := by
    intro p
    have : ((SO3matrix X).mul (SO3matrix Y)).mulVec p = (SO3matrix X).mulVec ((SO3matrix Y).mulVec p) := by
      ext <;> lie_unfold <;> ring
    rw [this, SO3_matrix_mulVec, SO3_matrix_mulVec, SO3_matrix_mulVec, SO3_act_mul X Y hX hY]
  have h0 := key Vec3.e0; have h1 := key Vec3.e1; have h2 := key Vec3.e2
  simp only [Mat3.mulVec, Vec3.dot, Vec3.e0, Vec3.e1, Vec3.e2, k_real, Nat.cast_zero, Nat.cast_one, mul_one,
    mul_zero, add_zero, zero_add, Vec3.mk.injEq] at h0 h1 h2
  ext <;> simp [h0, h1, h2]
theorem SO3_matrix_one : SO3matrix (SO3one : Quat ℝ) = Mat3.one := by
  unfold SO3matrix SO3one; ext <;> lie_unfold <;> ring
theorem SO3_matrix_conj (X : Quat ℝ) : SO3matrix X.conj = (SO3matrix X).transpose := by
  unfold SO3matrix; ext <;> lie_unfold <;> ring
/-- the matrix of a unit quaternion is orthogonal: `R Rᵀ = 1` -/
theorem SO3_matrix_orthogonal (X : Quat ℝ) (hX : SO3.Valid X) :
    (SO3matrix X).mul (SO3matrix X).transpose = Mat3.one := by
  rw [← SO3_matrix_conj, ← SO3_matrix_mul X X.conj hX (SO3_valid_inv X hX), SO3_mul_inv X hX, SO3_matrix_one]

/-! ## SE3 -/
@[ext] theorem SE3.ext' {a b : SE3 ℝ} (ht : a.t = b.t) (hq : a.q = b.q) : a = b := by
  cases a; cases b; simp_all
@[ext] theorem RxSO3.ext' {a b : RxSO3 ℝ} (hq : a.q = b.q) (hs : a.s = b.s) : a = b := by
  cases a; cases b; simp_all
@[ext] theorem Sim3.ext' {a b : Sim3 ℝ} (ht : a.t = b.t) (hq : a.q = b.q) (hs : a.s = b.s) : a = b := by
  cases a; cases b; simp_all

theorem vadd_assoc (a b c : Vec3 ℝ) : (a.add b).add c = a.add (b.add c) := by ext <;> lie_unfold <;> ring

theorem SE3_mul_assoc (X Y Z : SE3 ℝ) (hX : SE3.Valid X) (hY : SE3.Valid Y) :
    SE3Mul (SE3Mul X Y) Z = SE3Mul X (SE3Mul Y Z) := by
  unfold SE3Mul
  ext1
  · simp only []
    rw [Quat.act_mul X.q Y.q hX hY, Quat.act_add, vadd_assoc]
  · exact Quat.mul_assoc' _ _ _
theorem SE3_one_mul (X : SE3 ℝ) : SE3Mul SE3one X = X := by
  unfold SE3Mul SE3one; ext <;> lie_unfold <;> ring
theorem SE3_mul_one (X : SE3 ℝ) : SE3Mul X SE3one = X := by
  unfold SE3Mul SE3one; ext <;> lie_unfold <;> ring
theorem SE3_mul_inv (X : SE3 ℝ) (h : SE3.Valid X) : SE3Mul X (SE3Inv X) = SE3one := by
  unfold SE3Mul SE3Inv SE3one
  ext1
  · simp only []
    rw [Quat.act_neg, Quat.act_conj_act X.q h]; ext <;> lie_unfold <;> ring
  · simp only []; rw [Quat.mul_conj, h]; ext <;> simp [Quat.one]
theorem SE3_inv_mul (X : SE3 ℝ) (h : SE3.Valid X) : SE3Mul (SE3Inv X) X = SE3one := by
  unfold SE3Mul SE3Inv SE3one
  ext1
  · simp only []; ext <;> lie_unfold <;> ring
  · simp only []; rw [Quat.conj_mul, h]; ext <;> simp [Quat.one]
theorem SE3_valid_mul (X Y : SE3 ℝ) (hX : SE3.Valid X) (hY : SE3.Valid Y) : SE3.Valid (SE3Mul X Y) :=
  SO3_valid_mul X.q Y.q hX hY
theorem SE3_valid_inv (X : SE3 ℝ) (hX : SE3.Valid X) : SE3.Valid (SE3Inv X) := SO3_valid_inv X.q hX
theorem SE3_act_mul (X Y : SE3 ℝ) (hX : SE3.Valid X) (hY : SE3.Valid Y) (p : Vec3 ℝ) :
    SE3Act (SE3Mul X Y) p = SE3Act X (SE3Act Y p) := by
  unfold SE3Act SE3Mul; simp only []
  rw [Quat.act_mul X.q Y.q hX hY, Quat.act_add, vadd_assoc]
theorem SE3_act4_mul (X Y : SE3 ℝ) (hX : SE3.Valid X) (hY : SE3.Valid Y) (p : Vec3 ℝ) (w : ℝ) :
    SE3Act4 (SE3Mul X Y) p w = SE3Act4 X (SE3Act4 Y p w).1 (SE3Act4 Y p w).2 := by
  unfold SE3Act4 SE3Mul; simp only [Prod.mk.injEq, and_true]
  rw [Quat.act_mul X.q Y.q hX hY, Quat.act_add, Quat.act_smul]; ext <;> lie_unfold <;> ring
/-- `Act4` with `w = 1` is `Act`; with `w = 0` it is the pure rotation (directions). -/
theorem SE3_act4_one (X : SE3 ℝ) (p : Vec3 ℝ) : SE3Act4 X p 1 = (SE3Act X p, 1) := by
  unfold SE3Act4 SE3Act; simp only [Prod.mk.injEq, and_true]; ext <;> lie_unfold <;> ring
theorem SE3_act4_zero (X : SE3 ℝ) (p : Vec3 ℝ) : SE3Act4 X p 0 = (X.q.act p, 0) := by
  unfold SE3Act4; simp only [Prod.mk.injEq, and_true]; ext <;> lie_unfold <;> ring

/-- the 4×4 `matrix()` times a homogeneous vector is `Act4` (any act4 that is linear, here SE3). -/
theorem SE3_matrix_mulVec (X : SE3 ℝ) (p : Vec3 ℝ) (w : ℝ) :
    (SE3matrix X).mulVec [p.x, p.y, p.z, w] =
      [(SE3Act4 X p w).1.x, (SE3Act4 X p w).1.y, (SE3Act4 X p w).1.z, (SE3Act4 X p w).2] := by
  simp only [SE3matrix, matrix4, SE3Act4, DMat.mulVec, DVec.dot, DVec.sum, List.map, List.zipWith, List.foldl]
  lie_unfold
  simp only [List.cons.injEq, and_true]
  refine ⟨?_, ?_, ?_, ?_⟩ <;> ring
/-- blocks of `matrix()`: rotation block = `SO3matrix (rotation X)`, last column = translation, last row (0 0 0 1). -/
theorem SE3_matrix_blocks (X : SE3 ℝ) :
    SE3matrix X =
      [ (SO3matrix X.q).r0.toList ++ [X.t.x], (SO3matrix X.q).r1.toList ++ [X.t.y],
        (SO3matrix X.q).r2.toList ++ [X.t.z], [0, 0, 0, 1] ] := by
  simp only [SE3matrix, matrix4, SE3Act4, SO3matrix, Vec3.toList, List.cons_append, List.nil_append]
  lie_unfold
  simp only [List.cons.injEq, and_true]
  (repeat' apply And.intro) <;> ring

/-! ## RxSO3 -/
theorem RxSO3_mul_assoc (X Y Z : RxSO3 ℝ) : RxSO3Mul (RxSO3Mul X Y) Z = RxSO3Mul X (RxSO3Mul Y Z) := by
  unfold RxSO3Mul; ext1
  · exact Quat.mul_assoc' _ _ _
  · simp only []; ring
theorem RxSO3_one_mul (X : RxSO3 ℝ) : RxSO3Mul RxSO3one X = X := by
  unfold RxSO3Mul RxSO3one; ext <;> lie_unfold <;> ring
theorem RxSO3_mul_one (X : RxSO3 ℝ) : RxSO3Mul X RxSO3one = X := by
  unfold RxSO3Mul RxSO3one; ext <;> lie_unfold <;> ring
theorem RxSO3_mul_inv (X : RxSO3 ℝ) (h : RxSO3.Valid X) : RxSO3Mul X (RxSO3Inv X) = RxSO3one := by
  unfold RxSO3Mul RxSO3Inv RxSO3one; ext1
  · simp only []; rw [Quat.mul_conj, h.1]; ext <;> simp [Quat.one]
  · simp only [k_real, Nat.cast_one]; field_simp [ne_of_gt h.2]
theorem RxSO3_inv_mul (X : RxSO3 ℝ) (h : RxSO3.Valid X) : RxSO3Mul (RxSO3Inv X) X = RxSO3one := by
  unfold RxSO3Mul RxSO3Inv RxSO3one; ext1
  · simp only []; rw [Quat.conj_mul, h.1]; ext <;> simp [Quat.one]
  · simp only [k_real, Nat.cast_one]; field_simp [ne_of_gt h.2]
theorem RxSO3_valid_mul (X Y : RxSO3 ℝ) (hX : RxSO3.Valid X) (hY : RxSO3.Valid Y) :
    RxSO3.Valid (RxSO3Mul X Y) := ⟨SO3_valid_mul X.q Y.q hX.1 hY.1, mul_pos hX.2 hY.2⟩
theorem RxSO3_valid_inv (X : RxSO3 ℝ) (hX : RxSO3.Valid X) : RxSO3.Valid (RxSO3Inv X) :=
  ⟨SO3_valid_inv X.q hX.1, by simp only [RxSO3Inv, k_real, Nat.cast_one]; exact one_div_pos.mpr hX.2⟩
theorem RxSO3_act_mul (X Y : RxSO3 ℝ) (hX : RxSO3.Valid X) (hY : RxSO3.Valid Y) (p : Vec3 ℝ) :
    RxSO3Act (RxSO3Mul X Y) p = RxSO3Act X (RxSO3Act Y p) := by
  unfold RxSO3Act RxSO3Mul; simp only []
  rw [Quat.act_mul X.q Y.q hX.1 hY.1, Quat.act_smul]; ext <;> lie_unfold <;> ring

/-! ## Sim3 -/
theorem Sim3_mul_assoc (X Y Z : Sim3 ℝ) (hX : Sim3.Valid X) (hY : Sim3.Valid Y) :
    Sim3Mul (Sim3Mul X Y) Z = Sim3Mul X (Sim3Mul Y Z) := by
  unfold Sim3Mul; ext1
  · simp only []
    rw [Quat.act_mul X.q Y.q hX.1 hY.1, Quat.act_add, Quat.act_smul]; ext <;> lie_unfold <;> ring
  · exact Quat.mul_assoc' _ _ _
  · simp only []; ring
theorem Sim3_one_mul (X : Sim3 ℝ) : Sim3Mul Sim3one X = X := by
  unfold Sim3Mul Sim3one; ext <;> lie_unfold <;> ring
theorem Sim3_mul_one (X : Sim3 ℝ) : Sim3Mul X Sim3one = X := by
  unfold Sim3Mul Sim3one; ext <;> lie_unfold <;> ring
theorem Sim3_mul_inv (X : Sim3 ℝ) (h : Sim3.Valid X) : Sim3Mul X (Sim3Inv X) = Sim3one := by
  have hs : X.s ≠ 0 := ne_of_gt h.2
  unfold Sim3Mul Sim3Inv Sim3one; ext1
  · simp only []
    rw [Quat.act_neg, Quat.act_smul, Quat.act_conj_act X.q h.1]
    ext <;> lie_unfold <;> field_simp <;> ring
  · simp only []; rw [Quat.mul_conj, h.1]; ext <;> simp [Quat.one]
  · simp only [k_real, Nat.cast_one]; field_simp
theorem Sim3_inv_mul (X : Sim3 ℝ) (h : Sim3.Valid X) : Sim3Mul (Sim3Inv X) X = Sim3one := by
  have hs : X.s ≠ 0 := ne_of_gt h.2
  unfold Sim3Mul Sim3Inv Sim3one; ext1
  · simp only []; ext <;> lie_unfold <;> ring
  · simp only []; rw [Quat.conj_mul, h.1]; ext <;> simp [Quat.one]
  · simp only [k_real, Nat.cast_one]; field_simp
theorem Sim3_valid_mul (X Y : Sim3 ℝ) (hX : Sim3.Valid X) (hY : Sim3.Valid Y) : Sim3.Valid (Sim3Mul X Y) :=
  ⟨SO3_valid_mul X.q Y.q hX.1 hY.1, mul_pos hX.2 hY.2⟩
theorem Sim3_valid_inv (X : Sim3 ℝ) (hX : Sim3.Valid X) : Sim3.Valid (Sim3Inv X) :=
  ⟨SO3_valid_inv X.q hX.1, by simp only [Sim3Inv, k_real, Nat.cast_one]; exact one_div_pos.mpr hX.2⟩
theorem Sim3_act_mul (X Y : Sim3 ℝ) (hX : Sim3.Valid X) (hY : Sim3.Valid Y) (p : Vec3 ℝ) :
    Sim3Act (Sim3Mul X Y) p = Sim3Act X (Sim3Act Y p) := by
  unfold Sim3Act Sim3Mul; simp only []
  rw [Quat.act_mul X.q Y.q hX.1 hY.1, Quat.act_add, Quat.act_smul]; ext <;> lie_unfold <;> ring
theorem Sim3_act4_mul (X Y : Sim3 ℝ) (hX : Sim3.Valid X) (hY : Sim3.Valid Y) (p : Vec3 ℝ) (w : ℝ) :
    Sim3Act4 (Sim3Mul X Y) p w = Sim3Act4 X (Sim3Act4 Y p w).1 (Sim3Act4 Y p w).2 := by
  unfold Sim3Act4 Sim3Mul; simp only [Prod.mk.injEq, and_true]
  rw [Quat.act_mul X.q Y.q hX.1 hY.1, Quat.act_add, Quat.act_smul, Quat.act_smul]; ext <;> lie_unfold <;> ring
theorem Sim3_matrix_mulVec (X : Sim3 ℝ) (p : Vec3 ℝ) (w : ℝ) :
    (Sim3matrix X).mulVec [p.x, p.y, p.z, w] =
      [(Sim3Act4 X p w).1.x, (Sim3Act4 X p w).1.y, (Sim3Act4 X p w).1.z, (Sim3Act4 X p w).2] := by
  simp only [Sim3matrix, matrix4, Sim3Act4, DMat.mulVec, DVec.dot, DVec.sum, List.map, List.zipWith, List.foldl]
  lie_unfold
  simp only [List.cons.injEq, and_true]
  refine ⟨?_, ?_, ?_, ?_⟩ <;> ring
/-- blocks of the Sim3 `matrix()`: `s·R`, `t`, `(0 0 0 1)` -/
theorem Sim3_matrix_blocks (X : Sim3 ℝ) :
    Sim3matrix X =
      [ ((SO3matrix X.q).r0.smul X.s).toList ++ [X.t.x], ((SO3matrix X.q).r1.smul X.s).toList ++ [X.t.y],
        ((SO3matrix X.q).r2.smul X.s).toList ++ [X.t.z], [0, 0, 0, 1] ] := by
  simp only [Sim3matrix, matrix4, Sim3Act4, SO3matrix, Vec3.toList, List.cons_append, List.nil_append]
  lie_unfold
  simp only [List.cons.injEq, and_true]
  (repeat' apply And.intro) <;> ring

/-! ## Invariants over arbitrarily long operation histories

`HOp` is one update applied to an element: product with a valid element on either side, inverse, or the
retraction `Exp(a)·X` (what `add_` / `+` / `Retr` do) with an *arbitrary* tangent vector.  On the
closed-form branch `Exp` is exactly unit; on the Taylor branch (`θ ≤ eps`) its norm defect is
`≤ eps⁶` (`so3Exp_normSq_near`), so after any history containing `n` retractions the squared norm is
within `(1+eps⁶)ⁿ − 1` of one (≈ `n·10⁻⁹⁴` for float64) — validity in exact arithmetic. -/

inductive HOp where
  | mulL (Y : Quat ℝ) : HOp
  | mulR (Y : Quat ℝ) : HOp
  | inv : HOp
  | retr (a : Vec3 ℝ) : HOp

def HOp.ok : HOp → Prop
  | .mulL Y => SO3.Valid Y
  | .mulR Y => SO3.Valid Y
  | _ => True

noncomputable def HOp.apply (eps : ℝ) (X : Quat ℝ) : HOp → Quat ℝ
  | .mulL Y => Y.mul X
  | .mulR Y => X.mul Y
  | .inv => X.conj
  | .retr a => SO3Retr eps X a

def HOp.isRetr : HOp → Bool
  | .retr _ => true
  | _ => false

theorem HOp.step_bound (eps : ℝ) (h0 : 0 ≤ eps) (h1 : eps ≤ 1) (X : Quat ℝ) (B : ℝ) (hB : 0 ≤ B)
    (hX : |X.normSq - 1| ≤ B) (op : HOp) (hop : op.ok) :
    |(op.apply eps X).normSq - 1| ≤ (if op.isRetr then (1 + B) * (1 + eps ^ 6) - 1 else B) := by
  cases op with
  | mulL Y => simp only [HOp.apply, HOp.isRetr, Bool.false_eq_true, if_false]
              rw [Quat.normSq_mul, (hop : Y.normSq = 1)]; simpa using hX
  | mulR Y => simp only [HOp.apply, HOp.isRetr, Bool.false_eq_true, if_false]
              rw [Quat.normSq_mul, (hop : Y.normSq = 1)]; simpa using hX
  | inv => simp only [HOp.apply, HOp.isRetr, Bool.false_eq_true, if_false]; rw [Quat.normSq_conj]; exact hX
  | retr a =>
    simp only [HOp.apply, HOp.isRetr, if_true, SO3Retr]
    rw [Quat.normSq_mul]
    have hm := so3Exp_normSq_near eps a h0 h1
    set m := (so3Exp eps a).normSq
    set n := X.normSq
    have e : m * n - 1 = (m - 1) * (n - 1) + (m - 1) + (n - 1) := by ring
    have hd : 0 ≤ eps ^ 6 := by positivity
    rw [e]
    calc |(m - 1) * (n - 1) + (m - 1) + (n - 1)|
        ≤ |(m - 1) * (n - 1)| + |m - 1| + |n - 1| := abs_add_three _ _ _
      _ = |m - 1| * |n - 1| + |m - 1| + |n - 1| := by rw [abs_mul]
      _ ≤ eps ^ 6 * B + eps ^ 6 + B := by
          have := mul_le_mul hm hX (abs_nonneg _) hd
          linarith
      _ = (1 + B) * (1 + eps ^ 6) - 1 := by ring

/-- **Validity over any history.** Starting from a valid element, after any list of products with valid
elements, inverses and retractions by arbitrary tangent vectors, the squared quaternion norm is within
`(1+eps⁶)^n − 1` of 1, where `n` is the number of retractions in the history. No bound on the length. -/
theorem history_valid (eps : ℝ) (h0 : 0 ≤ eps) (h1 : eps ≤ 1) (ops : List HOp) (hops : ∀ op ∈ ops, op.ok)
    (X : Quat ℝ) (hX : SO3.Valid X) :
    |(ops.foldl (HOp.apply eps) X).normSq - 1| ≤ (1 + eps ^ 6) ^ (ops.countP HOp.isRetr) - 1 := by
  have hd : 0 ≤ eps ^ 6 := by positivity
  have gen : ∀ (ops : List HOp), (∀ op ∈ ops, op.ok) → ∀ (X : Quat ℝ) (j : ℕ),
      |X.normSq - 1| ≤ (1 + eps ^ 6) ^ j - 1 →
      |(ops.foldl (HOp.apply eps) X).normSq - 1| ≤ (1 + eps ^ 6) ^ (j + ops.countP HOp.isRetr) - 1 := by
    intro ops
    induction ops with
    | nil => intro _ X j h; simpa using h
    | cons op rest ih =>
      intro hall X j h
      have hB : 0 ≤ (1 + eps ^ 6) ^ j - 1 := by
        have : (1 : ℝ) ≤ (1 + eps ^ 6) ^ j := one_le_pow₀ (by linarith)
        linarith
      have hs := HOp.step_bound eps h0 h1 X _ hB h op (hall op (by simp))
      simp only [List.foldl_cons]
      by_cases hr : op.isRetr = true
      · simp only [hr, if_true] at hs
        have := ih (fun o ho => hall o (by simp [ho])) (op.apply eps X) (j + 1) (by
          rw [pow_succ]; convert hs using 1; ring)
        simpa [List.countP_cons, hr, Nat.add_assoc, Nat.add_comm 1] using this
      · have hr' : op.isRetr = false := by simpa using hr
        simp only [hr', Bool.false_eq_true, if_false] at hs
        have := ih (fun o ho => hall o (by simp [ho])) (op.apply eps X) j hs
        simpa [List.countP_cons, hr'] using this
  have := gen ops hops X 0 (by simp [show X.normSq = 1 from hX])
  simpa using this

/-- on the closed-form branch (every retraction angle above `eps`) validity is preserved *exactly* -/
theorem SO3_valid_retr (eps : ℝ) (h0 : 0 ≤ eps) (X : Quat ℝ) (hX : SO3.Valid X) (a : Vec3 ℝ) (ha : eps < a.norm) :
    SO3.Valid (SO3Retr eps X a) := by
  unfold SO3.Valid SO3Retr; rw [Quat.normSq_mul, so3Exp_normSq_closed eps a h0 ha, hX]; ring

/-- scales stay positive under products, inverses and retractions (`exp σ > 0`) -/
theorem RxSO3_scale_retr_pos (eps : ℝ) (X : RxSO3 ℝ) (hX : 0 < X.s) (a : rxso3 ℝ) :
    0 < (RxSO3Retr eps X a).s := by
  simp only [RxSO3Retr, RxSO3Mul, rxso3Exp, exp_real]; exact mul_pos (Real.exp_pos _) hX
theorem Sim3_scale_retr_pos (eps : ℝ) (X : Sim3 ℝ) (hX : 0 < X.s) (a : sim3 ℝ) :
    0 < (Sim3Retr eps X a).s := by
  simp only [Sim3Retr, Sim3Mul, sim3Exp, rxso3Exp, exp_real]; exact mul_pos (Real.exp_pos _) hX

/-! ### non-vacuity -/
example : SO3.Valid (⟨0.6, 0, 0, 0.8⟩ : Quat ℝ) := by unfold SO3.Valid; lie_unfold; norm_num
example : Sim3.Valid (⟨⟨1, 2, 3⟩, ⟨0, 0.6, 0, 0.8⟩, 2⟩ : Sim3 ℝ) := by
  refine ⟨?_, by norm_num⟩; lie_unfold; norm_num

end PP
