import Proofs.Real
import Pose.Model.Filter
import Mathlib.LinearAlgebra.Matrix.PosDef
import Mathlib.LinearAlgebra.Matrix.NonsingularInverse
import Mathlib.Data.Matrix.ColumnRowPartitioned
import Mathlib.Algebra.BigOperators.Fin
import Mathlib.Tactic.NoncommRing
import Mathlib.Algebra.Order.Star.Real
/-!
# Helper lemmas for C13 (filters)

* the evaluation-forcing wrappers are identities;
* the model's dense algebra over `ℝ` is Mathlib's matrix algebra;
* Kalman algebra: Joseph form, Schur complement, sigma-point sums.
-/
open Matrix
namespace PP.Filter

/-! ### `memo` is the identity -/

@[simp] theorem MemoV.fn_of {β : Type} {n : Nat} (v : Fin n → β) : (memoV v).fn = v := by
  funext i
  simp [memoV, MemoV.fn]

@[simp] theorem MemoM.mfn_of {β : Type} {m n : Nat} (A : Fin m → Fin n → β) : (memoM A).mfn = A := by
  funext i j
  simp [memoM, MemoV.mfn]

@[simp] theorem Sigma.memo_eq {α : Type} {n q : Nat} (s : Sigma α n q) : s.memo = s := by
  cases s
  simp [Sigma.memo]

/-! ### the model's algebra at `ℝ` is Mathlib's -/

theorem fsum_eq_sum : ∀ {n : Nat} (f : Fin n → ℝ), fsum f = ∑ i, f i
  | 0, f => by simp [fsum]
  | n+1, f => by
    rw [fsum, fsum_eq_sum, Fin.sum_univ_succ]

/-- reinterpret a model matrix as a Mathlib matrix (definitionally the same function) -/
abbrev toM {m n : Nat} (A : Mat ℝ m n) : Matrix (Fin m) (Fin n) ℝ := Matrix.of A

theorem mmul_eq {l m n : Nat} (A : Mat ℝ l m) (B : Mat ℝ m n) : toM (mmul A B) = toM A * toM B := by
  ext i j
  simp [mmul, fsum_eq_sum, Matrix.mul_apply]

theorem transpose_eq {m n : Nat} (A : Mat ℝ m n) : toM (transpose A) = (toM A)ᵀ := by
  ext i j; simp [transpose]

theorem madd_eq {m n : Nat} (A B : Mat ℝ m n) : toM (madd A B) = toM A + toM B := by
  ext i j; simp [madd]

theorem msub_eq {m n : Nat} (A B : Mat ℝ m n) : toM (msub A B) = toM A - toM B := by
  ext i j; simp [msub]

theorem msmul_eq {m n : Nat} (c : ℝ) (A : Mat ℝ m n) : toM (msmul c A) = c • toM A := by
  ext i j; simp [msmul]

theorem eye_eq {n : Nat} : toM (eye : Mat ℝ n n) = 1 := by
  ext i j
  simp [eye, Matrix.one_apply, Fin.ext_iff]

theorem mulVec_eq {m n : Nat} (A : Mat ℝ m n) (v : Vec ℝ n) : mulVec A v = toM A *ᵥ v := by
  funext i
  simp [mulVec, fsum_eq_sum, Matrix.mulVec, dotProduct]

theorem vadd_eq {n : Nat} (a b : Vec ℝ n) : vadd a b = a + b := rfl
theorem vsub_eq {n : Nat} (a b : Vec ℝ n) : vsub a b = a - b := rfl
theorem vsmul_eq {n : Nat} (c : ℝ) (a : Vec ℝ n) : vsmul c a = c • a := rfl

theorem dot_eq {n : Nat} (a b : Vec ℝ n) : dot a b = a ⬝ᵥ b := by
  simp [dot, fsum_eq_sum, dotProduct]

end PP.Filter

namespace PP.Filter
open Matrix

/-! ### the same facts with Mathlib-typed arguments (rewrite rules used by the property proofs) -/

section rewrite
variable {l m n : Nat}
theorem mmul_eq' (A : Matrix (Fin l) (Fin m) ℝ) (B : Matrix (Fin m) (Fin n) ℝ) : mmul A B = A * B := mmul_eq A B
theorem transpose_eq' (A : Matrix (Fin m) (Fin n) ℝ) : Filter.transpose A = Aᵀ := transpose_eq A
theorem madd_eq' (A B : Matrix (Fin m) (Fin n) ℝ) : madd A B = A + B := madd_eq A B
theorem msub_eq' (A B : Matrix (Fin m) (Fin n) ℝ) : msub A B = A - B := msub_eq A B
theorem msmul_eq' (c : ℝ) (A : Matrix (Fin m) (Fin n) ℝ) : msmul c A = c • A := msmul_eq c A
theorem eye_eq' : (eye : Mat ℝ n n) = (1 : Matrix (Fin n) (Fin n) ℝ) := eye_eq
@[simp] theorem MemoM.mfn_of' (A : Matrix (Fin m) (Fin n) ℝ) : (memoM A).mfn = A := MemoM.mfn_of A
theorem mulVec_eq' (A : Matrix (Fin m) (Fin n) ℝ) (v : Fin n → ℝ) : Filter.mulVec A v = A *ᵥ v := mulVec_eq A v
end rewrite

/-! ### the specification: Kalman recursion in Mathlib's matrix algebra -/

/-- a Gaussian belief: mean and covariance -/
structure Belief (n : Nat) where
  mean : Fin n → ℝ
  cov : Matrix (Fin n) (Fin n) ℝ

/-- Kalman recursion for a transition with Jacobian `A` whose predicted state is `xm` and an observation
with Jacobian `C` whose predicted value is `ym`: predicted covariance `P⁻ = A P Aᵀ + Q`, innovation
covariance `S = C P⁻ Cᵀ + R`; the posterior is the conditional mean / covariance of the joint Gaussian
`(x', y)`:  `mean = xm + P⁻Cᵀ S⁻¹ (y − ym)`,  `cov = P⁻ − P⁻Cᵀ S⁻¹ C P⁻`. -/
noncomputable def kfStep {n p : Nat} (A : Matrix (Fin n) (Fin n) ℝ) (C : Matrix (Fin p) (Fin n) ℝ)
    (xm : Fin n → ℝ) (ym : Fin p → ℝ) (Q : Matrix (Fin n) (Fin n) ℝ) (R : Matrix (Fin p) (Fin p) ℝ)
    (P : Matrix (Fin n) (Fin n) ℝ) (y : Fin p → ℝ) : Belief n :=
  let Pm := A * P * Aᵀ + Q
  let S := C * Pm * Cᵀ + R
  ⟨xm + (Pm * Cᵀ * S⁻¹) *ᵥ (y - ym), Pm - Pm * Cᵀ * S⁻¹ * C * Pm⟩

/-- The exact Kalman predict-then-update posterior of the linear-Gaussian system
`x' = A x + B u + c1 + w`, `y = C x' + D u + c2 + v`, `w ~ N(0,Q)`, `v ~ N(0,R)`, prior `N(x, P)`. -/
noncomputable def kalman {n m p : Nat} (A : Matrix (Fin n) (Fin n) ℝ) (B : Matrix (Fin n) (Fin m) ℝ)
    (C : Matrix (Fin p) (Fin n) ℝ) (D : Matrix (Fin p) (Fin m) ℝ) (c1 : Fin n → ℝ) (c2 : Fin p → ℝ)
    (Q : Matrix (Fin n) (Fin n) ℝ) (R : Matrix (Fin p) (Fin p) ℝ)
    (x : Fin n → ℝ) (P : Matrix (Fin n) (Fin n) ℝ) (u : Fin m → ℝ) (y : Fin p → ℝ) : Belief n :=
  let xm := A *ᵥ x + B *ᵥ u + c1
  kfStep A C xm (C *ᵥ xm + D *ᵥ u + c2) Q R P y

/-! ### positivity facts -/

section pos
variable {n p : Nat}

theorem predCov_psd {A P Q : Matrix (Fin n) (Fin n) ℝ} (hP : P.PosSemidef) (hQ : Q.PosSemidef) :
    (A * P * Aᵀ + Q).PosSemidef := by
  have := hP.mul_mul_conjTranspose_same A
  rw [conjTranspose_eq_transpose_of_trivial] at this
  exact this.add hQ

theorem innovCov_pd {C : Matrix (Fin p) (Fin n) ℝ} {Pm : Matrix (Fin n) (Fin n) ℝ} {R : Matrix (Fin p) (Fin p) ℝ}
    (hPm : Pm.PosSemidef) (hR : R.PosDef) : (C * Pm * Cᵀ + R).PosDef := by
  have := hPm.mul_mul_conjTranspose_same C
  rw [conjTranspose_eq_transpose_of_trivial] at this
  exact hR.posSemidef_add this

theorem PosDef.isUnit_det' {S : Matrix (Fin p) (Fin p) ℝ} (hS : S.PosDef) : IsUnit S.det :=
  (Matrix.isUnit_iff_isUnit_det S).1 hS.isUnit

end pos
end PP.Filter

namespace PP.Filter
open Matrix

/-! ### Joseph form and positive semidefiniteness of the Kalman posterior covariance -/

section joseph
variable {n p : Nat}

/-- With the Kalman gain `K = P⁻Cᵀ S⁻¹`, `S = C P⁻ Cᵀ + R` invertible:
`P⁻ − K C P⁻ = (1 − K C) P⁻ (1 − K C)ᵀ + K R Kᵀ`. -/
theorem joseph_identity (Pm : Matrix (Fin n) (Fin n) ℝ) (C : Matrix (Fin p) (Fin n) ℝ)
    (R : Matrix (Fin p) (Fin p) ℝ) (hS : IsUnit (C * Pm * Cᵀ + R).det) :
    Pm - Pm * Cᵀ * (C * Pm * Cᵀ + R)⁻¹ * C * Pm =
      (1 - Pm * Cᵀ * (C * Pm * Cᵀ + R)⁻¹ * C) * Pm * (1 - Pm * Cᵀ * (C * Pm * Cᵀ + R)⁻¹ * C)ᵀ
        + (Pm * Cᵀ * (C * Pm * Cᵀ + R)⁻¹) * R * (Pm * Cᵀ * (C * Pm * Cᵀ + R)⁻¹)ᵀ := by
  set S := C * Pm * Cᵀ + R with hSdef
  set K := Pm * Cᵀ * S⁻¹ with hK
  have hKS : K * S = Pm * Cᵀ := by
    rw [hK, Matrix.mul_assoc, Matrix.nonsing_inv_mul _ hS, Matrix.mul_one]
  have hCPC : C * Pm * Cᵀ = S - R := by rw [hSdef]; abel
  have key : (1 - K * C) * Pm * Cᵀ = K * R := by
    calc (1 - K * C) * Pm * Cᵀ = Pm * Cᵀ - K * (C * Pm * Cᵀ) := by
          simp only [Matrix.sub_mul, Matrix.one_mul, Matrix.mul_assoc]
      _ = Pm * Cᵀ - K * (S - R) := by rw [hCPC]
      _ = Pm * Cᵀ - K * S + K * R := by rw [Matrix.mul_sub]; abel
      _ = K * R := by rw [hKS]; simp
  have hT : (1 - K * C)ᵀ = 1 - Cᵀ * Kᵀ := by
    rw [Matrix.transpose_sub, Matrix.transpose_one, Matrix.transpose_mul]
  rw [hT, Matrix.mul_sub, Matrix.mul_one, ← Matrix.mul_assoc ((1 - K * C) * Pm), key]
  rw [Matrix.sub_mul, Matrix.one_mul]
  abel

/-- The Kalman posterior covariance is symmetric positive semidefinite (for any `A`, `C`). -/
theorem kf_cov_psd {Pm : Matrix (Fin n) (Fin n) ℝ} (C : Matrix (Fin p) (Fin n) ℝ)
    {R : Matrix (Fin p) (Fin p) ℝ} (hPm : Pm.PosSemidef) (hR : R.PosDef) :
    (Pm - Pm * Cᵀ * (C * Pm * Cᵀ + R)⁻¹ * C * Pm).PosSemidef := by
  have hS := PosDef.isUnit_det' (innovCov_pd (C := C) hPm hR)
  rw [joseph_identity Pm C R hS]
  have h1 := hPm.mul_mul_conjTranspose_same (1 - Pm * Cᵀ * (C * Pm * Cᵀ + R)⁻¹ * C)
  have h2 := hR.posSemidef.mul_mul_conjTranspose_same (Pm * Cᵀ * (C * Pm * Cᵀ + R)⁻¹)
  rw [conjTranspose_eq_transpose_of_trivial] at h1 h2
  exact h1.add h2

theorem kfStep_cov_psd (A : Matrix (Fin n) (Fin n) ℝ) (C : Matrix (Fin p) (Fin n) ℝ)
    (xm : Fin n → ℝ) (ym : Fin p → ℝ) {Q : Matrix (Fin n) (Fin n) ℝ} {R : Matrix (Fin p) (Fin p) ℝ}
    {P : Matrix (Fin n) (Fin n) ℝ} (y : Fin p → ℝ) (hP : P.PosSemidef) (hQ : Q.PosSemidef) (hR : R.PosDef) :
    (kfStep A C xm ym Q R P y).cov.PosSemidef := by
  simp only [kfStep]
  exact kf_cov_psd C (predCov_psd hP hQ) hR

end joseph
end PP.Filter

namespace PP.Filter
open Matrix

/-! ### runs on (time-varying) linear-Gaussian systems -/

/-- one call on a linear-Gaussian system: the system matrices may change from call to call -/
structure LinStep (n m p : Nat) where
  A : Matrix (Fin n) (Fin n) ℝ
  B : Matrix (Fin n) (Fin m) ℝ
  C : Matrix (Fin p) (Fin n) ℝ
  D : Matrix (Fin p) (Fin m) ℝ
  c1 : Fin n → ℝ
  c2 : Fin p → ℝ
  u : Fin m → ℝ
  y : Fin p → ℝ
  Q : Matrix (Fin n) (Fin n) ℝ
  R : Matrix (Fin p) (Fin p) ℝ

/-- what the filter object receives for this call -/
noncomputable def LinStep.toStep {n m p : Nat} (l : LinStep n m p) : Step ℝ n m p :=
  ⟨affSys l.A l.B l.C l.D l.c1 l.c2, l.u, l.y, l.Q, l.R⟩

/-- noise covariances are valid -/
def LinStep.ok {n m p : Nat} (l : LinStep n m p) : Prop := l.Q.PosSemidef ∧ l.R.PosDef

/-- exact Kalman posterior after one call -/
noncomputable def LinStep.kalman {n m p : Nat} (l : LinStep n m p) (b : Belief n) : Belief n :=
  Filter.kalman l.A l.B l.C l.D l.c1 l.c2 l.Q l.R b.mean b.cov l.u l.y

/-- exact Kalman filter run -/
noncomputable def kalmanRun {n m p : Nat} (steps : List (LinStep n m p)) (b : Belief n) : Belief n :=
  steps.foldl (fun b l => l.kalman b) b

theorem LinStep.kalman_cov_psd {n m p : Nat} (l : LinStep n m p) (hl : l.ok) {b : Belief n}
    (hb : b.cov.PosSemidef) : (l.kalman b).cov.PosSemidef := by
  simp only [LinStep.kalman, Filter.kalman]
  exact kfStep_cov_psd _ _ _ _ _ hb hl.1 hl.2

end PP.Filter

namespace PP.Filter
open Matrix

/-! ### sigma-point sums -/

section sigma
variable {n q r : Nat}

/-- column `i` of a matrix as a vector -/
def colv {q n : Nat} (L : Matrix (Fin q) (Fin n) ℝ) (i : Fin n) : Fin q → ℝ := fun a => L a i

/-- the sigma set `x, x + L eᵢ, x − L eᵢ` -/
def sig (x : Fin n → ℝ) (L : Matrix (Fin n) (Fin n) ℝ) : Sigma ℝ n n :=
  ⟨x, fun i => x + colv L i, fun i => x - colv L i⟩

/-- a symmetric set of deviations `0, −V eᵢ, +V eᵢ` -/
def devSig (V : Matrix (Fin q) (Fin n) ℝ) : Sigma ℝ n q :=
  ⟨0, fun i => -colv V i, fun i => colv V i⟩

theorem sigmaPoints_eq (msqrt : Matrix (Fin n) (Fin n) ℝ → Matrix (Fin n) (Fin n) ℝ) (x : Fin n → ℝ) (P : Matrix (Fin n) (Fin n) ℝ) (kk : ℝ) :
    sigmaPoints msqrt x P kk = sig x (msqrt (((n : ℝ) + kk) • P)) := by
  simp only [sigmaPoints, Sigma.memo_eq, MemoM.mfn_of, MemoM.mfn_of', msmul_eq', k_real, vadd_eq, vsub_eq]
  rfl

theorem mulVec_colv (T : Matrix (Fin q) (Fin n) ℝ) (L : Matrix (Fin n) (Fin n) ℝ) (i : Fin n) :
    T *ᵥ colv L i = colv (T * L) i := by
  funext a
  simp [colv, Matrix.mulVec, dotProduct, Matrix.mul_apply]

/-- weighted mean of an affine image of a sigma set is the image of the centre (weights sum to one) -/
theorem wsum_affine (a b : ℝ) (hab : a + 2 * n * b = 1) (x : Fin n → ℝ) (L : Matrix (Fin n) (Fin n) ℝ)
    (T : Matrix (Fin q) (Fin n) ℝ) (d c : Fin q → ℝ) :
    ((sig x L).map (fun pt => T *ᵥ pt + d + c)).wsum a b = T *ᵥ x + d + c := by
  funext j
  simp only [Sigma.wsum, Sigma.map, Sigma.memo_eq, sig, fsum_eq_sum, Matrix.mulVec_add, Matrix.mulVec_sub,
    Pi.add_apply, Pi.sub_apply]
  simp only [mul_add, mul_sub, Finset.sum_add_distrib, Finset.sum_sub_distrib, Finset.sum_const, Finset.card_univ,
    Fintype.card_fin, nsmul_eq_mul]
  linear_combination ((T *ᵥ x) j + d j + c j) * hab

theorem dev_map_affine (x : Fin n → ℝ) (L : Matrix (Fin n) (Fin n) ℝ)
    (T : Matrix (Fin q) (Fin n) ℝ) (d c : Fin q → ℝ) :
    ((sig x L).map (fun pt => T *ᵥ pt + d + c)).dev (T *ᵥ x + d + c) = devSig (T * L) := by
  simp only [Sigma.dev, Sigma.map, Sigma.memo_eq, sig, devSig, vsub_eq, Matrix.mulVec_add, Matrix.mulVec_sub,
    mulVec_colv]
  congr 1
  · funext j; simp
  · funext i j; simp
  · funext i j; simp

theorem dev_sig (x : Fin n → ℝ) (L : Matrix (Fin n) (Fin n) ℝ) : (sig x L).dev x = devSig L := by
  simp only [Sigma.dev, Sigma.memo_eq, sig, devSig, vsub_eq]
  congr 1
  · funext j; simp
  · funext i j; simp
  · funext i j; simp

theorem cov_devSig (a b : ℝ) (V : Matrix (Fin q) (Fin n) ℝ) (W : Matrix (Fin r) (Fin n) ℝ) :
    (devSig V).cov a b (devSig W) = (2 * b) • (V * Wᵀ) := by
  funext i j
  simp only [Sigma.cov, devSig, fsum_eq_sum, colv, Pi.zero_apply, Pi.neg_apply, Matrix.smul_apply, Matrix.mul_apply,
    Matrix.transpose_apply, smul_eq_mul, Finset.mul_sum]
  rw [mul_zero, zero_add, ← Finset.sum_add_distrib]
  apply Finset.sum_congr rfl
  intro l _
  ring

end sigma
end PP.Filter
