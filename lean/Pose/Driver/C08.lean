import Pose.Wire
import Pose.Model.LMLoop
import Pose.Model.LMNormal
/-!
Driver ops for C08.

The accept/reject loop model is generic in the parameter type; the driver instantiates it with the
finite "parameter space" that one observed call of `step()` visits: point `0` = the parameters the call
was given, point `i+1` = the trial point of the `i`-th solve.  Steps are integers: `+(i+1)` is the step
returned by the `i`-th solve, `-(i+1)` its negation.  `retr` satisfies `retr (retr p d) (neg d) = p` on
every pair the loop can produce (checked again at run time: a junk point is reported as `err`).
-/
namespace PP.Driver
open PP Wire LMLoop

def junk : Nat := 1000000

structure Trial where
  raise : Bool
  loss : BigF
  /-- sign bit of the code's (zero) denominator for this trial: `true` = `-0.` -/
  negZero : Bool
  d : List BigF

def mkProb (l0 : BigF) (trials : Array Trial) : Prob Nat Int BigF :=
  { lossAt := fun p => if p == 0 then l0 else
      match trials[p - 1]? with
      | some t => t.loss
      | none => BigF.zero
    retr := fun p d =>
      if p == 0 && d > 0 then d.toNat
      else if p ≥ 1 && d == -(p : Int) then 0
      else junk
    neg := fun d => -d }

def mkEnv (kd : Kind) (h : Hyper BigF) (J : DMat BigF) (R : DVec BigF) (trials : Array Trial) :
    Env Nat Int (SState BigF) BigF :=
  { solve := fun i _ =>
      match trials[i]? with
      | some t => if t.raise then none else some ((i : Int) + 1)
      | none => none
    upd := fun s last loss d =>
      match trials[d.natAbs - 1]? with
      | some t =>
        match stratUpdZ kd t.negZero h s (last - loss) (qualityDen J t.d R) with
        | .ok s' => s'
        | .error _ => s
      | none => s }

def kindOf (n : Nat) : Except String Kind :=
  match n with
  | 0 => .ok .constant | 1 => .ok .adaptive | 2 => .ok .trust | _ => .error "bad-kind"

def verdictNum : Verdict → Nat
  | .very => 0 | .ok => 1 | .bad => 2

def hyperOf (xs : List BigF) : Except String (Hyper BigF) :=
  match xs with
  | [high, low, up, factor, down0, smin, smax] => .ok ⟨high, low, up, factor, down0, smin, smax⟩
  | _ => .error "arity-hyper"

def rowsOf (m n : Nat) (xs : List BigF) : DMat BigF :=
  (List.range m).map fun i => (xs.drop (i * n)).take n

def parseTrials (n : Nat) : Nat → List String → Except String (List Trial)
  | 0, [] => .ok []
  | 0, _ => .error "arity-trials"
  | c + 1, r :: l :: z :: rest => do
      let r ← nat r
      let l ← num l
      let z ← nat z
      let (dt, rest) ← Wire.take n rest
      let d ← nums dt
      let ts ← parseTrials n c rest
      return ⟨r == 1, l, z == 1, d⟩ :: ts
  | _ + 1, _ => .error "arity-trials"

def stOut (st : St Nat (SState BigF) BigF) : List BigF :=
  [BigF.ofNat st.p, st.loss, st.last, BigF.ofNat st.rc, BigF.ofNat st.solves,
   BigF.ofNat (if st.live then 1 else 0), st.s.damping, st.s.radius, st.s.down]

def parseKernel : List String → Except String ((BigF → BigF) × List String)
  | "0" :: rest => .ok (rhoTrivial, rest)
  | "1" :: d :: rest => do let d ← num d; return (rhoHuber d, rest)
  | "2" :: d :: rest => do let d ← num d; return (rhoPseudoHuber d, rest)
  | "3" :: d :: rest => do let d ← num d; return (rhoCauchy d, rest)
  | "4" :: d :: rest => do let d ← num d; return (rhoShiftHuber d, rest)
  | _ => .error "bad-kernel"

def parseKernels : Nat → List String → Except String (List (BigF → BigF) × List String)
  | 0, rest => .ok ([], rest)
  | c + 1, ts => do
      let (kf, rest) ← parseKernel ts
      let (ks, rest) ← parseKernels c rest
      return (kf :: ks, rest)

def parseOutputs : Nat → List String → Except String (List (Output BigF))
  | 0, [] => .ok []
  | 0, _ => .error "arity-outputs"
  | c + 1, ni :: dm :: rest => do
      let ni ← nat ni
      let dm ← nat dm
      let (vt, rest) ← Wire.take (ni * dm) rest
      let v ← nums vt
      let os ← parseOutputs c rest
      return (rowsOf ni dm v) :: os
  | _ + 1, _ => .error "arity-outputs"

/-- user-level kernel argument: `0` = None, `1 <kernel>` = one kernel, `2 n (- | <kernel>)*` = list with None entries -/
def parseOptKernels : Nat → List String → Except String (List (Option (BigF → BigF)) × List String)
  | 0, rest => .ok ([], rest)
  | c + 1, "-" :: rest => do
      let (ks, rest) ← parseOptKernels c rest
      return (none :: ks, rest)
  | c + 1, ts => do
      let (kf, rest) ← parseKernel ts
      let (ks, rest) ← parseOptKernels c rest
      return (some kf :: ks, rest)

def parseKSpec : List String → Except String (KSpec BigF × List String)
  | "0" :: rest => .ok (KSpec.none, rest)
  | "1" :: rest => do
      let (kf, rest) ← parseKernel rest
      return (KSpec.single kf, rest)
  | "2" :: n :: rest => do
      let n ← nat n
      let (ks, rest) ← parseOptKernels n rest
      return (KSpec.list ks, rest)
  | _ => .error "bad-kspec"

def parsePairs : List BigF → List (BigF × BigF)
  | a :: b :: rest => (a, b) :: parsePairs rest
  | _ => []

def opsC08 : List (String × Handler) := [
  -- c08.upd kind force(9=auto|0|1|2) high low up factor down0 smin smax damping radius down last loss m n J(m*n) D(n) R(m)
  --   -> damping radius down verdict num den
  ("c08.upd", fun ts => do
      match ts with
      | kd :: force :: rest =>
        let kd ← kindOf (← nat kd)
        let force ← nat force
        let (ht, rest) ← Wire.take 7 rest
        let h ← hyperOf (← nums ht)
        match rest with
        | dm :: rd :: dn :: last :: loss :: m :: n :: rest =>
          let s : SState BigF := ⟨← num dm, ← num rd, ← num dn⟩
          let last ← num last
          let loss ← num loss
          let m ← nat m
          let n ← nat n
          let (jt, rest) ← Wire.take (m * n) rest
          let (dt, rest) ← Wire.take n rest
          let (rt, rest) ← Wire.take m rest
          -- optional trailing token: 1 = the code's zero denominator is -0. (sign bit set), 0 = +0.
          let negZero ← match rest with
            | [] => pure false
            | [z] => do let z ← nat z; pure (z == 1)
            | _ => throw "arity"
          let J := rowsOf m n (← nums jt)
          let Dv ← nums dt
          let R ← nums rt
          let nm := last - loss
          let den := qualityDen J Dv R
          let v := verdictZ negZero h.high h.low nm den
          let r : Except String (SState BigF) := match force with
            | 9 => stratUpdZ kd negZero h s nm den
            | f =>
              let fv := if f == 0 then Verdict.very else if f == 1 then Verdict.ok else Verdict.bad
              match kd with
              | .constant => .ok (updConstant s)
              | .adaptive => .ok (updAdaptive h s fv)
              | .trust => updTrustE h s fv
          let s' ← r
          return fmt [s'.damping, s'.radius, s'.down, BigF.ofNat (verdictNum v), nm, den]
        | _ => throw "arity"
      | _ => throw "arity"),
  -- c08.stratrun kind high low up factor down0 smin smax damping radius down (num den)*
  --   -> (damping radius down)* after each update
  ("c08.stratrun", fun ts => do
      match ts with
      | kd :: rest =>
        let kd ← kindOf (← nat kd)
        let (ht, rest) ← Wire.take 7 rest
        let h ← hyperOf (← nums ht)
        match rest with
        | dm :: rd :: dn :: rest =>
          let s : SState BigF := ⟨← num dm, ← num rd, ← num dn⟩
          let qs := parsePairs (← nums rest)
          let states := (List.range qs.length).map fun i => stratRun kd h s (qs.take (i + 1))
          return fmt (states.flatMap fun s => [s.damping, s.radius, s.down])
        | _ => throw "arity"
      | _ => throw "arity"),
  -- c08.lm kind high low up factor down0 smin smax damping radius down reject cached(0/1) L0 m n J R ntr (raise loss negZero D(n))*
  --   -> 9 numbers for the state after 1..ntr passes, then 9 numbers for lmStep (fuel reject+1)
  ("c08.lm", fun ts => do
      match ts with
      | kd :: rest =>
        let kd ← kindOf (← nat kd)
        let (ht, rest) ← Wire.take 7 rest
        let h ← hyperOf (← nums ht)
        match rest with
        | dm :: rd :: dn :: rej :: cached :: l0 :: m :: n :: rest =>
          let s : SState BigF := ⟨← num dm, ← num rd, ← num dn⟩
          let rej ← nat rej
          let cached ← nat cached
          let l0 ← num l0
          let m ← nat m
          let n ← nat n
          let (jt, rest) ← Wire.take (m * n) rest
          let (rt, rest) ← Wire.take m rest
          let J := rowsOf m n (← nums jt)
          let R ← nums rt
          match rest with
          | ntr :: rest =>
            let ntr ← nat ntr
            let trials := (← parseTrials n ntr rest).toArray
            let pr := mkProb l0 trials
            let e := mkEnv kd h J R trials
            let st0 : St Nat (SState BigF) BigF := start pr (if cached == 1 then some l0 else none) 0 s
            let pre := (List.range ntr).map fun i => loop pr rej e (i + 1) st0
            let fin := lmStep pr rej e (if cached == 1 then some l0 else none) 0 s
            if (fin :: pre).any (fun st => st.p == junk) then throw "contract-retr"
            return fmt ((pre.flatMap stOut) ++ stOut fin)
          | _ => throw "arity"
        | _ => throw "arity"
      | _ => throw "arity"),
  -- c08.gn cached(0/1) L0 nsteps (raise loss)*  -> (p loss last haveLast)* after each call
  ("c08.gn", fun ts => do
      match ts with
      | cached :: l0 :: nst :: rest =>
        let cached ← nat cached
        let l0 ← num l0
        let nst ← nat nst
        let xs ← nums rest
        let steps := (parsePairs xs).toArray
        if steps.size != nst then throw "arity"
        -- point i = parameters after i successful updates; loss at point i+1 = loss token of the step that got there
        let lossTab : Nat → BigF := fun p => if p == 0 then l0 else
          -- the (p)-th successful step
          let succ := steps.toList.filter (fun (x : BigF × BigF) => x.1.isZero)
          match succ[p - 1]? with
          | some x => x.2
          | none => BigF.zero
        let pr : Prob Nat Int BigF := { lossAt := lossTab, retr := fun p _ => p + 1, neg := fun d => -d }
        let o0 : GNOpt Nat BigF := { p := 0, loss := if cached == 1 then some l0 else none, last := none }
        let solves : List (Nat → Option Int) := steps.toList.map fun x => fun _ => if x.1.isZero then some 1 else none
        let outs := (List.range nst).map fun i => gnRun pr o0 (solves.take (i + 1))
        return fmt (outs.flatMap fun o =>
          [BigF.ofNat o.p, o.loss.getD BigF.zero, o.last.getD BigF.zero, BigF.ofNat (if o.last.isSome then 1 else 0)])
      | _ => throw "arity"),
  -- c08.lossk <kspec> nouts (nitems dim values*)*  -> loss of an optimizer constructed with kernel=<kspec>
  ("c08.lossk", fun ts => do
      let (spec, rest) ← parseKSpec ts
      match rest with
      | no :: rest =>
        let no ← nat no
        let outs ← parseOutputs no rest
        let v ← lossOfE spec outs
        return fmt [v]
      | _ => throw "arity"),
  -- c08.init kind a b  -> damping radius down of the param group a strategy constructor produces
  --   kind 0: Constant(damping=a); 1: Adaptive(damping=a, down=b); 2: TrustRegion(radius=a, down=b)
  ("c08.init", fun ts => do
      match ts with
      | [kd, a, b] =>
        let kd ← nat kd
        let a ← num a
        let b ← num b
        let s := match kd with
          | 0 => initConstant a
          | 1 => initAdaptive a b
          | _ => initTrust a b
        return fmt [s.damping, s.radius, s.down]
      | _ => throw "arity"),
  -- c08.normal m n J(m*n) lam(n) D(n) R(m) -> lhs(n) = Jᵀ(J D) + Λ⊙D ; rhs(n) = −JᵀR ; den = qualityDen ; ‖J D‖² + 2·DᵀΛD
  --   (the two sides of `SolvesDamped`, and the two sides of `qualityDen_pos_of_normal_equations`)
  ("c08.normal", fun ts => do
      match ts with
      | m :: n :: rest =>
        let m ← nat m
        let n ← nat n
        let (jt, rest) ← Wire.take (m * n) rest
        let (lt, rest) ← Wire.take n rest
        let (dt, rest) ← Wire.take n rest
        let (rt, rest) ← Wire.take m rest
        if !rest.isEmpty then throw "arity"
        let J := rowsOf m n (← nums jt)
        let lam ← nums lt
        let Dv ← nums dt
        let R ← nums rt
        let lhs := DVec.add (tmulVec Dv.length J (DMat.mulVec J Dv)) (List.zipWith (· * ·) lam Dv)
        let rhs := DVec.neg (tmulVec Dv.length J R)
        let u := DMat.mulVec J Dv
        return fmt (lhs ++ rhs ++ [qualityDen J Dv R, DVec.normSq u + k 2 * wsq lam Dv])
      | _ => throw "arity"),
  -- c08.diag lo hi m n J(m*n) nd damps(nd) -> diag(A)(n) as LM.step leaves it at the trial after the dampings `damps`
  --   (clamp once, then d += d*damping per trial) ; Λ(n) = that − diag(JᵀJ)   (model lmDiag / lmShiftVec)
  ("c08.diag", fun ts => do
      match ts with
      | lo :: hi :: m :: n :: rest =>
        let lo ← num lo
        let hi ← num hi
        let m ← nat m
        let n ← nat n
        let (jt, rest) ← Wire.take (m * n) rest
        match rest with
        | nd :: rest =>
          let nd ← nat nd
          let (dt, rest) ← Wire.take nd rest
          if !rest.isEmpty then throw "arity"
          let J := rowsOf m n (← nums jt)
          let damps ← nums dt
          let a := diagJtJ n J
          return fmt (a.map (fun x => lmDiag lo hi x damps) ++ lmShiftVec n lo hi damps J)
        | _ => throw "arity"
      | _ => throw "arity"),
  -- c08.loss nk kernel* nouts (nitems dim values*)*  -> loss
  ("c08.loss", fun ts => do
      match ts with
      | nk :: rest =>
        let nk ← nat nk
        let (ks, rest) ← parseKernels nk rest
        match rest with
        | no :: rest =>
          let no ← nat no
          let outs ← parseOutputs no rest
          return fmt [robustLoss ks outs]
        | _ => throw "arity"
      | _ => throw "arity")
]

end PP.Driver
