"""C04 — hardening pass 5: streams for the input classes (29)–(36) of /tmp/lessons5.txt.

(32) `run_poison`     module-level constants written in place by ANOTHER operation on a degenerate shape: between identical probe calls
                      (every read of every group, batched AND single-item, forward + backward) every read of every group is run forward +
                      backward on SINGLE items — unbatched `()`, `(1,)`, `(1,1)` — and on batches; the probes must reproduce bit for bit.
(34) `run_huge`       sizes beyond 2^17: quick 2^17+37 for the cheap entry points, thorough 2^18+1, 2^18+37 (all) and 2^20+1 (cheap ones);
                      the LAST `n % 2^k` items (k = 5, 10, 14, 16, 17) against the call on that tail alone, first / last items, split.
(30) `run_lowp`       float16 / bfloat16 operands (every read the clean tree supports): dtype of value and gradients, values against
                      float64 on the rounded operands.  (complex / integer operands are not Lie-group data: observations only, notes.)
(36) `tiny_values`    corpus of tiny-but-non-zero rotations (1e-5 … 1e-11), nearly equal operands (Y = Exp(1e-6)·X, p ≈ t, s = 1 ± 1e-6),
                      with huge (2^40) and tiny (2^-40) cotangents — consumed by c04.run_corpus; `run_cotscale`: gradients for
                      cotangents scaled by 2^±40, 2^±66 are the exactly scaled gradients (an absolute tolerance anywhere breaks this).
(29) `run_defaults`   several modules / wrapped functions used interleaved through modjac / jacrev with every optional argument OMITTED,
                      each compared with the Jacobian assembled row by row (documented default behaviour).
(31) `run_callbacks`  user functions / modules that return their argument, a parameter, a view of it, or the same output twice.
(33) property-typed attributes of user subclasses: `run_subprops` (ltype stored behind a property).
(35) no selection / ranking operation in this property.
"""
from __future__ import annotations

import math

import torch

from . import common, util_lie as U
from .util_autograd_h2 import T, same, close, cot_for, mixed_inputs, reads, ref_jacobian
from . import util_autograd_h4 as H4

GROUPS = U.GROUPS
GD, AD_ = U.GDIM, U.ADIM


def _c04():
    from . import c04
    return c04


# ----------------------------------------------------------------------------- (32) constants poisoned by another operation

def run_poison(ctx, only=None):
    P = U.pp()
    C = _c04()
    rd = reads(P)
    for dtype in (("float64",) if ctx.quick else ("float64", "float32")):
        # batched probes (3 items: `.expand().contiguous()` copies, they cannot write a shared constant) — every read of every group
        def probes():
            res = {}
            for gi, g in enumerate(GROUPS):
                X, a, p = mixed_inputs(P, g, dtype, 3, gi)
                for name, fn in rd:
                    try:
                        res[(g, name)] = C.grads_of(P, fn, g, X, a, p)
                    except Exception as e:
                        res[(g, name)] = ("raised", type(e).__name__)
            return res

        def singles(order):
            """the same reads on single items (unbatched and (1,1)), in the given order of (group, read)"""
            res = {}
            for g, name in order:
                X, a, p = mixed_inputs(P, g, dtype, 3, GROUPS.index(g))
                cot = cot_for(base[(g, name)][0]) if not isinstance(base[(g, name)][0], str) else None
                for lab, i, sl in (("unbatched", 1, (X[1], a[1], p[1])), ("(1,1)", 2, (X[2:3, None], a[2:3, None], p[2:3, None]))):
                    try:
                        c_ = None if cot is None else (cot[i] if lab == "unbatched" else cot[i:i + 1, None])
                        res[(g, name, lab)] = C.grads_of(P, dict(rd)[name], g, *sl, c_)
                    except Exception as e:
                        res[(g, name, lab)] = ("raised", type(e).__name__)
            return res

        def differs(r0, r1):
            for k in r0:
                a_, b_ = r0[k], r1[k]
                if isinstance(a_[0], str) or isinstance(b_[0], str):
                    if a_ != b_:
                        return k
                    continue
                if not same(a_[0], b_[0]) or not all(same(x, y) for x, y in zip(a_[1], b_[1])):
                    return k
            return None
        base = probes()
        ctx.count("poison.probes", len(base))
        chunk = []
        shapes = [(), (1,), (1, 1), (2,)]
        k = 0
        for gi, g in enumerate(GROUPS):
            X, a, p = mixed_inputs(P, g, dtype, 4, gi + 1)
            for ri, (name, fn) in enumerate(rd):
                for si, shp in enumerate(shapes):
                    if only is not None and only != (g, name):
                        continue
                    if ctx.quick and dtype == "float32" and (si + ri + gi) % 3:
                        continue
                    n = int(math.prod(shp))
                    sl = [t[:n].reshape(shp + t.shape[-1:]) if shp else t[3] for t in (X, a, p)]
                    case = {"stream": "poison", "type": g, "read": name, "dtype": dtype, "shape": list(shp)}
                    try:
                        C.grads_of(P, fn, g, *sl)             # forward + backward on a degenerate shape
                        with torch.no_grad():
                            fn(*C.lie(P, g, sl[0].clone(), sl[1].clone()), sl[2].clone())
                    except Exception as e:
                        ctx.fail(case, f"raises: {name} on {g} with batch shape {shp} ({dtype}) raised {type(e).__name__}: {str(e)[:120]}")
                        continue
                    ctx.count("poison.calls")
                    ctx.note_case(("poison", g, name, dtype, shp), True)
                    chunk.append(case)
                    k += 1
                    if k % 24 == 0:
                        bad = differs(base, probes())
                        if bad is not None:
                            sus = [(c_["type"], c_["read"], tuple(c_["shape"])) for c_ in chunk]
                            ctx.fail(dict(chunk[-1], probe=list(bad), suspects=sus),
                                     f"poison: the batched call of {bad[1]} on {bad[0]} ({dtype}) returns other values / gradients than at the start of the "
                                     f"stream after forward+backward calls of other operations on single items / all-1 batches (one of: {sus[:24]})")
                            base = probes()
                        chunk = []
        bad = differs(base, probes())
        if bad is not None:
            ctx.fail(dict(stream="poison", type=bad[0], read=bad[1], dtype=dtype, probe=list(bad)),
                     f"poison: the batched call of {bad[1]} on {bad[0]} ({dtype}) returns other values / gradients than at the start of the stream")
        # single-item reads: in two different orders they agree bit for bit, and they equal the rows of the batched probes
        keys = [k_ for k_ in base if not (ctx.quick and (len(k_[1]) + GROUPS.index(k_[0])) % 2)]
        s1, s2 = singles(keys), singles(list(reversed(keys)))
        bad = differs(s1, s2)
        if bad is not None:
            ctx.fail(dict(stream="poison", type=bad[0], read=bad[1], dtype=dtype, shape=bad[2]),
                     f"poison: the single-item call ({bad[2]}) of {bad[1]} on {bad[0]} ({dtype}) depends on which other single-item calls ran before it")
        for (g, name, lab), r in s1.items():
            b3 = base[(g, name)]
            if isinstance(r[0], str) or isinstance(b3[0], str):
                continue
            i = 1 if lab == "unbatched" else 2
            if not H4.rows_close(b3[0][i].reshape(1, -1), r[0].reshape(1, -1), dtype, 1024) or \
               not all(H4.rows_close(None if x is None else x[i].reshape(1, -1), None if y is None else y.reshape(1, -1), dtype, 1024) for x, y in zip(b3[1], r[1])):
                ctx.fail(dict(stream="poison", type=g, read=name, dtype=dtype, item=i, shape=lab),
                         f"poison: the single-item call ({lab}) of {name} on {g} differs from item {i} of the batched call ({dtype})")


# ----------------------------------------------------------------------------- (34) sizes beyond 2^17

CHEAP = {"SO3": None, "RxSO3": None, "SE3": ("Inv", "Act", "Act4", "Adj", "AdjT", "Mul", "Log", "Exp"),
         "Sim3": ("Inv", "Act", "Act4")}


HUGE_QUICK = {"SO3": "Act", "SE3": "Act4", "RxSO3": "Mul", "Sim3": "Inv"}


def run_huge(ctx, only=None):
    P = U.pp()
    C = _c04()
    for gi, g in enumerate(GROUPS):
        for fi, (name, node, ltypes) in enumerate(H4.families(g)):
            if only is not None and only != (g, name):
                continue
            cheap = CHEAP[g] is None or name in CHEAP[g]
            if ctx.quick:
                sizes = [(1 << 17) + 37] if HUGE_QUICK[g] == name else []      # quick: one cheap entry point per group (thorough: all)
            else:
                sizes = [(1 << 18) + 1, (1 << 18) + 37] + ([(1 << 20) + 1] if cheap else [])
            for n in sizes:
                dtype = "float64" if n < (1 << 20) else "float32"
                case = {"stream": "huge", "type": g, "read": name, "dtype": dtype, "items": n}
                try:
                    flat = H4.leaf_tensors(P, g, dtype, ltypes, n, salt=gi)
                    out, gs, cot = H4.run_node(P, C, node, ltypes, flat)
                    ctx.count("huge.calls")
                    ctx.count(f"huge.items{n}")
                    ctx.note_case(("huge", g, name, dtype, n), True)
                    if out.shape[0] != n or any(x is not None and x.shape[0] != n for x in gs):
                        ctx.fail(case, f"huge: {name} on {g} with {n} items returns {tuple(out.shape)}")
                        continue
                    if not bool(torch.isfinite(out).all()) or any(x is not None and not bool(torch.isfinite(x).all()) for x in gs):
                        ctx.fail(case, f"huge: non-finite value / gradient of {name} on {g} in a batch of {n} items ({dtype})")
                        continue
                    # the last n % 2^k items, and the first item, against the call on that piece alone
                    tails = sorted({n % (1 << k) for k in (5, 10, 14, 16, 17, 18)} - {0})
                    pieces = [(n - r, n) for r in tails if r <= 4096] + [(0, 1), (n // 2, n // 2 + 3)]
                    for lo, hi in pieces:
                        o1, g1, _ = H4.run_node(P, C, node, ltypes, [t[lo:hi] for t in flat], cot[lo:hi])
                        ok = H4.rows_close(out[lo:hi], o1, dtype) and all(H4.rows_close(None if x is None else x[lo:hi], y, dtype) for x, y in zip(gs, g1))
                        if not ok:
                            ctx.fail(dict(case, piece=[lo, hi]), f"huge: items [{lo}:{hi}] of a batch of {n} of {name} on {g}: value / gradient differs "
                                                                 f"from the call on those items alone ({dtype})")
                            break
                except Exception as e:
                    ctx.fail(case, f"raises: {name} on {g} with a batch of {n} items ({dtype}) raised {type(e).__name__}: {str(e)[:140]}")


# ----------------------------------------------------------------------------- (30) float16 / bfloat16

LOWP = {"float16": (torch.float16, 2.0 ** -10), "bfloat16": (torch.bfloat16, 2.0 ** -7)}
LOWP_UNSUPPORTED = {("Sim3", "Log"), ("Sim3", "Jinvp")}      # torch.inverse has no half kernels (observation, notes)


def run_lowp(ctx, only=None):
    P = U.pp()
    C = _c04()
    for gi, g in enumerate(GROUPS):
        # well conditioned operands: rotations of 0.4 … 1.6 rad, translations / points O(1), scales near 1
        n = 4
        ang = [0.4 + 0.4 * i for i in range(n)]
        axes = [(1.0, 0.0, 0.0), (0.3, -0.5, 0.8), (-0.6, 0.64, 0.48), (0.0, 0.6, -0.8)]
        rows = []
        for i in range(n):
            q = C.quat_of(ang[i], axes[i], neg=(i == 2))
            v = ([0.5 * i - 0.7, 0.3, -0.4 + 0.2 * i] if g in ("SE3", "Sim3") else []) + q + ([1.0 + 0.25 * (i - 1)] if g in ("RxSO3", "Sim3") else [])
            rows.append(v)
        X64 = torch.tensor(rows, dtype=torch.float64)
        a64 = torch.tensor([[0.3 * math.sin(1.0 + i + 2 * j) for j in range(AD_[g])] for i in range(n)], dtype=torch.float64)
        p64 = torch.tensor([[1.2 * math.cos(0.5 + i + 2 * j) for j in range(3)] for i in range(n)], dtype=torch.float64)
        for dname, (D, eps) in LOWP.items():
            for name, fn in reads(P):
                if only is not None and only != (g, name):
                    continue
                if (g, name) in LOWP_UNSUPPORTED:
                    ctx.count("lowp.unsupported-on-clean-tree")
                    continue
                case = {"stream": "lowp", "type": g, "read": name, "dtype": dname}
                try:
                    Xd, ad, pd = X64.to(D), a64.to(D), p64.to(D)
                    o, gs = C.grads_of(P, fn, g, Xd, ad, pd)
                    o_ref, g_ref = C.grads_of(P, fn, g, Xd.double(), ad.double(), pd.double(), cot_for(o).double())
                    ctx.count("lowp.calls")
                    ctx.note_case(("lowp", g, dname, name), True)
                    if o.dtype != D or any(x is not None and x.dtype != D for x in gs):
                        ctx.fail(case, f"lowp: {name} on {g} with {dname} operands returns {o.dtype} / gradients "
                                       f"{[None if x is None else str(x.dtype) for x in gs]}")
                        continue
                    if o.shape != o_ref.shape or any((x is None) != (y is None) or (x is not None and x.shape != y.shape) for x, y in zip(gs, g_ref)):
                        ctx.fail(case, f"lowp: {name} on {g} with {dname} operands: shapes differ from float64")
                        continue
                    for lab, x, y in [("value", o, o_ref)] + [(f"gradient #{k}", x, y) for k, (x, y) in enumerate(zip(gs, g_ref)) if x is not None]:
                        xd = x.double()
                        sc = y.abs().amax(dim=-1, keepdim=True) + 1.0
                        if not bool(torch.isfinite(xd).all()) or bool(((xd - y).abs() > 96 * eps * sc).any()):
                            err = float(((xd - y).abs() / sc).max())
                            ctx.fail(dict(case, what=lab), f"lowp: {lab} of {name} on {g} with {dname} operands is off by {err:.2e} (relative to 1 + row "
                                                           f"maximum) from the float64 evaluation of the same operands; allowed {96 * eps:.2e}")
                            break
                except Exception as e:
                    ctx.fail(case, f"raises: {name} on {g} with {dname} operands raised {type(e).__name__}: {str(e)[:140]}")


# ----------------------------------------------------------------------------- (36) hidden tolerances

def tiny_values(op, g, dtype, ltypes, n):
    """rows for every leaf of the single-Function program `op`: tiny-but-non-zero rotations, nearly equal operands"""
    C = _c04()
    name = op[1]
    kind = name if name != "MatrixA" else "Exp"
    tiny = [1e-5, 3e-6, 1e-6, 1e-7, 3e-8, 1e-9, 1e-10, 1e-11, 2e-6, 5e-5, 1e-8, 4e-7]
    if kind == "Jinvp":
        tiny = [1e-3 * (1 + 0.5 * i) for i in range(12)]      # Jinvp: away from the zero rotation (quantifier)
    axes = C.CORPUS_AXES
    trans = [[1.0, -2.0, 0.5], [0.0, 0.0, 0.0], [1e-6, 0.0, 0.0], [3.0, 3.0, 3.0], [1e-7, -1e-7, 1e-7], [0.25, 0.0, -1.0]]

    def group_row(i, ang=None, base=None):
        th = tiny[i % len(tiny)] if ang is None else ang
        q = C.quat_of(th, axes[i % len(axes)], neg=(i % 4 == 3))
        v = []
        if g in ("SE3", "Sim3"):
            v += trans[i % len(trans)]
        v += q
        if g in ("RxSO3", "Sim3"):
            v.append([1.0 + 1e-6, 1.0 - 1e-6, 1.0, 1.0 + 1e-9, 2.0, 1.0 - 3e-8][i % 6])
        return v

    def alg_row(i):
        th = tiny[(i + 3) % len(tiny)]
        ax = axes[(i + 1) % len(axes)]
        n_ = math.sqrt(sum(x * x for x in ax))
        v = []
        if g in ("SE3", "Sim3"):
            v += [[0.3, -0.2, 0.1], [1e-6, 0.0, 1e-6], [0.0, 0.0, 0.0], [0.2, 0.2, 0.2]][i % 4]
        v += [th * x / n_ for x in ax]
        if g in ("RxSO3", "Sim3"):
            v.append([1e-6, -1e-6, 1e-9, 0.1, -3e-8, 0.0][i % 6])
        return v
    vals, xrows = [], None
    for li, ty in enumerate(ltypes):
        rows = []
        for i in range(n):
            if ty[0] == "G":
                if li == 1:       # Y nearly equal to X: same translation / scale, rotation angle changed by 1e-6 relative
                    r = group_row(i, ang=tiny[i % len(tiny)] * (1 + 1e-6) if i % 2 == 0 else 0.7)
                else:
                    r = group_row(i)
            elif ty[0] == "A":
                r = alg_row(i)
            else:
                t = xrows[i][:3] if (xrows is not None and g in ("SE3", "Sim3")) else [1.0, 2.0, -1.0]
                r = [[x * (1 + 1e-6) + 1e-7 for x in t], [1.0, 2.0, -1.0], [1e-6, -1e-6, 1e-6], [1e3, 0.0, 1e-3]][i % 4]
                if ty[0] == "E4":
                    r = r + [[1.0, 1.0 + 1e-6, 1e-6, 0.0][i % 4]]
            rows.append(r)
        if li == 0:
            xrows = rows
        vals.append(rows)
    return vals


def tiny_cot(n_items, dim):
    """generic directions, alternately scaled by 2^40, 2^-40, 1 (a heuristic with an absolute tolerance sees them differently)"""
    C = _c04()
    base = C.corpus_cot(n_items, dim)
    sc = [2.0 ** 40, 2.0 ** -40, 1.0]
    return [[x * sc[i % 3] for x in row] for i, row in enumerate(base)]


def run_cotscale(ctx, only=None):
    P = U.pp()
    C = _c04()
    for gi, g in enumerate(GROUPS):
        for dtype in ("float64", "float32"):
            X, a, p = mixed_inputs(P, g, dtype, 3, gi + 4)
            for name, fn in reads(P):
                if only is not None and only != (g, name):
                    continue
                if ctx.quick and dtype == "float32" and (len(name) + gi) % 2:
                    continue
                case = {"stream": "cotscale", "type": g, "read": name, "dtype": dtype}
                try:
                    o0, _ = C.grads_of(P, fn, g, X, a, p)
                    c = cot_for(o0)
                    g_c = C.grads_of(P, fn, g, X, a, p, c)[1]
                    ctx.note_case(("cotscale", g, dtype, name), True)
                    exps = (40, -40, 66, -66) if dtype == "float64" else (40, -40)
                    for e_ in exps:
                        s = 2.0 ** e_
                        ctx.count("cotscale.calls")
                        gs = C.grads_of(P, fn, g, X, a, p, c * s)[1]
                        for x, y in zip(gs, g_c):
                            if x is None:
                                continue
                            want = y * s
                            okm = torch.isfinite(want) & ((want == 0) | (want.abs() > 1e-30))      # keep clear of under / overflow
                            if not bool((x[okm] == want[okm]).all()):
                                ctx.fail(dict(case, exponent=e_), f"cotscale: gradient of {name} on {g} for the cotangent 2^{e_} * c is not 2^{e_} times the "
                                                                  f"gradient for c ({dtype}) — an absolute threshold acts on the cotangent")
                                break
                except Exception as e:
                    ctx.fail(case, f"raises: {name} on {g} with scaled cotangents ({dtype}) raised {type(e).__name__}: {str(e)[:140]}")


# ----------------------------------------------------------------------------- (29) defaults, (31) callbacks, (33) properties

def run_defaults(ctx, only=None):
    """several modules used interleaved through modjac / modjacrev / jacrev with every optional argument omitted"""
    P = U.pp()
    C = _c04()
    nn = torch.nn

    class Pose(nn.Module):
        def __init__(self, g, X, name):
            super().__init__()
            self.g, self.name = g, name
            self.X = P.Parameter(P.LieTensor(X.clone(), ltype=U.ltype(g)))

        def forward(self, a, p):
            return dict(reads(P))[self.name](self.X, a, p)
    mods = []
    for gi, g in enumerate(GROUPS):
        X, a, p = mixed_inputs(P, g, "float64", 2, gi)
        aL = P.LieTensor(a, ltype=U.ltype(U.ALG[g]))
        for name in (("Act", "Log") if ctx.quick else ("Act", "AdjT", "Log", "Retr")):
            if only is not None and only != (g, name):
                continue
            m = Pose(g, X, name)
            out0, J0 = ref_jacobian(P, dict(reads(P))[name], g, X, a, p)
            mods.append((g, name, m, aL, p, J0[0]))
    for rnd in range(2):
        order = mods if rnd == 0 else list(reversed(mods))
        for g, name, m, aL, p, J in order:
            case = {"stream": "defaults", "type": g, "read": name, "dtype": "float64", "round": rnd}
            try:
                ctx.count("defaults.calls")
                ctx.note_case(("defaults", g, name, rnd), True)
                J1 = P.optim.functional.modjac(m, input=(aL, p))          # every option omitted
                J1 = J1[0] if isinstance(J1, (tuple, list)) else J1
                if not close(T(J1), J, 1e-9):
                    ctx.fail(case, f"defaults: modjac(model, input) with all options omitted differs from the row-by-row Jacobian ({name} on {g}, "
                                   f"round {rnd} of interleaved use of {len(mods)} modules)")
                J2 = P.func.jacrev(lambda X_: dict(reads(P))[name](X_, aL, p))(m.X)      # argnums omitted
                if not close(T(J2), J, 1e-9):
                    ctx.fail(case, f"defaults: pp.func.jacrev(f) with argnums omitted differs from the row-by-row Jacobian ({name} on {g}, round {rnd})")
            except Exception as e:
                ctx.fail(case, f"raises: modjac / jacrev with default options on {name} ({g}) raised {type(e).__name__}: {str(e)[:140]}")


def run_callbacks(ctx, only=None):
    """user functions that return their argument / a parameter / a view of it / the same output twice"""
    P = U.pp()
    nn = torch.nn
    for gi, g in enumerate(GROUPS):
        if only is not None and only[0] != g:
            continue
        if ctx.quick and g in ("SO3", "SE3") and only is None:
            continue          # quick: the two groups with a scale slot
        X, a, p = mixed_inputs(P, g, "float64", 2, gi)
        GT = U.ltype(g)
        n = X.numel()
        eye = torch.eye(n, dtype=torch.float64).reshape(X.shape + X.shape)

        class Ident(nn.Module):
            def __init__(self):
                super().__init__()
                self.X = P.Parameter(P.LieTensor(X.clone(), ltype=GT))

            def forward(self):
                return self.X

        class View(Ident):
            def forward(self):
                return self.X.tensor()[..., :3]

        class Twice(Ident):
            def forward(self):
                y = self.X.Inv()
                return y, y
        case = {"stream": "callbacks", "type": g, "read": "identity", "dtype": "float64"}
        try:
            ctx.note_case(("callbacks", g), True)
            for lab, M_, want in (("returns its parameter", Ident, eye), ("returns a view of its parameter", View, eye[..., :3, :, :])):
                m = M_()
                before = m.X.detach().clone()
                J = P.optim.functional.modjac(m)
                J = J[0] if isinstance(J, (tuple, list)) else J
                ctx.count("callbacks.calls")
                if tuple(T(J).shape) != tuple(want.shape) or not bool((T(J) == want).all()):
                    ctx.fail(dict(case, model=lab), f"callbacks: modjac of a module that {lab} ({g}) is not the identity (selection) matrix")
                if not same(T(m.X.detach()), T(before)):
                    ctx.fail(dict(case, model=lab), f"callbacks: modjac changed the parameter of a module that {lab} ({g})")
            m = Twice()
            J = P.optim.functional.modjac(m)
            Jl = [T(j) for j in (J if isinstance(J, (tuple, list)) else [J])]
            flatJ = [x for j in Jl for x in (j if isinstance(j, (tuple, list)) else [j])]
            if len(flatJ) >= 2 and not same(T(flatJ[0]), T(flatJ[1])):
                ctx.fail(dict(case, model="returns the same output twice"), f"callbacks: modjac of a module returning (y, y) gives two different Jacobians ({g})")
            XL = P.LieTensor(X.clone(), ltype=GT)
            J = P.func.jacrev(lambda X_: X_)(XL)
            if not bool((T(J) == eye).all()):
                ctx.fail(dict(case, model="jacrev(lambda X: X)"), f"callbacks: pp.func.jacrev of the identity function is not the identity ({g})")
            J = P.func.jacrev(lambda X_: X_.tensor()[..., 3:])(XL)
            if not bool((T(J) == eye[..., 3:, :, :]).all()):
                ctx.fail(dict(case, model="jacrev(view)"), f"callbacks: pp.func.jacrev of a function returning a view of its argument is wrong ({g})")
            if not same(T(XL), X):
                ctx.fail(case, f"callbacks: jacrev changed its argument ({g})")
        except Exception as e:
            ctx.fail(case, f"raises: modjac / jacrev on functions returning their argument ({g}) raised {type(e).__name__}: {str(e)[:140]}")


def run_subprops(ctx, only=None):
    """(33) a user subclass that stores `ltype` behind a property"""
    P = U.pp()
    C = _c04()

    class PropLie(P.LieTensor):
        @property
        def ltype(self):
            return self.__dict__.get("_my_ltype")

        @ltype.setter
        def ltype(self, v):
            self.__dict__["_my_ltype"] = v
    for gi, g in enumerate(GROUPS):
        X, a, p = mixed_inputs(P, g, "float64", 3, gi + 1)
        for name, fn in reads(P):
            if only is not None and only != (g, name):
                continue
            case = {"stream": "subprops", "type": g, "read": name, "dtype": "float64"}
            try:
                o0, g0 = C.grads_of(P, fn, g, X, a, p)
                Xl, al, pl = X.clone().requires_grad_(True), a.clone().requires_grad_(True), p.clone().requires_grad_(True)
                XL, aL = Xl.as_subclass(PropLie), al.as_subclass(PropLie)
                XL.ltype, aL.ltype = U.ltype(g), U.ltype(U.ALG[g])
                out = T(fn(XL, aL, pl))
                gs = torch.autograd.grad(out, [Xl, al, pl], cot_for(out), allow_unused=True)
                ctx.count("subprops.calls")
                ctx.note_case(("subprops", g, name), True)
                if not same(out.detach(), o0) or not all(same(None if x is None else x.detach(), y) for x, y in zip(gs, g0)):
                    ctx.fail(case, f"subprops: {name} on {g} with operands of a subclass that keeps `ltype` behind a property differs from LieTensor")
            except Exception as e:
                ctx.fail(case, f"raises: {name} on {g} with property-typed ltype raised {type(e).__name__}: {str(e)[:140]}")


STREAMS = {"poison": run_poison, "huge": run_huge, "lowp": run_lowp, "cotscale": run_cotscale, "defaults": run_defaults,
           "callbacks": run_callbacks, "subprops": run_subprops}


def replay_case(ctx, c) -> bool:
    n0 = len(ctx.failures) + len(ctx.disagreements)
    print(f"  stream {c['stream']}: {c.get('read')} on {c.get('type')} ({c.get('dtype')}) — re-running that entry of the stream")
    STREAMS[c["stream"]](ctx, only=None if c["stream"] == "poison" else (c.get("type"), c.get("read")))
    for f in ctx.failures:
        print("  fails:", f["what"])
    return len(ctx.failures) + len(ctx.disagreements) == n0


# ----------------------------------------------------------------------------- (37) every subset of operands requiring grad

def run_subsets(ctx, only=None):
    """every binary operator of every group with X only / the second operand only / both requiring grad; constants as plain tensors and
    as LieTensors without grad; through autograd.grad, backward() and jacrev(argnums=k); also with the differentiable operand being an
    intermediate result.  A gradient must never be None / zero / different from the one obtained when every operand requires grad."""
    P = U.pp()
    C = _c04()
    for gi, g in enumerate(GROUPS):
        GT, AT = U.ltype(g), U.ltype(U.ALG[g])
        for dtype in (("float64",) if ctx.quick else ("float64", "float32")):
            X, a, p = mixed_inputs(P, g, dtype, 3, gi + 2)
            Y = mixed_inputs(P, g, dtype, 3, gi + 6)[0]
            p4 = torch.cat([p, torch.full_like(p[..., :1], 0.5)], -1)
            # name, kind of the second operand, function(XL, S)
            ops = [("Mul", "G", Y, lambda XL, S: XL @ S), ("Act", "E", p, lambda XL, S: XL.Act(S)), ("Act4", "E", p4, lambda XL, S: XL.Act(S)),
                   ("Adj", "A", a, lambda XL, S: XL.Adj(S)), ("AdjT", "A", a, lambda XL, S: XL.AdjT(S)), ("Jinvp", "A", a, lambda XL, S: XL.Jinvp(S)),
                   ("Retr", "A", a, lambda XL, S: XL.Retr(S)), ("add", "A", a, lambda XL, S: XL + S)]
            for name, kind, S0, fn in ops:
                if only is not None and only != (g, name):
                    continue
                case = {"stream": "subsets", "type": g, "read": name, "dtype": dtype}
                try:
                    def wrapS(t, lie=True):
                        if kind == "G":
                            return P.LieTensor(t, ltype=GT)
                        if kind == "A" and lie:
                            return P.LieTensor(t, ltype=AT)
                        return t
                    # reference: both operands require grad
                    Xl, Sl = X.clone().requires_grad_(True), S0.clone().requires_grad_(True)
                    out = T(fn(P.LieTensor(Xl, ltype=GT), wrapS(Sl)))
                    cot = cot_for(out)
                    gX, gS = torch.autograd.grad(out, [Xl, Sl], cot)
                    ctx.note_case(("subsets", g, dtype, name), True)
                    if not all(bool(torch.isfinite(t_).all()) for t_ in (out, gX, gS)):
                        ctx.fail(case, f"nan: non-finite result: value / gradient of {name} on {g} contains NaN/Inf for finite valid operands ({dtype})")
                        continue
                    if not bool((gX != 0).any()) or not bool((gS != 0).any()):
                        ctx.fail(case, f"subsets: a reference gradient of {name} on {g} is identically zero ({dtype})")
                        continue

                    def check(lab, got, want, loose=False):
                        ctx.count("subsets.calls")
                        if got is None:
                            ctx.fail(dict(case, pattern=lab), f"subsets: {name} on {g}, {lab}: the gradient is None ({dtype})")
                        elif not same(T(got).detach(), want) and not H4.rows_close(T(got).detach(), want, dtype, 64) and \
                                not (loose and close(T(got).detach(), want, 1e-9 if dtype == "float64" else 1e-4)):
                            z = "identically zero" if not bool((T(got) != 0).any()) else "different"
                            ctx.fail(dict(case, pattern=lab), f"subsets: {name} on {g}, {lab}: the gradient is {z} compared with the gradient obtained when "
                                                              f"every operand requires grad ({dtype})")
                    # X only; the other operand a constant: LieTensor without grad / plain tensor (where the API takes one)
                    for clab, lie in (("constant LieTensor", True), ("constant plain tensor", False)):
                        if (kind == "G" or name == "Retr") and not lie:
                            continue          # the API takes no plain tensor there
                        for route in ("grad", "backward"):
                            Xl = X.clone().requires_grad_(True)
                            o = T(fn(P.LieTensor(Xl, ltype=GT), wrapS(S0.clone(), lie)))
                            if route == "grad":
                                got = torch.autograd.grad(o, [Xl], cot, allow_unused=True)[0]
                            else:
                                o.backward(cot)
                                got = Xl.grad
                            check(f"only X requires grad, second operand a {clab}, {route}", got, gX)
                    # second operand only; X a constant LieTensor without grad
                    for slab, lie in (("LieTensor", True), ("plain tensor", False)):
                        if (kind == "G" or name == "Retr") and not lie:
                            continue
                        if kind == "E" and lie:
                            continue
                        for route in ("grad", "backward"):
                            Sl = S0.clone().requires_grad_(True)
                            o = T(fn(P.LieTensor(X.clone(), ltype=GT), wrapS(Sl, lie)))
                            if route == "grad":
                                got = torch.autograd.grad(o, [Sl], cot, allow_unused=True)[0]
                            else:
                                o.backward(cot)
                                got = Sl.grad
                            check(f"only the second operand ({slab}) requires grad, X a constant LieTensor, {route}", got, gS)
                    # jacrev(argnums=k) contracted with the cotangent
                    XL0, SL0 = P.LieTensor(X.clone(), ltype=GT), wrapS(S0.clone())
                    for k, want in ((0, gX), (1, gS)):
                        if ctx.quick and (k + len(name) + gi) % 2:
                            continue
                        J = T(P.func.jacrev(lambda x_, s_: fn(x_, s_), argnums=k)(XL0, SL0))
                        nd = out.dim()
                        got = torch.tensordot(cot, J, dims=nd)
                        check(f"jacrev(argnums={k})", got, want, loose=True)       # the vmapped route rounds differently
                    # the differentiable operand is an intermediate result, the other a constant
                    if kind == "A":
                        Zl = Y.clone().requires_grad_(True)
                        o = T(fn(P.LieTensor(X.clone(), ltype=GT), P.LieTensor(Zl, ltype=GT).Log()))
                        gotZ = torch.autograd.grad(o, [Zl], cot, allow_unused=True)[0]
                        Zl2, Xl2 = Y.clone().requires_grad_(True), X.clone().requires_grad_(True)
                        o2 = T(fn(P.LieTensor(Xl2, ltype=GT), P.LieTensor(Zl2, ltype=GT).Log()))
                        wantZ = torch.autograd.grad(o2, [Zl2, Xl2], cot)[0]
                        check("second operand = Z.Log() with only Z requiring grad", gotZ, wantZ)
                    Wl = X.clone().requires_grad_(True)
                    o = T(fn(P.LieTensor(Wl, ltype=GT).Inv().Inv(), wrapS(S0.clone())))
                    gotW = torch.autograd.grad(o, [Wl], cot, allow_unused=True)[0]
                    Wl2, Sl2 = X.clone().requires_grad_(True), S0.clone().requires_grad_(True)
                    o2 = T(fn(P.LieTensor(Wl2, ltype=GT).Inv().Inv(), wrapS(Sl2)))
                    wantW = torch.autograd.grad(o2, [Wl2, Sl2], cot)[0]
                    check("X = W.Inv().Inv() with only W requiring grad", gotW, wantW)
                except Exception as e:
                    ctx.fail(case, f"raises: {name} on {g} with a subset of the operands requiring grad ({dtype}) raised {type(e).__name__}: {str(e)[:140]}")


STREAMS["subsets"] = run_subsets


# ----------------------------------------------------------------------------- (39)/(41) layout x regime minority x size

LAYOUT_SHAPES = [(6, 4), (9, 5), (2, 3, 4), (4, 4, 4)]
LAYOUT_PATTERNS = ["one", "few", "most"]          # how many items are exactly degenerate: 1, <= 1/8, about 3/4
LAYOUT_BLOCKS = ["scale", "rotation", "translation", "all"]


def _generic_leaf(P, C, g, ty, n, dtype, li):
    """n generic items (every block away from its special value): rotations 0.4..1.6 rad, translations / points O(1), scales != 1"""
    D = U.dt(dtype)
    axes = [(1.0, 0.2, -0.3), (0.3, -0.5, 0.8), (-0.6, 0.64, 0.48), (0.1, 0.6, -0.8), (0.7, 0.7, 0.1)]
    rows = []
    for i in range(n):
        k = i + 5 * li
        if ty[0] == "G":
            q = C.quat_of(0.4 + 0.07 * (k % 17), axes[k % 5], neg=(k % 4 == 3))
            v = ([0.5 + 0.1 * (k % 7), -0.3 - 0.05 * (k % 5), 0.4 + 0.03 * k] if g in ("SE3", "Sim3") else []) + q + \
                ([1.3 + 0.05 * (k % 9)] if g in ("RxSO3", "Sim3") else [])
        elif ty[0] == "A":
            ax = axes[(k + 2) % 5]
            n_ = math.sqrt(sum(x * x for x in ax))
            th = 0.2 + 0.03 * (k % 11)
            v = ([0.2 + 0.02 * (k % 6), -0.15, 0.1 + 0.01 * k] if g in ("SE3", "Sim3") else []) + [th * x / n_ for x in ax] + \
                ([0.1 + 0.02 * (k % 5)] if g in ("RxSO3", "Sim3") else [])
            if g == "Sim3":
                v = [x * 0.6 for x in v]
        else:
            v = [1.0 + 0.1 * (k % 5), -0.5 + 0.07 * k, 0.8 - 0.02 * k] + ([1.0 + 0.1 * (k % 3)] if ty[0] == "E4" else [])
        rows.append(v)
    return torch.tensor(rows, dtype=torch.float64).to(D)


def _degenerate(t, g, ty, block, idx, jinvp_x=False):
    """make the items idx exactly degenerate in one block (in place on a copy)"""
    t = t.clone()
    tr = g in ("SE3", "Sim3")
    sc = g in ("RxSO3", "Sim3")
    for i in idx:
        if ty[0] == "G":
            o = 3 if tr else 0
            if block in ("rotation", "all") and not jinvp_x:
                t[i, o:o + 4] = torch.tensor([0.0, 0.0, 0.0, 1.0], dtype=t.dtype)
            if block in ("scale", "all") and sc:
                t[i, -1] = 1.0
            if block in ("translation", "all") and tr:
                t[i, :3] = 0.0
        elif ty[0] == "A":
            o = 3 if tr else 0
            if block in ("rotation", "all"):
                t[i, o:o + 3] = 0.0
            if block in ("scale", "all") and sc:
                t[i, -1] = 0.0
            if block in ("translation", "all") and tr:
                t[i, :3] = 0.0
        elif block in ("translation", "all"):
            t[i, :3] = 0.0
    return t


def permuted(t, shape):
    """the logical tensor `t.reshape(shape + (d,))` stored with its batch dimensions in REVERSED order (permuted strides)"""
    nb = len(shape)
    x = t.reshape(tuple(shape) + t.shape[-1:])
    rev = list(range(nb - 1, -1, -1)) + [nb]
    y = x.permute(rev).contiguous().permute(rev)
    assert tuple(y.shape) == tuple(x.shape) and not y.is_contiguous()
    return y


def run_layout(ctx, only=None):
    """batches of 24..64 items in 2-D / 3-D batch shapes with permuted strides, in which one / a few (<= 1/8) / most items are exactly
    degenerate in one block and the rest generic — every Function family of every group, values and gradients: against the same call
    on the contiguous copy, the degenerate and some generic items against the call on that item alone, and the Lean model on them"""
    P = U.pp()
    C = _c04()
    samples = []
    for gi, g in enumerate(GROUPS):
        for fi, (name, node, ltypes) in enumerate(H4.families(g)):
            if only is not None and only != (g, name):
                continue
            combos = [(s_, p_, b_) for s_ in range(4) for p_ in range(3) for b_ in range(4)]
            if ctx.quick:      # quick: two combinations per entry point, both with a degenerate MINORITY (one item / <= 1/8 of the items):
                # the scale block where the group has one (else the rotation block), then the rotation (else translation / all) block
                has_s = g in ("RxSO3", "Sim3")
                combos = [((fi + gi) % 4, (fi + gi) % 2, 0 if has_s else 1),
                          ((fi + gi + 1) % 4, (fi + gi + 1) % 2, 1 if has_s else (2 if g == "SE3" else 3))]
            for si, pi, bi in combos:
                shape, pat, block = LAYOUT_SHAPES[si], LAYOUT_PATTERNS[pi], LAYOUT_BLOCKS[bi]
                for dtype in (("float64",) if ctx.quick else ("float64", "float32")):
                    n = int(math.prod(shape))
                    k = 1 if pat == "one" else (max(2, n // 8) if pat == "few" else (3 * n) // 4)
                    idx = sorted({(7 * j + 4 + fi) % n for j in range(k)})
                    case = {"stream": "layout", "type": g, "read": name, "dtype": dtype, "shape": list(shape), "degenerate": pat, "block": block,
                            "items": idx[:8]}
                    try:
                        flat = [_degenerate(_generic_leaf(P, C, g, ty, n, dtype, li), g, ty, block, idx, jinvp_x=(name == "Jinvp" and li == 0))
                                for li, ty in enumerate(ltypes)]
                        perm = [permuted(t, shape) for t in flat]
                        out, gs, cot = H4.run_node(P, C, node, ltypes, perm)
                        ctx.count("layout.calls")
                        ctx.note_case(("layout", g, name, dtype, shape, pat, block), True)
                        od = out.shape[-1]
                        of, cf = out.reshape(n, od), cot.reshape(n, od)
                        gf = [None if x is None else x.reshape(n, x.shape[-1]) for x in gs]
                        if not bool(torch.isfinite(of).all()) or any(x is not None and not bool(torch.isfinite(x).all()) for x in gf):
                            ctx.fail(case, f"layout: non-finite value / gradient of {name} on {g}, batch {shape} with permuted strides ({dtype})")
                            continue
                        # the same data, contiguous
                        oc, gc, _ = H4.run_node(P, C, node, ltypes, [t.reshape(tuple(shape) + t.shape[-1:]) for t in flat], cf.reshape(cot.shape))
                        gcf = [None if x is None else x.reshape(n, x.shape[-1]) for x in gc]
                        if not H4.rows_close(of, oc.reshape(n, od), dtype) or not all(H4.rows_close(x, y, dtype) for x, y in zip(gf, gcf)):
                            bad = [i for i in range(n) if not H4.rows_close(of[i:i + 1], oc.reshape(n, od)[i:i + 1], dtype) or
                                   not all(H4.rows_close(None if x is None else x[i:i + 1], None if y is None else y[i:i + 1], dtype) for x, y in zip(gf, gcf))]
                            ctx.fail(dict(case, bad_items=bad[:8], values=[t[bad[0]].tolist() for t in flat] if bad else None),
                                     f"layout: {name} on {g}, batch {shape} with permuted strides, {pat} item(s) exactly degenerate in the {block} block: items "
                                     f"{bad[:8]} differ from the same call on the contiguous copy ({dtype})")
                            continue
                        # degenerate items and some generic ones against the call on that item alone
                        gen = [i for i in range(n) if i not in idx]
                        picks = idx[:3] + gen[:2] + gen[-1:]
                        for i in picks:
                            o1, g1, _ = H4.run_node(P, C, node, ltypes, [t[i:i + 1].clone() for t in flat], cf[i:i + 1])
                            if not H4.rows_close(of[i:i + 1], o1, dtype) or not all(H4.rows_close(None if x is None else x[i:i + 1], y, dtype) for x, y in zip(gf, g1)):
                                ctx.fail(dict(case, item=i, values=[t[i].tolist() for t in flat]),
                                         f"layout: item {i} ({'degenerate' if i in idx else 'generic'}) of {name} on {g}, batch {shape} with permuted strides, "
                                         f"{pat} degenerate in the {block} block: value / gradient differs from the call on that item alone ({dtype})")
                                break
                        if dtype == "float64" and not (ctx.quick and (si, pi, bi) != combos[0]):
                            smp = [idx[0], gen[0] if gen else idx[-1], idx[-1]]
                            c3 = {"stream": "layout", "prog": C.to_json(node), "ltypes": [list(t) for t in ltypes], "dtype": dtype,
                                  "lshapes": [[3] for _ in ltypes], "bshape": [3], "root": list(C.node_type(node, ltypes)),
                                  "values": [t[smp].tolist() for t in flat], "cot": cf[smp].tolist(), "tags": ["layout"] * len(ltypes),
                                  "sample": smp, "shape": list(shape), "degenerate": pat, "block": block, "fd": False}
                            samples.append((c3, of[smp].clone(), [None if x is None else x[smp].clone() for x in gf]))
                    except Exception as e:
                        ctx.fail(case, f"raises: {name} on {g}, batch {shape} with permuted strides ({dtype}) raised {type(e).__name__}: {str(e)[:140]}")
    # the model on the sampled rows of the permuted batches (value and gradient)
    todo = []
    for c3, o3, g3 in samples:
        try:
            r = C.run_case_impl(c3)
            r.band, r.trunc = C.site_info(c3, r)
        except Exception as e:
            ctx.fail(c3, f"raises: sample of a permuted batch: {type(e).__name__}: {str(e)[:120]}")
            continue
        r.out = o3.double()
        r.grads = [None if x is None else x.double() for x in g3]
        todo.append((c3, r))
    lines, spans = [], []
    for c3, r in todo:
        ls, index = C.model_lines(c3, common.EPS[c3["dtype"]], want_fd=False)
        spans.append((len(lines), len(ls), index))
        lines += ls
    reps = C.run_driver_parallel(ctx, lines) if lines else []
    for (c3, r), (o, k, index) in zip(todo, spans):
        M = C.collect_model(c3, reps[o:o + k], index)
        A = C.assess(c3, r, M) if False else None
        bad, _ = C.compare_grads(c3, r, M, r.band)
        ctx.count("layout.model-samples")
        tf = 4 * math.sqrt(common.EPS[c3["dtype"]])
        fb = None
        for b in range(3):
            e = C.nmax(abs(x - y) for x, y in zip(r.out[b].tolist(), M["eval"][b]))
            if not (e <= tf * max(1.0, max((abs(v) for v in M["eval"][b]), default=0.0))):
                fb = (b, e)
        ps = C.prog_str(C.from_json(c3["prog"]))
        if fb:
            ctx.fail(c3, f"layout: value of {ps} for item {c3['sample'][fb[0]]} of a batch {c3['shape']} with permuted strides ({c3['degenerate']} degenerate "
                         f"in the {c3['block']} block) differs from the model by {fb[1]:.3e}")
        elif bad:
            li, i, err, t = bad[0]
            ctx.disagree("layout.model", c3, f"layout: gradient of leaf {li} of {ps} for item {c3['sample'][i]} of a permuted batch {c3['shape']} differs from "
                                             f"the model's reverse sweep by {err:.3e} > {t:.3e}")


STREAMS["layout"] = run_layout


# ----------------------------------------------------------------------------- (49) layout of the upstream cotangent

def _fwd(P, C, node, ltypes, tensors):
    ts = [t.clone().requires_grad_(True) for t in tensors]
    leaves = [C.wrap_leaf(P, ty, x) for ty, x in zip(ltypes, ts)]
    out = T(C.as_tensor(P, C.run_impl(P, node, leaves, [])))
    if C.node_type(node, ltypes)[0] == "M":
        out = out.reshape(out.shape[:-2] + (out.shape[-2] * out.shape[-1],))
    return ts, out


def run_cotlayout(ctx, only=None):
    """the cotangent that reaches the operation has >= 2 batch dimensions in a transposed / permuted DENSE layout: (a) `grad_outputs=` given
    as such a tensor, (b) glue after the operation — `.transpose(0,1)` / `.permute(...)` / `.movedim(...)` — followed by a weighted sum.
    Gradients must equal those for the contiguous cotangent of the same values (bit for bit, else <= 64 eps), which are compared with the
    Lean model on sampled items."""
    P = U.pp()
    C = _c04()
    samples = []
    for gi, g in enumerate(GROUPS):
        for fi, (name, node, ltypes) in enumerate(H4.families(g)):
            if only is not None and only != (g, name):
                continue
            shapes = [(6, 4), (2, 3, 4)] if not ctx.quick else [[(6, 4), (2, 3, 4)][(fi + gi) % 2]]
            for shape in shapes:
                for dtype in (("float64",) if ctx.quick else ("float64", "float32")):
                    n = int(math.prod(shape))
                    nb = len(shape)
                    case = {"stream": "cotlayout", "type": g, "read": name, "dtype": dtype, "shape": list(shape)}
                    try:
                        flat = [_generic_leaf(P, C, g, ty, n, dtype, li) for li, ty in enumerate(ltypes)]
                        batched = [t.reshape(tuple(shape) + t.shape[-1:]) for t in flat]
                        ts, out = _fwd(P, C, node, ltypes, batched)
                        cot = cot_for(out)
                        g_ref = [None if x is None else x.detach() for x in torch.autograd.grad(out, ts, cot, allow_unused=True)]
                        ctx.note_case(("cotlayout", g, name, dtype, tuple(shape)), True)
                        if any(x is not None and (not bool(torch.isfinite(x).all()) or not bool((x != 0).any())) for x in g_ref):
                            ctx.fail(case, f"cotlayout: reference gradient of {name} on {g} is non-finite or identically zero ({dtype})")
                            continue

                        def check(lab, gs):
                            ctx.count("cotlayout.calls")
                            gs = [None if x is None else x.detach() for x in gs]
                            for k, (x, y) in enumerate(zip(gs, g_ref)):
                                if (x is None) != (y is None) or (x is not None and not same(x, y) and not H4.rows_close(x.reshape(n, -1), y.reshape(n, -1), dtype, 64)):
                                    z = "None" if x is None else ("identically zero" if not bool((x != 0).any()) else "different")
                                    ctx.fail(dict(case, cotangent=lab, leaf=k, values=[t[0].tolist() for t in flat]),
                                             f"cotlayout: {name} on {g}, batch {shape}: the gradient of leaf {k} for {lab} is {z} compared with the "
                                             f"gradient for the contiguous cotangent of the same values ({dtype})")
                                    return
                        # (a) grad_outputs with permuted dense strides
                        rev = list(range(nb - 1, -1, -1)) + [nb]
                        cot_p = cot.permute(rev).contiguous().permute(rev)
                        ts2, out2 = _fwd(P, C, node, ltypes, batched)
                        check("grad_outputs with reversed (permuted, dense) batch strides", torch.autograd.grad(out2, ts2, cot_p, allow_unused=True))
                        if nb == 3:
                            pr = [1, 2, 0, 3]
                            inv = [2, 0, 1, 3]
                            cot_q = cot.permute(pr).contiguous().permute(inv)
                            ts2, out2 = _fwd(P, C, node, ltypes, batched)
                            check("grad_outputs with cyclically permuted batch strides", torch.autograd.grad(out2, ts2, cot_q, allow_unused=True))
                        # (b) glue after the operation, then a weighted sum
                        glues = [("transpose(0,1)", lambda y: y.transpose(0, 1), lambda c_: c_.transpose(0, 1).contiguous())]
                        if nb == 3:
                            glues += [("permute(2,0,1)", lambda y: y.permute(2, 0, 1, 3), lambda c_: c_.permute(2, 0, 1, 3).contiguous()),
                                      ("movedim(0,-2)", lambda y: y.movedim(0, -2), lambda c_: c_.movedim(0, -2).contiguous())]
                        else:
                            glues += [("movedim(0,1)", lambda y: y.movedim(0, 1), lambda c_: c_.movedim(0, 1).contiguous())]
                        for lab, gl, wl in glues:
                            ts3, out3 = _fwd(P, C, node, ltypes, batched)
                            loss = (gl(out3) * wl(cot)).sum()
                            check(f"op(...).{lab} followed by a weighted sum", torch.autograd.grad(loss, ts3, allow_unused=True))
                        # the reference itself against the model, on three items
                        if dtype == "float64" and (not ctx.quick or (fi + gi) % 2 == 0):
                            smp = [0, n // 2, n - 1]
                            od = out.shape[-1]
                            c3 = {"stream": "cotlayout", "prog": C.to_json(node), "ltypes": [list(t) for t in ltypes], "dtype": dtype,
                                  "lshapes": [[3] for _ in ltypes], "bshape": [3], "root": list(C.node_type(node, ltypes)),
                                  "values": [t[smp].tolist() for t in flat], "cot": cot.reshape(n, od)[smp].tolist(), "tags": ["cotlayout"] * len(ltypes),
                                  "sample": smp, "shape": list(shape), "fd": False}
                            samples.append((c3, out.detach().reshape(n, od)[smp].clone(), [None if x is None else x.reshape(n, -1)[smp].clone() for x in g_ref]))
                    except Exception as e:
                        ctx.fail(case, f"raises: {name} on {g}, batch {shape}, permuted cotangent ({dtype}) raised {type(e).__name__}: {str(e)[:140]}")
    todo = []
    for c3, o3, g3 in samples:
        try:
            r = C.run_case_impl(c3)
            r.band, r.trunc = C.site_info(c3, r)
        except Exception as e:
            ctx.fail(c3, f"raises: sample: {type(e).__name__}: {str(e)[:120]}")
            continue
        r.out, r.grads = o3.double(), [None if x is None else x.double() for x in g3]
        todo.append((c3, r))
    lines, spans = [], []
    for c3, r in todo:
        ls, index = C.model_lines(c3, common.EPS[c3["dtype"]], want_fd=False)
        spans.append((len(lines), len(ls), index))
        lines += ls
    reps = C.run_driver_parallel(ctx, lines) if lines else []
    for (c3, r), (o, k, index) in zip(todo, spans):
        M = C.collect_model(c3, reps[o:o + k], index)
        bad, _ = C.compare_grads(c3, r, M, r.band)
        ctx.count("cotlayout.model-samples")
        if bad:
            li, i, err, t = bad[0]
            ctx.disagree("cotlayout.model", c3, f"cotlayout: gradient of leaf {li} of {C.prog_str(C.from_json(c3['prog']))} for item {c3['sample'][i]} of a batch "
                                                f"{c3['shape']} differs from the model's reverse sweep by {err:.3e} > {t:.3e}")


STREAMS["cotlayout"] = run_cotlayout
