import Pose.Model.StopX
import Proofs.Lemmas.Stop
import Proofs.Lemmas.Batch
/-!
Helper lemmas for the extended stopping-controller model (C20, pass 3): IEEE special values over ℝ,
broadcasting of `last` against `loss`, generic driver loops.
-/
namespace PP.Stop
open PP.Batch

/-! ### XF over ℝ -/
section xf

theorem isZeroS_real (x : ℝ) : XF.isZeroS x = decide (x = 0) := by
  unfold XF.isZeroS
  simp only [lt_real, k_real, Nat.cast_zero]
  rcases lt_trichotomy x 0 with h | h | h
  · simp [h, ne_of_lt h]
  · simp [h]
  · simp [h, ne_of_gt h, not_lt_of_gt h]

/-- finite operands: the element test is the case split that `Stop.relNoDec1` hard-wires -/
theorem relNoDec1X_num_num (d l x : ℝ) :
    relNoDec1X (XF.num d) (XF.num l) (XF.num x) = relNoDec1 d (some l) x := by
  unfold relNoDec1X relNoDec1
  rcases lt_trichotomy x 0 with hx | hx | hx
  · have hx0 : x ≠ 0 := ne_of_lt hx
    by_cases hz : l - x = 0
    · have hl : l = x := by linarith
      subst hl
      simp [XF.sub, XF.div, XF.lt, XF.val, XF.isNan, XF.isInf, XF.isZero, XF.neg, XF.zeroOf, isZeroS_real, hx, hx0,
        not_lt_of_gt hx]
    · simp [XF.sub, XF.div, XF.lt, XF.val, XF.isNan, XF.isInf, XF.isZero, XF.neg, isZeroS_real, hx, hx0, hz,
        not_lt_of_gt hx]
  · subst hx
    rcases lt_trichotomy l 0 with hl | hl | hl
    · simp [XF.sub, XF.div, XF.lt, XF.val, XF.isNan, XF.isInf, XF.isZero, XF.neg, XF.infOf, isZeroS_real, hl,
        ne_of_lt hl]
    · subst hl
      simp [XF.sub, XF.div, XF.lt, XF.val, XF.isNan, XF.isInf, XF.isZero, XF.neg, isZeroS_real]
    · simp [XF.sub, XF.div, XF.lt, XF.val, XF.isNan, XF.isInf, XF.isZero, XF.neg, XF.infOf, isZeroS_real,
        ne_of_gt hl, not_lt_of_gt hl]
  · have hx0 : x ≠ 0 := ne_of_gt hx
    by_cases hz : l - x = 0
    · have hl : l = x := by linarith
      subst hl
      simp [XF.sub, XF.div, XF.lt, XF.val, XF.isNan, XF.isInf, XF.isZero, XF.neg, XF.zeroOf, isZeroS_real, hx, hx0,
        not_lt_of_gt hx]
    · simp [XF.sub, XF.div, XF.lt, XF.val, XF.isNan, XF.isInf, XF.isZero, XF.neg, isZeroS_real, hx, hx0, hz,
        not_lt_of_gt hx]

/-- first step after `reset` (`last = +inf`) -/
theorem relNoDec1X_pinf_num (d x : ℝ) :
    relNoDec1X (XF.num d) XF.pinf (XF.num x) = relNoDec1 d none x := by
  unfold relNoDec1X relNoDec1
  rcases lt_trichotomy x 0 with hx | hx | hx
  · simp [XF.sub, XF.div, XF.lt, XF.isNan, XF.isInf, XF.neg, XF.infOf, hx]
  · subst hx; simp [XF.sub, XF.div, XF.lt, XF.isNan, XF.isInf, XF.neg, XF.infOf]
  · simp [XF.sub, XF.div, XF.lt, XF.isNan, XF.isInf, XF.neg, XF.infOf, hx, not_lt_of_gt hx]

/-- every comparison with a NaN is false: a NaN loss element is neither "below tol" nor "no decrease",
whatever `last`, `decreasing`, `tol` are (including NaN / infinite thresholds) -/
theorem nan_tests (d l x t : XF ℝ) :
    relNoDec1X d l XF.nan = false ∧ relNoDec1X d XF.nan x = false ∧ XF.lt XF.nan t = false ∧
    XF.lt x XF.nan = false := by
  refine ⟨?_, ?_, ?_, ?_⟩
  · unfold relNoDec1X
    have h1 : XF.sub l (XF.nan : XF ℝ) = XF.nan := by cases l <;> rfl
    rw [h1]
    have h2 : XF.div (XF.nan : XF ℝ) XF.nan = XF.nan := by simp [XF.div, XF.isNan]
    rw [h2]; rfl
  · unfold relNoDec1X
    have h1 : XF.sub (XF.nan : XF ℝ) x = XF.nan := by cases x <;> rfl
    rw [h1]
    have h2 : XF.div (XF.nan : XF ℝ) x = XF.nan := by simp [XF.div, XF.isNan]
    rw [h2]; rfl
  · cases t <;> rfl
  · cases x <;> rfl

/-- an infinite loss after a finite `last`: `(l ∓ inf)/±inf = NaN`, never a "no decrease";
`-inf` is below every finite `tol`, `+inf` below none -/
theorem inf_loss_tests (d : XF ℝ) (l tol : ℝ) :
    relNoDec1X d (XF.num l) XF.pinf = false ∧ relNoDec1X d (XF.num l) XF.ninf = false ∧
    XF.lt (XF.ninf : XF ℝ) (XF.num tol) = true ∧ XF.lt (XF.pinf : XF ℝ) (XF.num tol) = false := by
  refine ⟨?_, ?_, rfl, rfl⟩
  · unfold relNoDec1X
    have : XF.div (XF.sub (XF.num l) (XF.pinf : XF ℝ)) XF.pinf = XF.nan := by
      simp [XF.sub, XF.div, XF.isNan, XF.isInf]
    rw [this]; cases d <;> rfl
  · unfold relNoDec1X
    have : XF.div (XF.sub (XF.num l) (XF.ninf : XF ℝ)) XF.ninf = XF.nan := by
      simp [XF.sub, XF.div, XF.isNan, XF.isInf]
    rw [this]; cases d <;> rfl

/-- `-0.0` as a loss: the quotient is `∓inf` with the sign OPPOSITE to the `+0.0` case
(`relNoDec1 d (some l) 0 = decide (l < 0)`) -/
theorem relNoDec1X_negzero (d l : ℝ) :
    relNoDec1X (XF.num d) (XF.num l) XF.nzero = decide (0 < l) := by
  unfold relNoDec1X
  rcases lt_trichotomy l 0 with hl | hl | hl
  · simp [XF.sub, XF.div, XF.lt, XF.val, XF.isNan, XF.isInf, XF.isZero, XF.neg, XF.infOf, isZeroS_real, hl,
      ne_of_lt hl, not_lt_of_gt hl]
  · subst hl
    simp [XF.sub, XF.div, XF.lt, XF.val, XF.isNan, XF.isInf, XF.isZero, XF.neg, isZeroS_real]
  · simp [XF.sub, XF.div, XF.lt, XF.val, XF.isNan, XF.isInf, XF.isZero, XF.neg, XF.infOf, isZeroS_real, hl,
      ne_of_gt hl, not_lt_of_gt hl]

/-- `absNoDecX` on finite readings is `Stop.absNoDec`; with a NaN reading it is false -/
theorem absNoDecX_num (d last loss : ℝ) :
    absNoDecX (XF.num d) (XF.num last) (XF.num loss) = absNoDec d last loss := by
  unfold absNoDecX absNoDec
  by_cases hz : last - loss = 0
  · simp [XF.sub, XF.lt, XF.val, isZeroS_real, hz]
  · simp [XF.sub, XF.lt, XF.val, isZeroS_real, hz]

theorem absNoDecX_nan (d a : XF ℝ) :
    absNoDecX d XF.nan a = false ∧ absNoDecX d a XF.nan = false ∧ absNoDecX XF.nan a a = false := by
  refine ⟨?_, ?_, ?_⟩
  · unfold absNoDecX
    have : XF.sub (XF.nan : XF ℝ) a = XF.nan := by cases a <;> rfl
    rw [this]; cases d <;> rfl
  · unfold absNoDecX
    have : XF.sub a (XF.nan : XF ℝ) = XF.nan := by cases a <;> rfl
    rw [this]; cases d <;> rfl
  · unfold absNoDecX
    generalize XF.sub a a = r
    cases r <;> rfl

end xf

/-! ### broadcasting of `last` against `loss` (any scalar type) -/
section tensors
variable {α : Type} [Scalar α]

theorem all_congr' {β : Type} (l : List β) (p q : β → Bool) (h : ∀ x ∈ l, p x = q x) : l.all p = l.all q := by
  induction l with
  | nil => rfl
  | cons a t ih =>
    simp only [List.all_cons]
    rw [h a (by simp), ih (fun x hx => h x (by simp [hx]))]

/-- reading element `k` of a freshly built contiguous tensor of shape `out` through the broadcasting index map of
its own shape gives entry `k` -/
theorem bat_mk (out : Shape) (g : Nat → XF α) (k : Nat) (hk : k < numel out) :
    (TX.mk out ((List.range (numel out)).map g)).bat out k = g k := by
  unfold TX.bat TX.elem
  simp only
  rw [proj_self (unravel_inb hk), ravel_unravel' hk]
  simp [List.getD_eq_getElem?_getD, hk]

theorem broadcastShapes_absorb_left {a b out : Shape} (h : broadcastShapes a b = some out) :
    broadcastShapes out b = some out := by
  rw [broadcastShapes_comm]; exact broadcastShapes_absorb h

/-- **what `torch.all((last - loss)/loss < d)` computes for every pair of shapes**: it raises iff the shapes do not
broadcast; otherwise it is the conjunction, over every element `k` of the broadcast shape, of the element test on
the entries of `last` and `loss` that torch's broadcasting pairs with `k`. -/
theorem relNoDecT_spec (d : XF α) (last loss : TX α) :
    relNoDecT d last loss = (broadcastShapes last.shape loss.shape).map fun out =>
      (List.range (numel out)).all fun k => relNoDec1X d (last.bat out k) (loss.bat out k) := by
  unfold relNoDecT TX.bop
  cases h : broadcastShapes last.shape loss.shape with
  | none => rfl
  | some out =>
    simp only [broadcastShapes_absorb_left h, Option.map_some]
    congr 1
    unfold TX.allLt
    simp only [List.all_map]
    apply all_congr'
    intro k hk
    have hk' : k < numel out := by simpa using hk
    simp only [Function.comp, relNoDec1X]
    rw [bat_mk out _ k hk']

theorem bzip_replicate_one : ∀ (s : Shape), bzip (List.replicate s.length 1) s = some s
  | [] => rfl
  | a :: t => by
    have ih := bzip_replicate_one t
    have hb : bdim 1 a = some a := by
      unfold bdim
      by_cases h : 1 = a
      · simp [h]
      · simp [h]
    simp only [List.length_cons, List.replicate_succ, bzip, ih, hb]

theorem broadcastShapes_nil_left (s : Shape) : broadcastShapes [] s = some s := by
  unfold broadcastShapes
  simp only [List.length_nil, Nat.zero_le, Nat.max_eq_right, padTo_self]
  have : padTo s.length [] = List.replicate s.length 1 := by simp [padTo]
  rw [this]
  exact bzip_replicate_one s

theorem broadcastShapes_self (s : Shape) : broadcastShapes s s = some s := by
  unfold broadcastShapes
  simp [padTo_self, bzip_self]

/-- `last` is the 0-dim tensor installed by `reset` (or any 0-dim value): every element of `loss` is tested
against that one value, for every shape of `loss` -/
theorem relNoDecT_scalar_last (d l : XF α) (s : Shape) (xs : List (XF α)) (hlen : xs.length = numel s) :
    relNoDecT d (TX.scalar l) ⟨s, xs⟩ = some (xs.all fun x => relNoDec1X d l x) := by
  rw [relNoDecT_spec]
  simp only [TX.scalar, broadcastShapes_nil_left, Option.map_some]
  congr 1
  have hb : ∀ k, k < numel s → (TX.mk s xs).bat s k = xs.getD k XF.nan := by
    intro k hk
    unfold TX.bat TX.elem
    simp only
    rw [proj_self (unravel_inb hk), ravel_unravel' hk]
  have hs : ∀ k, (TX.mk ([] : Shape) [l]).bat s k = l := by
    intro k
    unfold TX.bat TX.elem
    simp [proj, projEq, ravel]
  rw [all_congr' (List.range (numel s)) _ (fun k => relNoDec1X d l (xs.getD k XF.nan))
    (fun k hk => by rw [hs, hb k (by simpa using hk)])]
  rw [← hlen]
  clear hb hs hlen
  induction xs using List.reverseRecOn with
  | nil => rfl
  | append_singleton t a ih =>
    simp only [List.length_append, List.length_singleton, List.range_succ, List.all_append, List.all_cons,
      List.all_nil, Bool.and_true]
    congr 1
    · rw [← ih]
      apply all_congr'
      intro k hk
      have : k < t.length := by simpa using hk
      simp [List.getD_eq_getElem?_getD, List.getElem?_append_left this]
    · simp [List.getD_eq_getElem?_getD]

/-- `last` and `loss` of the same shape (the ordinary case): element `k` of `last` is paired with element `k` of
`loss`, for every shape -/
theorem relNoDecT_same_shape (d : XF α) (s : Shape) (ls xs : List (XF α)) (hl : ls.length = numel s)
    (hx : xs.length = numel s) :
    relNoDecT d ⟨s, ls⟩ ⟨s, xs⟩ = some ((List.zip ls xs).all fun p => relNoDec1X d p.1 p.2) := by
  rw [relNoDecT_spec]
  simp only [broadcastShapes_self, Option.map_some]
  congr 1
  have hb : ∀ (ys : List (XF α)) k, k < numel s → (TX.mk s ys).bat s k = ys.getD k XF.nan := by
    intro ys k hk
    unfold TX.bat TX.elem
    simp only
    rw [proj_self (unravel_inb hk), ravel_unravel' hk]
  rw [all_congr' (List.range (numel s)) _ (fun k => relNoDec1X d (ls.getD k XF.nan) (xs.getD k XF.nan))
    (fun k hk => by rw [hb ls k (by simpa using hk), hb xs k (by simpa using hk)])]
  rw [← hl] at hx ⊢
  clear hb hl
  induction ls using List.reverseRecOn generalizing xs with
  | nil =>
    have : xs = [] := by simpa using hx
    subst this; rfl
  | append_singleton t a ih =>
    have hxl : xs.length = t.length + 1 := by simpa using hx
    obtain ⟨t', b, rfl⟩ : ∃ t' b, xs = t' ++ [b] := by
      refine ⟨xs.dropLast, xs.getLast (by intro h; simp [h] at hxl), ?_⟩
      exact (List.dropLast_append_getLast _).symm
    have htl : t'.length = t.length := by simpa using hxl
    simp only [List.length_append, List.length_singleton, List.range_succ, List.all_append, List.all_cons,
      List.all_nil, Bool.and_true]
    rw [List.zip_append htl.symm]
    simp only [List.all_append, List.zip_cons_cons, List.zip_nil_right, List.all_cons, List.all_nil, Bool.and_true]
    congr 1
    · rw [← ih t' htl]
      apply all_congr'
      intro k hk
      have h1 : k < t.length := by simpa using hk
      have h2 : k < t'.length := by omega
      simp [List.getD_eq_getElem?_getD, List.getElem?_append_left h1, List.getElem?_append_left h2]
    · simp [List.getD_eq_getElem?_getD, htl]

end tensors

/-! ### generic driver loop over a numeric controller -/
section loopg
variable {σ L : Type}

theorem runG_shift (stepN : σ → L → σ) (s : σ) (inp : Nat → L) (n : Nat) :
    runG stepN (stepN s (inp 0)) (fun j => inp (j+1)) n = runG stepN s inp (n+1) := by
  induction n with
  | zero => rfl
  | succ n ih => simp only [runG] at ih ⊢; rw [ih]

/-- **Refinement.** A numeric controller whose abstract state (`pr`) evolves by the abstract step `stepf` on the
observation `ob s x` it computes from its own state and the input: the numeric driver loop does exactly what the
abstract loop does on the observation stream computed along the numeric run — same number of iterations, the final
numeric state is the numeric run, and its abstract state is the abstract loop's final state. -/
theorem loopG_refines (stepN : σ → L → σ) (pr : σ → St) (ob : σ → L → Obs) (stepf : St → Obs → St)
    (hstep : ∀ s x, pr (stepN s x) = stepf (pr s) (ob s x)) (inp : Nat → L) (fuel i : Nat) (s : σ) :
    (loopG stepN (fun s => (pr s).cont) inp fuel i s).1
        = (loop stepf (fun j => ob (runG stepN s (fun t => inp (i + t)) (j - i)) (inp j)) fuel i (pr s)).1 ∧
    (loopG stepN (fun s => (pr s).cont) inp fuel i s).2
        = runG stepN s (fun t => inp (i + t)) ((loopG stepN (fun s => (pr s).cont) inp fuel i s).1 - i) ∧
    pr (loopG stepN (fun s => (pr s).cont) inp fuel i s).2
        = (loop stepf (fun j => ob (runG stepN s (fun t => inp (i + t)) (j - i)) (inp j)) fuel i (pr s)).2 ∧
    i ≤ (loopG stepN (fun s => (pr s).cont) inp fuel i s).1 := by
  induction fuel generalizing i s with
  | zero => simp [loopG, loop, runG]
  | succ fuel ih =>
    unfold loopG loop
    cases hc : (pr s).cont with
    | false => simp [runG]
    | true =>
      simp only [if_true]
      have key := ih (i+1) (stepN s (inp i))
      have hobs : (fun j => ob (runG stepN (stepN s (inp i)) (fun t => inp (i + 1 + t)) (j - (i + 1))) (inp j))
          = fun j => if j ≤ i then ob (runG stepN (stepN s (inp i)) (fun t => inp (i + 1 + t)) 0) (inp j)
                     else ob (runG stepN s (fun t => inp (i + t)) (j - i)) (inp j) := by
        funext j
        by_cases hj : j ≤ i
        · simp only [hj, if_true]
          have : j - (i + 1) = 0 := by omega
          rw [this]
        · simp only [hj, if_false]
          have e : j - i = (j - (i+1)) + 1 := by omega
          rw [e]
          have := runG_shift stepN s (fun t => inp (i + t)) (j - (i+1))
          simp only [Nat.add_zero] at this
          rw [← this]
          congr 2
          funext t
          congr 1
          omega
      -- the abstract loop from index i+1 only reads observations with index ≥ i+1
      have hloop : ∀ (o1 o2 : Nat → Obs) (f k : Nat) (st : St), (∀ j, k ≤ j → o1 j = o2 j) →
          loop stepf o1 f k st = loop stepf o2 f k st := by
        intro o1 o2 f
        induction f with
        | zero => intros; rfl
        | succ f ihf =>
          intro k st h
          unfold loop
          rw [h k (Nat.le_refl k)]
          split
          · exact ihf (k+1) _ (fun j hj => h j (by omega))
          · rfl
      have hsame : loop stepf (fun j => ob (runG stepN (stepN s (inp i)) (fun t => inp (i + 1 + t)) (j - (i + 1))) (inp j))
            fuel (i+1) (pr (stepN s (inp i)))
          = loop stepf (fun j => ob (runG stepN s (fun t => inp (i + t)) (j - i)) (inp j)) fuel (i+1)
            (stepf (pr s) (ob (runG stepN s (fun t => inp (i + t)) (i - i)) (inp i))) := by
        rw [hobs, hstep]
        have e0 : runG stepN s (fun t => inp (i + t)) (i - i) = s := by simp [runG]
        rw [e0]
        apply hloop
        intro j hj
        have : ¬ j ≤ i := by omega
        simp only [this, if_false]
      obtain ⟨k1, k2, k3, k4⟩ := key
      rw [hsame] at k1 k3
      refine ⟨k1, ?_, k3, by omega⟩
      rw [k2]
      have e : (loopG stepN (fun s => (pr s).cont) inp fuel (i + 1) (stepN s (inp i))).1 - i
          = ((loopG stepN (fun s => (pr s).cont) inp fuel (i + 1) (stepN s (inp i))).1 - (i+1)) + 1 := by omega
      rw [e]
      have := runG_shift stepN s (fun t => inp (i + t)) ((loopG stepN (fun s => (pr s).cont) inp fuel (i + 1) (stepN s (inp i))).1 - (i+1))
      simp only [Nat.add_zero] at this
      rw [← this]
      congr 1
      funext t
      congr 1
      omega

end loopg

/-- numeric ReduceToBason: `rtbRunNum` is `runG` of `rtbStepNum`, its abstract state follows `rtbStep` on
`rtbObs … s.last` -/
theorem rtbRunNum_eq_runG {α : Type} [Scalar α] (c : Cfg) (d tol : α) (s : RtbSt α) (loss : Nat → List α) (n : Nat) :
    rtbRunNum c d tol s loss n = runG (rtbStepNum c d tol) s loss n := by
  induction n with
  | zero => rfl
  | succ n ih => simp only [rtbRunNum, runG, ih]

end PP.Stop
