#!/bin/bash
# Run every claimed check on the current /repo tree for a list of seeds; one summary line per run.
# usage: tools/sweep.sh [tier=quick] [seeds="0 1 2"]      (sequential: the checks themselves use the cores)
cd "$(dirname "$0")/.."
tier=${1:-quick}; seeds=${2:-"0 1 2"}
bad=0
for s in $seeds; do
for i in 01 02 03 04 05 06 07 08 09 10 11 12 13 14 15 16 17 18 19 20; do
  p=C$i
  start=$(date +%s)
  out=$(VERIF_SEED=$s timeout 7200 /venv/bin/python check.py --property $p --tier $tier 2>&1); rc=$?
  end=$(date +%s)
  [ $rc -ne 0 ] && bad=1
  echo "seed=$s $p rc=$rc wall=$((end-start))s $(echo "$out" | grep -c VIOLATION) viol | $(echo "$out" | grep "$p $tier" | tail -1)"
done; done
exit $bad
