"""C06: call recipes for every function of HANDLED_FUNCTIONS on element-tagged LieTensors.

A case is a JSON-able dict {name, variant, lt, dtype, s, …params}; `build(case)` deterministically returns
  inputs   list of (tensor, is_lie)               element-tagged: value = input_no * 100000 + flat element index
  call     thunk(inputs) -> result                 the real function on the (Lie)tensors
  model    list of request lines for drv_c06      one per expected output piece
  mode     'src' (single input: flat source index) | 'pairs' ((input, flat index) per item) | 'elements' | 'none'
  post     optional: where the result lives for in-place functions ('self')
`gen(rng, name)` draws the params.
"""
from __future__ import annotations

import math

import torch

from .util_batch import DIM, DT, all_shapes, elem_tagged, ltype_of, numel, pp, wl

SHAPES = all_shapes()
BY_NUMEL = {}
for _s in SHAPES:
    BY_NUMEL.setdefault(numel(_s), []).append(_s)


EXTENTS = [0, 1, 2, 3, 2, 3]        # the deterministic corpus widens this with special sizes (item width, 4, 5, 7)


def rshape(rng, min_rank=0, max_rank=3, nonempty_dim=None):
    r = rng.randint(min_rank, max_rank)
    s = [rng.choice(EXTENTS) for _ in range(r)]
    if nonempty_dim is not None and r > nonempty_dim and s[nonempty_dim] == 0:
        s[nonempty_dim] = rng.choice([1, 2, 3])
    return s


def lie(t, lt):
    return pp().LieTensor(t, ltype=ltype_of(lt))


def norm(i, n):
    return i + n if i < 0 else i


def maybe_neg(rng, i, n):
    return i - n if (n > 0 and rng.random() < 0.3) else i


# ----------------------------------------------------------------------------- generation

IDENT = ["cpu", "float", "double", "to", "detach", "clone"]
RESHAPE = ["view", "reshape", "view_as", "squeeze", "unsqueeze"]
PERMUTE = ["permute", "transpose", "swapaxes", "swapdims", "movedim", "moveaxis"]
INDEX = ["__getitem__", "index_select", "select", "narrow"]
SPLIT = ["split", "hsplit", "vsplit", "dsplit", "tensor_split", "chunk", "unbind"]
GATHER = ["gather", "take_along_dim"]
EXPAND = ["expand", "expand_as", "repeat", "tile"]
JOIN = ["cat", "concat", "stack", "hstack", "vstack", "dstack", "column_stack", "row_stack"]
OVERWRITE = ["scatter", "index_copy", "select_scatter", "index_put", "scatter_add"]
OVERWRITE_IN = ["__setitem__", "index_copy_", "index_put_", "copy_"]
ELEMENT = ["take", "masked_select"]
ALL = IDENT + RESHAPE + PERMUTE + INDEX + SPLIT + GATHER + EXPAND + JOIN + OVERWRITE + OVERWRITE_IN + ELEMENT + ["cuda"]


def gen_key(rng, s):
    """random __getitem__ key (JSON form) for lshape s; at most one advanced index; never touches the item dim"""
    r = len(s)
    key, adv = [], False
    use_ellipsis = rng.random() < 0.3
    n_before = rng.randint(0, r)
    n_after = rng.randint(0, r - n_before) if use_ellipsis else 0
    dims = list(range(n_before)) + list(range(r - n_after, r))

    def entry(L):
        nonlocal adv
        c = rng.random()
        if c < 0.3 and L > 0:
            return ["i", maybe_neg(rng, rng.randrange(L), L)]
        if c < 0.6:
            a = rng.choice([None, 0, 1, -1, rng.randint(0, L)])
            b = rng.choice([None, L, -1, rng.randint(0, L)])
            st = rng.choice([None, 1, 2, 3])
            return ["s", a, b, st]
        if c < 0.8 and not adv and L > 0:
            adv = True
            kind = rng.choice(["t", "l", "b"])
            if kind == "b":
                return ["b", [rng.random() < 0.5 for _ in range(L)]]
            return [kind, [maybe_neg(rng, rng.randrange(L), L) for _ in range(rng.randint(1, 4))]]
        return ["s", None, None, None]
    for p, dm in enumerate(dims):
        if use_ellipsis and p == n_before:
            key.append(["e"])
        if rng.random() < 0.15:
            key.append(["n"])
        key.append(entry(s[dm]))
    if use_ellipsis and len(dims) == n_before:
        key.append(["e"])
    if use_ellipsis:
        key.append(["s", None, None, None])      # the item dimension, untouched
    if rng.random() < 0.1 and not use_ellipsis and len(dims) == r:
        key.append(["s", None, None, None])
    return key


def gen(rng, name):
    """draw the parameters of one call of handled function `name` -> case dict (without lt/dtype)"""
    c = {"name": name}
    if name in IDENT or name == "cuda":
        c["s"] = rshape(rng)
        c["variant"] = rng.choice({"to": ["dtype", "device", "tensor", "kw"], "clone": ["m", "torch"],
                                   "detach": ["m", "torch"]}.get(name, ["m"]))
        return c
    if name in ("view", "reshape", "view_as"):
        s = rshape(rng)
        cands = BY_NUMEL.get(numel(s)) or [tuple(s), (numel(s),), tuple(reversed(s)), (1,) + tuple(s)]
        c["s"], c["s2"] = s, list(rng.choice(cands))
        c["variant"] = rng.choice(["args", "tuple", "minus1"] if name != "view_as" else ["m"])
        if name == "reshape" and rng.random() < 0.3:
            c["variant"] = "torch"
        return c
    if name == "squeeze":
        s = [rng.choice([1, 1, 2, 3, 0]) for _ in range(rng.randint(0, 3))]
        c["s"] = s
        c["variant"] = rng.choice(["all", "dim", "torch"]) if s else "all"
        c["dim"] = rng.randrange(len(s)) if s else 0
        c["neg"] = rng.random() < 0.3
        return c
    if name == "unsqueeze":
        s = rshape(rng)
        c["s"], c["dim"], c["neg"] = s, rng.randint(0, len(s)), rng.random() < 0.3
        c["variant"] = rng.choice(["m", "torch"])
        return c
    if name == "permute":
        s = rshape(rng)
        p = list(range(len(s)))
        rng.shuffle(p)
        c["s"], c["p"], c["variant"] = s, p, rng.choice(["args", "tuple", "neglast"])
        return c
    if name in ("transpose", "swapaxes", "swapdims", "movedim", "moveaxis"):
        s = rshape(rng, min_rank=1)
        c["s"], c["a"], c["b"] = s, rng.randrange(len(s)), rng.randrange(len(s))
        c["variant"] = rng.choice(["m", "torch"])
        return c
    if name == "__getitem__":
        s = rshape(rng)
        c["s"], c["key"] = s, gen_key(rng, s)
        return c
    if name == "index_select":
        s = rshape(rng, min_rank=1)
        dim = rng.randrange(len(s))
        L = s[dim]
        c["s"], c["dim"] = s, dim
        c["idx"] = [rng.randrange(L) for _ in range(rng.randint(0, 4))] if L else []
        c["variant"] = rng.choice(["m", "torch", "negdim"])
        return c
    if name == "select":
        s = rshape(rng, min_rank=1)
        dim = rng.randrange(len(s))
        if s[dim] == 0:
            s[dim] = 2
        c["s"], c["dim"], c["i"] = s, dim, maybe_neg(rng, rng.randrange(s[dim]), s[dim])
        c["variant"] = rng.choice(["m", "torch"])
        return c
    if name == "narrow":
        s = rshape(rng, min_rank=1)
        dim = rng.randrange(len(s))
        st = rng.randint(0, s[dim])
        c["s"], c["dim"], c["start"], c["len"] = s, dim, st, rng.randint(0, s[dim] - st)
        c["variant"] = rng.choice(["m", "torch"])
        return c
    if name in SPLIT:
        min_rank = {"hsplit": 2, "vsplit": 1, "dsplit": 3}.get(name, 1)
        s = rshape(rng, min_rank=min_rank)
        dim = {"hsplit": 1, "vsplit": 0, "dsplit": 2}.get(name, rng.randrange(len(s)))
        L = s[dim]
        c["s"], c["dim"] = s, dim
        if name == "split":
            if rng.random() < 0.5:
                c["arg"] = rng.randint(1, 3)
            else:
                cuts = sorted(rng.randint(0, L) for _ in range(rng.randint(0, 2)))
                b = [0] + cuts + [L]
                c["arg"] = [b[i + 1] - b[i] for i in range(len(b) - 1)]
        elif name == "chunk":
            c["arg"] = rng.randint(1, 4)
        elif name == "unbind":
            c["arg"] = None
        else:  # tensor_split, hsplit, vsplit, dsplit: int sections or indices
            if rng.random() < 0.5:
                if name == "tensor_split":
                    c["arg"] = rng.randint(1, 4)
                else:
                    divs = [n for n in (1, 2, 3) if L % n == 0]
                    c["arg"] = rng.choice(divs)
            else:
                c["arg"] = sorted(rng.randint(0, L) for _ in range(rng.randint(0, 2)))
        c["variant"] = rng.choice(["m", "torch"])
        return c
    if name in GATHER:
        s = rshape(rng, min_rank=1)
        dim = rng.randrange(len(s))
        si = [rng.randint(0, s[k]) if name == "gather" else s[k] for k in range(len(s))]
        si[dim] = rng.randint(0, 3)
        if s[dim] == 0:
            si[dim] = 0
        c["s"], c["dim"], c["si"] = s, dim, si
        c["index"] = [rng.randrange(s[dim]) for _ in range(numel(si))] if s[dim] else []
        c["variant"] = rng.choice(["m", "torch"])
        return c
    if name in ("expand", "expand_as"):
        s = [rng.choice([1, 1, 2, 3, 0]) for _ in range(rng.randint(0, 3))]
        lead = [rng.choice([0, 1, 2, 3]) for _ in range(rng.randint(0, 3 - len(s)))]
        tgt = lead + [rng.choice([0, 2, 3, 1]) if x == 1 else x for x in s]
        c["s"], c["s2"] = s, tgt
        c["variant"] = rng.choice(["args", "tuple", "minus1"]) if name == "expand" else "m"
        return c
    if name in ("repeat", "tile"):
        s = rshape(rng)
        extra = rng.randint(0, 3 - len(s))
        c["s"], c["reps"] = s, [rng.choice([0, 1, 2, 3, 1, 2]) for _ in range(len(s) + extra)]
        c["variant"] = rng.choice(["args", "tuple"] + (["short"] if name == "tile" and len(s) >= 1 else []))
        if c["variant"] == "short":
            c["reps"] = [1] * (len(s) - 1) + [rng.choice([0, 2, 3])]
        return c
    if name in JOIN:
        min_rank = {"hstack": 2, "column_stack": 2, "dstack": 3}.get(name, 0)
        if name in ("cat", "concat"):
            min_rank = 1
        s = rshape(rng, min_rank=min_rank)
        m = rng.randint(1, 3)
        if name in ("cat", "concat"):
            dim = rng.randrange(len(s))
        elif name == "stack":
            dim = rng.randint(0, len(s))
        else:
            dim = {"hstack": 1, "column_stack": 1, "dstack": 2, "vstack": 0, "row_stack": 0}[name]
        ss = []
        for _ in range(m):
            t = list(s)
            if name != "stack" and len(s) > 0:
                t[dim] = rng.choice([0, 1, 2, 3])
            ss.append(t)
        c["s"], c["ss"], c["dim"] = s, ss, dim
        c["lie"] = [rng.random() < 0.75 for _ in range(m)]
        if not any(c["lie"]):
            c["lie"][rng.randrange(m)] = True
        c["neg"] = rng.random() < 0.25
        c["variant"] = rng.choice(["list", "tuple"])
        return c
    if name in ("index_copy", "index_copy_", "index_put", "index_put_"):
        s = rshape(rng, min_rank=1)
        dim = rng.randrange(len(s)) if name.startswith("index_copy") else 0
        L = s[dim]
        idx = list(range(L))
        rng.shuffle(idx)
        c["s"], c["dim"], c["idx"] = s, dim, idx[:rng.randint(0, L)]
        c["src_lie"] = rng.random() < 0.6
        return c
    if name == "select_scatter":
        s = rshape(rng, min_rank=1)
        dim = rng.randrange(len(s))
        if s[dim] == 0:
            s[dim] = 2
        c["s"], c["dim"], c["i"] = s, dim, maybe_neg(rng, rng.randrange(s[dim]), s[dim])
        c["src_lie"] = rng.random() < 0.6
        return c
    if name in ("scatter", "scatter_add"):
        s = rshape(rng, min_rank=1)
        dim = rng.randrange(len(s))
        si = [rng.randint(0, s[k]) for k in range(len(s))]
        ssrc = [si[k] + rng.choice([0, 0, 1]) for k in range(len(s))]
        c["s"], c["dim"], c["si"], c["ssrc"] = s, dim, si, ssrc
        # per fibre along dim: distinct targets
        index = [0] * numel(si)
        if numel(si):
            other = [range(si[k]) if k != dim else [0] for k in range(len(s))]
            import itertools
            strides = [numel(si[k + 1:]) for k in range(len(s))]
            for mi in itertools.product(*other):
                tg = list(range(s[dim]))
                rng.shuffle(tg)
                for p in range(si[dim]):
                    mi2 = list(mi)
                    mi2[dim] = p
                    index[sum(a * b for a, b in zip(mi2, strides))] = tg[p]
        c["index"] = index
        c["src_lie"] = rng.random() < 0.6
        c["variant"] = rng.choice(["m", "torch"])
        return c
    if name == "copy_":
        s = rshape(rng)
        src = [rng.choice([1, x]) for x in s][rng.randint(0, len(s)):]
        c["s"], c["ssrc"], c["src_lie"] = s, src, rng.random() < 0.6
        return c
    if name == "__setitem__":
        s = rshape(rng, min_rank=1, nonempty_dim=0)
        L = s[0]
        kind = rng.choice(["int", "idx", "slice", "all"])
        c["s"], c["kind"] = s, kind
        if kind == "int":
            c["i"] = maybe_neg(rng, rng.randrange(L), L)
        elif kind == "idx":
            idx = list(range(L))
            rng.shuffle(idx)
            c["idx"] = idx[:rng.randint(1, L)]
        elif kind == "slice":
            a = rng.randint(0, L)
            c["a"], c["b"] = a, rng.randint(a, L)
        c["src_lie"] = rng.random() < 0.6
        return c
    if name == "take":
        s = rshape(rng, nonempty_dim=0)
        n = numel(s)
        c["s"] = s
        c["items"] = [rng.randrange(n) for _ in range(rng.randint(0, 4))] if n else []
        c["variant"] = rng.choice(["m", "torch"])
        return c
    if name == "masked_select":
        s = rshape(rng)
        c["s"] = s
        c["mask"] = [rng.random() < 0.4 for _ in range(numel(s))]
        c["variant"] = rng.choice(["m", "torch"])
        return c
    raise KeyError(name)


# ----------------------------------------------------------------------------- build (deterministic from the case)

def key_to_python(key):
    out = []
    for e in key:
        k = e[0]
        if k == "i":
            out.append(e[1])
        elif k == "s":
            out.append(slice(e[1], e[2], e[3]))
        elif k == "n":
            out.append(None)
        elif k == "e":
            out.append(Ellipsis)
        elif k == "t":
            out.append(torch.tensor(e[1], dtype=torch.long))
        elif k == "l":
            out.append(list(e[1]))
        elif k == "b":
            out.append(torch.tensor(e[1], dtype=torch.bool))
    return tuple(out)


def key_to_steps(key, s):
    """model pipeline of a __getitem__ key on lshape s (the trailing item-dim slice is dropped)"""
    r = len(s)
    consuming = [e for e in key if e[0] in ("i", "s", "t", "l", "b")]
    has_e = any(e[0] == "e" for e in key)
    if has_e and key[-1][0] == "s":
        key = key[:-1]              # the explicit slice for the item dimension
        consuming = consuming[:-1]
    elif len(consuming) > r:
        key = key[:-1]
        consuming = consuming[:-1]
    steps = []
    cur = list(s)
    p = 0
    n_cons = len(consuming)
    seen = 0
    for e in key:
        k = e[0]
        if k == "e":
            p += r - n_cons            # dims skipped by the ellipsis
        elif k == "n":
            cur = cur[:p] + [1] + cur[p:]
            steps.append("R " + wl(cur))
            p += 1
        elif k == "i":
            L = cur[p]
            steps.append(f"I {p} " + wl([norm(e[1], L)]))
            cur = cur[:p] + cur[p + 1:]
            steps.append("R " + wl(cur))
            seen += 1
        elif k == "s":
            L = cur[p]
            idx = list(range(L))[slice(e[1], e[2], e[3])]
            steps.append(f"I {p} " + wl(idx))
            cur[p] = len(idx)
            p += 1
            seen += 1
        elif k in ("t", "l"):
            L = cur[p]
            idx = [norm(i, L) for i in e[1]]
            steps.append(f"I {p} " + wl(idx))
            cur[p] = len(idx)
            p += 1
            seen += 1
        elif k == "b":
            idx = [i for i, b in enumerate(e[1]) if b]
            steps.append(f"I {p} " + wl(idx))
            cur[p] = len(idx)
            p += 1
            seen += 1
    return steps


def piece_lengths(name, arg, L):
    """documented piece lengths along the split dimension"""
    if name == "split":
        if isinstance(arg, int):
            if L == 0:
                return [0]
            return [min(arg, L - a) for a in range(0, L, arg)]
        return list(arg)
    if name == "chunk":
        if L == 0:
            return None          # torch decides (version dependent); taken from the result
        size = -(-L // arg)
        return [min(size, L - a) for a in range(0, L, size)]
    if name == "unbind":
        return [1] * L
    if isinstance(arg, int):
        return [L // arg + (1 if i < L % arg else 0) for i in range(arg)]
    cuts = [0] + [min(max(c, 0), L) for c in arg] + [L]
    return [max(cuts[i + 1] - cuts[i], 0) for i in range(len(cuts) - 1)]


def build(case):
    name, s = case["name"], list(case["s"])
    lt, dtype = case["lt"], DT[case["dtype"]]
    d = DIM[lt]
    r = len(s)
    v = case.get("variant", "m")
    X = lambda: lie(elem_tagged(s, d, 0, dtype), lt)
    res = {"inputs": None, "mode": "src", "model": None, "post": None, "out_dtype": dtype, "pieces": None}
    steps_line = lambda steps: "c06.steps " + wl(s) + ("" if not steps else " " + " ".join(steps))

    if name in IDENT or name == "cuda":
        res["model"] = [steps_line([])]
        other = torch.float32 if dtype == torch.float64 else torch.float64
        if name in ("cpu", "cuda"):
            call = lambda ins: getattr(ins[0], name)()
        elif name == "float":
            call, res["out_dtype"] = (lambda ins: ins[0].float()), torch.float32
        elif name == "double":
            call, res["out_dtype"] = (lambda ins: ins[0].double()), torch.float64
        elif name == "to":
            if v == "dtype":
                call, res["out_dtype"] = (lambda ins: ins[0].to(other)), other
            elif v == "device":
                call = lambda ins: ins[0].to("cpu")
            elif v == "tensor":
                call, res["out_dtype"] = (lambda ins: ins[0].to(torch.zeros(1, dtype=other))), other
            else:
                call, res["out_dtype"] = (lambda ins: ins[0].to(dtype=other, copy=True)), other
        elif name == "detach":
            call = (lambda ins: torch.detach(ins[0])) if v == "torch" else (lambda ins: ins[0].detach())
        else:
            call = (lambda ins: torch.clone(ins[0])) if v == "torch" else (lambda ins: ins[0].clone())
        res["inputs"], res["call"] = [(X(), True)], call
        return res

    if name in ("view", "reshape", "view_as"):
        s2 = list(case["s2"])
        res["model"] = [steps_line(["R " + wl(s2)])]
        full = tuple(s2) + (d,)
        if v == "minus1" and numel(s2) > 0 and len(s2) > 0:
            full = (-1,) + tuple(s2[1:]) + (d,)
        if name == "view_as":
            call = lambda ins: ins[0].view_as(torch.zeros(tuple(s2) + (d,)))
        elif v == "torch":
            call = lambda ins: torch.reshape(ins[0], full)
        elif v == "tuple":
            call = lambda ins: getattr(ins[0], name)(full)
        else:
            call = lambda ins: getattr(ins[0], name)(*full)
        res["inputs"], res["call"] = [(X(), True)], call
        return res

    if name == "squeeze":
        if v == "all" or r == 0:
            s2 = [x for x in s if x != 1]
            call = lambda ins: ins[0].squeeze()
        else:
            dim = case["dim"]
            s2 = s[:dim] + s[dim + 1:] if s[dim] == 1 else list(s)
            dd = dim - (r + 1) if case.get("neg") else dim
            call = (lambda ins: torch.squeeze(ins[0], dd)) if v == "torch" else (lambda ins: ins[0].squeeze(dd))
        res["model"] = [steps_line(["R " + wl(s2)])]
        res["inputs"], res["call"] = [(X(), True)], call
        return res

    if name == "unsqueeze":
        dim = case["dim"]
        s2 = s[:dim] + [1] + s[dim:]
        dd = dim - (r + 2) if case.get("neg") else dim
        call = (lambda ins: torch.unsqueeze(ins[0], dd)) if v == "torch" else (lambda ins: ins[0].unsqueeze(dd))
        res["model"] = [steps_line(["R " + wl(s2)])]
        res["inputs"], res["call"] = [(X(), True)], call
        return res

    if name == "permute":
        p = list(case["p"])
        last = -1 if v == "neglast" else r
        full = tuple(p) + (last,)
        call = (lambda ins: ins[0].permute(full)) if v == "tuple" else (lambda ins: ins[0].permute(*full))
        res["model"] = [steps_line(["P " + wl(p)])]
        res["inputs"], res["call"] = [(X(), True)], call
        return res

    if name in ("transpose", "swapaxes", "swapdims"):
        a, b = case["a"], case["b"]
        p = list(range(r))
        p[a], p[b] = p[b], p[a]
        call = (lambda ins: getattr(torch, name)(ins[0], a, b)) if v == "torch" else (lambda ins: getattr(ins[0], name)(a, b))
        res["model"] = [steps_line(["P " + wl(p)])]
        res["inputs"], res["call"] = [(X(), True)], call
        return res

    if name in ("movedim", "moveaxis"):
        a, b = case["a"], case["b"]
        p = [k for k in range(r) if k != a]
        p.insert(b, a)
        call = (lambda ins: getattr(torch, name)(ins[0], a, b)) if v == "torch" else (lambda ins: getattr(ins[0], name)(a, b))
        res["model"] = [steps_line(["P " + wl(p)])]
        res["inputs"], res["call"] = [(X(), True)], call
        return res

    if name == "__getitem__":
        key = case["key"]
        pk = key_to_python(key)
        res["model"] = [steps_line(key_to_steps(key, s))]
        res["inputs"], res["call"] = [(X(), True)], (lambda ins: ins[0][pk if len(pk) != 1 else pk[0]])
        return res

    if name == "index_select":
        dim, idx = case["dim"], list(case["idx"])
        it = torch.tensor(idx, dtype=torch.long)
        dd = dim - (r + 1) if v == "negdim" else dim
        call = (lambda ins: torch.index_select(ins[0], dd, it)) if v == "torch" else (lambda ins: ins[0].index_select(dd, it))
        res["model"] = [steps_line([f"I {dim} " + wl(idx)])]
        res["inputs"], res["call"] = [(X(), True)], call
        return res

    if name == "select":
        dim, i = case["dim"], case["i"]
        s2 = s[:dim] + s[dim + 1:]
        call = (lambda ins: torch.select(ins[0], dim, i)) if v == "torch" else (lambda ins: ins[0].select(dim, i))
        res["model"] = [steps_line([f"I {dim} " + wl([norm(i, s[dim])]), "R " + wl(s2)])]
        res["inputs"], res["call"] = [(X(), True)], call
        return res

    if name == "narrow":
        dim, st, ln = case["dim"], case["start"], case["len"]
        call = (lambda ins: torch.narrow(ins[0], dim, st, ln)) if v == "torch" else (lambda ins: ins[0].narrow(dim, st, ln))
        res["model"] = [steps_line([f"I {dim} " + wl(range(st, st + ln))])]
        res["inputs"], res["call"] = [(X(), True)], call
        return res

    if name in SPLIT:
        dim, arg = case["dim"], case["arg"]
        L = s[dim]
        if name == "unbind":
            call = (lambda ins: torch.unbind(ins[0], dim)) if v == "torch" else (lambda ins: ins[0].unbind(dim))
        elif name in ("hsplit", "vsplit", "dsplit"):
            call = (lambda ins: getattr(torch, name)(ins[0], arg)) if v == "torch" else (lambda ins: getattr(ins[0], name)(arg))
        else:
            call = (lambda ins: getattr(torch, name)(ins[0], arg, dim)) if v == "torch" else (lambda ins: getattr(ins[0], name)(arg, dim))
        res["inputs"], res["call"] = [(X(), True)], call
        res["pieces"] = {"dim": dim, "lengths": piece_lengths(name, arg, L), "drop": name == "unbind"}
        res["mode"] = "pieces"
        return res

    if name in GATHER:
        dim, si, index = case["dim"], list(case["si"]), list(case["index"])
        it = torch.tensor(index, dtype=torch.long).reshape(tuple(si) + (1,)).expand(tuple(si) + (d,)).contiguous()
        if name == "gather":
            call = (lambda ins: torch.gather(ins[0], dim, it)) if v == "torch" else (lambda ins: ins[0].gather(dim, it))
        else:
            call = (lambda ins: torch.take_along_dim(ins[0], it, dim)) if v == "torch" else (lambda ins: ins[0].take_along_dim(it, dim))
        res["model"] = [f"c06.gather {dim} {wl(s)} {wl(si)} {wl(index)}"]
        res["inputs"], res["call"] = [(X(), True)], call
        return res

    if name in ("expand", "expand_as"):
        s2 = list(case["s2"])
        full = list(s2) + [d]
        if v == "minus1":
            off = len(s2) - r
            full = [(-1 if (k >= off and s[k - off] == s2[k]) else s2[k]) for k in range(len(s2))] + [-1]
        if name == "expand_as":
            call = lambda ins: ins[0].expand_as(torch.zeros(tuple(s2) + (d,)))
        elif v == "tuple":
            call = lambda ins: ins[0].expand(tuple(full))
        else:
            call = lambda ins: ins[0].expand(*full)
        res["model"] = [steps_line(["E " + wl(s2)])]
        res["inputs"], res["call"] = [(X(), True)], call
        return res

    if name in ("repeat", "tile"):
        reps = list(case["reps"])
        if v == "short":
            full = (reps[-1], 1)
        else:
            full = tuple(reps) + (1,)
        if name == "repeat":
            call = (lambda ins: ins[0].repeat(full)) if v == "tuple" else (lambda ins: ins[0].repeat(*full))
        else:
            call = (lambda ins: torch.tile(ins[0], full)) if v == "tuple" else (lambda ins: ins[0].tile(full))
        res["model"] = [steps_line(["T " + wl(reps)])]
        res["inputs"], res["call"] = [(X(), True)], call
        return res

    if name in JOIN:
        ss, dim = [list(t) for t in case["ss"]], case["dim"]
        ins = []
        for k, t in enumerate(ss):
            tt = elem_tagged(t, d, k, dtype)
            ins.append((lie(tt, lt) if case["lie"][k] else tt, case["lie"][k]))
        seq = (lambda ins: tuple(ins)) if v == "tuple" else (lambda ins: list(ins))
        if name in ("cat", "concat"):
            dd = dim - (r + 1) if case.get("neg") else dim
            call = lambda ins: getattr(torch, name)(seq(ins), dd)
            mshapes, mdim = ss, dim
        elif name == "stack":
            dd = dim - (r + 2) if case.get("neg") else dim
            call = lambda ins: torch.stack(seq(ins), dd)
            mshapes, mdim = [t[:dim] + [1] + t[dim:] for t in ss], dim
        else:
            call = lambda ins: getattr(torch, name)(seq(ins))
            if name in ("vstack", "row_stack") and r == 0:
                mshapes, mdim = [[1] for _ in ss], 0
            else:
                mshapes, mdim = ss, dim
        res["model"] = [f"c06.cat {mdim} {len(mshapes)} " + " ".join(wl(t) for t in mshapes)]
        res["mode"] = "pairs"
        res["inputs"], res["call"] = ins, call
        return res

    def src_tensor(shape):
        t = elem_tagged(shape, d, 1, dtype)
        return (lie(t, lt) if case.get("src_lie") else t, bool(case.get("src_lie")))

    if name in ("index_copy", "index_copy_"):
        dim, idx = case["dim"], list(case["idx"])
        ssrc = list(s)
        ssrc[dim] = len(idx)
        it = torch.tensor(idx, dtype=torch.long)
        call = lambda ins: getattr(ins[0], name)(dim, it, ins[1])
        res["model"] = [f"c06.overwrite {dim} {wl(s)} {wl(idx)}"]
        res["mode"] = "pairs"
        res["inputs"], res["call"] = [(X(), True), src_tensor(ssrc)], call
        res["post"] = "self" if name.endswith("_") else None
        return res

    if name in ("index_put", "index_put_"):
        idx = list(case["idx"])
        ssrc = [len(idx)] + s[1:]
        it = torch.tensor(idx, dtype=torch.long)
        call = lambda ins: getattr(ins[0], name)((it,), ins[1])
        res["model"] = [f"c06.overwrite 0 {wl(s)} {wl(idx)}"]
        res["mode"] = "pairs"
        res["inputs"], res["call"] = [(X(), True), src_tensor(ssrc)], call
        res["post"] = "self" if name.endswith("_") else None
        return res

    if name == "select_scatter":
        dim, i = case["dim"], case["i"]
        ssrc = s[:dim] + s[dim + 1:]
        call = lambda ins: ins[0].select_scatter(ins[1], dim, i)
        res["model"] = [f"c06.overwrite {dim} {wl(s)} {wl([norm(i, s[dim])])}"]
        res["mode"] = "pairs"
        res["inputs"], res["call"] = [(X(), True), src_tensor(ssrc)], call
        return res

    if name in ("scatter", "scatter_add"):
        dim, si, ssrc, index = case["dim"], list(case["si"]), list(case["ssrc"]), list(case["index"])
        it = torch.tensor(index, dtype=torch.long).reshape(tuple(si) + (1,)).expand(tuple(si) + (d,)).contiguous()
        call = (lambda ins: getattr(torch, name)(ins[0], dim, it, ins[1])) if v == "torch" else (lambda ins: getattr(ins[0], name)(dim, it, ins[1]))
        res["model"] = [f"c06.scatter {dim} {wl(s)} {wl(si)} {wl(ssrc)} {wl(index)}"]
        res["mode"] = "pairs" if name == "scatter" else "accumulate"
        res["inputs"], res["call"] = [(X(), True), src_tensor(ssrc)], call
        return res

    if name == "copy_":
        ssrc = list(case["ssrc"])
        call = lambda ins: ins[0].copy_(ins[1])
        res["model"] = ["c06.steps " + wl(ssrc) + " E " + wl(s)]
        res["mode"] = "src1"
        res["inputs"], res["call"] = [(X(), True), src_tensor(ssrc)], call
        res["post"] = "self"
        return res

    if name == "__setitem__":
        kind = case["kind"]
        L = s[0]
        if kind == "int":
            idx, key, ssrc = [norm(case["i"], L)], case["i"], s[1:]
        elif kind == "idx":
            idx, key, ssrc = list(case["idx"]), torch.tensor(case["idx"], dtype=torch.long), [len(case["idx"])] + s[1:]
        elif kind == "slice":
            idx, key, ssrc = list(range(case["a"], case["b"])), slice(case["a"], case["b"]), [case["b"] - case["a"]] + s[1:]
        else:
            idx, key, ssrc = list(range(L)), Ellipsis, list(s)

        def call(ins):
            ins[0][key] = ins[1]
            return None
        res["model"] = [f"c06.overwrite 0 {wl(s)} {wl(idx)}"]
        res["mode"] = "pairs"
        res["inputs"], res["call"] = [(X(), True), src_tensor(ssrc)], call
        res["post"] = "self-none"
        return res

    if name == "take":
        items = list(case["items"])
        it = (torch.tensor(items, dtype=torch.long)[:, None] * d + torch.arange(d)[None, :]).reshape(len(items), d)
        call = (lambda ins: torch.take(ins[0], it)) if v == "torch" else (lambda ins: ins[0].take(it))
        res["mode"] = "expect"
        res["expect"] = ([len(items)], [(0, k) for k in items])
        res["inputs"], res["call"] = [(X(), True)], call
        return res

    if name == "masked_select":
        mask = torch.tensor(case["mask"], dtype=torch.bool).reshape(tuple(s) + (1,))
        call = (lambda ins: torch.masked_select(ins[0], mask)) if v == "torch" else (lambda ins: ins[0].masked_select(mask))
        res["mode"] = "elements"
        res["expect"] = [k for k, b in enumerate(case["mask"]) if b]
        res["inputs"], res["call"] = [(X(), True)], call
        return res

    raise KeyError(name)
