"""C15 — dynamics follow their equations; NLS linearisation is exact at the reference point.

Model: lean/Pose/Model/Dynamics.lean; theorems: lean/Proofs/Props/C15.lean (clock_history, lti_eq, ltv_eq_*,
rollout_spec, symdiff_correct, jacobian_A..D, affine_reproduces, nls_history, second_order, nls_second_order,
nls_history_alias, alias_defect_witness, …).

Correspondence streams (real code from /repo vs the Lean model executed in 192-bit arithmetic)
  multi   : deterministic corpus + random histories over 2-3 systems (tagged events; times from literals, from int64
            tensors the caller keeps and re-uses, from another system's `.systime`) vs `c15.mclock`; every clock follows its
            own law, kept tensors are never modified (theorem multi_clock_independent);
  clock   : random histories of call / raising call / direct forward / reset / systime= / set_refpoint on LTI, LTV
            and NLS objects, time arguments as int, float, bool, 0-dim int/float tensors; `.systime` after every
            event vs `c15.clock` (exact);
  lin     : LTI and user-subclassed LTV (stacked matrices indexed by `_t` or `_t % T`), all batch/broadcast
            layouts, scalar states, optional c1/c2, histories with feedback roll-outs, resets, failing calls
            (wrong dimension, slice index out of range) vs `c15.lin` per batch item, 64·eps·Σ|a||x|;
  nls     : random expression trees (polynomial / sin / cos / integer powers, shared sub-trees, time dependent)
            as `state_transition` / `observation`; histories of call / set_refpoint(x?,u?,t?) / reset /
            systime= / read(A,B,C,D,c1,c2) vs `c15.nls` under the documented semantics and under the
            "reference time is the clock buffer" semantics of the code as it stands;
  bmv     : bmv / bvv / bvmv on broadcast batches (+ LieTensor arguments, `out=`) vs `c15.bmv|bvv|bvmv`.
Oracles on the real code (independent of the Lean model)
  clock law (last set value + completed calls since); exact rational `A x + B u + c` per batch item;
  Jacobians against 50-digit numerical differentiation (mpmath) of an independent evaluator of the trees;
  `A x* + B u* + c1 = f(x*,u*,t*)` with f re-evaluated through the real `state_transition`;
  second-order bound `|f(p*+h d) - affine(p*+h d)| <= K` with K the explicit constant of theorem nls_second_order_explicit,
  evaluated by the model (driver op c15.bnd); whole-batch results of bmv / bvv / bvmv / one LTI forward against the model's
  own broadcasting (c15.bb, theorems bmv_batched … lti_batched).
"""
from __future__ import annotations

import math
import random
from fractions import Fraction

import torch

from . import common
from .common import Ctx, to_wire, wire_list

META = {
    "rule": "every case is generated from its own 40-bit sub-seed drawn from ctx.rng (stored in the case, so it replays "
            "exactly). corpus: 6 fixed multi-system scenarios run first (kept int64 time tensors re-used after forwards, systems "
            "assigned from each other's .systime or from one shared tensor and stepped/reset in interleaved order, shape-(1,) "
            "tensors, LTV.set_refpoint(t=kept tensor)); multi (400 / 5000): 2-3 systems, 8-18 tagged events, times from literals, "
            "kept 0-dim / shape-(1,) int64 tensors, other systems' clocks; clock (600 quick / 6000 thorough histories): kind lti|ltv|nls x 8-16 events (call, raising call, direct "
            "forward/state_transition/observation, reset, systime=, 1-dim tensor (raises), set_refpoint) x 12 ways of writing a "
            "time (python int/float/negative float/bool/huge int, 0-dim int64/int32/float64/float32 tensors, ladder "
            "-3..40,1000); lin (600 / 8000): lti | ltv indexed by _t | ltv indexed by _t % T, dims 1..4, 9 batch layouts with "
            "independently broadcast sub-batches of A,B,C,D,c1,c2,x,u, 0-dim states, optional constants, float64/float32, "
            "magnitudes 1e-3..1e3, 3-8 events with feedback roll-outs, wrong dimensions, slice index out of range; nls "
            "(500 / 7000): nx 1..3, nu 1..2, trees of depth <= 4 (+ - * neg sin cos pow 0..3, shared sub-trees, time variable), "
            "4-10 events + in-place updates of the caller's tensors, jacargs changes, views (call, set_refpoint with x,u None or given and t None | sys.systime | fresh tensor | kept int64 tensor, reset, "
            "systime= (also from a kept tensor), a second system exchanging times, read); lin histories also get kept-tensor "
            "assignments and a second system; bmv (300 / 5000): bmv, bvv, bvmv on broadcast batches, LieTensor argument, out=. A case is non-trivial "
            "when it contains a completed call or a read, and distinct by (stream, kind, dims, batch layout, dtype, "
            "event-kind sequence, tree operator multiset).",
    "trusted": ["torch.autograd.functional.jacobian / autograd of built-in ops (contract: returns the derivative of the "
                "traced program; the model uses the symbolic derivative proved correct in symdiff_correct)",
                "torch.matmul, indexing, copy_/fill_ into an int64 buffer (external kernels)",
                "mpmath 50-digit arithmetic and mp.diff (oracle only)"],
    "scope_of_ltv": "what is established about pypose's LTV: LTI.state_transition / observation read the overridable properties A, B, C, D, c1, c2 "
                    "(subclasses overriding them are used throughout the `lin` stream) and LTV.set_refpoint(t) sets the clock; pypose's LTV does no time "
                    "indexing — the indexing law (theorems ltv_eq_*, rollout_ltv_*, model sliceIdx / pyIndex) is the one of the harness's own subclass "
                    "MyLTV, the pattern documented in the LTV docstring",
    "assumptions": ["NLS reference points are unbatched (1-D state and input): for batched reference points "
                    "torch's jacobian returns the full (B,n,B,n) Jacobian and c1/c2 get shape (B,n,n); outside the "
                    "modelled domain (see notes/C15.md)",
                    "model clock is an unbounded integer, the code's an int64 buffer: statements about the code hold for |clock| < 2^63; times are "
                    "finite numbers (inf / nan cannot be written on the wire, the code raises on them)",
                    "user state_transition / observation are pure functions of (state, input, t) built from + - * sin cos "
                    "and integer powers"],
    "hardening": "deterministic corner corpora (multi 6, lin 9, bmv 12, nls 6 cases) run first; extreme magnitudes 1e-30..1e8 / 1e40, dims to 7, "
                 "long roll-outs; mixed-regime batches (zero/tiny/ordinary/large items); layouts (transposed storage, slices of larger buffers "
                 "with guarded surroundings, stride-0 expansions); the same tensor as two arguments; in-place updates by the caller of matrices, "
                 "states, reference tensors and kept time tensors between calls; jacargs changed between reads; per-call varied batch shapes and "
                 "0-dim/1-D states on one object",
    "hardening2": "copies (deepcopy, pickle, torch.save/load, state_dict) of systems used interleaved with the originals in multi / lin / nls; "
                  "grad modes (requires_grad, no_grad, inference_mode where autograd is not needed); keyword vs positional spellings; out= buffers; "
                  "LieTensor for every bmv/bvv/bvmv argument; user functions that raise inside forward / set_refpoint; outputs own their memory; "
                  "identity / zero matrices; batch sizes 5, 7, 3x3 and equal to n, m, p, T",
    "round4": "big batches (2^14+1 … 2^16+1 items: item / split consistency bit for bit, exact equations on the last item); reference time equal "
              "to the clock exactly and off by one; user sub-subclasses and direct System subclasses; time stamps above 2^24 / 2^53 with user "
              "functions doing exact integer arithmetic on t (time base T0); grad-mode orders on shapes fresh in the process, backward() in grad mode",
    "round5": "user subclasses overriding any subset of the PROPERTIES A, B, C, D, c1, c2 (values computed from the clock outside the buffers; the "
              "constructor gets None / zeros / junk), LTI and LTV, clock-indexed and periodic; the model's `objForward` (op c15.obj) reads the "
              "property for the None test and the value; det stream (19 corpus + 40 / 600): several default-constructed systems interleaved "
              "(jacargs changed in place, reference points, resets) against the documented defaults, every dtype torch accepts for bmv / bvv / "
              "bvmv / an LTI step (int64…uint8, float16, bfloat16, complex64/128; value and dtype; bool is refused by torch itself), two "
              "identical calls of every entry point with every other entry point run on single-item / all-1 shapes and their results "
              "overwritten in between (bit for bit); user f / g that return their argument or a view of it; batches of 2^17+5 (quick) and "
              "2^18+1, 2^18+37, 2^20+1 (thorough) with the last n mod 2^k items checked; nearly-identity / nearly-zero matrices",
    "pass7": "every value returned by the real code is tested for finiteness before it goes to the driver or into a tolerance comparison "
             "(`finite`: a NaN / inf is a failing input `non-finite result`, never a harness crash); every failure-deciding comparison has the "
             "form `not (err <= tol)`; det/ties (28 corpus + generated): 14 kinds of exact ties on exactly representable data (zero state / "
             "input / constants / matrices, A x = -B u, A x + B u = ±c1, x = u, A = B, constant entries, equal max-norms, signed "
             "permutations, equal output components) through an LTI step (with / without constants, fed back), bmv, bvv, bvmv and the NLS "
             "linearisation; affine-exact oracle: for every component of f / g that is affine in state and input the code's A x' + B u' + c "
             "is compared with f(x', u', t*) far from the reference point (theorems nls_affine_exact, nls_affine_exact_obs)",
    "pass8": "lesson 44: histories of converging reference points on one object (x_k = x_inf + d 10^-k and / or u_k, k = 1 … 14, same reference "
             "time; then the limit, the limit again, the first point again), every read judged at its own requested point by the mpmath "
             "Jacobians and the affine reproduction (failure messages carry both consecutive reference points); 12 % of the generated nls "
             "cases + corpus 20-24; error paths (outside the property): a read after a raising set_refpoint may match the code's "
             "partial update or atomic error paths (second model line, pf = 0)",
    "pass10": "det/affrow (4 corpus + 30 / 400): an LTV system written as an NLS, rows Σ a_ij(t) x_j + Σ b_ij(t) u_j + c_i(t) (model Fn.affRow): "
              "pypose's A, B, c1 at three reference points on one object against the coefficient trees evaluated by mpmath at t* and against "
              "the model's linearize of Fn.affRow (driver op c15.affrow; theorems nls_ltv_jacobians, nls_ltv_constant, nls_ltv_exact, nls_ltv_c1, nls_ltv_c2)",
    "partial": ["IEEE rounding is not modelled: the float code is compared with the exact model at 64·eps·(sum of "
                "absolute term magnitudes)",
                "the explicit second-order constant (Fn.bnd, nls_second_order_explicit) is an upper bound, not the least constant",
                "non-mutation of caller tensors is monitored, not proved"],
}

# smallest normal number: an intermediate that underflows contributes an absolute error of this size times what it is
# later multiplied with (IEEE range effects are outside the property; they only enter the tolerance floor)
UNDER = {"float64": 2.3e-308, "float32": 1.2e-38}


def floor_(case_dtype, mag, size):
    return UNDER[case_dtype] * (1.0 + mag) * (size + 1) + 1e-300


SITE = "pypose/module/dynamics.py:NLS.set_refpoint"
PREDICATE = "ref_t_is_clock_buffer_and_clock_changed"


def pp():
    import pypose
    return pypose


def DT(name):
    return getattr(torch, name)


# ============================================================================= expression trees

def gen_const(rng):
    a = rng.choice([1, 1, 2, 3, 5, 7])
    b = rng.choice([1, 1, 2, 4, 8])
    return ("C", rng.random() < 0.3, a, b)


def gen_tree(rng, nvars, depth, pool):
    """random tree over variables 0..nvars-1 (the last one is time); sub-trees are sometimes shared"""
    if pool and rng.random() < 0.12:
        return rng.choice(pool)
    if depth <= 0 or rng.random() < 0.18:
        if rng.random() < 0.72:
            return ("V", rng.randrange(nvars))
        return gen_const(rng)
    op = rng.choice(["+", "+", "-", "*", "*", "*", "~", "S", "K", "P"])
    if op in "+-*":
        t = (op, gen_tree(rng, nvars, depth - 1, pool), gen_tree(rng, nvars, depth - 1, pool))
    elif op == "P":
        t = ("P", gen_tree(rng, nvars, depth - 1, pool), rng.choice([0, 1, 2, 2, 3]))
    else:
        t = (op, gen_tree(rng, nvars, depth - 1, pool))
    pool.append(t)
    return t


def tree_tokens(t, out):
    op = t[0]
    if op == "C":
        out += ["C1" if t[1] else "C0", str(t[2]), str(t[3])]
    elif op == "V":
        out += ["V", str(t[1])]
    elif op in "+-*":
        out.append(op)
        tree_tokens(t[1], out)
        tree_tokens(t[2], out)
    elif op == "P":
        out += ["P", str(t[2])]
        tree_tokens(t[1], out)
    else:
        out.append(op)
        tree_tokens(t[1], out)
    return out


def tree_size(t):
    op = t[0]
    if op in "CV":
        return 1
    if op in "+-*":
        return 1 + tree_size(t[1]) + tree_size(t[2])
    return 1 + tree_size(t[1])


def tree_ops(t, acc):
    acc[t[0]] = acc.get(t[0], 0) + 1
    if t[0] in "+-*":
        tree_ops(t[1], acc)
        tree_ops(t[2], acc)
    elif t[0] not in "CV":
        tree_ops(t[1], acc)
    return acc


def cval(t):
    v = t[2] / t[3]
    return -v if t[1] else v


def tree_torch(t, vals, dtype, cache):
    """compile-and-run on torch values; shared sub-trees are evaluated once (shared autograd nodes)"""
    key = id(t)
    if key in cache:
        return cache[key]
    op = t[0]
    if op == "C":
        r = torch.tensor(cval(t), dtype=dtype)
    elif op == "V":
        r = vals[t[1]]
    elif op == "+":
        r = tree_torch(t[1], vals, dtype, cache) + tree_torch(t[2], vals, dtype, cache)
    elif op == "-":
        r = tree_torch(t[1], vals, dtype, cache) - tree_torch(t[2], vals, dtype, cache)
    elif op == "*":
        r = tree_torch(t[1], vals, dtype, cache) * tree_torch(t[2], vals, dtype, cache)
    elif op == "~":
        r = -tree_torch(t[1], vals, dtype, cache)
    elif op == "S":
        r = torch.sin(tree_torch(t[1], vals, dtype, cache))
    elif op == "K":
        r = torch.cos(tree_torch(t[1], vals, dtype, cache))
    else:
        r = tree_torch(t[1], vals, dtype, cache) ** t[2]
    cache[key] = r
    return r


def tree_mp(t, env):
    """independent evaluator in mpmath (oracle)"""
    import mpmath as mp
    op = t[0]
    if op == "C":
        v = mp.mpf(t[2]) / mp.mpf(t[3])
        return -v if t[1] else v
    if op == "V":
        return env[t[1]]
    if op == "+":
        return tree_mp(t[1], env) + tree_mp(t[2], env)
    if op == "-":
        return tree_mp(t[1], env) - tree_mp(t[2], env)
    if op == "*":
        return tree_mp(t[1], env) * tree_mp(t[2], env)
    if op == "~":
        return -tree_mp(t[1], env)
    if op == "S":
        return mp.sin(tree_mp(t[1], env))
    if op == "K":
        return mp.cos(tree_mp(t[1], env))
    return tree_mp(t[1], env) ** t[2]


def tree_free(t, nv):
    """no state / input variable (index < nv) occurs: a coefficient (the model's Fn.freeOf)"""
    op = t[0]
    if op == "C":
        return True
    if op == "V":
        return t[1] >= nv
    if op in "+-*":
        return tree_free(t[1], nv) and tree_free(t[2], nv)
    return tree_free(t[1], nv)


def tree_affine(t, nv):
    """affine in the variables below nv with time-dependent coefficients (the model's Fn.affineIn)"""
    op = t[0]
    if op in "CV":
        return True
    if op in "+-":
        return tree_affine(t[1], nv) and tree_affine(t[2], nv)
    if op == "*":
        return (tree_free(t[1], nv) and tree_affine(t[2], nv)) or (tree_affine(t[1], nv) and tree_free(t[2], nv))
    if op == "~":
        return tree_affine(t[1], nv)
    if op in "SK":
        return tree_free(t[1], nv)
    return tree_free(t[1], nv) or t[2] == 0


def tree_mag(t, ea, nv):
    """(m, [dm_v]): m bounds |value| plus propagated absolute error scale, dm_v the same for d/dv — the
    float error of evaluating the tree (its reverse-mode derivative) is <= c·u·m (c·u·dm_v), c ~ #ops"""
    op = t[0]
    if op == "C":
        return abs(cval(t)), [0.0] * nv
    if op == "V":
        d = [0.0] * nv
        d[t[1]] = 1.0
        return ea[t[1]], d
    if op in "+-":
        ma, da = tree_mag(t[1], ea, nv)
        mb, db = tree_mag(t[2], ea, nv)
        return ma + mb, [x + y for x, y in zip(da, db)]
    if op == "*":
        ma, da = tree_mag(t[1], ea, nv)
        mb, db = tree_mag(t[2], ea, nv)
        return ma * mb, [x * mb + ma * y for x, y in zip(da, db)]
    ma, da = tree_mag(t[1], ea, nv)
    if op == "~":
        return ma, da
    if op in "SK":
        return 1.0 + ma, [x * (1.0 + ma) for x in da]
    n = t[2]
    if n == 0:
        return 1.0, [0.0] * nv
    return n * ma ** n, [n * n * ma ** (n - 1) * x for x in da]


# ============================================================================= helpers

def time_token(v):
    """exact m:e token of a time value (python number or 0-dim tensor)"""
    if isinstance(v, torch.Tensor):
        v = v.item()
    if isinstance(v, bool):
        v = int(v)
    return to_wire(v)


TIME_STYLES = ["int", "int", "float", "negfloat", "bool", "tint", "tint", "tint", "tfloat", "tfloat32", "tint32", "bigint"]


def gen_time(rng, style=None):
    """{"v": python number, "as": how it is handed to the API}"""
    style = style or rng.choice(TIME_STYLES)
    if style == "int":
        return {"v": rng.choice([-3, -1, 0, 1, 2, 5, 17, 36, 39, 40, 1000]) if rng.random() < 0.5 else rng.randint(-4, 40), "as": "py"}
    if style == "float":
        return {"v": rng.randint(0, 30) + rng.choice([0.25, 0.5, 0.75, 0.999]), "as": "py"}
    if style == "negfloat":
        return {"v": -(rng.randint(0, 9) + rng.choice([0.25, 0.5, 0.75, 0.999])), "as": "py"}
    if style == "bool":
        return {"v": True, "as": "py"}
    if style == "tint":
        return {"v": rng.choice([-3, -1, 0, 1, 2, 5, 17, 36, 39, 40, 1000]) if rng.random() < 0.6 else rng.randint(-4, 40), "as": "int64"}
    if style == "tint32":
        return {"v": rng.randint(0, 40), "as": "int32"}
    if style == "tfloat":
        return {"v": rng.randint(-6, 30) + rng.choice([0.0, 0.5, 0.875]), "as": "float64"}
    if style == "tfloat32":
        return {"v": rng.randint(0, 30) + rng.choice([0.0, 0.5]), "as": "float32"}
    return {"v": rng.choice([2 ** 31 + 5, 10 ** 12, -(2 ** 33)]), "as": "py"}


def mk_time(spec):
    if spec["as"] == "py":
        return spec["v"]
    return torch.tensor(spec["v"], dtype=DT(spec["as"]))


def time_trunc(spec):
    v = spec["v"]
    if isinstance(v, bool):
        return int(v)
    return int(v)  # python int() truncates toward zero


def gen_vals(rng, n, dtype):
    """n floats exactly representable in dtype: small integers, dyadics, moderate reals, a few tiny / zero"""
    out = []
    for _ in range(n):
        c = rng.random()
        if c < 0.12:
            v = float(rng.choice([0, 1, -1, 2, -2, 3]))
        elif c < 0.25:
            v = rng.randint(-12, 12) / rng.choice([2, 4, 8])
        elif c < 0.33:
            v = rng.choice([1e-30, -1e-12, 1e-6, math.pi, -math.pi / 2, 1e-3])
        else:
            v = rng.uniform(-2.5, 2.5)
        out.append(float(torch.tensor(v, dtype=DT(dtype)).item()))
    return out


def safe_clock(ctx, case, sys_, i, ev):
    """the clock as a python int, or None after recording a failing input: `.systime` must be a 0-dim int64 tensor
    (whatever the implementation did to it, this never raises)"""
    try:
        st = sys_.systime
        if not isinstance(st, torch.Tensor) or st.ndim != 0 or st.dtype != torch.int64:
            ctx.fail({**pub(case), "at": i}, f"clock-type: after event {i} ({ev}) systime is {type(st).__name__} dtype={getattr(st, 'dtype', None)} "
                                             f"shape={tuple(getattr(st, 'shape', ()))} value={st.tolist() if isinstance(st, torch.Tensor) and st.numel() < 5 else '?'}; "
                                             f"the system time is a 0-dim int64 counter")
            return None
        return int(st)
    except Exception as ex:
        ctx.fail({**pub(case), "at": i}, f"clock-type: reading systime after event {i} ({ev}) raised {type(ex).__name__}: {str(ex)[:100]}")
        return None


class _Abort(Exception):
    """a failing input was recorded and the observation of this case cannot go on"""


def clk(ctx, case, sys_, i, ev):
    v = safe_clock(ctx, case, sys_, i, ev)
    if v is None:
        raise _Abort()
    return v


def guarded(ctx, case, fn, *args):
    """run the implementation-side part of one case; an exception escaping from it is a misbehaviour of the
    implementation on this case (the harness itself is exercised on the clean tree for every seed) — recorded as a
    failing input, never as a crash of the check"""
    try:
        return fn(ctx, case, *args)
    except common.InfraError:
        raise
    except _Abort:
        return None
    except Exception as ex:
        import traceback
        tb = traceback.format_exc()
        ctx.fail(pub(case) if "fs" not in case else strip(case),
                 f"impl-exception: unexpected {type(ex).__name__}: {str(ex)[:120]} while observing the implementation ({tb.strip().splitlines()[-3].strip()[:120]})")
        return None


def finite(ctx, case, what, *vals):
    """lesson 38: every value the real code returns for a finite valid input is tested for finiteness BEFORE it goes to the
    Lean driver (`to_wire` refuses NaN / inf) or into a tolerance comparison; nothing in the property (linear maps, smooth
    user functions on data far from overflow) specifies a non-finite result. Records the failing input and returns False."""
    for k_, v in enumerate(vals):
        if isinstance(v, (tuple, list)):
            if not finite(ctx, case, f"{what} [{k_}]", *v):
                return False
            continue
        if not isinstance(v, torch.Tensor):
            v = torch.as_tensor(v)
        if (v.is_floating_point() or v.is_complex()) and not bool(torch.isfinite(v).all()):
            flat = v.detach().reshape(-1)
            j = int((~torch.isfinite(flat)).nonzero()[0])
            ctx.fail(case, f"non-finite result: {what}: value {k_} (shape {tuple(v.shape)}) has entry {flat[j].item()!r} at flat index {j}; all operands are finite "
                           f"and the exact result is far from overflow")
            return False
    return True


def pub(case):
    """the replayable part of a case (private working keys removed)"""
    return {k: v for k, v in case.items() if not k.startswith("_")}


def sig_events(evs):
    return "".join(e["ev"][0] for e in evs)


# ============================================================================= stream: clock

def make_simple(P, kind):
    if kind in ("nls2", "sysu"):
        simple_nls_class(P)
        return globals()["SimpleNLS2" if kind == "nls2" else "SimpleSys"]()
    if kind == "lti":
        return P.module.LTI(torch.tensor([[2.0]]), torch.tensor([[1.0]]), torch.tensor([[1.0]]), torch.tensor([[0.0]]))
    if kind == "ltv":
        return P.module.LTV(torch.tensor([[2.0]]), torch.tensor([[1.0]]), torch.tensor([[1.0]]), torch.tensor([[0.0]]))

    return simple_nls_class(P)()


def simple_nls_class(P):
    """module-level (hence picklable) time dependent NLS: f = x/2 + u + (t mod 1000), g = x - u; the remainder is taken in
    exact integer arithmetic on the time stamp, so clocks far above 2^24 / 2^53 are told apart"""
    if "SimpleNLS" not in globals():
        class SimpleNLS(P.module.NLS):
            def state_transition(self, state, input, t=None):
                return state * 0.5 + input + torch.remainder(torch.as_tensor(t).reshape(()), 1000).to(state.dtype)

            def observation(self, state, input, t=None):
                return state - input
        SimpleNLS.__qualname__ = "SimpleNLS"
        globals()["SimpleNLS"] = SimpleNLS

        class SimpleNLS2(SimpleNLS):            # a user subclass of a user subclass: only the observation is overridden
            def observation(self, state, input, t=None):
                return 2 * state - input
        SimpleNLS2.__qualname__ = "SimpleNLS2"
        globals()["SimpleNLS2"] = SimpleNLS2

        class SimpleSys(P.module.System):       # derived from the base class directly: own equations, the library's clock
            def state_transition(self, state, input, t=None):
                return state * 3.0 - input

            def observation(self, state, input, t=None):
                return state + input
        SimpleSys.__qualname__ = "SimpleSys"
        globals()["SimpleSys"] = SimpleSys
    return globals()["SimpleNLS"]


COPY_HOWS = ["deepcopy", "deepcopy", "pickle", "torchsave", "state_dict"]


def copy_system(sys_, how, fresh):
    """a copy of a system by one of the mechanisms that work on the clean tree; `fresh()` builds a new object of the same
    class and constructor arguments (for the state_dict route)"""
    import copy
    import io
    import pickle
    if how == "deepcopy":
        return copy.deepcopy(sys_)
    if how == "pickle":
        return pickle.loads(pickle.dumps(sys_))
    if how == "torchsave":
        buf = io.BytesIO()
        torch.save(sys_, buf)
        buf.seek(0)
        return torch.load(buf, weights_only=False)
    new = fresh()
    new.load_state_dict(sys_.state_dict())
    return new


def gen_clock_case(seed, quick):
    rng = random.Random(seed)
    kind = rng.choice(["lti", "ltv", "nls"])
    n = rng.randint(8, 16)
    evs = []
    for _ in range(n):
        c = rng.random()
        if c < 0.34:
            evs.append({"ev": "call"})
        elif c < 0.42:
            evs.append({"ev": "xraise"})          # call whose forward raises
        elif c < 0.49:
            evs.append({"ev": "fwd", "which": rng.choice(["forward", "state_transition", "observation"])})
        elif c < 0.62:
            evs.append({"ev": "reset", "t": None if rng.random() < 0.3 else gen_time(rng)})
        elif c < 0.76:
            evs.append({"ev": "assign", "t": gen_time(rng)})
        elif c < 0.80:
            evs.append({"ev": "badset", "how": rng.choice(["reset", "assign"])})   # 1-dim tensor: raises
        else:
            evs.append({"ev": "ref", "t": None if rng.random() < 0.25 else gen_time(rng, rng.choice(["int", "tint", "tfloat", "float"]))})
    return {"kind": "clock", "sys": kind, "seed": seed, "events": evs}


def clock_line(case):
    toks = []
    for e in case["events"]:
        ev = e["ev"]
        if ev == "call":
            toks.append("call")
        elif ev in ("xraise", "badset"):
            toks.append("raise")
        elif ev == "fwd":
            toks.append("fwd")
        elif ev == "reset":
            toks.append("reset=" + (to_wire(0) if e["t"] is None else time_token(e["t"]["v"])))
        elif ev == "assign":
            toks.append("assign=" + time_token(e["t"]["v"]))
        else:
            toks.append("ref=" + ("none" if e["t"] is None else time_token(e["t"]["v"])))
    return f"c15.clock {case['sys']} 0 " + " ".join(toks)


def run_clock_impl(ctx: Ctx, case):
    """returns list of observed clocks after each event; applies the clock law as an oracle"""
    P = pp()
    kind = case["sys"]
    sys_ = make_simple(P, kind)
    x, u = torch.tensor([1.5]), torch.tensor([0.25])
    obs, expect = [], 0
    handed = []   # tensors handed to the API must never be modified
    for i, e in enumerate(case["events"]):
        ev = e["ev"]
        before = safe_clock(ctx, case, sys_, i, "before " + ev)
        if before is None:
            return None
        try:
            if ev == "call":
                if not finite(ctx, {**pub(case), "at": i}, f"call {i} of the {kind} system on x={x.tolist()} u={u.tolist()}", sys_(x, u)):
                    return None
                expect = before + 1
            elif ev == "xraise":
                try:
                    sys_(torch.ones(2, 3, 4), torch.ones(5)) if kind != "nls" else sys_(torch.ones(2), torch.ones(3))
                    raised = False
                except Exception:
                    raised = True
                if not raised:
                    ctx.notes.append("xraise did not raise")
            elif ev == "fwd":
                if e["which"] == "forward":
                    o_ = sys_.forward(x, u)
                elif kind == "nls":
                    o_ = getattr(sys_, e["which"])(x, u, sys_.systime)
                else:
                    getattr(sys_, e["which"])(x, u)
            elif ev == "reset":
                if e["t"] is None:
                    r = sys_.reset()
                    expect = 0
                else:
                    tv = mk_time(e["t"])
                    handed.append((tv, tv.clone() if isinstance(tv, torch.Tensor) else tv))
                    r = sys_.reset(tv)
                    expect = time_trunc(e["t"])
                if r is not sys_:
                    ctx.fail({**case, "at": i}, "reset-return: reset() does not return the system")
            elif ev == "assign":
                tv = mk_time(e["t"])
                handed.append((tv, tv.clone() if isinstance(tv, torch.Tensor) else tv))
                sys_.systime = tv
                expect = time_trunc(e["t"])
            elif ev == "badset":
                try:
                    if e["how"] == "reset":
                        sys_.reset(torch.tensor([3, 4]))
                    else:
                        sys_.systime = torch.tensor([3, 4])
                except Exception:
                    pass
            elif ev == "ref":
                tv = None if e["t"] is None else torch.as_tensor(mk_time(e["t"]))
                if tv is not None:
                    handed.append((tv, tv.clone()))
                try:
                    if kind == "nls":
                        sys_.set_refpoint(state=x, input=u, t=tv)
                    else:
                        sys_.set_refpoint(t=tv)
                    if kind == "ltv" and e["t"] is not None:
                        expect = time_trunc(e["t"])
                except Exception as ex:
                    if not (kind == "ltv" and e["t"] is None):
                        ctx.fail({**case, "at": i}, f"refpoint-raises: {kind}.set_refpoint raised {type(ex).__name__}: {str(ex)[:80]}")
        except Exception as ex:
            ctx.fail({**case, "at": i}, f"clock-raises: event {ev} raised {type(ex).__name__}: {str(ex)[:100]}")
        now = safe_clock(ctx, case, sys_, i, ev)
        if now is None:
            return None
        obs.append(now)
        integral = ev in ("call",) or (ev in ("reset", "assign", "ref") and (e.get("t") is None or float(e["t"]["v"]).is_integer()))
        # the property's own statement: a call advances by exactly one; reset/assignment set the time; nothing else moves it
        if now != expect and integral:
            ctx.fail({**case, "at": i}, f"clock-law: after event {i} ({ev}) systime={now}, the law gives {expect} (before: {before})")
        expect = now if not integral else expect
        for tv, keep in handed:
            if isinstance(tv, torch.Tensor) and (tv.shape != keep.shape or not torch.equal(tv, keep)):
                ctx.fail({**case, "at": i}, f"mutation: a time tensor handed to reset/systime/set_refpoint earlier was modified by event {i} ({ev}): {keep.tolist()} -> {tv.tolist()}")
                return None
    for tv, keep in handed:
        if isinstance(tv, torch.Tensor) and not torch.equal(tv, keep):
            ctx.fail(case, f"mutation: a time tensor handed to reset/systime/set_refpoint was modified later ({keep.item()} -> {tv.item()})")
    return obs


def run_clock(ctx: Ctx, cases):
    lines = [clock_line(c) for c in cases]
    reps = ctx.driver.run(lines)
    for case, rep in zip(cases, reps):
        st, toks = common.parse_reply(rep)
        if st != "ok":
            raise common.InfraError(f"model error on clock line: {rep}")
        want = [int(t) for t in toks]
        got = guarded(ctx, case, run_clock_impl)
        ncall = sum(1 for e in case["events"] if e["ev"] == "call")
        ctx.note_case(("clock", case["sys"], sig_events(case["events"])), ncall > 0)
        for e in case["events"]:
            ctx.count("clock." + case["sys"] + "." + e["ev"])
        if got is None:
            continue                       # a failing input was recorded; the observation was abandoned
        if got != want:
            j = next(i for i, (a, b) in enumerate(zip(got, want)) if a != b)
            ctx.disagree("clock", case, f"{case['sys']}: after event {j} ({case['events'][j]}) implementation systime {got[j]} model {want[j]}")
    if cases:
        ctx.sample({"stream": "clock", "sys": cases[0]["sys"], "events": [e["ev"] for e in cases[0]["events"]]})



# ============================================================================= stream: multi (several systems, kept tensors)

def gen_multi_case(seed, quick):
    """2-3 systems; times written from literals, from int64 tensors the caller KEEPS and re-uses (0-dim and shape (1,)),
    from another system's `.systime`; interleaved calls / resets; every system's clock must follow its own law"""
    rng = random.Random(seed)
    n = rng.choice([2, 2, 3])
    systems = [rng.choice(["lti", "ltv", "nls", "nls", "nls2", "sysu"]) for _ in range(n)]
    if rng.random() < 0.6:
        systems[1] = systems[0]             # a pair of the same class: one may become a copy of the other
    # kept time tensors: small values and time stamps above 2^24 / 2^53 (the simple NLS reads t mod 1000 exactly)
    slots = [{"v": rng.choice([-2, 0, 1, 3, 7, 19, 40, 2 ** 24 + 1, 2 ** 24 + 3, 1_700_000_003, 2 ** 53 + 1]), "shape": rng.choice([0, 0, 0, 1])}
             for _ in range(rng.randint(1, 3))]
    evs = []
    for _ in range(rng.randint(8, 18)):
        sidx, c = rng.randrange(n), rng.random()
        if c < 0.36:
            evs.append({"s": sidx, "ev": "call"})
        elif c < 0.40:
            evs.append({"s": sidx, "ev": "xraise"})
        elif c < 0.47:
            evs.append({"s": sidx, "ev": "reset", "t": None})
        elif c < 0.57:
            same = [j for j in range(n) if j != sidx and systems[j] == systems[sidx]]
            if same:      # system sidx is replaced by a copy of system j (deepcopy / pickle / torch.save / state_dict)
                evs.append({"s": sidx, "ev": "copy", "of": rng.choice(same), "how": rng.choice(COPY_HOWS)})
            else:
                evs.append({"s": sidx, "ev": "call"})
        else:
            how = rng.choice(["assign", "assign", "reset", "ref"])
            c2 = rng.random()
            if c2 < 0.42:
                src = {"slot": rng.randrange(len(slots))}
            elif c2 < 0.80:
                src = {"from": rng.randrange(n)}
            else:
                src = {"v": rng.randint(-3, 30), "as": rng.choice(["py", "int64", "int64", "int32", "float64"])}
            evs.append({"s": sidx, "ev": how, "t": src})
    return {"kind": "multi", "seed": seed, "systems": systems, "slots": slots, "events": evs}


def _c(s, ev, t=None):
    return {"s": s, "ev": ev, "t": t} if ev in ("assign", "reset", "ref") else {"s": s, "ev": ev}


# deterministic corpus: the scenarios of seeded change C15-2 (a clock that is rebound to / shares storage with a
# tensor of the caller or the clock of another system), run first on every run
CORPUS = [
    # a kept 0-dim int64 tensor is assigned, the system is stepped, the tensor is read and assigned again
    {"systems": ["lti"], "slots": [{"v": 5, "shape": 0}],
     "events": [_c(0, "assign", {"slot": 0}), _c(0, "call"), _c(0, "call"), _c(0, "assign", {"slot": 0}), _c(0, "call"), _c(0, "reset", None), _c(0, "call")]},
    # b.systime = a.systime; a is stepped and reset; b must keep its own time
    {"systems": ["lti", "lti"], "slots": [{"v": 3, "shape": 0}],
     "events": [_c(0, "assign", {"v": 3, "as": "py"}), _c(1, "assign", {"from": 0}), _c(0, "call"), _c(0, "reset", None), _c(1, "call"), _c(0, "call"),
                _c(0, "assign", {"from": 1}), _c(1, "reset", {"v": 9, "as": "int64"}), _c(0, "call")]},
    # three systems written from one shared tensor, stepped and reset in interleaved order
    {"systems": ["lti", "ltv", "nls"], "slots": [{"v": 2, "shape": 0}],
     "events": [_c(0, "assign", {"slot": 0}), _c(1, "assign", {"slot": 0}), _c(2, "assign", {"slot": 0}), _c(0, "call"), _c(1, "call"), _c(1, "call"),
                _c(2, "reset", {"v": 9, "as": "py"}), _c(0, "reset", None), _c(2, "call"), _c(1, "assign", {"slot": 0}), _c(1, "call")]},
    # shape-(1,) int64 tensors: the clock stays a 0-dim counter whatever happens
    {"systems": ["lti", "nls"], "slots": [{"v": 4, "shape": 1}],
     "events": [_c(0, "assign", {"slot": 0}), _c(0, "call"), _c(1, "reset", {"slot": 0}), _c(1, "call"), _c(1, "assign", {"slot": 0}), _c(1, "call"), _c(0, "call")]},
    # LTV.set_refpoint(t=<kept int64 tensor>) sets the time from the tensor's value; the tensor stays the caller's
    {"systems": ["ltv", "ltv"], "slots": [{"v": 7, "shape": 0}, {"v": 1, "shape": 1}],
     "events": [_c(0, "ref", {"slot": 0}), _c(0, "call"), _c(0, "call"), _c(1, "ref", {"from": 0}), _c(0, "ref", {"slot": 0}), _c(1, "call"), _c(0, "ref", {"slot": 1}),
                _c(0, "call"), _c(1, "reset", None), _c(0, "call")]},
    # reset(kept tensor), reset(other.systime), mixed with python ints, int32 and float tensors (always copied)
    {"systems": ["nls", "lti", "ltv"], "slots": [{"v": 19, "shape": 0}],
     "events": [_c(0, "reset", {"slot": 0}), _c(0, "call"), _c(1, "reset", {"from": 0}), _c(0, "call"), _c(1, "call"), _c(2, "assign", {"v": 6, "as": "int32"}),
                _c(2, "call"), _c(1, "assign", {"from": 2}), _c(2, "assign", {"v": 2.5, "as": "float64"}), _c(1, "call"), _c(2, "call"), _c(0, "assign", {"from": 0}), _c(0, "call")]},
]
CORPUS += [
    # a deep copy (then a pickled copy) of a stepped system: copy and original stepped / reset / assigned in turn
    {"systems": ["nls", "nls", "nls"], "slots": [{"v": 5, "shape": 0}],
     "events": [_c(0, "call"), _c(0, "call"), {"s": 1, "ev": "copy", "of": 0, "how": "deepcopy"}, _c(1, "call"), _c(1, "call"), _c(0, "call"), _c(0, "reset", None),
                _c(1, "call"), {"s": 2, "ev": "copy", "of": 1, "how": "pickle"}, _c(2, "call"), _c(1, "assign", {"slot": 0}), _c(2, "call"), _c(0, "call"), _c(1, "call")]},
    {"systems": ["ltv", "ltv"], "slots": [{"v": 2, "shape": 0}],
     "events": [_c(0, "ref", {"slot": 0}), _c(0, "call"), {"s": 1, "ev": "copy", "of": 0, "how": "state_dict"}, _c(1, "call"), _c(0, "call"), _c(0, "call"), _c(1, "reset", None),
                _c(1, "call"), {"s": 0, "ev": "copy", "of": 1, "how": "torchsave"}, _c(0, "call"), _c(1, "call"), _c(1, "call")]},
    {"systems": ["lti", "lti", "nls"], "slots": [{"v": 1, "shape": 0}],
     "events": [_c(0, "call"), {"s": 1, "ev": "copy", "of": 0, "how": "pickle"}, {"s": 0, "ev": "copy", "of": 1, "how": "deepcopy"}, _c(0, "call"), _c(1, "call"), _c(1, "call"),
                _c(2, "call"), _c(0, "assign", {"from": 1}), _c(1, "reset", None), _c(0, "call")]},
]
CORPUS += [
    # time stamps above 2^24 / 2^53 and user subclasses (of NLS, of a user NLS, of System): each reads its own exact clock
    {"systems": ["nls", "nls2", "sysu"], "slots": [{"v": 2 ** 24 + 1, "shape": 0}, {"v": 1_700_000_003, "shape": 0}, {"v": 2 ** 53 + 1, "shape": 0}],
     "events": [_c(0, "assign", {"slot": 0}), _c(0, "call"), _c(0, "call"), _c(1, "reset", {"slot": 1}), _c(1, "call"), _c(2, "assign", {"slot": 2}), _c(2, "call"),
                _c(1, "call"), _c(0, "assign", {"slot": 2}), _c(0, "call"), _c(0, "call"), _c(1, "assign", {"from": 0}), _c(1, "call"), _c(2, "call"), _c(0, "reset", None), _c(0, "call")]},
]
for _k, _cs in enumerate(CORPUS):
    _cs.update({"kind": "multi", "corpus": _k})


def multi_src_value(src, slots, clocks):
    if "slot" in src:
        return slots[src["slot"]]["v"]
    if "from" in src:
        return clocks[src["from"]]
    return int(src["v"])


def multi_line(case):
    """tokens of the model run; values written from kept tensors are literals (the tensors never change), values
    written from another system are `afrom/rfrom/reffrom` (the model copies the value that clock has then)"""
    toks = []
    for e in case["events"]:
        sidx, ev = e["s"], e["ev"]
        kind = case["systems"][sidx]
        if ev == "call":
            toks.append(f"{sidx}:call")
        elif ev == "xraise":
            toks.append(f"{sidx}:raise")
        elif ev == "copy":
            toks.append(f"{sidx}:copy={e['of']}")
        elif e["t"] is None:
            toks.append(f"{sidx}:reset=0:0")
        else:
            src = e["t"]
            word = {"assign": "assign", "reset": "reset", "ref": "ref"}[ev]
            if "from" in src:
                toks.append(f"{sidx}:" + {"assign": "afrom", "reset": "rfrom", "ref": "reffrom"}[ev] + f"={src['from']}")
            elif "slot" in src:
                sl = case["slots"][src["slot"]]
                if sl["shape"] == 1 and (ev != "ref" or kind == "ltv"):
                    toks.append(f"{sidx}:raise")         # copy_/fill_ of a shape-(1,) tensor into the 0-dim buffer raises
                else:
                    toks.append(f"{sidx}:{word}=" + to_wire(sl["v"]))
            else:
                toks.append(f"{sidx}:{word}=" + to_wire(src["v"]))
    mk = {"nls2": "nls", "sysu": "lti"}      # user subclasses: the clock is the one of the class they derive from
    return f"c15.mclock {len(case['systems'])} " + " ".join(mk.get(k_, k_) for k_ in case["systems"]) + " " + " ".join(toks)


def run_multi_impl(ctx: Ctx, case):
    """observed clocks of all systems after every event (None if the observation was abandoned after a failure)"""
    P = pp()
    n = len(case["systems"])
    syss = [make_simple(P, k) for k in case["systems"]]
    slots = [torch.tensor(sl["v"] if sl["shape"] == 0 else [sl["v"]], dtype=torch.int64) for sl in case["slots"]]
    keeps = [t.clone() for t in slots]
    x, u = torch.tensor([1.5]), torch.tensor([0.25])
    clocks, obs = [0] * n, []
    for i, e in enumerate(case["events"]):
        sidx, ev = e["s"], e["ev"]
        kind, sys_ = case["systems"][sidx], syss[sidx]
        expect, alt = list(clocks), None
        raised = None
        try:
            if ev == "call":
                out = sys_(x, u)
                expect[sidx] += 1
                # the equations at the system's own time (the NLS is time dependent)
                want = {"nls": (1.0 + clocks[sidx] % 1000, 1.25), "nls2": (1.0 + clocks[sidx] % 1000, 2.75), "sysu": (4.25, 1.75)}.get(kind, (3.25, 1.5))
                if not finite(ctx, {**pub(case), "at": i}, f"call {i} on system {sidx} ({kind}) with x=[1.5] u=[0.25]", out):
                    return None
                got = (float(out[0].reshape(-1)[0]), float(out[1].reshape(-1)[0]))
                if not (abs(got[0] - want[0]) <= 1e-5 and abs(got[1] - want[1]) <= 1e-6):
                    ctx.fail({**pub(case), "at": i}, f"multi-eq: call {i} on system {sidx} ({kind}) at its time {clocks[sidx]} returned {got}, its equations give {want}")
                    return None
            elif ev == "copy":
                syss[sidx] = copy_system(syss[e["of"]], e["how"], lambda: make_simple(P, kind))
                if syss[sidx] is syss[e["of"]]:
                    raise common.InfraError("copy returned the same object")
                expect[sidx] = clocks[e["of"]]
            elif ev == "xraise":
                try:
                    sys_(torch.ones(2, 3, 4), torch.ones(5)) if kind not in ("nls", "nls2") else sys_(torch.ones(2), torch.ones(3))
                except Exception:
                    pass
            elif e["t"] is None:
                sys_.reset()
                expect[sidx] = 0
            else:
                src = e["t"]
                val = multi_src_value(src, case["slots"], clocks)
                bad_shape = "slot" in src and case["slots"][src["slot"]]["shape"] == 1
                if "slot" in src:
                    tv = slots[src["slot"]]
                elif "from" in src:
                    tv = syss[src["from"]].systime            # the other system's clock object itself
                else:
                    tv = mk_time(src)
                sets = ev in ("assign", "reset") or kind == "ltv"
                try:
                    if ev == "assign":
                        sys_.systime = tv
                    elif ev == "reset":
                        sys_.reset(tv)
                    elif kind in ("nls", "nls2"):
                        sys_.set_refpoint(state=x, input=u, t=torch.as_tensor(tv))
                    else:
                        sys_.set_refpoint(t=torch.as_tensor(tv))
                except Exception as ex:
                    raised = ex
                if raised is None and sets:
                    expect[sidx] = val
                if raised is not None and not (bad_shape and sets):
                    ctx.fail({**pub(case), "at": i}, f"clock-raises: event {i} ({ev} on system {sidx} from {src}) raised {type(raised).__name__}: {str(raised)[:100]}")
                    return None
        except Exception as ex:
            ctx.fail({**pub(case), "at": i}, f"clock-raises: event {i} ({ev} on system {sidx}) raised {type(ex).__name__}: {str(ex)[:100]}")
            return None
        now = []
        for j in range(n):
            cj = safe_clock(ctx, case, syss[j], i, f"{ev} on system {sidx}; reading system {j}")
            if cj is None:
                return None
            now.append(cj)
        for j in range(n):
            if now[j] != expect[j]:
                if j == sidx:
                    ctx.fail({**pub(case), "at": i}, f"clock-law: after event {i} ({ev} on system {sidx}, source {e.get('t')}) its systime is {now[j]}, the law gives {expect[j]} (clocks before: {clocks})")
                else:
                    ctx.fail({**pub(case), "at": i}, f"clock-shared: event {i} ({ev} on system {sidx}) changed the time of system {j} from {clocks[j]} to {now[j]}; "
                                                     f"every system owns its clock (clocks before: {clocks})")
                return None
        for k_, (t_, kp) in enumerate(zip(slots, keeps)):
            if t_.shape != kp.shape or t_.dtype != kp.dtype or not torch.equal(t_, kp):
                ctx.fail({**pub(case), "at": i}, f"mutation: the caller's time tensor (slot {k_}, value {kp.tolist()}) was changed to {t_.tolist()} by event {i} ({ev} on system {sidx})")
                return None
        clocks = now
        obs.append(list(now))
    return obs


def run_multi(ctx: Ctx, cases):
    lines = [multi_line(c) for c in cases]
    reps = ctx.driver.run(lines)
    for case, rep in zip(cases, reps):
        st, toks = common.parse_reply(rep)
        if st != "ok":
            raise common.InfraError(f"model error on mclock line: {rep}")
        n = len(case["systems"])
        flat = [int(t) for t in toks]
        want = [flat[k_ * n:(k_ + 1) * n] for k_ in range(len(case["events"]))]
        got = guarded(ctx, case, run_multi_impl)
        ctx.note_case(("multi", tuple(case["systems"]), tuple((sl["v"], sl["shape"]) for sl in case["slots"]),
                       "".join(f"{e['s']}{e['ev'][0]}" for e in case["events"])), any(e["ev"] == "call" for e in case["events"]))
        for e in case["events"]:
            src = e.get("t")
            ctx.count("multi." + e["ev"] + ("" if not isinstance(src, dict) else (".slot" if "slot" in src else (".from" if "from" in src else ".literal"))))
        if got is None:
            continue
        if got != want:
            j = next(i for i, (a, b) in enumerate(zip(got, want)) if a != b)
            ctx.disagree("multi", pub(case), f"after event {j} ({case['events'][j]}) implementation clocks {got[j]} model {want[j]}")
    if cases:
        ctx.sample({"stream": "multi", "systems": cases[-1]["systems"], "slots": cases[-1]["slots"], "events": cases[-1]["events"][:6]})


# ============================================================================= stream: lin (LTI / LTV)

BATCHES = [[], [], [2], [3], [1], [2, 3], [2, 1], [1, 3], [3, 1, 2], [5], [7], [3, 3], [1, 1]]


def sub_batch(rng, full):
    """a batch shape broadcastable to `full`"""
    c = rng.random()
    if c < 0.35:
        return list(full)
    if c < 0.6:
        return []
    k = rng.randint(0, len(full))
    sh = list(full[len(full) - k:])
    return [1 if rng.random() < 0.3 else s for s in sh]


def gen_lin_case(seed, quick):
    rng = random.Random(seed)
    kind = rng.choice(["lti", "lti", "ltvi", "ltvp"])
    n, m, p = rng.choice([1, 1, 2, 3, 4, 6]), rng.choice([1, 2, 3, 4]), rng.choice([1, 2, 3, 4, 5])
    T = 1 if kind == "lti" else rng.choice([1, 2, 3, 4, 6])
    full = rng.choice(BATCHES)
    if rng.random() < 0.15:
        full = rng.choice([[n], [m], [p], [T], [n, n]])         # batch sizes equal to a feature / time dimension
    dtype = rng.choice(["float64", "float64", "float32"])
    case = {"kind": "lin", "sys": kind, "seed": seed, "n": n, "m": m, "p": p, "T": T, "full": full, "dtype": dtype,
            "bA": sub_batch(rng, full), "bB": sub_batch(rng, full), "bC": sub_batch(rng, full), "bD": sub_batch(rng, full),
            "c1": rng.random() < 0.65, "c2": rng.random() < 0.5, "bc1": sub_batch(rng, full), "bc2": sub_batch(rng, full),
            "scalar": (n == 1 and m == 1 and rng.random() < 0.5),
            # magnitudes far outside "randn": the property says all A, B, C, D, c and states
            "scale": rng.choice([1.0, 1.0, 1e-3, 1e3] + ([1e-12, 1e8, 1e-30] if dtype == "float64" else [1e-6, 1e5])),
            # one batch may mix regimes: zero / tiny / ordinary / large items side by side
            "regimes": rng.random() < 0.35,
            # memory layout of every tensor: contiguous, transposed storage, slice of a larger buffer, expanded (stride 0)
            "layout": {k_: rng.choice(["c", "c", "T", "slice", "expand"]) for k_ in ("A", "B", "C", "D", "c1", "c2", "x", "u")},
            "special": ({"C": rng.choice(["eye", "eye", "neareye"]), "D": rng.choice(["zero", "zero", "nearzero"])} if rng.random() < 0.25 else
                        ({rng.choice(["A", "B", "C", "D"]): rng.choice(["eye", "zero", "neareye", "nearzero"])} if rng.random() < 0.15 else {})),
            "dseed": rng.randrange(1 << 30)}
    evs = []
    nev = rng.randint(3, 8) if (quick or rng.random() < 0.8) else rng.randint(12, 40)     # long roll-outs
    for _ in range(nev):
        c = rng.random()
        if c < 0.55:
            evs.append({"ev": "call", "feed": rng.random() < 0.6, "bx": sub_batch(rng, full), "bu": sub_batch(rng, full),
                        "same": rng.random() < 0.15, "scalar": rng.random() < 0.5,
                        # grad modes and spellings of the same call: the values must not depend on them
                        "mode": rng.choice(["plain", "plain", "plain", "grad", "no_grad", "inference"]), "kw": rng.random() < 0.25})
        elif c < 0.62:
            evs.append({"ev": "xdim", "which": rng.choice(["x", "u"])})
        elif c < 0.68:
            evs.append({"ev": "fwd", "bx": sub_batch(rng, full), "bu": sub_batch(rng, full)})
        elif c < 0.80:
            evs.append({"ev": "reset", "t": None if rng.random() < 0.4 else {"v": rng.randint(-T - 1, T + 2), "as": rng.choice(["py", "int64"])}})
        elif c < 0.90:
            evs.append({"ev": "assign", "t": {"v": rng.randint(-T - 1, T + 2), "as": rng.choice(["py", "int64"])}})
        else:
            evs.append({"ev": "ref", "t": None if rng.random() < 0.2 else {"v": rng.randint(-T, T + 1), "as": "int64"}})
    # seeded C15-2 scenario class: int64 tensors the caller keeps and re-uses; a second system exchanging times
    slots = [rng.randint(-T, T + 1) for _ in range(2)]
    case["slots"] = slots
    extra = []
    for _ in range(rng.choice([0, 1, 2, 3])):
        c = rng.random()
        if c < 0.4:
            k_ = rng.randrange(2)
            extra.append({"ev": rng.choice(["assign", "assign", "reset", "ref"]), "t": {"slot": k_, "v": slots[k_], "as": "slot"}})
        else:
            extra.append({"ev": "twin", "op": rng.choice(["from_main", "call", "call", "reset", "to_main"])})
    # copies: a deep copy / pickle / torch.save / state_dict copy of the system is made at some point and then used
    # interleaved with the original; each follows its own clock and its own matrices
    if rng.random() < 0.35:
        hows = COPY_HOWS if kind == "lti" else ["deepcopy", "state_dict"]       # the LTV subclass is local: not picklable
        extra.append({"ev": "clone", "op": "make", "how": rng.choice(hows)})
        for _ in range(rng.randint(1, 4)):
            extra.append({"ev": "clone", "op": rng.choice(["call", "call", "call", "reset"]), "t": rng.randint(-T, T + 1)})
    # user subclasses that override PROPERTIES: every subset of A, B, C, D, c1, c2 generated outside the object while the
    # constructor receives None / a dummy; for LTI (constant, or computed from _t % T: sys = ltip) and LTV subclasses
    if rng.random() < 0.35:
        names = ["A", "B", "C", "D", "c1", "c2"]
        sub = names if rng.random() < 0.15 else [nm for nm in names if rng.random() < 0.4] or [rng.choice(names)]
        if rng.random() < 0.4:
            sub = sorted(set(sub) | {"c1", "c2"})
        case["ov"] = {nm: (rng.choice(["none", "none", "zeros", "junk"]) if nm in ("c1", "c2") else rng.choice(["none", "zeros", "junk"])) for nm in sub}
        if kind == "lti" and rng.random() < 0.5:
            case["sys"], case["T"] = "ltip", rng.choice([2, 3, 4])
            kind, T = "ltip", case["T"]
        extra = [x_ for x_ in extra if x_["ev"] != "clone"]        # (generated values live outside the object: no copies here)
    # stale reads: between calls the caller updates in place a system matrix / constant (through the system's own
    # attribute) or the state tensor it is about to feed back
    for _ in range(rng.choice([0, 0, 1, 2])):
        if rng.random() < 0.6:
            extra.append({"ev": "pokemat", "which": rng.choice(["A", "B", "C", "D", "c1", "c2"]), "how": rng.choice(["mul_", "add_", "setitem"])})
        else:
            extra.append({"ev": "pokex", "how": rng.choice(["mul_", "add_"])})
    pos_make = None
    for x_ in extra:
        if x_["ev"] == "clone" and x_["op"] == "make":
            pos_make = rng.randint(0, len(evs))
            evs.insert(pos_make, x_)
        elif x_["ev"] == "clone":
            evs.insert(rng.randint(pos_make + 1, len(evs)), x_)          # the copy is used after it was made
        else:
            pos = rng.randint(0, len(evs))
            evs.insert(pos, x_)
            if pos_make is not None and pos <= pos_make:
                pos_make += 1
    case["events"] = evs
    return case


def lin_tensors(case):
    g = torch.Generator().manual_seed(case["dseed"])
    dt = DT(case["dtype"])
    n, m, p, T = case["n"], case["m"], case["p"], case["T"]
    ltv = case["sys"] != "lti"

    guards = []          # (buffer, mask of the cells outside the view, their expected content)

    def rnd(batch, core, name):
        shape = tuple(batch) + ((T,) if ltv else ()) + tuple(core)
        a = torch.randn(shape, generator=g, dtype=torch.float64) * case["scale"]
        if case["dseed"] % 3 == 0:
            a = torch.round(a * 4) / 4 if case["scale"] == 1.0 else a          # dyadic entries: the equations are then exact
        if case.get("regimes") and len(batch) > 0:
            tiny = 1e-20 if case["dtype"] == "float64" else 1e-10
            fac = torch.tensor([0.0, tiny, 1.0, 1.0, 1e6])[torch.randint(0, 5, tuple(batch), generator=g)]
            a = a * fac.reshape(tuple(batch) + (1,) * (len(shape) - len(batch)))
        return lay(a.to(dt), case.get("layout", {}).get(name, "c"), len(batch), guards, g)
    A, B, C, D = rnd(case["bA"], (n, n), "A"), rnd(case["bB"], (n, m), "B"), rnd(case["bC"], (p, n), "C"), rnd(case["bD"], (p, m), "D")
    for nm_, how_ in (case.get("special") or {}).items():          # identity / zero matrices (C = I, D = 0 is the usual system)
        X_ = {"A": A, "B": B, "C": C, "D": D}[nm_]
        if 0 in X_.stride():
            continue
        if how_ == "zero":
            X_.zero_()
        elif how_ == "nearzero":      # in the band between round-off and a default allclose tolerance: must not be treated as zero
            X_.copy_(torch.randn(X_.shape, generator=g, dtype=torch.float64).to(X_.dtype) * 1e-7)
        elif X_.shape[-1] == X_.shape[-2]:
            X_.copy_(torch.eye(X_.shape[-1], dtype=X_.dtype).expand(X_.shape))
            if how_ == "neareye":     # identity up to a 1e-6 relative perturbation: must not be treated as the identity
                # (diagonal: inside the default rtol = 1e-5 of allclose; off the diagonal: inside its atol = 1e-8)
                pert = torch.randn(X_.shape, generator=g, dtype=torch.float64)
                eye_ = torch.eye(X_.shape[-1], dtype=torch.float64).expand(X_.shape)
                X_.add_((pert * (eye_ * 1e-6 + (1 - eye_) * 5e-9)).to(X_.dtype))
    c1 = rnd(case["bc1"], (n,), "c1") if case["c1"] else None
    c2 = rnd(case["bc2"], (p,), "c2") if case["c2"] else None
    case["_guards"] = guards
    return g, A, B, C, D, c1, c2


def lay(a, how, nbatch, guards, g):
    """the same values in another memory layout: "T" transposed storage, "slice" a view into a larger buffer (the cells
    outside the view are guarded), "expand" a stride-0 expansion along the first batch dim (items then coincide)"""
    if how == "T" and a.ndim >= 2:
        return a.mT.contiguous().mT
    if how == "slice" and a.ndim >= 1:
        big = torch.full(a.shape[:-1] + (a.shape[-1] + 3,), 7.5, dtype=a.dtype)
        big[..., 1:-2] = a
        guards.append((big, big.clone()))
        return big[..., 1:-2]
    if how == "expand" and nbatch >= 1 and a.shape[0] > 1:
        return a[:1].expand(a.shape)
    return a


def guards_ok(guards, views):
    """cells of the buffers outside the views are untouched (the views themselves may have been updated by the caller)"""
    for big, keep in guards:
        if not (torch.equal(big[..., 0], keep[..., 0]) and torch.equal(big[..., -2:], keep[..., -2:])):
            return False
    return True


def make_lin(P, case, A, B, C, D, c1, c2):
    """the system under test. Plain `LTI`; or a user subclass (of `LTI` for sys = ltip, of `LTV` for ltvi / ltvp) that overrides the
    PROPERTIES `A, B, C, D, c1, c2`: a property not named in case["ov"] indexes the stacked private buffer by the clock
    (`self._A[..., self._t, :, :]`, the pattern of the LTV docstring); a property named in case["ov"] is *generated* — its values
    live outside the object and the constructor received `None` or a dummy for it."""
    ov = case.get("ov") or {}
    true = {"A": A, "B": B, "C": C, "D": D, "c1": c1, "c2": c2}
    if case["sys"] == "lti" and not ov:
        return P.module.LTI(A, B, C, D, c1, c2)
    periodic, T = case["sys"] in ("ltvp", "ltip"), case["T"]
    stacked = case["sys"] != "lti"
    base = P.module.LTI if case["sys"] in ("lti", "ltip") else P.module.LTV

    def mkprop(name):
        nd = 2 if name in "ABCD" else 1

        def get(self):
            src = true[name] if name in ov else getattr(self, "_" + name)
            if src is None or not stacked:
                return src
            i_ = self._t % T if periodic else self._t
            return src[..., i_, :, :] if nd == 2 else src[..., i_, :]
        return property(get)
    cls = type("UserSys", (base,), {nm: mkprop(nm) for nm in true})
    args = []
    for nm in ("A", "B", "C", "D", "c1", "c2"):
        how = ov.get(nm)
        if how is None or true[nm] is None:
            args.append(true[nm] if how is None else None)
        elif how == "none":
            args.append(None)
        elif how == "zeros":
            args.append(torch.zeros_like(true[nm]).contiguous())
        else:
            args.append((torch.ones_like(true[nm]).contiguous() * 7.0))          # a dummy with wrong values
    case["_ctor"] = args
    return cls(*args)


def py_slice(case, t):
    """slice index the documented subclass uses at clock t, or None (IndexError)"""
    if case["sys"] == "lti":
        return 0
    T = case["T"]
    if case["sys"] in ("ltvp", "ltip"):
        return t % T
    if 0 <= t < T:
        return t
    if -T <= t < 0:
        return T + t
    return None


def frac_affine(A, B, c, x, u):
    """exact rational A x + B u + c and the magnitude sum used for the tolerance"""
    out, mags = [], []
    for i in range(len(A)):
        s = sum((Fraction(a) * Fraction(b) for a, b in zip(A[i], x)), Fraction(0)) + \
            sum((Fraction(a) * Fraction(b) for a, b in zip(B[i], u)), Fraction(0)) + (Fraction(c[i]) if c is not None else 0)
        mg = sum(abs(a * b) for a, b in zip(A[i], x)) + sum(abs(a * b) for a, b in zip(B[i], u)) + (abs(c[i]) if c is not None else 0)
        out.append(s)
        mags.append(mg)
    return out, mags


def bitem(X, batch_nd, full, idx):
    """item `idx` (index into the broadcast batch `full`) of X whose leading `batch_nd` dims are batch dims"""
    core = X.shape[batch_nd:]
    return torch.broadcast_to(X, tuple(full) + tuple(core))[tuple(idx)]


def lin_exact(ctx, case, i, tens, sl, xb, ub, xn, y, idxs, eps, who):
    """exact rational equations per batch item for an arbitrary (copy of a) system given by its tensors"""
    A, B, C, D, c1, c2 = tens
    full, ltv = case["full"], case["sys"] != "lti"
    ok = True

    def it(X, b, idx):
        Xs = X[..., sl, :, :] if (ltv and X.ndim - len(b) == 3) else (X[..., sl, :] if ltv else X)
        return bitem(Xs, len(b), full, idx).double().tolist()
    for idx in idxs:
        Ai, Bi, Ci, Di = it(A, case["bA"], idx), it(B, case["bB"], idx), it(C, case["bC"], idx), it(D, case["bD"], idx)
        c1i = it(c1, case["bc1"], idx) if c1 is not None else None
        c2i = it(c2, case["bc2"], idx) if c2 is not None else None
        xi = bitem(xb, xb.ndim - 1, full, idx).double().tolist()
        ui = bitem(ub, ub.ndim - 1, full, idx).double().tolist()
        for nm, M1, M2, cc, got in (("x'", Ai, Bi, c1i, xn), ("y", Ci, Di, c2i, y)):
            want, mags = frac_affine(M1, M2, cc, xi, ui)
            try:
                gi = bitem(got, got.ndim - 1, full, idx).double().tolist()
            except Exception:
                ctx.fail({**pub(case), "at": i}, f"lin-shape: {who}: {nm} of shape {tuple(got.shape)} does not broadcast to batch {full}")
                return False
            for r_, (w, mg, gv) in enumerate(zip(want, mags, gi)):
                tol = 64 * eps * mg + 1e-300
                if not (abs(Fraction(gv) - w) <= tol):
                    ctx.fail({**pub(case), "at": i, "item": list(idx)},
                             f"lin-eq: {who}: {nm}[{r_}] = {gv!r} but its own equations at its own time (slice {sl}) give {float(w)!r} (|diff| {float(abs(Fraction(gv) - w)):.3e} > {tol:.3e})")
                    ok = False
    return ok


def obj_line(case, mkind, mper, clock, idx, true, xb, ub, xn, y, magrec):
    """`c15.obj` request for one forward of an object with overridden properties: the buffers are what the constructor got
    (None / dummy for the overridden ones), the overrides are the generated values; the model resolves the properties"""
    full, T, n, m, p = case["full"], case["T"], case["n"], case["m"], case["p"]
    ov, ctor = case.get("ov") or {}, case["_ctor"]
    bat = {"A": case["bA"], "B": case["bB"], "C": case["bC"], "D": case["bD"], "c1": case["bc1"], "c2": case["bc2"]}
    core = {"A": (n, n), "B": (n, m), "C": (p, n), "D": (p, m), "c1": (n,), "c2": (p,)}
    st = (T,) if case["sys"] != "lti" else ()

    def toks(X, nm):
        if X is None:
            X = torch.zeros(st + core[nm], dtype=torch.float64)
            return wire_list(X.flatten().tolist())
        return wire_list(bitem(X, len(bat[nm]), full, idx).double().flatten().tolist())
    parts = [f"c15.obj {mkind} {mper} {T} {n} {m} {p} {clock}"]
    for k_, nm in enumerate(("A", "B", "C", "D")):
        parts.append(toks(ctor[k_], nm))                       # (a `None` buffer of an overridden matrix is sent as zeros: never read)
    for k_, nm in ((4, "c1"), (5, "c2")):
        parts.append("0" if ctor[k_] is None else "1 " + toks(ctor[k_], nm))
    for k_, nm in enumerate(("A", "B", "C", "D")):
        parts.append("1 " + toks(true[k_], nm) if nm in ov else "0")
    for k_, nm in ((4, "c1"), (5, "c2")):
        parts.append("0" if nm not in ov else ("1" if true[k_] is None else "2 " + toks(true[k_], nm)))
    parts.append(wire_list(bitem(xb, xb.ndim - 1, full, idx).double().tolist()))
    parts.append(wire_list(bitem(ub, ub.ndim - 1, full, idx).double().tolist()))
    got = bitem(xn, xn.ndim - 1, full, idx).double().tolist() + bitem(y, y.ndim - 1, full, idx).double().tolist()
    return " ".join(parts), got, list(magrec.get(idx, []))


def check_lin(ctx: Ctx, case):
    try:
        return _check_lin(ctx, case)
    except common.InfraError:
        raise
    except _Abort:
        pass
    except Exception as ex:
        import traceback
        ctx.fail(pub(case), f"impl-exception: unexpected {type(ex).__name__}: {str(ex)[:120]} while observing the implementation "
                            f"({traceback.format_exc().strip().splitlines()[-3].strip()[:120]})")
    case["_lines"], case["_impl"] = [], []
    return False


def _check_lin(ctx: Ctx, case):
    P = pp()
    g, A, B, C, D, c1, c2 = lin_tensors(case)
    slot_t = [torch.tensor(v, dtype=torch.int64) for v in case.get("slots", [])]
    slot_keep = [t.clone() for t in slot_t]
    twin, twin_clock = make_simple(P, "lti"), 0
    clone, clone_clock, clone_tens = None, None, None

    def lin_time(spec):
        return slot_t[spec["slot"]] if "slot" in spec else mk_time(spec)
    keep = [t.clone() if t is not None else None for t in (A, B, C, D, c1, c2)]
    sys_ = make_lin(P, case, A, B, C, D, c1, c2)
    dt, eps = DT(case["dtype"]), common.EPS[case["dtype"]]
    n, m, p, T, full = case["n"], case["m"], case["p"], case["T"], case["full"]
    ltv = case["sys"] != "lti"
    nfull = len(full)
    idxs = [()] if not full else [tuple(i) for i in torch.cartesian_prod(*[torch.arange(s) for s in full]).reshape(-1, nfull).tolist()]
    if len(idxs) > 4:
        rr = random.Random(case["seed"] ^ 77)
        idxs = [idxs[0], idxs[-1]] + rr.sample(idxs[1:-1], 2)
    clock_ltv = case["sys"] in ("ltvi", "ltvp")          # set_refpoint(t) sets the clock only for (subclasses of) LTV
    mkind, mper = ("ltv" if clock_ltv else "lti"), (1 if case["sys"] in ("ltvp", "ltip") else 0)
    hdr0 = f"c15.lin {mkind} {mper} {T} {n} {m} {p} {1 if c1 is not None else 0} {1 if c2 is not None else 0}"

    def stack_tokens(X, bnd, idx):
        it = bitem(X, bnd, full, idx).double()
        return wire_list(it.flatten().tolist())

    def snapshot_data():
        return {idx: " ".join(stack_tokens(X, len(b), idx) for X, b in
                              ((A, case["bA"]), (B, case["bB"]), (C, case["bC"]), (D, case["bD"]))) +
                ((" " + stack_tokens(c1, len(case["bc1"]), idx)) if c1 is not None else "") +
                ((" " + stack_tokens(c2, len(case["bc2"]), idx)) if c2 is not None else "") for idx in idxs}
    # the model gets the matrices once per segment; an in-place update of a matrix by the caller starts a new segment
    # (same system object, current clock, current matrices)
    segs = [{"c0": 0, "data": snapshot_data(), "toks": {idx: [] for idx in idxs}, "impl": []}]
    ev_tokens, impl = segs[-1]["toks"], segs[-1]["impl"]
    guards = case.pop("_guards", [])
    clock, last_x = 0, None
    ok = True
    for i, e in enumerate(case["events"]):
        ev = e["ev"]
        if ev in ("call", "fwd", "xdim"):
            if ev == "xdim":
                x = torch.randn(tuple(full) + (n + 1 if e["which"] == "x" else n,), generator=g, dtype=torch.float64).to(dt)
                u = torch.randn(tuple(full) + (m + 1 if e["which"] == "u" else m,), generator=g, dtype=torch.float64).to(dt)
            else:
                lo = case.get("layout", {})
                if ev == "call" and e["feed"] and last_x is not None and case["scale"] <= 1e3 and not case.get("regimes") \
                        and float(last_x.abs().max()) < (1e25 if case["dtype"] == "float32" else 1e250):
                    x = last_x
                else:
                    xr = torch.randn(tuple(e["bx"]) + (n,), generator=g, dtype=torch.float64) * case["scale"]
                    if case.get("regimes") and len(e["bx"]) > 0:     # zero / tiny / ordinary / large states in one batch
                        tiny = 1e-20 if case["dtype"] == "float64" else 1e-10
                        ri = torch.randint(0, 5, tuple(e["bx"]), generator=g)
                        ri.view(-1)[0] = 0                            # at least one exactly-zero state next to the others
                        xr = xr * torch.tensor([0.0, tiny, 1.0, 1.0, 1e6])[ri].unsqueeze(-1)
                    x = lay(xr.to(dt), lo.get("x", "c"), len(e["bx"]), guards, g)
                u = lay(torch.randn(tuple(e["bu"]) + (m,), generator=g, dtype=torch.float64).to(dt), lo.get("u", "c"), len(e["bu"]), guards, g)
                if e.get("same") and n == m and x.shape == u.shape:
                    u = x                                          # the same tensor object as state and as input
                if case["scalar"] and e.get("scalar", True) and x.ndim == 1 and u.ndim == 1:
                    x, u = x.reshape(()), u.reshape(())           # 0-dim state and input: atleast_1d
            xk, uk = x.clone(), u.clone()
            sl = py_slice(case, clock)
            expect_raise = ev == "xdim" or sl is None
            mode = e.get("mode", "plain")
            try:
                if ev == "fwd":
                    out = sys_.forward(x, u)
                elif mode == "grad":
                    xg = x.detach().clone().requires_grad_()
                    o_ = sys_(state=xg, input=u) if e.get("kw") else sys_(xg, u)
                    # autograd works through the call whatever ran before under no_grad / inference_mode
                    (o_[0].sum() + o_[1].sum()).backward()
                    if xg.grad is None or xg.grad.shape != xg.shape or not bool(torch.isfinite(xg.grad).all()):
                        ctx.fail({**pub(case), "at": i}, "grad: no finite gradient reached a requires_grad state through the call")
                        raise _Abort()
                    out = (o_[0].detach(), o_[1].detach())
                elif mode == "no_grad":
                    with torch.no_grad():
                        out = sys_(state=x, input=u) if e.get("kw") else sys_(x, u)
                elif mode == "inference":
                    with torch.inference_mode():
                        o_ = sys_(state=x, input=u) if e.get("kw") else sys_(x, u)
                    out = (o_[0].clone(), o_[1].clone())
                else:
                    out = sys_(state=x, input=u) if e.get("kw") else sys_(x, u)
                raised = None
            except Exception as ex:
                out, raised = None, ex
            if not torch.equal(x, xk) or not torch.equal(u, uk):
                ctx.fail({**pub(case), "at": i}, "mutation: a call modified the caller's state/input tensor")
                ok = False
            if not guards_ok(guards, None):
                ctx.fail({**pub(case), "at": i}, "mutation: a call wrote outside the view it was given (cells of the enclosing buffer changed)")
                raise _Abort()
            xb = x if x.ndim else x.reshape(1)
            ub = u if u.ndim else u.reshape(1)
            for idx in idxs:
                if ev == "xdim":
                    xi = xb[tuple(idx)] if xb.ndim > 1 else xb
                    ui = ub[tuple(idx)] if ub.ndim > 1 else ub
                else:
                    xi = bitem(xb, xb.ndim - 1, full, idx)
                    ui = bitem(ub, ub.ndim - 1, full, idx)
                ev_tokens[idx].append(("fwd " if ev == "fwd" else "call ") + f"{xi.numel()} " + wire_list(xi.double().tolist()) +
                                      f" {ui.numel()} " + wire_list(ui.double().tolist()))
            if raised is not None:
                impl.append((clk(ctx, case, sys_, i, ev), "R"))
                if not expect_raise:
                    ctx.fail({**pub(case), "at": i}, f"lin-raises: {case['sys']} call raised {type(raised).__name__}: {str(raised)[:100]} at clock {clock}")
                    ok = False
            else:
                xn, y = out
                magrec = {}
                impl.append((clk(ctx, case, sys_, i, ev), (xn.clone() if isinstance(xn, torch.Tensor) else xn,
                                                           y.clone() if isinstance(y, torch.Tensor) else y, magrec)))
                if expect_raise:
                    ctx.fail({**pub(case), "at": i}, f"lin-no-raise: call at clock {clock} (slice {sl}, event {ev}) returned instead of raising")
                    ok = False
                else:
                    # oracle: exact rational equations per batch item, time slice from the clock law
                    bsx = tuple(torch.broadcast_shapes(tuple(case["bA"]), tuple(case["bB"]), tuple(case["bc1"]) if c1 is not None else (),
                                                       tuple(xb.shape[:-1]), tuple(ub.shape[:-1])))
                    bsy = tuple(torch.broadcast_shapes(tuple(case["bC"]), tuple(case["bD"]), tuple(case["bc2"]) if c2 is not None else (),
                                                       tuple(xb.shape[:-1]), tuple(ub.shape[:-1])))
                    if not (isinstance(xn, torch.Tensor) and isinstance(y, torch.Tensor)) or tuple(xn.shape) != bsx + (n,) or tuple(y.shape) != bsy + (p,):
                        ctx.fail({**pub(case), "at": i}, f"lin-shape: call returned shapes {tuple(getattr(xn, 'shape', ()))}, {tuple(getattr(y, 'shape', ()))}; "
                                                    f"the equations with broadcasting give {bsx + (n,)}, {bsy + (p,)}")
                        case["_lines"], case["_impl"] = [], []
                        return False
                    # outputs own their memory: no overlap with an argument, a system tensor or each other, no stride-0 items
                    if mode in ("plain", "no_grad"):
                        ptrs = {t_.untyped_storage().data_ptr(): nm_ for nm_, t_ in (("state", x), ("input", u), ("A", A), ("B", B), ("C", C), ("D", D), ("c1", c1), ("c2", c2)) if t_ is not None}
                        for nm_, o_ in (("next state", xn), ("observation", y)):
                            if o_.untyped_storage().data_ptr() in ptrs or (o_.numel() > 1 and 0 in o_.stride() and o_.shape[o_.stride().index(0)] > 1):
                                ctx.fail({**pub(case), "at": i}, f"alias: the returned {nm_} shares memory with {ptrs.get(o_.untyped_storage().data_ptr(), 'itself (stride 0)')}")
                                raise _Abort()
                        if xn.untyped_storage().data_ptr() == y.untyped_storage().data_ptr():
                            ctx.fail({**pub(case), "at": i}, "alias: next state and observation share memory")
                            raise _Abort()
                    if not finite(ctx, {**pub(case), "at": i}, f"event {i}: call of the {case['sys']} system at clock {clock}", xn, y):
                        raise _Abort()
                    for idx in idxs:
                        def it(X, b):
                            Xs = X[..., sl, :, :] if (ltv and X.ndim - len(b) == 3) else (X[..., sl, :] if (ltv and X is not None) else X)
                            return bitem(Xs, len(b), full, idx).double().tolist()
                        Ai, Bi, Ci, Di = it(A, case["bA"]), it(B, case["bB"]), it(C, case["bC"]), it(D, case["bD"])
                        c1i = it(c1, case["bc1"]) if c1 is not None else None
                        c2i = it(c2, case["bc2"]) if c2 is not None else None
                        xi = bitem(xb, xb.ndim - 1, full, idx).double().tolist()
                        ui = bitem(ub, ub.ndim - 1, full, idx).double().tolist()
                        for nm, M1, M2, cc, got in (("x'", Ai, Bi, c1i, xn), ("y", Ci, Di, c2i, y)):
                            want, mags = frac_affine(M1, M2, cc, xi, ui)
                            magrec.setdefault(idx, []).extend(mags)
                            try:
                                gi = bitem(got, got.ndim - 1, full, idx).double().tolist()
                            except Exception:
                                ctx.fail({**pub(case), "at": i}, f"lin-shape: {nm} of shape {tuple(got.shape)} does not broadcast to batch {full}")
                                ok = False
                                continue
                            for r_, (w, mg, gv) in enumerate(zip(want, mags, gi)):
                                tol = 64 * eps * mg + 1e-300
                                if not (abs(Fraction(gv) - w) <= tol):
                                    ctx.fail({**pub(case), "at": i, "item": list(idx)},
                                             f"lin-eq: {nm}[{r_}] = {gv!r} but {'A' if nm != 'y' else 'C'}_t x + {'B' if nm != 'y' else 'D'}_t u + c = {float(w)!r} "
                                             f"(clock {clock}, slice {sl}, |diff| {float(abs(Fraction(gv) - w)):.3e} > {tol:.3e})")
                                    ok = False
                    if case.get("ov") and "_obj" not in case and not ub.ndim > 1 + nfull:
                        case["_obj"] = obj_line(case, mkind, mper, clock, idxs[0], (A, B, C, D, c1, c2), xb, ub, xn, y, magrec)
                    if ev == "call":
                        last_x = xn
            if raised is None and ev == "call":
                clock_expect = clock + 1
            else:
                clock_expect = clock
        else:
            tok = None
            try:
                if ev == "clone":           # a copy of the system, used interleaved with the original
                    clock_expect = clock
                    if e["op"] == "make":
                        try:
                            clone = copy_system(sys_, e["how"], lambda: make_lin(P, case, *[None if t_ is None else torch.zeros_like(t_).contiguous() for t_ in (A, B, C, D, c1, c2)]))
                            clone_clock = clock
                            clone_tens = [None if t_ is None else t_.clone() for t_ in (A, B, C, D, c1, c2)]
                        except RuntimeError as ex:
                            # torch refuses to deep-copy / pickle non-leaf tensors that require grad (self.state after a
                            # call with a requires_grad view): clean-tree behaviour on an exotic combination, not judged
                            if "deepcopy protocol" not in str(ex):
                                raise
                            clone = None
                    elif clone is not None and e["op"] == "reset":
                        clone.reset(e["t"])
                        clone_clock = e["t"]
                    elif clone is not None:
                        xc = (torch.randn(tuple(full) + (n,), generator=g, dtype=torch.float64) * case["scale"]).to(dt)
                        uc = torch.randn(tuple(full) + (m,), generator=g, dtype=torch.float64).to(dt)
                        slc = py_slice(case, clone_clock)
                        try:
                            outc, rc_ = clone(xc, uc), None
                        except Exception as ex:
                            outc, rc_ = None, ex
                        if (rc_ is not None) != (slc is None):
                            ctx.fail({**pub(case), "at": i}, f"lin-raises: the copy's call at its time {clone_clock} (slice {slc}) {'raised ' + type(rc_).__name__ if rc_ else 'returned instead of raising'}")
                            raise _Abort()
                        if rc_ is None:
                            if not finite(ctx, {**pub(case), "at": i}, f"event {i}: call of the copy of the system at its clock {clone_clock}", outc):
                                raise _Abort()
                            if not lin_exact(ctx, case, i, clone_tens, slc, xc, uc, outc[0], outc[1], idxs, eps, "copy of the system"):
                                raise _Abort()
                            clone_clock += 1
                elif ev == "pokex":           # the caller updates in place the state tensor it is going to feed back
                    clock_expect = clock
                    if last_x is not None:
                        last_x.mul_(0.5) if e["how"] == "mul_" else last_x.add_(0.25)
                elif ev == "pokemat":       # … or a matrix / constant of the system, through the system's own attribute
                    clock_expect = clock
                    own = {"A": A, "B": B, "C": C, "D": D, "c1": c1, "c2": c2}[e["which"]]
                    tgt = own if e["which"] in (case.get("ov") or {}) else getattr(sys_, "_" + e["which"])     # generated property: its source
                    if tgt is not None and case.get("layout", {}).get(e["which"], "c") != "expand":
                        if tgt is not own:
                            ctx.fail({**pub(case), "at": i}, f"attribute: system attribute _{e['which']} is not the tensor the system was built with")
                        if e["how"] == "mul_":
                            tgt.mul_(2.0)
                        elif e["how"] == "add_":
                            tgt.add_(0.5 * case["scale"])
                        else:
                            tgt[(0,) * tgt.ndim] = 1.25 * case["scale"]
                        keep = [t.clone() if t is not None else None for t in (A, B, C, D, c1, c2)]
                        segs.append({"c0": clock, "data": snapshot_data(), "toks": {idx: [] for idx in idxs}, "impl": []})
                        ev_tokens, impl = segs[-1]["toks"], segs[-1]["impl"]
                elif ev == "twin":            # a second system exchanging times with this one: no shared clock
                    op = e["op"]
                    clock_expect = clock
                    if op == "from_main":
                        twin.systime = sys_.systime
                        twin_clock = clock
                    elif op == "call":
                        twin(torch.tensor([1.0]), torch.tensor([1.0]))
                        twin_clock += 1
                    elif op == "reset":
                        twin.reset()
                        twin_clock = 0
                    else:
                        sys_.systime = twin.systime
                        clock_expect, tok = twin_clock, "assign=" + to_wire(twin_clock)
                elif ev == "reset":
                    if e["t"] is None:
                        sys_.reset()
                        clock_expect, tok = 0, "reset=0:0"
                    else:
                        sys_.reset(t=lin_time(e["t"])) if i % 2 else sys_.reset(lin_time(e["t"]))
                        clock_expect, tok = e["t"]["v"], "reset=" + to_wire(e["t"]["v"])
                elif ev == "assign":
                    sys_.systime = lin_time(e["t"])
                    clock_expect, tok = e["t"]["v"], "assign=" + to_wire(e["t"]["v"])
                else:
                    tok = "ref=" + ("none" if e["t"] is None else to_wire(e["t"]["v"]))
                    clock_expect = clock
                    if e["t"] is None and clock_ltv:
                        try:
                            sys_.set_refpoint()
                        except Exception:
                            pass
                    else:
                        r = sys_.set_refpoint(t=None if e["t"] is None else lin_time(e["t"]))
                        if r is not sys_:
                            ctx.fail({**pub(case), "at": i}, "refpoint-return: set_refpoint does not return the system")
                        if clock_ltv:
                            clock_expect = e["t"]["v"]
            except _Abort:
                raise
            except Exception as ex:
                ctx.fail({**pub(case), "at": i}, f"clock-raises: {ev} raised {type(ex).__name__}: {str(ex)[:100]}")
                ok = False
                clock_expect = clock
            if tok is not None:
                for idx in idxs:
                    ev_tokens[idx].append(tok)
                impl.append((clk(ctx, case, sys_, i, ev), None))
        now = clk(ctx, case, sys_, i, ev)
        if now != clock_expect:
            ctx.fail({**pub(case), "at": i}, f"clock-law: after event {i} ({ev}{' ' + e['op'] if ev == 'twin' else ''}) systime={now}, the law gives {clock_expect}")
            ok = False
        if clone is not None:
            cnow = clk(ctx, case, clone, i, ev + ", reading the copy")
            if cnow != clone_clock:
                ctx.fail({**pub(case), "at": i}, f"clock-shared: event {i} ({ev}{' ' + e['op'] if ev in ('twin', 'clone') else ''}) left the copy's time at {cnow}, its own law gives {clone_clock} "
                                                 f"(original: {now}); a copy is an independent system")
                raise _Abort()
        tnow = clk(ctx, case, twin, i, ev + ", reading the second system")
        if tnow != twin_clock:
            ctx.fail({**pub(case), "at": i}, f"clock-shared: event {i} ({ev}{' ' + e['op'] if ev == 'twin' else ''}) left the second system's time at {tnow}, its own law gives {twin_clock} "
                                             f"(first system: {now}); every system owns its clock")
            raise _Abort()
        for k_, (t_, kp) in enumerate(zip(slot_t, slot_keep)):
            if t_.shape != kp.shape or not torch.equal(t_, kp):
                ctx.fail({**pub(case), "at": i}, f"mutation: the caller's time tensor (slot {k_}, value {kp.tolist()}) was changed to {t_.tolist()} by event {i} ({ev})")
                raise _Abort()
        clock = now
    for t_, k_ in zip((A, B, C, D, c1, c2), keep):
        if t_ is not None and not torch.equal(t_, k_):
            ctx.fail(pub(case), "mutation: a system matrix was modified by the calls")
            ok = False
    case["_lines"] = [(idx, f"{hdr0} {sg['c0']} " + sg["data"][idx] + " " + " ".join(sg["toks"][idx]), sg["impl"])
                      for sg in segs if sg["impl"] for idx in idxs]
    case["_impl"] = [o for sg in segs for o in sg["impl"]]
    return ok


def parse_lin_reply(rep, nev):
    st, toks = common.parse_reply(rep)
    if st != "ok":
        raise common.InfraError(f"model error on lin line: {rep}")
    out, i = [], 0
    while i < len(toks):
        clock = int(toks[i])
        kind = toks[i + 1]
        i += 2
        if kind == "O":
            nums = []
            while i < len(toks) and ":" in toks[i]:
                nums.append(common.from_wire(toks[i]))
                i += 1
            out.append((clock, nums))
        else:
            out.append((clock, kind))
    if len(out) != nev:
        raise common.InfraError(f"lin reply has {len(out)} events, expected {nev}")
    return out


def run_lin(ctx: Ctx, cases):
    lines, metas = [], []
    for case in cases:
        check_lin(ctx, case)
        ls, impl = case.pop("_lines", []), case.pop("_impl", [])
        ncall = sum(1 for (_, o) in impl if isinstance(o, tuple))
        ctx.note_case(("lin", case["sys"], case["n"], case["m"], case["p"], case["T"], tuple(case["full"]), case["dtype"],
                       case["c1"], case["c2"], sig_events(case["events"])), ncall > 0)
        ctx.count(f"lin.{case['sys']}.batch{len(case['full'])}.{case['dtype']}")
        for e in case["events"]:
            ctx.count("lin.ev." + e["ev"])
        for idx, ln, seg_impl in ls:
            lines.append(ln)
            metas.append((case, idx, seg_impl))
        oj = case.pop("_obj", None)
        case.pop("_ctor", None)
        if oj is not None:
            lines.append(oj[0])
            metas.append((case, "OBJ", oj[1:]))
    if cases:
        c0 = cases[0]
        ctx.sample({"stream": "lin", **{k: v for k, v in c0.items() if k not in ("events",)}, "events": sig_events(c0["events"])})
    reps = ctx.driver.run(lines)
    for rep, (case, idx, impl) in zip(reps, metas):
        if idx == "OBJ":             # objForward: properties resolved from buffers and overrides by the model
            got, mags = impl
            st, toks = common.parse_reply(rep)
            eps = common.EPS[case["dtype"]]
            if st != "ok" or toks[0] != "O":
                ctx.disagree("lin.obj", pub(case), f"model of the object with overridden properties {sorted(case['ov'])}: {rep[:60]}, the implementation returned")
                continue
            want = [common.from_wire(t_) for t_ in toks[1:]]
            for q_, (gv, w, mg) in enumerate(zip(got, want, mags)):
                if not (abs(Fraction(gv) - w) <= 64 * eps * mg + 1e-300):
                    ctx.disagree("lin.obj", pub(case), f"object with overridden properties {sorted(case['ov'])}: output entry {q_} implementation {gv!r}, model (properties resolved) {float(w)!r}")
                    break
            continue
        model = parse_lin_reply(rep, len(impl))
        eps = common.EPS[case["dtype"]]
        n, p, full = case["n"], case["p"], case["full"]
        for i, ((ci, oi), (cm, om)) in enumerate(zip(impl, model)):
            if ci != cm:
                ctx.disagree("lin.clock", {**pub(case), "at": i}, f"{case['sys']}: after event {i} implementation systime {ci}, model {cm}")
                break
            if isinstance(oi, tuple) != isinstance(om, list) or (oi == "R") != (om == "R"):
                ctx.disagree("lin.outcome", {**pub(case), "at": i}, f"{case['sys']}: event {i} implementation {'returns' if isinstance(oi, tuple) else oi}, model {'returns' if isinstance(om, list) else om}")
                break
            if isinstance(oi, tuple):
                xn, y, magrec = oi
                try:
                    got = bitem(xn, xn.ndim - 1, full, idx).double().tolist() + bitem(y, y.ndim - 1, full, idx).double().tolist()
                except Exception:
                    ctx.disagree("lin.shape", {**pub(case), "at": i}, f"output shapes {tuple(xn.shape)} {tuple(y.shape)} do not broadcast to {full}")
                    break
                if len(got) != len(om):
                    ctx.disagree("lin.shape", {**pub(case), "at": i}, f"output has {len(got)} entries, model {len(om)}")
                    break
                mags = magrec.get(idx, [])
                if len(mags) != len(om):
                    continue            # the oracle already reported a shape problem for this event
                bad = [(k_, gv, float(mv)) for k_, (gv, mv, mg) in enumerate(zip(got, om, mags))
                       if not (abs(Fraction(gv) - mv) <= 64 * eps * mg + 1e-300)]
                if bad:
                    ctx.disagree("lin.value", {**pub(case), "at": i, "item": list(idx)}, f"{case['sys']}: event {i} output entry {bad[0][0]}: implementation {bad[0][1]!r} model {bad[0][2]!r}")
                    break


# ============================================================================= stream: nls

def gen_nls_case(seed, quick):
    rng = random.Random(seed)
    nx, nu = rng.choice([1, 2, 2, 3]), rng.choice([1, 1, 2])
    nf, ng = nx, rng.choice([1, 2, 3])
    depth = rng.choice([2, 3, 3, 4])
    nv = nx + nu + 1
    dtype = rng.choice(["float64", "float64", "float64", "float32"])
    for _attempt in range(50):
        pool = []
        fs = [gen_tree(rng, nv, depth, pool) for _ in range(nf)]
        gs = [gen_tree(rng, nv, depth, pool) for _ in range(ng)]
        ea = [3.2] * (nx + nu) + [45.0]
        worst = 0.0
        for t in fs + gs:
            m_, d_ = tree_mag(t, ea, nv)
            worst = max(worst, m_, *d_)
        if worst < (1e5 if dtype == "float32" else 1e9) and any(tree_size(t) > 1 for t in fs):
            break
    # user callbacks that return their argument or a view of it (full-state observation, g = x[:p], f = u, f = x): the
    # trees are the corresponding variables, so model and oracles are unchanged
    passthrough = {}
    if rng.random() < 0.15:
        gm = rng.choice(["state", "state", "view", "input", None])
        fm = rng.choice([None, None, "state"] + (["input"] if nx == nu else []))
        if gm is None and fm is None:
            gm = "state"
        if gm == "state":
            gs = [("V", i_) for i_ in range(nx)]
        elif gm == "view":
            gs = [("V", i_) for i_ in range(rng.randint(1, nx))]
        elif gm == "input":
            gs = [("V", nx + j_) for j_ in range(nu)]
        if fm == "state":
            fs = [("V", i_) for i_ in range(nx)]
        elif fm == "input":
            fs = [("V", nx + j_) for j_ in range(nu)]
        passthrough = {k_: v_ for k_, v_ in (("f", fm), ("g", gm)) if v_}
    evs = []
    nev = rng.randint(4, 10)
    have_call = False
    for k_ in range(nev):
        c = rng.random()
        if c < 0.30:
            evs.append({"ev": "call", "x": gen_vals(rng, nx, dtype), "u": gen_vals(rng, nu, dtype), "scalar": rng.random() < 0.3})
            have_call = True
        elif c < 0.55:
            tm = rng.random()
            if tm < 0.35:
                t = None
            elif tm < 0.5:
                t = "live"
            else:
                t = gen_time(rng, rng.choice(["tint", "tint", "tfloat", "tfloat32", "tint32"]))
                t["dim1"] = rng.random() < 0.4
            evs.append({"ev": "ref", "x": None if rng.random() < 0.35 else gen_vals(rng, nx, dtype),
                        "u": None if rng.random() < 0.35 else gen_vals(rng, nu, dtype), "t": t, "scalar": rng.random() < 0.3})
        elif c < 0.63:
            evs.append({"ev": "reset", "t": None if rng.random() < 0.4 else {"v": rng.randint(-3, 30), "as": rng.choice(["py", "int64"])}})
        elif c < 0.70:
            evs.append({"ev": "assign", "t": {"v": rng.randint(-3, 30), "as": rng.choice(["py", "int64"])}})
        else:
            evs.append({"ev": "read"})
    # seeded C15-2 scenario class: kept int64 tensors (0-dim / shape (1,)) written into the clock and used as reference
    # time, re-used later; a second system exchanging times with this one
    slots = [{"v": rng.randint(-3, 30), "shape": 0}, {"v": rng.randint(0, 30), "shape": rng.choice([0, 1])}]
    for _ in range(rng.choice([0, 1, 2, 3])):
        c = rng.random()
        if c < 0.25:
            x_ = {"ev": "assign", "t": {"slot": 0, "v": slots[0]["v"], "as": "slot"}}
        elif c < 0.5:
            k_ = rng.randrange(2)
            x_ = {"ev": "ref", "x": gen_vals(rng, nx, dtype), "u": gen_vals(rng, nu, dtype), "t": {"slot": k_, "v": slots[k_]["v"], "as": "slot"}, "scalar": False}
        else:
            x_ = {"ev": "twin", "op": rng.choice(["from_main", "call", "call", "reset", "to_main"])}
        evs.insert(rng.randint(0, len(evs)), x_)
    # copies: a deep copy of the system (with its reference point) used interleaved with the original
    if rng.random() < 0.3:
        pos = rng.randint(0, len(evs))
        evs.insert(pos, {"ev": "clone", "op": "make"})
        for _ in range(rng.randint(1, 4)):
            op = rng.choice(["call", "call", "read", "reset"])
            evs.insert(rng.randint(pos + 1, len(evs)), {"ev": "clone", "op": op, "x": gen_vals(rng, nx, dtype), "u": gen_vals(rng, nu, dtype), "t": rng.randint(-3, 30)})
    # object re-use: the public `jacargs` attribute is changed between reads (same derivative, other autograd route);
    # views: states / inputs that are rows of a larger trajectory buffer
    for _ in range(rng.choice([0, 0, 1, 2])):
        evs.insert(rng.randint(0, len(evs)), {"ev": "jacargs", "v": rng.choice([[True, "reverse-mode"], [False, "reverse-mode"], [True, "forward-mode"]])})
    for e_ in evs:
        if e_["ev"] in ("call", "ref"):
            e_["lay"] = rng.choice(["c", "c", "slice"])
            e_["mode"] = rng.choice(["plain", "plain", "plain", "grad", "no_grad"])      # grad modes / keyword vs positional
            e_["kw"] = rng.random() < 0.5
        if e_["ev"] == "read":
            e_["mode"] = rng.choice(["plain", "plain", "no_grad"])
    # error paths: the user's function raises inside a forward or inside set_refpoint; the caller catches and goes on
    for _ in range(rng.choice([0, 0, 0, 1, 2])):
        if rng.random() < 0.5:
            x_ = {"ev": "xraise", "x": gen_vals(rng, nx, dtype), "u": gen_vals(rng, nu, dtype)}
        else:
            x_ = {"ev": "refraise", "x": gen_vals(rng, nx, dtype), "u": gen_vals(rng, nu, dtype), "t": {"v": rng.randint(0, 9), "as": "int64"}}
        evs.insert(rng.randint(0, len(evs)), x_)
    # stale reads / aliases: the caller updates in place (add_, copy_, item assignment) a tensor it handed to the system —
    # the state/input of the last forward, the state/input/time given to set_refpoint — and goes on
    for _ in range(rng.choice([0, 0, 1, 1, 2, 3])):
        x_ = {"ev": "poke", "tgt": rng.choice(["lastX", "lastU", "refX", "refX", "refU", "refT"]), "how": rng.choice(["add_", "copy_", "setitem"]),
              "delta": rng.choice([0.5, -1.25, 2.0, 1e-3 if dtype == "float64" else 0.125]), "fill": rng.choice([0.0, 1.5, -2.0, 0.75]), "j": rng.randrange(3)}
        pos = rng.randint(0, len(evs))
        evs.insert(pos, x_)
        if rng.random() < 0.6:
            evs.insert(min(len(evs), pos + 1 + rng.randint(0, 2)), {"ev": "read"})
    if not any(e["ev"] == "read" for e in evs):
        evs.append({"ev": "read"})
    # lesson 44: re-configuration with nearly identical arguments on ONE object — reference points converging to a limit,
    # x_k = x_inf + d 10^-k (k = 1 … 14; state and / or input moving, the other fixed; same reference time), every one followed
    # by a read that is judged at ITS OWN requested point; also returning to an earlier point and repeating one exactly
    if rng.random() < 0.12:
        evs = converge_events(rng, nx, nu, dtype, rng.sample(range(1, 15), rng.randint(3, 6)))
    case = {"kind": "nls", "seed": seed, "nx": nx, "nu": nu, "dtype": dtype, "fs": fs, "gs": gs, "events": evs, "slots": slots, "T0": 0, "passthrough": passthrough}
    # extreme-but-valid clocks with the lower-precision dtype: time stamps above 2^24 (float32) / 2^53 (float64), a UNIX
    # epoch; the user's functions subtract the epoch T0 in exact integer arithmetic
    if rng.random() < 0.3:
        T0 = rng.choice([2 ** 24, 2 ** 24, 1_700_000_000, 2 ** 31, 2 ** 40] + ([2 ** 53] if dtype == "float64" else []))
        shift_times(case, T0, rng)
    # exact coincidences: a reference time equal to the clock exactly, or off by one; a time set to the value it already has
    for e_ in case["events"]:
        if e_["ev"] == "ref" and isinstance(e_.get("t"), dict) and "slot" not in e_["t"] and rng.random() < 0.35:
            e_["t"] = {"rel": rng.choice([-1, 0, 0, 1]), "as": "int64", "dim1": rng.random() < 0.3}
        elif e_["ev"] == "assign" and "slot" not in e_["t"] and rng.random() < 0.15 and not (case["T0"] and e_ is case["events"][0]):
            # (not the assignment that moves the history to its time base T0: the effective times t - T0 stay small by design)
            e_["t"] = {"rel": 0, "as": rng.choice(["py", "int64"])}
    return resolve_rel(case)


def converge_events(rng, nx, nu, dtype, ks, moving=None, tmode=None):
    """a history of set_refpoint calls whose arguments converge: x_k = x_inf + d 10^-k and / or u_k = u_inf + e 10^-k for the given
    k (increasing: distances between consecutive requests from 1e-1 down to 1e-14), the same reference time every time
    (a fixed int64 value, or None with no call in between), each followed by a read"""
    xinf, uinf = gen_vals(rng, nx, dtype), gen_vals(rng, nu, dtype)
    xinf = [v if abs(v) > 1e-3 and abs(v) < 50 else rng.uniform(0.5, 2.0) for v in xinf]
    uinf = [v if abs(v) > 1e-3 and abs(v) < 50 else rng.uniform(0.5, 2.0) for v in uinf]
    d = [rng.choice([-1, 1]) * rng.uniform(0.3, 1.0) for _ in range(nx)]
    e = [rng.choice([-1, 1]) * rng.uniform(0.3, 1.0) for _ in range(nu)]
    moving = moving or rng.choice(["x", "u", "xu", "xu", "alt"])
    tmode = tmode or rng.choice(["value", "value", "none"])
    tv = {"v": rng.randint(0, 9), "as": "int64", "dim1": rng.random() < 0.3}
    evs = [{"ev": "call", "x": list(xinf), "u": list(uinf), "scalar": False, "lay": "c", "mode": "plain", "kw": False}]
    for n_, k_ in enumerate(sorted(ks)):
        mx = moving in ("x", "xu") or (moving == "alt" and n_ % 2 == 0)
        mu = moving in ("u", "xu") or (moving == "alt" and n_ % 2 == 1)
        xk = [a_ + (b_ * 10.0 ** -k_ if mx else 0.0) for a_, b_ in zip(xinf, d)]
        uk = [a_ + (b_ * 10.0 ** -k_ if mu else 0.0) for a_, b_ in zip(uinf, e)]
        evs.append({"ev": "ref", "x": xk, "u": uk, "t": None if tmode == "none" else dict(tv), "scalar": False, "lay": "c", "mode": "plain", "kw": rng.random() < 0.5})
        evs.append({"ev": "read", "mode": "plain"})
        if rng.random() < 0.2:
            evs.append({"ev": "read", "mode": "plain"})
    # the limit itself, the limit again (exactly the same point: nothing may change), and back to the first point
    for xk, uk in ((xinf, uinf), (xinf, uinf), (evs[1]["x"], evs[1]["u"])):
        evs.append({"ev": "ref", "x": list(xk), "u": list(uk), "t": None if tmode == "none" else dict(tv), "scalar": False, "lay": "c", "mode": "plain", "kw": False})
        evs.append({"ev": "read", "mode": "plain"})
    return evs


def resolve_rel(case):
    """times given relative to the clock (`{"rel": r}`: clock + r at that moment) become literal integers; the clock
    follows its law, which is a function of the event list"""
    clock, twin = 0, 0
    for e in case["events"]:
        k_ = e["ev"]
        if isinstance(e.get("t"), dict) and "rel" in e["t"]:
            e["t"] = {"v": clock + e["t"]["rel"], "as": e["t"].get("as", "int64"), "dim1": e["t"].get("dim1", False), "coincidence": e["t"]["rel"]}
        if k_ == "call":
            clock += 1
        elif k_ == "reset":
            clock = 0 if e["t"] is None else int(e["t"]["v"])
        elif k_ == "assign":
            clock = int(e["t"]["v"])
        elif k_ == "twin":
            if e["op"] == "from_main":
                twin = clock
            elif e["op"] == "call":
                twin += 1
            elif e["op"] == "reset":
                twin = 0
            else:
                clock = twin
    return case


def shift_times(case, T0, rng):
    """move a history to the time base T0: every time that is set is T0 + (small integer), as int64 / python int"""
    case["T0"] = T0
    out = [{"ev": "assign", "t": {"v": T0 + rng.choice([0, 1, 3]), "as": rng.choice(["py", "int64"])}}]
    for e in case["events"]:
        e = dict(e)
        if e["ev"] == "reset":
            e["t"] = {"v": T0 + (0 if e["t"] is None else int(e["t"]["v"])), "as": rng.choice(["py", "int64"])}
        elif e["ev"] == "assign":
            e["t"] = dict(e["t"], v=T0 + int(e["t"]["v"]))
            if e["t"].get("as") not in ("py", "int64", "slot"):
                e["t"]["as"] = "int64"
        elif e["ev"] in ("ref", "refraise") and isinstance(e.get("t"), dict):
            e["t"] = dict(e["t"], v=T0 + int(e["t"]["v"]))
            if e["t"].get("as") != "slot":
                e["t"]["as"] = "int64"
        elif e["ev"] == "twin" and e["op"] == "to_main":
            e["op"] = "call"
        elif e["ev"] == "clone" and e["op"] == "reset":
            e["t"] = T0 + int(e["t"])
        out.append(e)
    case["events"] = out
    case["slots"] = [dict(sl, v=T0 + sl["v"]) for sl in case["slots"]]
    return case


def make_nls(P, case):
    fs, gs, nx, nu = case["fs"], case["gs"], case["nx"], case["nu"]
    T0 = case.get("T0", 0)
    pt = case.get("passthrough") or {}

    def vals_of(state, input, t):
        # exact integer arithmetic on the time stamp BEFORE any float conversion (an int64 clock of 2^24 + 1, a UNIX
        # epoch, 2^53 + 1 … minus the epoch of the experiment), as a user function with a large time base does
        tt = (torch.as_tensor(t).reshape(()) - T0).to(state.dtype)
        return [state[..., i] for i in range(nx)] + [input[..., j] for j in range(nu)] + [tt]

    # lesson 48: a harness-defined subclass of a library class defines NOTHING but the documented overrides
    # (state_transition, observation; the properties A … c2 for LTI / LTV) and one collision-proof flag `vfh15_raise` —
    # no underscore-private or short helper names a harmless refactor of the library could introduce itself
    # (`_jac`, `_vals`, `_latch_io`, `_add_const`, …): helpers are closures outside the class
    class TreeNLS(P.module.NLS):
        vfh15_raise = False

        def state_transition(self, state, input, t=None):
            if self.vfh15_raise:
                raise ValueError("user function raises")
            if pt.get("f") == "state":
                return state                      # the callback returns its argument (the trees say f_i = x_i)
            if pt.get("f") == "input":
                return input
            vals, cache = vals_of(state, input, t), {}
            return torch.stack([tree_torch(f, vals, state.dtype, cache) for f in fs], -1)

        def observation(self, state, input, t=None):
            if pt.get("g") == "state":
                return state                      # full-state observation: the argument itself
            if pt.get("g") == "view":
                return state[..., :len(gs)]       # a view of the argument
            if pt.get("g") == "input":
                return input
            vals, cache = vals_of(state, input, t), {}
            return torch.stack([tree_torch(g_, vals, state.dtype, cache) for g_ in gs], -1)
    return TreeNLS()


def nls_sim(case):
    """Caller-side simulation of a history, a function of the event list alone: for every event the token the model gets
    (None: the event does not reach the model), the resolved content of `None` arguments, the content a poked tensor has
    afterwards, and whether a tensor that a successful set_refpoint was given has been updated in place since.
    The second system's clock follows its own law (multi_clock_independent)."""
    dt = DT(case["dtype"])
    objs, nid = {}, [0]          # id -> content (python floats exactly representable in dtype)

    def new(vals):
        nid[0] += 1
        objs[nid[0]] = list(vals)
        return nid[0]
    out, clock, twin = [], 0, 0
    last, refo, ref_ok, ref_poked, ref_has_t = None, None, False, False, False
    for i, e in enumerate(case["events"]):
        k_ = e["ev"]
        info = {"i": i, "tok": None}
        if k_ == "twin":
            if e["op"] == "from_main":
                twin = clock
            elif e["op"] == "call":
                twin += 1
            elif e["op"] == "reset":
                twin = 0
            else:
                clock = twin
                info["tok"] = "assign=" + to_wire(twin)
        elif k_ == "call":
            clock += 1
            last = (new(e["x"]), new(e["u"]))
            info["tok"] = f"call {len(e['x'])} {wire_list(e['x'])} {len(e['u'])} {wire_list(e['u'])}"
        elif k_ == "ref":
            can = (e["x"] is not None or last is not None) and (e["u"] is not None or last is not None)
            xs = "-" if e["x"] is None else f"{len(e['x'])} {wire_list(e['x'])}"
            us = "-" if e["u"] is None else f"{len(e['u'])} {wire_list(e['u'])}"
            ts = "-" if e["t"] is None else ("L" if e["t"] == "live" else (to_wire(e["t"]["v"]) if "slot" in e["t"] else time_token(mk_time(e["t"]))))
            info["tok"] = f"ref {xs} {us} {ts}"
            info["can"] = can
            if can:
                ox = new(e["x"]) if e["x"] is not None else last[0]
                ou = new(e["u"]) if e["u"] is not None else last[1]
                refo, ref_ok, ref_poked = (ox, ou), True, False
                ref_has_t = isinstance(e["t"], dict) and "slot" not in e["t"]
                info["x_res"], info["u_res"] = list(objs[ox]), list(objs[ou])
            else:
                ref_ok = False          # a partial update may have happened: the reference objects are not tracked further
        elif k_ == "xraise":
            # the code assigns self.state / self.input before the user function runs: they are the failed call's tensors
            last = (new(e["x"]), new(e["u"]))
            info["tok"] = f"xraise {len(e['x'])} {wire_list(e['x'])} {len(e['u'])} {wire_list(e['u'])}"
        elif k_ == "refraise":
            info["tok"] = f"refraise {len(e['x'])} {wire_list(e['x'])} {len(e['u'])} {wire_list(e['u'])} {to_wire(e['t']['v'])}"
            ref_ok = False                # three of the five attributes are overwritten before the user function raises
        elif k_ == "reset":
            clock = 0 if e["t"] is None else int(e["t"]["v"])
            info["tok"] = "reset=" + (to_wire(0) if e["t"] is None else to_wire(e["t"]["v"]))
        elif k_ == "assign":
            clock = int(e["t"]["v"])
            info["tok"] = "assign=" + to_wire(e["t"]["v"])
        elif k_ == "read":
            info["tok"] = "read"
            info["ref_poked"] = ref_poked
        elif k_ == "poke":
            tgt = e["tgt"]
            if tgt == "refT":
                info["do"] = ref_ok and ref_has_t
            else:
                oid = None
                if tgt in ("lastX", "lastU") and last is not None:
                    oid = last[0 if tgt == "lastX" else 1]
                if tgt in ("refX", "refU") and ref_ok:
                    oid = refo[0 if tgt == "refX" else 1]
                info["do"] = oid is not None
                if oid is not None:
                    cur = torch.tensor(objs[oid], dtype=dt)
                    if e["how"] == "add_":
                        cur.add_(e["delta"])
                    elif e["how"] == "copy_":
                        cur.copy_(torch.tensor([e["fill"] + 0.25 * q_ for q_ in range(len(objs[oid]))], dtype=dt))
                    else:
                        cur[e["j"] % len(objs[oid])] = e["fill"]
                    objs[oid] = cur.double().tolist()
                    info["content"] = list(objs[oid])
                    info["tok"] = f"poke {tgt} {len(objs[oid])} {wire_list(objs[oid])}"
                    if ref_ok and oid in refo:
                        ref_poked = True
        out.append(info)
    return out


def nls_model_events(case):
    """(event index, token) of the events that reach the model"""
    return [(d["i"], d["tok"]) for d in nls_sim(case) if d["tok"] is not None]


def nls_line(case, alias_t, alias_x, pf=1):
    toks = []
    T0, tv = case.get("T0", 0), case["nx"] + case["nu"]

    def shift(t):        # the model's clock is the absolute integer; the user's function subtracts its epoch exactly
        if t[0] == "V":
            return ("-", t, ("C", False, T0, 1)) if (t[1] == tv and T0) else t
        if t[0] == "C":
            return t
        if t[0] in "+-*":
            return (t[0], shift(t[1]), shift(t[2]))
        return (t[0], shift(t[1])) + tuple(t[2:])
    for t in case["fs"] + case["gs"]:
        tree_tokens(shift(t), toks)
    ev = [tok for _, tok in nls_model_events(case)]
    # third flag 1: error paths as the code has them (a raising set_refpoint / forward leaves a partial update behind —
    # outside the property, see notes; the model follows the code there)
    return f"c15.nls {alias_t} {alias_x} {pf} 0 {len(case['fs'])} {len(case['gs'])} " + " ".join(toks) + " " + " ".join(ev)


def parse_nls_reply(rep, case):
    st, toks = common.parse_reply(rep)
    if st != "ok":
        raise common.InfraError(f"model error on nls line: {rep}")
    nf, ng = len(case["fs"]), len(case["gs"])
    out, i = {}, 0
    for ei, e in nls_model_events(case):
        clock, kind = int(toks[i]), toks[i + 1]
        i += 2
        if kind == "O":
            nums = [common.from_wire(t) for t in toks[i:i + nf + ng]]
            i += nf + ng
            out[ei] = (clock, "O", nums)
        elif kind == "L":
            nx, nu = int(toks[i]), int(toks[i + 1])
            i += 2
            cnt = nf * nx + nf * nu + ng * nx + ng * nu + nf + ng
            nums = [common.from_wire(t) for t in toks[i:i + cnt]]
            i += cnt
            out[ei] = (clock, "L", (nx, nu, nums))
        else:
            out[ei] = (clock, kind, None)
    if i != len(toks):
        raise common.InfraError("nls reply not fully consumed")
    return out


def flat_lin(sys_):
    parts = [sys_.A, sys_.B, sys_.C, sys_.D, sys_.c1, sys_.c2]
    return parts


def nls_tolerances(case, xs, us, tA, tF, eps):
    """entry-wise tolerances for (A,B,C,D,c1,c2) flattened, Jacobians at time tA, frozen values at time tF"""
    nx, nu = len(xs), len(us)
    nv = case["nx"] + case["nu"] + 1
    tols = {"A": [], "B": [], "C": [], "D": [], "c1": [], "c2": []}
    for trees, (ja, jb, cc) in ((case["fs"], ("A", "B", "c1")), (case["gs"], ("C", "D", "c2"))):
        for t in trees:
            eaA = [abs(v) for v in xs] + [abs(v) for v in us] + [abs(tA)]
            eaF = [abs(v) for v in xs] + [abs(v) for v in us] + [abs(tF)]
            _, dA = tree_mag(t, eaA, nv)
            mF, _ = tree_mag(t, eaF, nv)
            fac = 64 * eps * max(1.0, tree_size(t) / 24.0)
            fl = lambda mg: floor_(case["dtype"], mg, 4 * tree_size(t))
            tols[ja] += [fac * dA[j] + fl(dA[j]) for j in range(nx)]
            tols[jb] += [fac * dA[nx + j] + fl(dA[nx + j]) for j in range(nu)]
            sc = mF + sum(dA[j] * abs(xs[j]) for j in range(nx)) + sum(dA[nx + j] * abs(us[j]) for j in range(nu))
            tols[cc].append(fac * sc + fl(sc))
    return tols


SITE_X = "pypose/module/dynamics.py:NLS.set_refpoint/forward"
PREDICATE_X = "ref_state_or_input_is_callers_tensor_and_caller_updated_it_in_place"


def known_alias_state(kf, case):
    """recognises exactly the finding `_ref_state/_ref_input are the caller's tensors (no copy)`: call site + input region
    (a tensor that the last successful set_refpoint took as state/input — explicitly or as the last forward's — was
    updated in place by the caller between set_refpoint and the read) and the implementation behaving precisely as the
    reference-by-alias model predicts."""
    return (kf.get("site") == SITE_X and kf.get("predicate") == PREDICATE_X
            and case.get("ref_tensor_updated_in_place_since_ref") is True and case.get("matches_alias_model") is True)


def known_any(kf, case):
    return known_alias(kf, case) or known_alias_state(kf, case)


def known_alias(kf, case):
    """recognises exactly the finding `set_refpoint stores the clock buffer as _ref_t`: call site + input region
    (reference time left to default / given as sys.systime, clock changed between set_refpoint and the read) and the
    implementation behaving precisely as the alias model predicts."""
    return (kf.get("site") == SITE and kf.get("predicate") == PREDICATE and case.get("site") == SITE
            and case.get("ref_t_mode") in ("default", "live") and case.get("clock_changed_since_ref") is True
            and case.get("matches_alias_model") is True)


def check_nls(ctx: Ctx, case, model_doc=None, model_alias=None, oracle_budget=None):
    try:
        return _check_nls(ctx, case, model_doc, model_alias, oracle_budget)
    except common.InfraError:
        raise
    except _Abort:
        return False
    except Exception as ex:
        import traceback
        ctx.fail(strip(case), f"impl-exception: unexpected {type(ex).__name__}: {str(ex)[:120]} while observing the implementation "
                              f"({traceback.format_exc().strip().splitlines()[-3].strip()[:120]})")
        return False


def _check_nls(ctx: Ctx, case, model_doc=None, model_alias=None, oracle_budget=None):
    """runs the history on the real code; compares with the two model runs (if given); applies the oracles"""
    import mpmath as mp
    P = pp()
    dt, eps = DT(case["dtype"]), common.EPS[case["dtype"]]
    nx, nu, nv = case["nx"], case["nu"], case["nx"] + case["nu"] + 1
    nf, ng = len(case["fs"]), len(case["gs"])
    sys_ = make_nls(P, case)
    slot_t = [torch.tensor(sl["v"] if sl["shape"] == 0 else [sl["v"]], dtype=torch.int64) for sl in case.get("slots", [])]
    slot_keep = [t.clone() for t in slot_t]
    twin, twin_clock = make_simple(P, "lti"), 0
    clone, clone_clock, clone_ref = None, None, None
    clock, last, ref = 0, None, None          # python-side bookkeeping of the documented semantics
    ok = True
    handed = []                               # [tensor, expected content]: the system never modifies the caller's tensors
    sim = nls_sim(case)
    T0 = case.get("T0", 0)
    objs = {"lastX": None, "lastU": None, "refX": None, "refU": None, "refT": None}
    rr = random.Random(case["seed"] ^ 0x5EED)

    guards = []

    def T(vals, scalar=False, how="c"):
        t = torch.tensor(vals, dtype=dt)
        if how == "slice" and not (scalar and len(vals) == 1):
            buf = torch.full((3, len(vals) + 2), 7.5, dtype=dt)          # a row of a trajectory buffer, not contiguous
            buf[1, 1:-1] = t
            guards.append((buf, buf.clone()))
            return buf[1, 1:-1]
        return t.reshape(()) if (scalar and len(vals) == 1) else t

    def guards_clean():
        for buf, kp in guards:
            m_ = torch.ones_like(buf, dtype=torch.bool)
            m_[1, 1:-1] = False
            if not torch.equal(buf[m_], kp[m_]):
                return False
        return True
    for i, e in enumerate(case["events"]):
        k_ = e["ev"]
        md = model_doc.get(i) if model_doc else None
        ma = model_alias.get(i) if model_alias else None
        if k_ == "call":
            x, u = T(e["x"], e["scalar"], e.get("lay", "c")), T(e["u"], e["scalar"], e.get("lay", "c"))
            handed += [[x, x.clone()], [u, u.clone()]]
            objs["lastX"], objs["lastU"] = x, u
            try:
                md_ = e.get("mode", "plain")
                if md_ == "grad":
                    xg = x.detach().clone().requires_grad_()
                    objs["lastX"] = xg
                    handed[-2] = [xg, xg.detach().clone()]
                    f, g_ = sys_(state=xg, input=u) if e.get("kw") else sys_(xg, u)
                    f, g_ = f.detach(), g_.detach()
                elif md_ == "no_grad":
                    with torch.no_grad():
                        f, g_ = sys_(state=x, input=u) if e.get("kw") else sys_(x, u)
                else:
                    f, g_ = sys_(state=x, input=u) if e.get("kw") else sys_(x, u)
            except Exception as ex:
                ctx.fail({**strip(case), "at": i}, f"nls-raises: call raised {type(ex).__name__}: {str(ex)[:100]}")
                return False
            if not finite(ctx, {**strip(case), "at": i}, f"event {i}: call at clock {clock} with x={e['x']} u={e['u']}", f, g_):
                return False
            got = f.double().tolist() + g_.double().tolist()
            # oracle: outputs = f(x,u,clock), g(x,u,clock) by the independent evaluator
            env = [mp.mpf(v) for v in e["x"]] + [mp.mpf(v) for v in e["u"]] + [mp.mpf(clock - T0)]
            ea = [abs(v) for v in e["x"]] + [abs(v) for v in e["u"]] + [abs(clock - T0)]
            for j, (tr, gv) in enumerate(zip(case["fs"] + case["gs"], got)):
                want = tree_mp(tr, env)
                mg_ = tree_mag(tr, ea, nv)[0]
                tol = 64 * eps * max(1.0, tree_size(tr) / 24.0) * mg_ + floor_(case["dtype"], mg_, tree_size(tr))
                if not (abs(mp.mpf(gv) - want) <= tol):
                    ctx.fail({**strip(case), "at": i}, f"nls-eq: call output {j} = {gv!r}, {'f' if j < nf else 'g'}(x,u,t={clock}) = {float(want)!r} (tol {tol:.2e})")
                    ok = False
                if md and md[1] == "O" and not (abs(Fraction(gv) - md[2][j]) <= tol):
                    ctx.disagree("nls.call", {**strip(case), "at": i}, f"call output {j}: implementation {gv!r} model {float(md[2][j])!r}")
            last = (e["x"], e["u"])
            clock_expect = clock + 1
        elif k_ == "ref":
            xa = None if e["x"] is None else T(e["x"], e["scalar"], e.get("lay", "c"))
            ua = None if e["u"] is None else T(e["u"], e["scalar"], e.get("lay", "c"))
            if e["t"] is None:
                ta = None
            elif e["t"] == "live":
                ta = sys_.systime
            elif "slot" in e["t"]:
                ta = slot_t[e["t"]["slot"]]           # a kept int64 tensor, 0-dim or shape (1,), re-used by the caller
            else:
                ta = mk_time(e["t"])
                if e["t"].get("dim1"):
                    ta = ta.reshape(1)
                handed.append([ta, ta.clone()])
            for t_ in (xa, ua):
                if t_ is not None:
                    handed.append([t_, t_.clone()])
            can = (e["x"] is not None or last is not None) and (e["u"] is not None or last is not None)
            try:
                if e.get("mode") == "no_grad":
                    with torch.no_grad():
                        r = sys_.set_refpoint(state=xa, input=ua, t=ta) if e.get("kw", True) else sys_.set_refpoint(xa, ua, ta)
                else:
                    r = sys_.set_refpoint(state=xa, input=ua, t=ta) if e.get("kw", True) else sys_.set_refpoint(xa, ua, ta)
                raised = None
                if r is not sys_:
                    ctx.fail({**strip(case), "at": i}, "refpoint-return: set_refpoint does not return the system")
            except Exception as ex:
                raised = ex
            if raised is not None and can:
                ctx.fail({**strip(case), "at": i}, f"refpoint-raises: set_refpoint raised {type(raised).__name__}: {str(raised)[:100]}")
                return False
            if raised is None and not can:
                ctx.disagree("nls.ref", {**strip(case), "at": i}, "set_refpoint with unresolved state/input did not raise")
                return ok
            if md and ((md[1] == "R") != (raised is not None)):
                ctx.disagree("nls.ref", {**strip(case), "at": i}, f"set_refpoint outcome: implementation {'raised' if raised else 'ok'}, model {md[1]}")
            if raised is None:
                # documented: the reference point is the CONTENT the tensors have now (a snapshot); `None` = the tensors of
                # the last forward (the caller's own objects) as they are now
                xs, us = sim[i]["x_res"], sim[i]["u_res"]
                objs["refX"] = xa if xa is not None else objs["lastX"]
                objs["refU"] = ua if ua is not None else objs["lastU"]
                objs["refT"] = ta if (isinstance(e["t"], dict) and "slot" not in e["t"]) else None
                if e["t"] is None or e["t"] == "live":
                    ts, mode = clock, ("default" if e["t"] is None else "live")
                elif "slot" in e["t"]:
                    ts, mode = e["t"]["v"], "value"
                else:
                    ts, mode = mk_time(e["t"]).item(), "value"          # int stays an exact int (clocks above 2^53)
                # "t": the time as the user's functions see it (the integer offset T0 is subtracted exactly, before any
                # float conversion); "tabs": the time stamp itself
                prev_ = ref if (ref is not None and ref.get("ok")) else None
                ref = {"x": xs, "u": us, "t": ts - T0, "tabs": ts, "mode": mode, "clock": clock, "ok": True, "ev": i}
                if prev_ is not None and len(prev_["x"]) == len(xs) and len(prev_["u"]) == len(us):
                    dist_ = max([abs(a_ - b_) for a_, b_ in zip(prev_["x"] + prev_["u"], xs + us)] + [0.0])
                    ref["where"] = (f"requested by set_refpoint at event {i}: x*={xs} u*={us} t*={ts}; the previous set_refpoint (event {prev_.get('ev', '?')}) was at "
                                    f"x={prev_['x']} u={prev_['u']} t={prev_['tabs']}, max distance {dist_:.3e}; ")
                else:
                    ref["where"] = f"requested by set_refpoint at event {i}: x*={xs} u*={us} t*={ts}; "
            elif ref is not None:
                ref["ok"] = False          # a failed set_refpoint may leave a partial update behind (modelled, not judged)
            clock_expect = clock
        elif k_ in ("reset", "assign"):
            try:
                if k_ == "reset":
                    if e["t"] is None:
                        sys_.reset()
                        clock_expect = 0
                    else:
                        sys_.reset(mk_time(e["t"]))
                        clock_expect = e["t"]["v"]
                else:
                    sys_.systime = slot_t[e["t"]["slot"]] if "slot" in e["t"] else mk_time(e["t"])
                    clock_expect = e["t"]["v"]
            except Exception as ex:
                ctx.fail({**strip(case), "at": i}, f"clock-raises: {k_} raised {type(ex).__name__}: {str(ex)[:100]}")
                return False
        elif k_ in ("xraise", "refraise"):     # the user's function raises; the caller catches the exception and goes on
            clock_expect = clock
            xa, ua = T(e["x"]), T(e["u"])
            handed += [[xa, xa.clone()], [ua, ua.clone()]]
            sys_.vfh15_raise = True
            try:
                if k_ == "xraise":
                    sys_(xa, ua)
                else:
                    sys_.set_refpoint(xa, ua, mk_time(e["t"]))
                escaped = False
            except ValueError:
                escaped = True
            finally:
                sys_.vfh15_raise = False
            if not escaped:
                ctx.fail({**strip(case), "at": i}, f"error-path: the exception raised by the user's function inside {'forward' if k_ == 'xraise' else 'set_refpoint'} did not reach the caller")
                raise _Abort()
            if k_ == "xraise":
                objs["lastX"], objs["lastU"] = xa, ua          # (code) self.state / self.input are the failed call's tensors
                last = (e["x"], e["u"])
            elif ref is not None:
                ref["ok"] = False
            if md and md[1] != "R":
                ctx.disagree("nls.error-path", {**strip(case), "at": i}, f"{k_}: implementation raised, model {md[1]}")
        elif k_ == "clone":         # a deep copy of the system, used interleaved with the original
            import copy as _copy
            clock_expect = clock
            if e["op"] == "make":
                try:
                    clone, clone_clock = _copy.deepcopy(sys_), clock
                    clone_ref = dict(ref) if (ref is not None and ref["ok"]) else None
                except RuntimeError as ex:
                    # torch refuses to deep-copy non-leaf tensors that require grad (the system holds the caller's
                    # requires_grad state as self.state): clean-tree behaviour on an exotic combination, not judged
                    if "deepcopy protocol" not in str(ex):
                        raise
                    clone = None
                    ctx.count("nls.clone.skipped-nonleaf")
            elif clone is not None and e["op"] == "reset":
                clone.reset(e["t"])
                clone_clock = e["t"]
            elif clone is not None and e["op"] == "call":
                fc, gc = clone(torch.tensor(e["x"], dtype=dt), torch.tensor(e["u"], dtype=dt))
                if not finite(ctx, {**strip(case), "at": i}, f"event {i}: the copy's call at its clock {clone_clock} with x={e['x']} u={e['u']}", fc, gc):
                    raise _Abort()
                gotc = fc.double().tolist() + gc.double().tolist()
                envc = [mp.mpf(v) for v in e["x"]] + [mp.mpf(v) for v in e["u"]] + [mp.mpf(clone_clock - T0)]
                eac = [abs(v) for v in e["x"]] + [abs(v) for v in e["u"]] + [abs(clone_clock - T0)]
                for j, (tr, gv) in enumerate(zip(case["fs"] + case["gs"], gotc)):
                    want = tree_mp(tr, envc)
                    mg_ = tree_mag(tr, eac, nv)[0]
                    tol = 64 * eps * max(1.0, tree_size(tr) / 24.0) * mg_ + floor_(case["dtype"], mg_, tree_size(tr))
                    if not (abs(mp.mpf(gv) - want) <= tol):
                        ctx.fail({**strip(case), "at": i}, f"nls-eq: the copy's call output {j} = {gv!r}, {'f' if j < nf else 'g'}(x,u,t) at its own time {clone_clock} = {float(want)!r} "
                                                           f"(original's time {clock}; tol {tol:.2e})")
                        raise _Abort()
                clone_clock += 1
            elif clone is not None and clone_ref is not None:
                partsc = flat_lin(clone)
                if not finite(ctx, {**strip(case), "at": i}, f"event {i}: A, B, C, D, c1, c2 of the copy (reference point {clone_ref.get('x')}, {clone_ref.get('u')})", *partsc):
                    raise _Abort()
                gotc = {nm: p_.double().flatten().tolist() for nm, p_ in zip(["A", "B", "C", "D", "c1", "c2"], partsc)}
                cinfo = {**strip(case), "at": i, "site": SITE, "ref_t_mode": clone_ref["mode"], "read_clock": clone_clock, "of": "copy"}
                ok &= nls_oracles(ctx, case, cinfo, clone, clone_ref, gotc, eps, dt, rr, True)
        elif k_ == "jacargs":       # public attribute changed between reads: same derivative by another autograd route
            clock_expect = clock
            sys_.jacargs = {"vectorize": e["v"][0], "strategy": e["v"][1]}
        elif k_ == "poke":          # the caller updates, in place, a tensor it handed to the system earlier
            clock_expect = clock
            if sim[i].get("do"):
                tobj = objs[e["tgt"]]
                with torch.no_grad():           # (a requires_grad leaf may only be updated in place without autograd)
                    if e["tgt"] == "refT":
                        tobj.add_(3)
                    elif e["how"] == "add_":
                        tobj.add_(e["delta"])
                    elif e["how"] == "copy_":
                        tobj.copy_(torch.tensor([e["fill"] + 0.25 * q_ for q_ in range(tobj.numel())], dtype=dt).reshape(tobj.shape))
                    elif tobj.ndim == 0:
                        tobj.fill_(e["fill"])
                    else:
                        tobj[e["j"] % tobj.numel()] = e["fill"]
                if e["tgt"] != "refT" and tobj.double().reshape(-1).tolist() != sim[i]["content"]:
                    raise common.InfraError("harness: poke simulation out of step with the tensor")
                for h_ in handed:
                    if h_[0] is tobj:
                        h_[1] = tobj.clone()
        elif k_ == "twin":          # a second system exchanging times with this one: nothing is shared afterwards
            op = e["op"]
            clock_expect = clock
            try:
                if op == "from_main":
                    twin.systime = sys_.systime
                    twin_clock = clock
                elif op == "call":
                    twin(torch.tensor([1.0]), torch.tensor([1.0]))
                    twin_clock += 1
                elif op == "reset":
                    twin.reset()
                    twin_clock = 0
                else:
                    sys_.systime = twin.systime
                    clock_expect = twin_clock
            except Exception as ex:
                ctx.fail({**strip(case), "at": i}, f"clock-raises: twin {op} raised {type(ex).__name__}: {str(ex)[:100]}")
                return False
        else:   # read
            clock_expect = clock
            try:
                if e.get("mode") == "no_grad":
                    with torch.no_grad():
                        parts = flat_lin(sys_)
                else:
                    parts = flat_lin(sys_)
                raised = None
            except Exception as ex:
                parts, raised = None, ex
            have_ref = ref is not None
            if md and ((md[1] == "E") != (raised is not None)) and ma and ((ma[1] == "E") == (raised is not None)):
                ctx.count("nls.read.atomic-error-path")
            elif md and ((md[1] == "E") != (raised is not None)):
                ctx.disagree("nls.read", {**strip(case), "at": i}, f"read outcome: implementation {'raised ' + type(raised).__name__ if raised else 'ok'}, model {md[1]}")
            if raised is not None:
                if have_ref and ref["ok"]:
                    ctx.fail({**strip(case), "at": i}, f"nls-raises: reading A,B,C,D,c1,c2 raised {type(raised).__name__}: {str(raised)[:100]}")
                    ok = False
            else:
                shapes_ok = True
                if have_ref:
                    rx, ru = len(ref["x"]), len(ref["u"])
                    want_shapes = [(nf, rx), (nf, ru), (ng, rx), (ng, ru), (nf,), (ng,)]
                    if [tuple(p_.shape) for p_ in parts] != want_shapes and ref["ok"]:
                        ctx.fail({**strip(case), "at": i}, f"nls-shape: A,B,C,D,c1,c2 have shapes {[tuple(p_.shape) for p_ in parts]}, expected {want_shapes}")
                        ok, shapes_ok = False, False
                names = ["A", "B", "C", "D", "c1", "c2"]
                if have_ref and ref["ok"] and not finite(ctx, {**strip(case), "at": i}, f"event {i}: read of A, B, C, D, c1, c2 (reference point x={ref['x']} u={ref['u']} t={ref['t']})", *parts):
                    return False
                got = {nm: p_.double().flatten().tolist() for nm, p_ in zip(names, parts)}
                flat_got = sum((got[nm] for nm in names), [])
                verdict_doc = verdict_alias = None
                if md and md[1] == "L" and shapes_ok and have_ref:
                    t_doc = ref["t"]
                    t_alias = ref["t"] if ref["mode"] == "value" else clock - T0
                    if ref["ok"]:
                        tolsd = nls_tolerances(case, ref["x"], ref["u"], t_doc, t_doc, eps)
                        # the "caller's tensors are the reference point" semantics: Jacobians at their current content
                        xcur = objs["refX"].double().reshape(-1).tolist() if objs["refX"] is not None else ref["x"]
                        ucur = objs["refU"].double().reshape(-1).tolist() if objs["refU"] is not None else ref["u"]
                        ta_ = nls_tolerances(case, xcur, ucur, t_doc, t_doc, eps)
                        tolsa = {k2: [max(a_, b_) for a_, b_ in zip(tolsd[k2], ta_[k2])] for k2 in tolsd} if all(len(tolsd[k2]) == len(ta_[k2]) for k2 in tolsd) else ta_
                    else:
                        # a failed set_refpoint may have left a mix of old and new attributes (modelled statement by
                        # statement): tolerance from the largest magnitudes that occur anywhere in the history
                        hx = [max([abs(ev_[k2][j]) for ev_ in case["events"] for k2 in ("x",) if ev_.get(k2) is not None and len(ev_[k2]) > j] + [0.0]) for j in range(nx)]
                        hu = [max([abs(ev_["u"][j]) for ev_ in case["events"] if ev_.get("u") is not None and len(ev_["u"]) > j] + [0.0]) for j in range(nu)]
                        ht = max([abs(float(ev_["t"]["v"])) for ev_ in case["events"] if isinstance(ev_.get("t"), dict)] + [float(len(case["events"]))])
                        tolsd = tolsa = nls_tolerances(case, hx, hu, ht, ht, eps)

                    def close(mnums, tols):
                        tols_flat = sum((tols[nm] for nm in names), [])
                        if len(mnums) != len(flat_got):
                            return False, -1
                        for q_, (gv, mv, tl) in enumerate(zip(flat_got, mnums, tols_flat)):
                            if not (abs(Fraction(gv) - mv) <= tl):
                                return False, q_
                        return True, None
                    verdict_doc = close(md[2][2], tolsd)
                    if ma and ma[1] == "L":
                        verdict_alias = close(ma[2][2], tolsa)
                if have_ref and ref["ok"] and shapes_ok:
                    changed = clock != ref["clock"]
                    cinfo = {**strip(case), "at": i, "site": SITE, "ref_t_mode": ref["mode"],
                             "clock_changed_since_ref": bool(changed and ref["mode"] != "value"),
                             "ref_tensor_updated_in_place_since_ref": bool(sim[i].get("ref_poked")),
                             "matches_alias_model": bool(verdict_alias and verdict_alias[0] and verdict_doc and not verdict_doc[0]),
                             "ref_clock": ref["clock"], "read_clock": clock}
                    full = oracle_budget is None or oracle_budget[0] > 0 or bool(verdict_doc and not verdict_doc[0])
                    if oracle_budget is not None and full:
                        oracle_budget[0] -= 1
                    ok &= nls_oracles(ctx, case, cinfo, sys_, ref, got, eps, dt, rr, full)
                if verdict_doc is not None and not verdict_doc[0]:
                    if verdict_alias is not None and verdict_alias[0]:
                        ctx.count("nls.read.atomic-error-path")
                        if not (have_ref and ref["ok"]):
                            pass
                    else:
                        q_ = verdict_doc[1]
                        ctx.disagree("nls.read", {**strip(case), "at": i},
                                     f"read at event {i}: flattened entry {q_} implementation {flat_got[q_] if q_ is not None and q_ >= 0 else '?'} "
                                     f"model(doc) {float(md[2][2][q_]) if q_ is not None and q_ >= 0 else '?'}; differs from the model of the code (and from the variant with atomic error paths)")
        now = clk(ctx, strip(case), sys_, i, k_)
        if now != clock_expect:
            ctx.fail({**strip(case), "at": i}, f"clock-law: after event {i} ({k_}{' ' + e['op'] if k_ == 'twin' else ''}) systime={now}, the law gives {clock_expect}")
            ok = False
        if clone is not None:
            cnow = clk(ctx, strip(case), clone, i, k_ + ", reading the copy")
            if cnow != clone_clock:
                ctx.fail({**strip(case), "at": i}, f"clock-shared: event {i} ({k_}{' ' + e['op'] if k_ in ('twin', 'clone') else ''}) left the copy's time at {cnow}, its own law gives {clone_clock} "
                                                   f"(original: {now}); a copy is an independent system")
                raise _Abort()
        tnow = clk(ctx, strip(case), twin, i, k_ + ", reading the second system")
        if tnow != twin_clock:
            ctx.fail({**strip(case), "at": i}, f"clock-shared: event {i} ({k_}{' ' + e['op'] if k_ == 'twin' else ''}) left the second system's time at {tnow}, its own law gives {twin_clock} "
                                               f"(first system: {now}); every system owns its clock")
            raise _Abort()
        for q_, (t_, kp) in enumerate(zip(slot_t, slot_keep)):
            if t_.shape != kp.shape or not torch.equal(t_, kp):
                ctx.fail({**strip(case), "at": i}, f"mutation: the caller's time tensor (slot {q_}, value {kp.tolist()}) was changed to {t_.tolist()} by event {i} ({k_})")
                raise _Abort()
        if md and md[0] != now:
            ctx.disagree("nls.clock", {**strip(case), "at": i}, f"after event {i} implementation systime {now}, model {md[0]}")
        clock = now
    for tv, keep in handed:
        if tv.shape != keep.shape or not torch.equal(tv, keep):
            ctx.fail(strip(case), "mutation: a tensor handed to the system (state / input / t) was modified by the system")
            ok = False
    if not guards_clean():
        ctx.fail(strip(case), "mutation: the system wrote outside the view it was given (cells of the caller's trajectory buffer changed)")
        ok = False
    return ok


def strip(case):
    """compact, JSON-able identification of an nls case (the sub-seed regenerates everything)"""
    return {"kind": "nls", "seed": case["seed"], **({"corpus": case["corpus"]} if "corpus" in case else {}),
            "nx": case["nx"], "nu": case["nu"], "dtype": case["dtype"],
            "f": [" ".join(tree_tokens(t, [])) for t in case["fs"]], "g": [" ".join(tree_tokens(t, [])) for t in case["gs"]],
            "events": [{k: v for k, v in e.items()} for e in case["events"]], "slots": case.get("slots", []),
            **({"passthrough": case["passthrough"]} if case.get("passthrough") else {}), **({"T0": case["T0"]} if case.get("T0") else {})}


def nls_oracles(ctx, case, cinfo, sys_, ref, got, eps, dt, rr, full):
    """the property's own statements on the real code, at the documented reference point (x*, u*, t*)"""
    import mpmath as mp
    nx, nu = len(ref["x"]), len(ref["u"])
    nv = case["nx"] + case["nu"] + 1
    nf, ng = len(case["fs"]), len(case["gs"])
    ts = ref["t"]
    ok = True
    env0 = [mp.mpf(v) for v in ref["x"]] + [mp.mpf(v) for v in ref["u"]] + [mp.mpf(ts)]
    ea = [abs(v) for v in ref["x"]] + [abs(v) for v in ref["u"]] + [abs(ts)]
    km = None          # D32 and D38 are fixed in /repo: every failure is reported as a plain failing input
    # (1) Jacobians = partial derivatives (50-digit numerical differentiation of the independent evaluator)
    if full:
        for trees, ja, jb in ((case["fs"], "A", "B"), (case["gs"], "C", "D")):
            for r_, tr in enumerate(trees):
                mg0, dm = tree_mag(tr, ea, nv)
                fac = 64 * eps * max(1.0, tree_size(tr) / 24.0)
                # numerical differentiation cancels terms of the size of the VALUE of the tree: with a term of size 1e47 next to
                # the variable (a power of a huge effective time) 50 digits leave 3 — the working precision follows the magnitude
                # (found by thorough seed 1 of pass 8: the oracle, not the code, was off by 3e-13)
                dps_ = 50 + 2 * int(math.log10(1.0 + mg0 + max(dm[:nx + nu] + [0.0])))
                for v in range(nx + nu):
                    def phi(s, tr=tr, v=v):
                        env = list(env0)
                        env[v] = s
                        return tree_mp(tr, env)
                    with mp.workdps(dps_):
                        want = +mp.diff(phi, env0[v])
                    nm, col, ncol = (ja, v, nx) if v < nx else (jb, v - nx, nu)
                    gv = got[nm][r_ * ncol + col]
                    tol = fac * dm[v] + 1e-18 * (1 + dm[v]) + floor_(case["dtype"], dm[v], 4 * tree_size(tr))
                    if not (abs(mp.mpf(gv) - want) <= tol):
                        ctx.fail(cinfo, f"jacobian: {nm}[{r_}][{col}] = {gv!r} but the partial derivative at (x*,u*,t*={ts}) is {float(want)!r} "
                                        f"(|diff| {float(abs(mp.mpf(gv) - want)):.3e} > {tol:.2e}; {ref.get('where', '')}ref set at clock {ref['clock']} mode {ref['mode']}, read at clock {cinfo['read_clock']})",
                                 known_matcher=km)
                        ok = False
    # (2) the affine model reproduces f, g at the reference point (f, g through the real methods at t*)
    xs, us = torch.tensor(ref["x"], dtype=dt), torch.tensor(ref["u"], dtype=dt)
    tabs = ref.get("tabs", ts)
    tt = torch.tensor(int(tabs)) if (isinstance(tabs, int) or float(tabs).is_integer()) else torch.tensor(tabs, dtype=torch.float64)
    fr = sys_.state_transition(xs, us, tt).double()
    gr = sys_.observation(xs, us, tt).double()
    A, B, C, D = (torch.tensor(got[k_], dtype=torch.float64).reshape(s) for k_, s in
                  (("A", (nf, nx)), ("B", (nf, nu)), ("C", (ng, nx)), ("D", (ng, nu))))
    c1, c2 = torch.tensor(got["c1"], dtype=torch.float64), torch.tensor(got["c2"], dtype=torch.float64)
    xd, ud = xs.double(), us.double()
    for nm, M1, M2, cc, want, trees in (("f", A, B, c1, fr, case["fs"]), ("g", C, D, c2, gr, case["gs"])):
        pred = M1 @ xd + M2 @ ud + cc
        for r_, tr in enumerate(trees):
            mg, dm = tree_mag(tr, ea, nv)
            scale = mg + float((M1[r_].abs() * xd.abs()).sum() + (M2[r_].abs() * ud.abs()).sum()) + \
                sum(dm[j] * abs(ref["x"][j]) for j in range(nx)) + sum(dm[nx + j] * abs(ref["u"][j]) for j in range(nu))
            tol = 64 * eps * max(1.0, tree_size(tr) / 24.0) * scale + floor_(case["dtype"], scale, 4 * tree_size(tr))
            if not (abs(float(pred[r_] - want[r_])) <= tol):
                ctx.fail(cinfo, f"affine: ({'A' if nm == 'f' else 'C'} x* + {'B' if nm == 'f' else 'D'} u* + c)[{r_}] = {float(pred[r_])!r} but {nm}(x*,u*,t*={ts})[{r_}] = {float(want[r_])!r} "
                                f"(tol {tol:.2e}; {ref.get('where', '')}ref set at clock {ref['clock']} mode {ref['mode']}, read at clock {cinfo['read_clock']})", known_matcher=km)
                ok = False
    # (2b) components that are affine in state and input (full- / partial-state observations, f = u, LTV systems written as
    #      NLS …): the affine model is EXACT at every point, not only near the reference point (theorems nls_affine_exact,
    #      nls_affine_exact_obs) — evaluated far away (distance up to 8 per coordinate)
    for far in (8.0, -5.5):
        dfar = [far * rr.uniform(0.25, 1) * rr.choice([-1, 1]) for _ in range(nx + nu)]
        xp = torch.tensor([ref["x"][j] + dfar[j] for j in range(nx)], dtype=torch.float64)
        up = torch.tensor([ref["u"][j] + dfar[nx + j] for j in range(nu)], dtype=torch.float64)
        envf = [mp.mpf(float(v)) for v in xp.tolist()] + [mp.mpf(float(v)) for v in up.tolist()] + [mp.mpf(ts)]
        eaf = [abs(ref["x"][j]) + abs(dfar[j]) for j in range(nx)] + [abs(ref["u"][j]) + abs(dfar[nx + j]) for j in range(nu)] + [abs(ts)]
        for nm, M1, M2, cc, trees in (("f", A, B, c1, case["fs"]), ("g", C, D, c2, case["gs"])):
            pred = M1 @ xp + M2 @ up + cc
            for r_, tr in enumerate(trees):
                if not tree_affine(tr, nx + nu):
                    continue
                ctx.count("nls.affine_exact")
                want = tree_mp(tr, envf)
                mg, dm = tree_mag(tr, eaf, nv)
                scale = mg + sum(dm[j] * eaf[j] for j in range(nx + nu)) + float((M1[r_].abs() * xp.abs()).sum() + (M2[r_].abs() * up.abs()).sum()) + abs(float(cc[r_]))
                tol = 64 * eps * max(1.0, tree_size(tr) / 24.0) * scale * 4 + floor_(case["dtype"], scale, 4 * tree_size(tr))
                if not (abs(mp.mpf(float(pred[r_])) - want) <= tol):
                    ctx.fail(cinfo, f"affine-exact: component {r_} of {nm} is affine in state and input, but ({'A' if nm == 'f' else 'C'} x' + {'B' if nm == 'f' else 'D'} u' + c)[{r_}] = "
                                    f"{float(pred[r_])!r} at x'={xp.tolist()} u'={up.tolist()} (reference point x*={ref['x']} u*={ref['u']} t*={ts}) while {nm}(x',u',t*)[{r_}] = {float(want)!r} "
                                    f"(tol {tol:.2e}; {ref.get('where', '')}ref set at clock {ref['clock']} mode {ref['mode']}, read at clock {cinfo['read_clock']})", known_matcher=km)
                    ok = False
    # (3) second-order error: |f(p*+h d) - affine(p*+h d)| <= K with the explicit constant of the Lean model
    #     (`Fn.bnd`, theorem nls_second_order_explicit; evaluated by the driver op c15.bnd, checked in flush_second_order)
    if full:
        d = [rr.uniform(-1, 1) for _ in range(nx + nu)]
        for h in (1e-2, 1e-4):
            xp = torch.tensor([ref["x"][j] + h * d[j] for j in range(nx)], dtype=torch.float64)
            up = torch.tensor([ref["u"][j] + h * d[nx + j] for j in range(nu)], dtype=torch.float64)
            dx, du = xp - xd, up - ud
            env = [mp.mpf(float(v)) for v in xp.tolist()] + [mp.mpf(float(v)) for v in up.tolist()] + [mp.mpf(ts)]
            ea2 = [(abs(ref["x"][j]) + abs(float(dx[j]))) * (1 + 1e-15) for j in range(nx)] + \
                  [(abs(ref["u"][j]) + abs(float(du[j]))) * (1 + 1e-15) for j in range(nu)] + [abs(ts)]
            da = [abs(float(v)) for v in dx.tolist()] + [abs(float(v)) for v in du.tolist()] + [0.0]      # |d| itself (h included)
            for nm, M1, M2, cc, trees in (("f", A, B, c1, case["fs"]), ("g", C, D, c2, case["gs"])):
                pred = M1 @ xp + M2 @ up + cc
                for r_, tr in enumerate(trees):
                    want = tree_mp(tr, env)
                    mg, dm = tree_mag(tr, ea2, nv)
                    scale = mg + sum(dm[j] * (abs(ref["x"][j]) + 1) for j in range(nx)) + sum(dm[nx + j] * (abs(ref["u"][j]) + 1) for j in range(nu))
                    rounding = 64 * eps * max(1.0, tree_size(tr) / 24.0) * scale * 4 + floor_(case["dtype"], scale, 4 * tree_size(tr))
                    err = abs(mp.mpf(float(pred[r_])) - want)
                    line = "c15.bnd " + " ".join(tree_tokens(tr, [])) + f" {nv} " + wire_list(ea2) + " " + wire_list(da)
                    PENDING2.append((cinfo, line, float(err), rounding,
                                     f"second-order: |affine - {nm}|[{r_}] at distance h={h:g} is {float(err):.3e} > K + rounding = %s "
                                     f"(K = explicit second-order constant of the model; {ref.get('where', '')}ref set at clock {ref['clock']} mode {ref['mode']}, read at clock {cinfo['read_clock']})"))
    return ok


PENDING2 = []        # second-order checks waiting for the model's explicit constants (one driver batch per run_nls)


def flush_second_order(ctx):
    todo = list(PENDING2)
    PENDING2.clear()
    if not todo:
        return
    reps = ctx.driver.run([t_[1] for t_ in todo])
    for (cinfo, _line, err, rounding, msg), rep in zip(todo, reps):
        m0, l_, r_ = [float(v) for v in common.reply_nums(rep)]
        bound = r_ * (1 + 1e-9) + rounding
        ctx.count("nls.second-order.checked")
        if not (err <= bound):
            ctx.fail(cinfo, msg % f"{bound:.3e}")


def run_nls(ctx: Ctx, cases, oracle_reads):
    lines = []
    for case in cases:
        lines.append(nls_line(case, 0, 0))       # the reference point is a snapshot (documented = code since D32/D38)
    # error paths are outside the property (scope rule; notes "NLS error paths"): what a set_refpoint that raises leaves behind
    # is an observation, not a clause. The first model follows today's code (statement-by-statement partial update); for
    # histories that can contain a raising set_refpoint the variant with ATOMIC error paths is evaluated too and a read that
    # matches either is no disagreement (an implementation that validates its arguments first is as good)
    errp = [k_ for k_, case in enumerate(cases) if any(e_["ev"] in ("refraise", "xraise") or (e_["ev"] == "ref" and (e_.get("x") is None or e_.get("u") is None)) for e_ in case["events"])]
    lines += [nls_line(cases[k_], 0, 0, pf=0) for k_ in errp]
    reps = ctx.driver.run(lines)
    alt = {k_: reps[len(cases) + j_] for j_, k_ in enumerate(errp)}
    budget = [oracle_reads]
    for k_, case in enumerate(cases):
        md = parse_nls_reply(reps[k_], case)
        check_nls(ctx, case, md, parse_nls_reply(alt[k_], case) if k_ in alt else None, budget)
        if len(PENDING2) > 4000:
            flush_second_order(ctx)
        ops = {}
        for t in case["fs"] + case["gs"]:
            tree_ops(t, ops)
        nread = sum(1 for e in case["events"] if e["ev"] in ("read", "call"))
        ctx.note_case(("nls", case["nx"], case["nu"], len(case["gs"]), case["dtype"], sig_events(case["events"]),
                       tuple(sorted(ops.items()))), nread > 0)
        for o, c in ops.items():
            ctx.count("nls.op." + o, c)
        for e in case["events"]:
            ctx.count("nls.ev." + e["ev"] + ("" if e["ev"] != "ref" else "." + ("default" if e["t"] is None else ("live" if e["t"] == "live" else "value"))))
        ctx.count("nls." + case["dtype"])
    flush_second_order(ctx)
    if cases:
        c0 = cases[0]
        ctx.sample({"stream": "nls", "nx": c0["nx"], "nu": c0["nu"], "dtype": c0["dtype"], "f": [" ".join(tree_tokens(t, [])) for t in c0["fs"]],
                    "g": [" ".join(tree_tokens(t, [])) for t in c0["gs"]], "events": sig_events(c0["events"])})


# ============================================================================= stream: bmv / bvv / bvmv

def gen_bmv_case(seed, quick):
    rng = random.Random(seed)
    fn = rng.choice(["bmv", "bmv", "bvv", "bvmv", "lti"])
    full = rng.choice(BATCHES)
    n, m = rng.choice([1, 2, 3, 4, 4, 7]), rng.choice([1, 2, 3, 4, 7])
    same = rng.random() < 0.2                  # the same tensor object passed as both vector arguments
    if same:
        m = n
    dtype = rng.choice(["float64", "float64", "float32"])
    b1 = sub_batch(rng, full)
    if fn == "lti":       # one LTI forward with five independently broadcast batch shapes, whole batch through the model
        return {"kind": "bmv", "seed": seed, "fn": "lti", "full": full, "n": rng.choice([1, 2, 3]), "m": rng.choice([1, 2]), "dtype": dtype,
                "b1": b1, "b2": sub_batch(rng, full), "b3": sub_batch(rng, full), "bx": sub_batch(rng, full), "bu": sub_batch(rng, full),
                "hasc": rng.random() < 0.6, "lie": False, "out": False, "dseed": rng.randrange(1 << 30)}
    if rng.random() < 0.06:   # batch shapes that do not broadcast
        return {"kind": "bmv", "seed": seed, "fn": fn, "full": full, "n": n, "m": m, "dtype": dtype, "b1": [], "b2": [],
                "bad": rng.choice([[[2], [3]], [[2, 3], [2]], [[3, 1], [2, 2]], [[4], [2, 3]]]), "lie": False, "out": False, "dseed": rng.randrange(1 << 30)}
    if rng.random() < 0.06 and fn in ("bmv", "bvmv"):   # core dimensions that violate the helper's assertion (batch shapes fine)
        k1, k2 = rng.randint(1, 4), rng.randint(1, 4)
        bc = ([k1, k2, k2 + rng.choice([1, 2, -1]) or 5] if fn == "bmv" else
              rng.choice([[k1 + 1, k1, k2, k2], [k1, k1, k2, k2 + 1], [k1 + 2, k1, k2, k2 + 1], [1, k1 + 1, k2, k2]]))
        bt = rng.choice([[], [2], [2, 3]])
        return {"kind": "bmv", "seed": seed, "fn": fn, "full": full, "n": n, "m": m, "dtype": dtype, "b1": [], "b2": [],
                "bad": [bt, bt], "badcore": bc, "lie": False, "out": False, "dseed": rng.randrange(1 << 30)}
    return {"kind": "bmv", "seed": seed, "fn": fn, "full": full, "n": n, "m": m, "dtype": dtype,
            "b1": b1, "b2": sub_batch(rng, full), "b3": sub_batch(rng, full), "same": same,
            "scale": rng.choice([3.0, 3.0, 3.0] + ([1e-40, 1e40, 1e-9] if dtype == "float64" else [1e-8, 1e8])),
            "regimes": rng.random() < 0.3, "layout": [rng.choice(["c", "c", "T", "slice", "expand"]) for _ in range(3)],
            "lie": rng.random() < 0.15, "lie_which": rng.randint(1, 7), "mode": rng.choice(["plain", "plain", "plain", "grad", "no_grad", "inference"]),
            "modes": (rng.sample(["grad", "plain", "no_grad", "inference", "grad"], 2) if rng.random() < 0.25 else []),
            "out": rng.random() < 0.15, "dyadic": rng.random() < 0.4, "dseed": rng.randrange(1 << 30)}


def bb_line(fn, n, m, tensors, extra=""):
    """`c15.bb` request: the declared core dimensions of every operand (the code's assertions compare them), the batch shapes
    (rank dims…), then the items row-major"""
    core = {"bmv": [2, 1], "bvv": [1, 1], "bvmv": [1, 2, 1]}.get(fn)
    if core is None:
        core = [2, 1, 2, 1, 1][:len(tensors)]                       # lti: A x B u [c]
    shp, dims = [], []
    for t_, c_ in zip(tensors, core):
        b_ = list(t_.shape[:t_.ndim - c_])
        shp.append(f"{len(b_)} " + " ".join(map(str, b_)) if b_ else "0")
        dims += [str(d_) for d_ in t_.shape[t_.ndim - c_:]]
    data = " ".join(wire_list(t_.double().contiguous().reshape(-1).tolist()) for t_ in tensors)
    return f"c15.bb {fn} {extra}" + " ".join(dims) + " " + " ".join(shp) + " " + data


def parse_bb(rep):
    """-> None (the model says: shapes do not broadcast) | (shape, values)"""
    st, toks = common.parse_reply(rep)
    if st != "ok":
        raise common.InfraError(f"model error on bb line: {rep}")
    toks = [t_ for t_ in toks if t_ != ""]
    if toks[0] == "R":
        return None
    r_ = int(toks[1])
    shape = [int(t_) for t_ in toks[2:2 + r_]]
    assert toks[2 + r_] == "V"
    return shape, [common.from_wire(t_) for t_ in toks[3 + r_:]]


def check_bb_bad(ctx: Ctx, case):
    """calls the code must reject: batch shapes that do not broadcast, or core dimensions that violate the helper's
    assertion (`mat.shape[-1] == vec.shape[-1]`, `lvec.shape[-1] == mat.shape[-2] and mat.shape[-1] == rvec.shape[-1]`) —
    the helper raises, and the model says so"""
    P = pp()
    fn, n, m = case["fn"], case["n"], case["m"]
    dt = DT(case["dtype"])
    g = torch.Generator().manual_seed(case["dseed"])
    ba, bb_ = case["bad"]
    mk = lambda b_, c_: torch.randn(tuple(b_) + tuple(c_), generator=g, dtype=torch.float64).to(dt)
    cd = case.get("badcore")
    if fn == "bmv":
        raw = [mk(ba, (n, m) if not cd else (cd[0], cd[1])), mk(bb_, (m,) if not cd else (cd[2],))]
    elif fn == "bvv":
        raw = [mk(ba, (n,)), mk(bb_, (m,))]
    else:
        raw = [mk(ba, (n,) if not cd else (cd[0],)), mk(bb_, (n, m) if not cd else (cd[1], cd[2])), mk(ba, (m,) if not cd else (cd[3],))]
    try:
        getattr(P, fn)(*raw)
        ctx.fail(pub(case), f"bmv-no-raise: {fn} returned for operands of shapes {[tuple(t_.shape) for t_ in raw]} (batch shapes that do not broadcast / core dimensions that violate its assertion)")
    except Exception:
        pass
    case["_bb"] = (bb_line(fn, n, m, raw), None, None, None)
    return True


def check_ltib(ctx: Ctx, case):
    """one forward of an LTI system whose five tensors have independent batch shapes — the whole batch against the
    model's `affineB` (theorem lti_batched)"""
    P = pp()
    n, m, full = case["n"], case["m"], case["full"]
    dt, eps = DT(case["dtype"]), common.EPS[case["dtype"]]
    g = torch.Generator().manual_seed(case["dseed"])
    mk = lambda b_, c_: (torch.round(torch.randn(tuple(b_) + tuple(c_), generator=g, dtype=torch.float64) * 8) / 8).to(dt)
    A, B = mk(case["b1"], (n, n)), mk(case["b2"], (n, m))
    c = mk(case["b3"], (n,)) if case["hasc"] else None
    x, u = mk(case["bx"], (n,)), mk(case["bu"], (m,))
    sys_ = P.module.LTI(A, B, A.clone(), B.clone(), c, None if c is None else c.clone())
    try:
        xn, y = sys_(x, u)
    except Exception as ex:
        ctx.fail(pub(case), f"lin-raises: batched LTI call raised {type(ex).__name__}: {str(ex)[:100]}")
        return False
    if not finite(ctx, pub(case), f"batched LTI call (batch shapes A {case['b1']} B {case['b2']} x {case['bx']} u {case['bu']})", xn, y):
        return False
    bs = torch.broadcast_shapes(*[tuple(b_) for b_ in ([case["b1"], case["b2"], case["bx"], case["bu"]] + ([case["b3"]] if case["hasc"] else []))])
    if tuple(xn.shape) != tuple(bs) + (n,) or not torch.equal(xn, y):
        ctx.fail(pub(case), f"lin-shape: batched LTI call returned shape {tuple(xn.shape)} (expected {tuple(bs) + (n,)}) or observation != transition for C=A, D=B, c2=c1")
        return False
    Ad, Bd, xd, ud = A.double(), B.double(), x.double(), u.double()
    mag = torch.matmul(Ad.abs(), xd.abs().unsqueeze(-1)).squeeze(-1) + torch.matmul(Bd.abs(), ud.abs().unsqueeze(-1)).squeeze(-1)
    if c is not None:
        mag = mag + c.double().abs()
    tens = [A, x, B, u] + ([c] if c is not None else [])
    case["_bb"] = (bb_line("lti", n, m, tens, extra=f"{1 if c is not None else 0} "), list(bs), xn.double().reshape(-1).tolist(),
                   torch.broadcast_to(mag, tuple(bs) + (n,)).reshape(-1).tolist())
    return True


def check_bmv(ctx: Ctx, case):
    if case.get("bad"):
        return check_bb_bad(ctx, case)
    if case["fn"] == "lti":
        return check_ltib(ctx, case)
    P = pp()
    g = torch.Generator().manual_seed(case["dseed"])
    dt, eps = DT(case["dtype"]), common.EPS[case["dtype"]]
    n, m, full, fn = case["n"], case["m"], case["full"], case["fn"]

    guards = []
    nth = [0]

    def rnd(batch, core):
        sc = case.get("scale", 3.0) if not case.get("regimes") else 3.0
        a = torch.randn(tuple(batch) + tuple(core), generator=g, dtype=torch.float64) * sc
        if case["dyadic"] and sc == 3.0:
            a = torch.round(a * 8) / 8
        if case.get("regimes") and len(batch) > 0:      # zero / tiny / ordinary / large items in one batch
            tiny = 1e-20 if case["dtype"] == "float64" else 1e-10
            fac = torch.tensor([0.0, tiny, 1.0, 1.0, 1e6])[torch.randint(0, 5, tuple(batch), generator=g)]
            a = a * fac.reshape(tuple(batch) + (1,) * len(core))
        how = case.get("layout", ["c"] * 3)[nth[0] % 3]
        nth[0] += 1
        return lay(a.to(dt), how, len(batch), guards, g)
    lie = case["lie"]
    same = case.get("same", False)
    if lie:
        m = 3                                   # so3 LieTensors have last dimension 3
        if fn != "bmv":
            n = 3
    wrap = (lambda t_: P.so3(t_)) if lie else (lambda t_: t_)      # every argument also as a LieTensor (duck typing)
    which = case.get("lie_which", 7)            # bit mask: which arguments are wrapped
    if fn == "bmv":
        M, v = rnd(case["b1"], (n, m)), rnd(case["b2"], (m,))
        args = [wrap(M) if which & 1 else M, wrap(v) if which & 2 else v]
        raw = [M, v]
    elif fn == "bvv":
        l = rnd(case["b1"], (n,))
        r = l if same else rnd(case["b2"], (m,))
        args, raw = [wrap(l) if which & 1 else l, wrap(r) if which & 2 else r], [l, r]
    else:
        l, M = rnd(case["b1"], (n,)), rnd(case["b2"], (n, m))
        r = l if same else rnd(case["b3"], (m,))
        args, raw = [wrap(l) if which & 1 else l, wrap(M) if which & 2 else M, wrap(r) if which & 4 else r], [l, M, r]
    if not lie:
        args = list(raw)
    keep = [a.clone() for a in raw]
    mode = case.get("mode", "plain")            # grad modes: the values must not depend on them
    if mode == "grad":
        args = [a_.detach().clone().requires_grad_() if type(a_) is torch.Tensor else a_ for a_ in args]
    import contextlib
    cm = torch.no_grad() if mode == "no_grad" else (torch.inference_mode() if mode == "inference" else contextlib.nullcontext())
    try:
        with cm:
            if fn == "bmv":
                if case["out"] and mode != "grad":
                    bs = torch.broadcast_shapes(tuple(case["b1"]), tuple(case["b2"]))
                    buf = torch.empty(tuple(bs) + (n, 1), dtype=dt)
                    y = P.bmv(args[0], args[1], out=buf)
                else:
                    y = P.bmv(*args)
            elif fn == "bvv":
                if case["out"] and mode != "grad":
                    bs = torch.broadcast_shapes(*[tuple(a_.shape[:-1]) for a_ in raw])
                    buf = torch.empty(tuple(bs) + (n, m), dtype=dt)
                    y = P.bvv(args[0], args[1], out=buf)
                else:
                    y = P.bvv(*args)
            else:
                y = P.bvmv(*args)
        if case["out"] and fn != "bvmv" and mode != "grad":
            if not torch.equal(buf.reshape(y.shape) if buf.numel() == y.numel() else buf, y):
                ctx.fail(pub(case), f"out: {fn}(…, out=buf) did not leave the result in buf")
                return False
        y = y.detach().clone() if mode in ("grad", "inference") else y
        for md2 in case.get("modes", []):      # the same call again under other grad modes, in this order (same shapes / dtype)
            a2 = [a_.detach().clone().requires_grad_() if (md2 == "grad" and type(a_) is torch.Tensor) else a_ for a_ in raw]
            with (torch.no_grad() if md2 == "no_grad" else (torch.inference_mode() if md2 == "inference" else contextlib.nullcontext())):
                y2 = getattr(P, fn)(*a2)
            if md2 == "grad":
                y2.sum().backward()
                if any(a_.grad is None or not bool(torch.isfinite(a_.grad).all()) for a_ in a2 if type(a_) is torch.Tensor and a_.requires_grad):
                    ctx.fail(pub(case), f"grad: no finite gradient through {fn} after calls under {case['modes']}")
                    return False
            case.setdefault("_y2", []).append((md2, y2.detach().clone().reshape(y.shape)))
        # the result owns its memory (no overlap with an argument, no stride-0 items) unless `out=` was given
        if not (case["out"] and fn != "bvmv") and mode == "plain":
            if any(y.untyped_storage().data_ptr() == a_.untyped_storage().data_ptr() for a_ in raw) or \
                    (y.numel() > 1 and any(st_ == 0 and sz_ > 1 for st_, sz_ in zip(y.stride(), y.shape))):
                ctx.fail(pub(case), f"alias: the result of {fn} shares memory with an argument or overlaps itself")
                return False
    except Exception as ex:
        ctx.fail(pub(case), f"bmv-raises: {fn} raised {type(ex).__name__}: {str(ex)[:100]}")
        return False
    ok = True
    for a, k_ in zip(raw, keep):
        if not torch.equal(a, k_):
            ctx.fail(pub(case), f"mutation: {fn} modified an argument")
            ok = False
    if not guards_ok(guards, None):
        ctx.fail(pub(case), f"mutation: {fn} wrote outside the view it was given")
        ok = False
    if type(y) is not torch.Tensor:
        ctx.fail(pub(case), f"bmv-type: {fn} returned {type(y).__name__}")
        return False
    if not finite(ctx, pub(case), f"{fn} on operands of shapes {[tuple(a_.shape) for a_ in raw]} (mode {mode}; then under {case.get('modes', [])})", y, *[y2_ for _, y2_ in case.get("_y2", [])]):
        case.pop("_y2", None)
        return False
    bs = torch.broadcast_shapes(*[tuple(a.shape[:a.ndim - (2 if ((fn == "bmv" and k_ == 0) or (fn == "bvmv" and k_ == 1)) else 1)]) for k_, a in enumerate(raw)])
    core = {"bmv": (n,), "bvv": (n, m), "bvmv": ()}[fn]
    want_shape = tuple(bs) + core
    if fn != "bvmv" and tuple(y.shape) != want_shape:        # (bvmv: the model's `atleast1d` decides, see run_bmv)
        ctx.fail(pub(case), f"bmv-shape: {fn} returned shape {tuple(y.shape)}, expected {want_shape}")
        return False
    # the whole batch through the model's broadcasting (bmv_batched / bvv_batched / bvmv_batched): shapes and every entry
    rd = [a_.double() for a_ in raw]
    if fn == "bmv":
        magall = torch.matmul(rd[0].abs(), rd[1].abs().unsqueeze(-1)).squeeze(-1)
    elif fn == "bvv":
        magall = torch.matmul(rd[0].abs().unsqueeze(-1), rd[1].abs().unsqueeze(-1).mT)
    else:
        magall = (rd[0].abs().unsqueeze(-1).mT @ rd[1].abs() @ rd[2].abs().unsqueeze(-1)).squeeze(-1).squeeze(-1)
    case["_bb"] = (bb_line(fn, n, m, raw), list(bs) if fn != "bvmv" else list(y.shape), y.double().reshape(-1).tolist(), magall.reshape(-1).tolist())
    for md2, y2 in case.pop("_y2", []):          # (memory layouts may differ between the modes: compared at round-off level)
        if not bool(((y2.double() - y.double()).abs().reshape(-1) <= 64 * eps * magall.reshape(-1) + 1e-300).all()):
            ctx.fail(pub(case), f"mode: {fn} under {md2} (after {mode}) returns other values than under {mode}")
            return False
    idxs = [()] if not bs else [tuple(i) for i in torch.cartesian_prod(*[torch.arange(s) for s in bs]).reshape(-1, len(bs)).tolist()]
    if len(idxs) > 3:
        rr = random.Random(case["seed"] ^ 5)
        idxs = [idxs[0], idxs[-1], rr.choice(idxs[1:-1])]
    lines = []
    for idx in idxs:
        its = [bitem(a, a.ndim - (2 if a is raw[0] and fn == "bmv" or (fn == "bvmv" and a is raw[1]) else 1), bs, idx).double() for a in raw]
        gi = (y.reshape(tuple(bs) + core)[tuple(idx)] if bs or fn != "bvmv" else y.reshape(())).double().flatten().tolist()
        # oracle: exact rationals
        if fn == "bmv":
            Mi, vi = its[0].tolist(), its[1].tolist()
            want = [sum((Fraction(a) * Fraction(b) for a, b in zip(row, vi)), Fraction(0)) for row in Mi]
            mags = [sum(abs(a * b) for a, b in zip(row, vi)) for row in Mi]
            lines.append(f"c15.bmv {n} {m} {wire_list(its[0].flatten().tolist())} {wire_list(vi)}")
        elif fn == "bvv":
            li, ri = its[0].tolist(), its[1].tolist()
            want = [Fraction(a) * Fraction(b) for a in li for b in ri]
            mags = [abs(a * b) for a in li for b in ri]
            lines.append(f"c15.bvv {n} {m} {wire_list(li)} {wire_list(ri)}")
        else:
            li, Mi, ri = its[0].tolist(), its[1].tolist(), its[2].tolist()
            want = [sum((Fraction(li[a]) * Fraction(Mi[a][b]) * Fraction(ri[b]) for a in range(n) for b in range(m)), Fraction(0))]
            mags = [sum(abs(li[a] * Mi[a][b] * ri[b]) for a in range(n) for b in range(m))]
            lines.append(f"c15.bvmv {n} {m} {wire_list(li)} {wire_list(its[1].flatten().tolist())} {wire_list(ri)}")
        for q_, (w, mg, gv) in enumerate(zip(want, mags, gi)):
            tol = 64 * eps * mg + 1e-300
            if not (abs(Fraction(gv) - w) <= tol):
                ctx.fail({**pub(case), "item": list(idx)}, f"bmv-eq: {fn} entry {q_} = {gv!r}, exact value {float(w)!r} (tol {tol:.2e})")
                ok = False
        case.setdefault("_got", []).append((gi, mags))
    case["_lines"] = lines
    return ok


def run_bmv(ctx: Ctx, cases):
    lines, metas = [], []
    for case in cases:
        guarded(ctx, case, check_bmv)
        ls, gots = case.pop("_lines", []), case.pop("_got", [])
        ctx.note_case(("bmv", case["fn"], case["n"], case["m"], tuple(case["full"]), tuple(case["b1"]), tuple(case["b2"]), case["dtype"], case["lie"], case["out"],
                       str(case.get("bad")), tuple(case.get("bx", [])), tuple(case.get("bu", []))), True)
        ctx.count("bmv." + case["fn"] + (".bad-batch" if case.get("bad") else ""))
        for ln, gm in zip(ls, gots):
            lines.append(ln)
            metas.append((case, gm))
        bbi = case.pop("_bb", None)
        if bbi is not None:
            lines.append(bbi[0])
            metas.append((case, ("BB",) + tuple(bbi[1:])))
    reps = ctx.driver.run(lines)
    for rep, (case, gm_) in zip(reps, metas):
        if gm_[0] == "BB":
            _, bs_, yv, mg_ = gm_
            res = parse_bb(rep)
            eps = common.EPS[case["dtype"]]
            if bs_ is None:
                if res is not None:
                    ctx.disagree("bmv.batch", pub(case), f"{case['fn']}: the model broadcasts batch shapes {case['bad']}, the implementation's contract says they do not")
                continue
            if res is None or res[0] != bs_ or len(res[1]) != len(yv):
                # the model's shape is the law here (broadcast of the batch shapes; `atleast_1d` for bvmv): a failing input
                ctx.fail(pub(case), f"bmv-shape: {case['fn']} returned batch shape {bs_} ({len(yv)} entries); broadcasting"
                                    f"{' + atleast_1d' if case['fn'] == 'bvmv' else ''} gives {None if res is None else res[0]}")
                continue
            for q_, (gv, w, mg) in enumerate(zip(yv, res[1], mg_)):
                if not (abs(Fraction(gv) - w) <= 64 * eps * mg + 1e-300):
                    ctx.disagree("bmv.batch", pub(case), f"{case['fn']} whole-batch entry {q_}: implementation {gv!r} model {float(w)!r}")
                    break
            continue
        gi, mags = gm_
        want = common.reply_nums(rep)
        eps = common.EPS[case["dtype"]]
        if len(want) != len(gi):
            ctx.disagree("bmv", case, f"{case['fn']}: implementation has {len(gi)} entries, model {len(want)}")
            continue
        for q_, (gv, w, mg) in enumerate(zip(gi, want, mags)):
            if not (abs(Fraction(gv) - w) <= 64 * eps * mg + 1e-300):
                ctx.disagree("bmv", case, f"{case['fn']} entry {q_}: implementation {gv!r} model {float(w)!r}")
                break




# ============================================================================= stream: det (defaults / dtypes / interleaving)

DET_DTYPES = ["int64", "int32", "int16", "int8", "uint8", "float16", "bfloat16", "float32", "float64", "complex64", "complex128"]
TIES = ["allzero", "x0", "u0", "c0", "cancel", "z_eq_c1", "z_eq_negc1", "x_eq_u", "A_eq_B", "const_entries", "samenorm", "zero_matrix", "signperm", "equal_outputs"]
JAC_DEFAULT = {"vectorize": True, "strategy": "reverse-mode"}       # documented in the NLS class (set by NLS.__init__)


def gen_det_case(seed, quick):
    rng = random.Random(seed)
    sub = rng.choice(["defaults", "dtype", "dtype", "interleave", "ties", "ties"])
    return {"kind": "det", "seed": seed, "sub": sub, "tie": rng.choice(TIES), "dseed": rng.randrange(1 << 30), "dtype": rng.choice(DET_DTYPES if sub == "dtype" else ["float32", "float64"]),
            "n": rng.choice([1, 2, 3]), "m": rng.choice([1, 2, 3]), "p": rng.choice([1, 2, 3]), "batch": rng.choice([[], [], [1], [3], [2, 2], [1, 1]]),
            "nobj": rng.choice([2, 3, 4]), "nops": rng.randint(8, 20), "matbatched": rng.random() < 0.4}


DET_CORPUS = ([{"kind": "det", "corpus": k_, "seed": 9500 + k_, "sub": "defaults", "dseed": 40 + k_, "dtype": "float64", "n": 2, "m": 1, "p": 2, "batch": [], "nobj": 3, "nops": 16, "matbatched": False}
               for k_ in range(3)] +
              [{"kind": "det", "corpus": 3 + k_, "seed": 9503 + k_, "sub": "dtype", "dseed": 50 + k_, "dtype": dt_, "n": 3, "m": 3, "p": 2, "batch": [3], "nobj": 0, "nops": 0, "matbatched": k_ % 2 == 0}
               for k_, dt_ in enumerate(DET_DTYPES)] +
              [{"kind": "det", "corpus": 14 + k_, "seed": 9514 + k_, "sub": "interleave", "dseed": 60 + k_, "dtype": dt_, "n": n_, "m": 2, "p": 2, "batch": b_, "nobj": 0, "nops": 0, "matbatched": False}
               for k_, (dt_, n_, b_) in enumerate([("float64", 3, []), ("float32", 3, []), ("float64", 2, [1]), ("float32", 1, [1, 1]), ("float64", 3, [4])])])


def check_defaults(ctx: Ctx, case):
    """several systems built with every optional argument OMITTED, used interleaved in one process; one of them is
    customised (its `jacargs` dictionary changed in place, a reference point set, its clock reset): each of the others must
    still show the documented defaults — clock 0 + number of its own calls, jacargs = JAC_DEFAULT, c1 = c2 = None, no
    reference point (reading A raises), outputs = its own equations (exact oracle)"""
    P = pp()
    rr = random.Random(case["dseed"])
    Simple = simple_nls_class(P)
    N = case["nobj"]
    g = torch.Generator().manual_seed(case["dseed"])
    n, m, p_ = case["n"], case["m"], case["p"]
    mats = [[torch.randint(-3, 4, sh, generator=g).double() for sh in ((n, n), (n, m), (p_, n), (p_, m))] for _ in range(N)]

    class GenLTV(P.module.LTV):               # nothing handed to the constructor: everything generated from the clock
        @property
        def A(self):
            return torch.eye(n, dtype=torch.float64) * (self._t + 1)

        @property
        def B(self):
            return torch.ones(n, m, dtype=torch.float64) * self._t

        @property
        def C(self):
            return torch.ones(p_, n, dtype=torch.float64)

        @property
        def D(self):
            return torch.zeros(p_, m, dtype=torch.float64)

    objs = []
    for i in range(N):
        objs.append({"k": "nls", "o": Simple(), "t": 0, "jac": dict(JAC_DEFAULT), "ref": False, "last": None})
        objs.append({"k": "lti", "o": P.module.LTI(*mats[i]), "t": 0, "M": mats[i]})
        objs.append({"k": "ltv", "o": GenLTV(), "t": 0})
    ctx.count("det.defaults")

    def audit(step, op):
        for j, ob in enumerate(objs):
            o = ob["o"]
            t_ = clk(ctx, case, o, step, op)
            if t_ != ob["t"]:
                ctx.fail({**pub(case), "at": step}, f"defaults-clock: after operation {step} ({op}) object {j} ({ob['k']}, built with defaults) shows systime {t_}, "
                                                     f"its own history (default start 0, one tick per own call, reset() -> 0) gives {ob['t']}")
                raise _Abort()
            if ob["k"] == "nls":
                if o.jacargs != ob["jac"]:
                    ctx.fail({**pub(case), "at": step}, f"defaults-jacargs: after operation {step} ({op}) object {j} (NLS built with defaults, its own jacargs "
                                                         f"{'changed' if ob['jac'] != JAC_DEFAULT else 'never touched'}) has jacargs {o.jacargs}, expected {ob['jac']}")
                    raise _Abort()
                if not ob["ref"]:
                    try:
                        got = o.A
                        ctx.fail({**pub(case), "at": step}, f"defaults-refpoint: after operation {step} ({op}) object {j} (NLS, set_refpoint never called on it) "
                                                             f"returns A = {got.tolist() if isinstance(got, torch.Tensor) else got}: a reference point leaked from another object")
                        raise _Abort()
                    except _Abort:
                        raise
                    except Exception:
                        pass
            elif ob["k"] == "lti":
                if o.c1 is not None or o.c2 is not None:
                    ctx.fail({**pub(case), "at": step}, f"defaults-c: after operation {step} ({op}) object {j} (LTI built without c1, c2) has c1 = {o.c1}, c2 = {o.c2}; documented default None")
                    raise _Abort()

    audit(-1, "construction")
    for step in range(case["nops"]):
        j = rr.randrange(len(objs))
        ob = objs[j]
        o = ob["o"]
        ops = ["call", "call", "call", "reset0", "resetk"] + (["jacmod", "jacmod", "ref", "read"] if ob["k"] == "nls" else [])
        op = rr.choice(ops)
        if op == "call":
            nx_, nu_ = (1, 1) if ob["k"] == "nls" else (n, m)
            x = [rr.randint(-3, 3) for _ in range(nx_)]
            u = [rr.randint(-3, 3) for _ in range(nu_)]
            xn, y = o(torch.tensor(x, dtype=torch.float64), torch.tensor(u, dtype=torch.float64))
            t_ = ob["t"]
            if not finite(ctx, {**pub(case), "at": step}, f"operation {step}: call of object {j} ({ob['k']} built with defaults, clock {t_}) with x={x} u={u}", xn, y):
                raise _Abort()
            if ob["k"] == "nls":
                ex = ([Fraction(x[0], 2) + u[0] + t_ % 1000], [Fraction(x[0] - u[0])])
                ob["last"] = (x, u)
            elif ob["k"] == "lti":
                A_, B_, C_, D_ = [[[Fraction(int(v)) for v in row] for row in M.tolist()] for M in ob["M"]]
                ex = (frac_affine(A_, B_, None, x, u)[0], frac_affine(C_, D_, None, x, u)[0])
            else:
                ex = ([Fraction((t_ + 1) * x[i_] + t_ * sum(u)) for i_ in range(n)], [Fraction(sum(x))] * p_)
            got = ([Fraction(v) for v in xn.tolist()], [Fraction(v) for v in y.tolist()])
            if got != ex:
                ctx.fail({**pub(case), "at": step}, f"defaults-eq: operation {step}: object {j} ({ob['k']} built with defaults, clock {t_}) called with x={x} u={u} returns "
                                                     f"{[float(v) for v in got[0]]}, {[float(v) for v in got[1]]}; its equations give {[float(v) for v in ex[0]]}, {[float(v) for v in ex[1]]}")
                raise _Abort()
            ob["t"] += 1
        elif op == "reset0":
            o.reset()                          # documented default t = 0
            ob["t"] = 0
        elif op == "resetk":
            k_ = rr.randint(1, 40)
            o.reset(k_)
            ob["t"] = k_
        elif op == "jacmod":
            key, val = rr.choice([("vectorize", False), ("vectorize", True), ("strategy", "forward-mode"), ("strategy", "reverse-mode")])
            if key == "strategy" and val == "forward-mode":
                o.jacargs["vectorize"] = True      # torch requires vectorize=True for forward-mode
                ob["jac"]["vectorize"] = True
            if key == "vectorize" and not val:
                o.jacargs["strategy"] = "reverse-mode"
                ob["jac"]["strategy"] = "reverse-mode"
            o.jacargs[key] = val               # the public dictionary of this object, changed in place
            ob["jac"][key] = val
        elif op == "ref":
            if ob["last"] is None:
                continue
            o.set_refpoint()
            ob["ref"] = (ob["last"], ob["t"])
        elif op == "read":
            if not ob["ref"]:
                continue
            (x, u), tr = ob["ref"]
            parts_ = [o.A, o.B, o.C, o.D, o.c1, o.c2]
            if not finite(ctx, {**pub(case), "at": step}, f"operation {step}: read of A, B, C, D, c1, c2 of object {j} (reference point x={x} u={u} t={tr})", *parts_):
                raise _Abort()
            got = [p_.tolist() for p_ in parts_]
            ex = [[[0.5]], [[1.0]], [[1.0]], [[-1.0]], [float(tr % 1000)], [0.0]]
            if got != ex:
                ctx.fail({**pub(case), "at": step}, f"defaults-lin: operation {step}: object {j} (NLS f = x/2 + u + t, g = x - u, reference point x={x} u={u} t={tr}, "
                                                     f"jacargs {o.jacargs}) reads A,B,C,D,c1,c2 = {got}; the linearisation is {ex}")
                raise _Abort()
        audit(step, f"{op} on object {j}")


def _dt_data(rr, dtype, shape, lo, hi):
    n_ = 1
    for d_ in shape:
        n_ *= d_
    if dtype.startswith("complex"):
        vals = [complex(rr.randint(lo, hi), rr.randint(lo, hi)) for _ in range(n_)]
    else:
        vals = [rr.randint(lo, hi) for _ in range(n_)]
    return torch.tensor(vals, dtype=DT(dtype) if dtype not in ("float16", "bfloat16") else torch.float32).to(getattr(torch, dtype)).reshape(shape), vals


def check_dtype(ctx: Ctx, case):
    """bmv / bvv / bvmv and an LTI step for every dtype torch accepts there (narrow integers, half precisions, complex):
    small integer data, so value AND dtype of the result are exact claims (oracle: python integer arithmetic);
    torch.bool is not accepted by torch's matmul on the clean tree and is left out"""
    P = pp()
    dtype = case["dtype"]
    tdt = getattr(torch, dtype)
    rr = random.Random(case["dseed"])
    n, m, p_ = case["n"], case["m"], case["p"]
    batch = list(case["batch"])
    mb = batch if case["matbatched"] else []
    lo, hi = (0, 2) if dtype == "uint8" else (-2, 2)
    nb = 1
    for d_ in batch:
        nb *= d_
    ctx.count("det.dtype." + dtype)

    def items(vals, shape_core, batched):
        k_ = 1
        for d_ in shape_core:
            k_ *= d_
        return [vals[(b_ * k_ if batched else 0):(b_ * k_ if batched else 0) + k_] for b_ in range(nb)]

    def mat(v, r_, c_):
        return [v[i_ * c_:(i_ + 1) * c_] for i_ in range(r_)]

    def verdict(name, out, exp_items, core):
        if not isinstance(out, torch.Tensor) or out.dtype != tdt:
            ctx.fail(pub(case), f"dtype-result: {name} on {dtype} operands returns {type(out).__name__} of dtype {getattr(out, 'dtype', None)}; the result of the "
                                f"documented sum of products of {dtype} values has dtype {dtype}")
            return
        if not finite(ctx, pub(case), f"{name} on {dtype} operands (small integers), batch {batch}", out):
            return
        if list(out.shape) != batch + core:
            ctx.fail(pub(case), f"dtype-shape: {name} on {dtype} operands, batch {batch}: result shape {list(out.shape)}, expected {batch + core}")
            return
        flat = out.reshape(nb, -1).tolist()
        for b_ in range(nb):
            if any(complex(a_) != complex(e_) for a_, e_ in zip(flat[b_], exp_items[b_])) or len(flat[b_]) != len(exp_items[b_]):
                ctx.fail(pub(case), f"dtype-value: {name} on {dtype} operands (small integers, exact in {dtype}), item {b_}: returns {flat[b_]}, exact value {exp_items[b_]}")
                return

    M, Mv = _dt_data(rr, dtype, mb + [n, m], lo, hi)
    v, vv = _dt_data(rr, dtype, batch + [m], lo, hi)
    l, lv = _dt_data(rr, dtype, batch + [n], lo, hi)
    Mi, vi, li = items(Mv, [n, m], bool(mb)), items(vv, [m], True), items(lv, [n], True)
    mv_ = lambda Mx, r_, c_, x: [sum(mat(Mx, r_, c_)[i_][j_] * x[j_] for j_ in range(c_)) for i_ in range(r_)]
    verdict("bmv(M, v)", P.bmv(M, v), [mv_(Mi[b_], n, m, vi[b_]) for b_ in range(nb)], [n])
    verdict("bvv(a, b)", P.bvv(l, v), [[a_ * b_ for a_ in li[k_] for b_ in vi[k_]] for k_ in range(nb)], [n, m])
    verdict("bvmv(l, M, r)", P.bvmv(l, M, v), [[sum(li[b_][i_] * mat(Mi[b_], n, m)[i_][j_] * vi[b_][j_] for i_ in range(n) for j_ in range(m))] for b_ in range(nb)], [] if batch else [1])       # atleast_1d (bvmv_unbatched)
    # one LTI step with c1, c2 in the same dtype
    A, Av = _dt_data(rr, dtype, mb + [n, n], lo, hi)
    B, Bv = _dt_data(rr, dtype, mb + [n, m], lo, hi)
    C, Cv = _dt_data(rr, dtype, mb + [p_, n], lo, hi)
    D, Dv = _dt_data(rr, dtype, mb + [p_, m], lo, hi)
    c1, c1v = _dt_data(rr, dtype, [n], lo, hi)
    c2, c2v = _dt_data(rr, dtype, [p_], lo, hi)
    x, xv = _dt_data(rr, dtype, batch + [n], lo, hi)
    u, uv = _dt_data(rr, dtype, batch + [m], lo, hi)
    sys_ = P.module.LTI(A, B, C, D, c1, c2)
    xn, y = sys_(x, u)
    Ai, Bi, Ci, Di = items(Av, [n, n], bool(mb)), items(Bv, [n, m], bool(mb)), items(Cv, [p_, n], bool(mb)), items(Dv, [p_, m], bool(mb))
    xi, ui = items(xv, [n], True), items(uv, [m], True)
    verdict("LTI step x'", xn, [[a_ + b_ + c_ for a_, b_, c_ in zip(mv_(Ai[k_], n, n, xi[k_]), mv_(Bi[k_], n, m, ui[k_]), c1v)] for k_ in range(nb)], [n])
    verdict("LTI step y", y, [[a_ + b_ + c_ for a_, b_, c_ in zip(mv_(Ci[k_], p_, n, xi[k_]), mv_(Di[k_], p_, m, ui[k_]), c2v)] for k_ in range(nb)], [p_])
    if clk(ctx, case, sys_, 0, "call") != 1:
        ctx.fail(pub(case), f"dtype-clock: one LTI call on {dtype} operands leaves the clock at {int(sys_.systime)}")


POISON = [0]


def check_interleave(ctx: Ctx, case):
    """two identical calls of every entry point (bmv, bvv, bvmv, an LTI step, an NLS step, the NLS linearisation) with EVERY
    other entry point run in between on degenerate shapes (single item, all-1 batches, n = 1) and the results of those
    calls overwritten in place by the caller (they are the caller's tensors): the second call must reproduce the first bit
    for bit — no cached constant / workspace shared between operations may be exposed to such writes"""
    P = pp()
    tdt = DT(case["dtype"])
    g = torch.Generator().manual_seed(case["dseed"])
    n, m, p_, batch = case["n"], case["m"], case["p"], list(case["batch"])
    rnd = lambda *sh: torch.randn(*sh, generator=g, dtype=torch.float64).to(tdt)
    M, v, l = rnd(*batch, n, m), rnd(*batch, m), rnd(*batch, n)
    A, B, C, D, c1, c2 = rnd(n, n), rnd(n, m), rnd(p_, n), rnd(p_, m), rnd(n), rnd(p_)
    x, u = rnd(*batch, n), rnd(*batch, m)
    xs, us = rnd(1), rnd(1)
    Simple = simple_nls_class(P)
    ctx.count("det.interleave")

    def lin_read(o):
        return torch.cat([t_.reshape(-1) for t_ in (o.A, o.B, o.C, o.D, o.c1, o.c2)])

    def nls_ops():
        o = Simple()
        a_, b_ = o(xs.clone(), us.clone())
        o.set_refpoint()
        return torch.cat([a_.reshape(-1), b_.reshape(-1), lin_read(o)])

    def lti_ops():
        o = P.module.LTI(A, B, C, D, c1, c2)
        a_, b_ = o(x.clone(), u.clone())
        return torch.cat([a_.reshape(-1), b_.reshape(-1)])

    def lti0_ops():
        o = P.module.LTI(A, B, C, D)
        a_, b_ = o(x.clone(), u.clone())
        return torch.cat([a_.reshape(-1), b_.reshape(-1)])
    ops = {"bmv": lambda: P.bmv(M, v), "bvv": lambda: P.bvv(l, v), "bvmv": lambda: P.bvmv(l, M, v), "lti": lti_ops, "lti_noconst": lti0_ops, "nls": nls_ops}

    def poison():
        """every entry point on degenerate shapes, in both dtypes, with and without autograd; every returned tensor is then
        overwritten in place"""
        outs = []
        for dt_ in (torch.float64, torch.float32):
            for b_ in ([], [1], [1, 1]):
                for k_ in (1, n):
                    Mx = torch.ones(*b_, k_, k_, dtype=dt_)
                    vx = torch.ones(*b_, k_, dtype=dt_)
                    outs += [P.bmv(Mx, vx), P.bvv(vx, vx), P.bvmv(vx, Mx, vx)]
                    o = P.module.LTI(Mx, Mx, Mx, Mx)
                    outs += list(o(vx, vx))
                    o = P.module.LTI(Mx, Mx, Mx, Mx, vx, vx)
                    outs += list(o(vx, vx))
                    vg = vx.clone().requires_grad_(True)
                    r_ = P.bmv(Mx, vg)
                    r_.sum().backward()
                    outs += [r_.detach(), vg.grad]
            o = Simple()
            a0 = torch.ones(1, dtype=dt_)
            outs += list(o(a0.clone(), a0.clone()))
            o.set_refpoint()
            outs += [o.A, o.B, o.C, o.D, o.c1, o.c2]
            o.reset()
            outs.append(o.systime.clone())
        with torch.no_grad():
            for t_ in outs:
                if isinstance(t_, torch.Tensor) and not t_.is_inference() and 0 not in t_.stride():
                    POISON[0] += 1            # another value every time: a poisoned constant differs between the two calls
                    t_.fill_(3 + POISON[0] % 89) if t_.dtype != torch.bool else None

    for name, fn in ops.items():
        first = fn().clone()
        if not finite(ctx, pub(case), f"{name} ({case['dtype']}, batch {batch}, n={n}) on N(0,1) operands", first):
            return
        poison()
        second = fn()
        if first.shape != second.shape or first.dtype != second.dtype or not torch.equal(first, second):
            bad = (first != second).nonzero()[:1].tolist() if first.shape == second.shape else "shape"
            ctx.fail(pub(case), f"interleave: {name} ({case['dtype']}, batch {batch}, n={n}) called twice on the same operands with every other entry point run on single-item / "
                                f"all-1 shapes in between (their results overwritten in place by the caller): second result differs from the first at {bad}: "
                                f"{first.reshape(-1)[:4].tolist()} vs {second.reshape(-1)[:4].tolist()}")
            return


def check_ties(ctx: Ctx, case):
    """lesson 38 (c): the documented maps are linear — no comparison of floating quantities decides anything — so every exact
    tie between quantities an implementation might compare must give the plain exact result: zero states / inputs /
    constants / matrices, A x = -B u (cancellation to exactly 0), A x + B u = c1 and = -c1 (result exactly 0), x = u,
    A = B, all entries equal, |A x + B u|_max = |c1|_max with different vectors, signed permutation matrices, equal output
    components. Small integers (exact in float32 / float64); oracle: python integer arithmetic; bmv / bvv / bvmv on the same data."""
    P = pp()
    rr = random.Random(case["dseed"])
    dt = DT(case["dtype"])
    n = case["n"]
    tie = case["tie"]
    ri = lambda lo=-3, hi=3: rr.randint(lo, hi)
    nz = lambda: rr.choice([-3, -2, -1, 1, 2, 3])
    A = [[ri() for _ in range(n)] for _ in range(n)]
    B = [[ri() for _ in range(n)] for _ in range(n)]
    C = [[ri() for _ in range(n)] for _ in range(n)]
    D = [[ri() for _ in range(n)] for _ in range(n)]
    c1, c2 = [nz() for _ in range(n)], [nz() for _ in range(n)]
    x, u = [nz() for _ in range(n)], [nz() for _ in range(n)]
    mv = lambda M, v: [sum(M[i_][j_] * v[j_] for j_ in range(n)) for i_ in range(n)]
    eye = [[int(i_ == j_) for j_ in range(n)] for i_ in range(n)]
    if tie == "allzero":
        x, u = [0] * n, [0] * n
    elif tie == "x0":
        x = [0] * n
    elif tie == "u0":
        u = [0] * n
    elif tie == "c0":
        c1, c2 = [0] * n, [0] * n
    elif tie == "cancel":              # A x = -B u, C x = -D u
        B, D, u = [[-v for v in row] for row in A], [[-v for v in row] for row in C], list(x)
    elif tie == "z_eq_c1":
        c1, c2 = [a_ + b_ for a_, b_ in zip(mv(A, x), mv(B, u))], [a_ + b_ for a_, b_ in zip(mv(C, x), mv(D, u))]
    elif tie == "z_eq_negc1":
        c1, c2 = [-(a_ + b_) for a_, b_ in zip(mv(A, x), mv(B, u))], [-(a_ + b_) for a_, b_ in zip(mv(C, x), mv(D, u))]
    elif tie == "x_eq_u":
        u = list(x)
    elif tie == "A_eq_B":
        B, D, C = [list(r_) for r_ in A], [list(r_) for r_ in A], [list(r_) for r_ in A]
    elif tie == "const_entries":
        k_ = nz()
        A = B = C = D = [[k_] * n for _ in range(n)]
        x, u, c1, c2 = [k_] * n, [k_] * n, [k_] * n, [k_] * n
    elif tie == "samenorm":            # |z|_max = |c|_max, different vectors (sign / position)
        z1, z2 = [a_ + b_ for a_, b_ in zip(mv(A, x), mv(B, u))], [a_ + b_ for a_, b_ in zip(mv(C, x), mv(D, u))]
        c1 = [0] * n
        c1[rr.randrange(n)] = rr.choice([-1, 1]) * max(abs(v) for v in z1)
        c2 = [0] * n
        c2[rr.randrange(n)] = rr.choice([-1, 1]) * max(abs(v) for v in z2)
    elif tie == "zero_matrix":
        A, D = [[0] * n for _ in range(n)], [[0] * n for _ in range(n)]
    elif tie == "signperm":
        perm = list(range(n))
        rr.shuffle(perm)
        A = [[(rr.choice([-1, 1]) if j_ == perm[i_] else 0) for j_ in range(n)] for i_ in range(n)]
        C, B, D = [list(r_) for r_ in eye], [[0] * n for _ in range(n)], [[0] * n for _ in range(n)]
    elif tie == "equal_outputs":       # all rows equal: every output component ties with every other
        A, B, C, D = [list(A[0])] * n, [list(B[0])] * n, [list(C[0])] * n, [list(D[0])] * n
        c1, c2 = [c1[0]] * n, [c2[0]] * n
    T_ = lambda v: torch.tensor(v, dtype=torch.float64).to(dt)
    ctx.count("det.ties." + tie)
    data = f"A={A} B={B} C={C} D={D} c1={c1} c2={c2} x={x} u={u}"

    def cmp(name, out, exp):
        if not isinstance(out, torch.Tensor) or not finite(ctx, pub(case), f"{name} on the tie `{tie}` ({data})", out):
            return False
        got = out.double().reshape(-1).tolist()
        flat = [float(v) for v in (sum(exp, []) if exp and isinstance(exp[0], list) else exp)]
        if len(got) != len(flat) or not all(g_ == e_ for g_, e_ in zip(got, flat)):
            ctx.fail(pub(case), f"tie: {name} on the exact tie `{tie}` ({case['dtype']}; {data}) returns {got}, exact value {flat}")
            return False
        return True
    for use_c in (True, False):
        sys_ = P.module.LTI(T_(A), T_(B), T_(C), T_(D), T_(c1), T_(c2)) if use_c else P.module.LTI(T_(A), T_(B), T_(C), T_(D))
        xn, y = sys_(T_(x), T_(u))
        ex1 = [a_ + b_ + (c_ if use_c else 0) for a_, b_, c_ in zip(mv(A, x), mv(B, u), c1)]
        ex2 = [a_ + b_ + (c_ if use_c else 0) for a_, b_, c_ in zip(mv(C, x), mv(D, u), c2)]
        if not (cmp(f"LTI step x' ({'with' if use_c else 'without'} c1, c2)", xn, ex1) and cmp(f"LTI step y ({'with' if use_c else 'without'} c1, c2)", y, ex2)):
            return
        # two steps fed back (the second state is the first result: ties produced by the code's own output)
        xn2, _ = sys_(xn, T_(u))
        if not cmp("second LTI step on the fed-back state", xn2, [a_ + b_ + (c_ if use_c else 0) for a_, b_, c_ in zip(mv(A, ex1), mv(B, u), c1)]):
            return
    if not cmp("bmv(A, x)", P.bmv(T_(A), T_(x)), mv(A, x)):
        return
    if not cmp("bvv(x, u)", P.bvv(T_(x), T_(u)), [[a_ * b_ for b_ in u] for a_ in x]):
        return
    if not cmp("bvmv(x, A, u)", P.bvmv(T_(x), T_(A), T_(u)), [sum(x[i_] * A[i_][j_] * u[j_] for i_ in range(n) for j_ in range(n))]):
        return
    xt = T_(x)
    if not cmp("bvmv(x, A, x) with the same tensor twice", P.bvmv(xt, T_(A), xt), [sum(x[i_] * A[i_][j_] * x[j_] for i_ in range(n) for j_ in range(n))]):
        return
    # the linearisation of an NLS at a reference point made of ties (x* = u*, or 0) with the reference time = the clock
    Simple = simple_nls_class(P)
    o = Simple()
    v0 = float(x[0])
    uu = v0 if tie in ("x_eq_u", "const_entries", "cancel") else float(u[0])
    o(T_([v0]), T_([uu]))
    o.set_refpoint()
    exl = [[0.5], [1.0], [1.0], [-1.0], [1.0], [0.0]]          # f = x/2 + u + t at t = 1 (set after one call), g = x - u
    for nm_, got_, e_ in zip(["A", "B", "C", "D", "c1", "c2"], [o.A, o.B, o.C, o.D, o.c1, o.c2], exl):
        if not cmp(f"NLS (f = x/2 + u + t, g = x - u) {nm_} at the reference point x*={v0} u*={uu} t*=clock=1", got_, e_):
            return


DET_CORPUS += [{"kind": "det", "corpus": 19 + k_, "seed": 9519 + k_, "sub": "ties", "tie": tie_, "dseed": 70 + k_, "dtype": "float64" if k_ % 2 == 0 else "float32", "n": 2 + k_ % 2, "m": 2, "p": 2,
                "batch": [], "nobj": 0, "nops": 0, "matbatched": False} for k_, tie_ in enumerate(TIES + TIES[::-1])]


def _coef_palette(tv):
    c = lambda a, b=1, neg=False: ("C", neg, a, b)
    return [c(1), c(3), c(1, 2), c(5, 4, True), c(0), tv, ("K", tv), ("S", tv), ("*", c(1, 2), tv), ("P", tv, 2), ("+", tv, c(1)), ("~", ("S", tv)),
            ("*", ("K", tv), tv), ("-", c(2), ("P", tv, 3))]


def check_affrow(ctx: Ctx, case):
    """pass 10: a linear time-variant system written as an NLS — rows `Σ_j a_ij(t) x_j + Σ_j b_ij(t) u_j + c_i(t)` (the model's
    `Fn.affRow`). pypose's linearisation at any reference point must return A = [a_ij(t*)], B = [b_ij(t*)], c1 = [c_i(t*)]
    (theorems nls_ltv_jacobians, nls_ltv_constant): oracle = the coefficient trees evaluated by mpmath at t*; model = driver op
    c15.affrow (`linearize` of `Fn.affRow`)."""
    import mpmath as mp
    P = pp()
    rr = random.Random(case["dseed"])
    dt, eps = DT(case["dtype"]), common.EPS[case["dtype"]]
    nx, nu = case["n"], case["m"]
    tv = ("V", nx + nu)
    pal = _coef_palette(tv)
    a = [[rr.choice(pal) for _ in range(nx)] for _ in range(nx)]
    b = [[rr.choice(pal) for _ in range(nu)] for _ in range(nx)]
    c = [rr.choice(pal) for _ in range(nx)]

    def coef(tr, state, t):
        vals = [None] * (nx + nu) + [torch.as_tensor(t).reshape(()).to(state.dtype)]
        return tree_torch(tr, vals, state.dtype, {})

    class RowNLS(P.module.NLS):
        def state_transition(self, state, input, t=None):
            return torch.stack([sum(coef(a[i][j], state, t) * state[..., j] for j in range(nx)) +
                                sum(coef(b[i][j], state, t) * input[..., j] for j in range(nu)) + coef(c[i], state, t) for i in range(nx)], -1)

        def observation(self, state, input, t=None):
            return state
    o = RowNLS()
    ctx.count("det.affrow")
    lines, metas = [], []
    for rep_ in range(3):          # several reference points and times on ONE object
        xs = [rr.choice([0.0, 1.0, -2.0, 0.5, rr.uniform(-3, 3)]) for _ in range(nx)]
        us = [rr.choice([0.0, 1.0, -0.75, rr.uniform(-3, 3)]) for _ in range(nu)]
        ts = rr.randint(0, 9)
        xt, ut = torch.tensor(xs, dtype=dt), torch.tensor(us, dtype=dt)
        xs, us = xt.double().tolist(), ut.double().tolist()
        o.set_refpoint(xt, ut, torch.tensor(ts))
        A, B, c1 = o.A, o.B, o.c1
        if not finite(ctx, pub(case), f"A, B, c1 of the LTV system written as an NLS at x*={xs} u*={us} t*={ts}", A, B, c1):
            return
        if tuple(A.shape) != (nx, nx) or tuple(B.shape) != (nx, nu) or tuple(c1.shape) != (nx,):
            ctx.fail(pub(case), f"affrow-shape: A, B, c1 have shapes {tuple(A.shape)}, {tuple(B.shape)}, {tuple(c1.shape)}")
            return
        envt = [mp.mpf(0)] * (nx + nu) + [mp.mpf(ts)]
        for i in range(nx):
            wa = [tree_mp(a[i][j], envt) for j in range(nx)]
            wb = [tree_mp(b[i][j], envt) for j in range(nu)]
            wc = tree_mp(c[i], envt)
            scale = float(sum(abs(w_ * v_) for w_, v_ in zip(wa, xs)) + sum(abs(w_ * v_) for w_, v_ in zip(wb, us)) + abs(wc))
            got = A[i].double().tolist() + B[i].double().tolist() + [float(c1[i])]
            tols = [64 * eps * (1.0 + abs(float(w_))) for w_ in wa + wb] + [64 * eps * (4.0 + 4 * scale)]
            names = [f"A[{i}][{j}] (coefficient a_{i}{j}(t*))" for j in range(nx)] + [f"B[{i}][{j}] (coefficient b_{i}{j}(t*))" for j in range(nu)] + [f"c1[{i}] (constant term c_{i}(t*))"]
            for nm_, gv, w_, tl in zip(names, got, wa + wb + [wc], tols):
                if not (abs(mp.mpf(gv) - w_) <= tl):
                    ctx.fail(pub(case), f"affrow: LTV system written as an NLS (row {i}: a={[' '.join(tree_tokens(t_, [])) for t_ in a[i]]} b={[' '.join(tree_tokens(t_, [])) for t_ in b[i]]} "
                                        f"c={' '.join(tree_tokens(c[i], []))}), reference point x*={xs} u*={us} t*={ts}: {nm_} = {gv!r}, the coefficient at t* is {float(w_)!r} (tol {tl:.2e})")
                    return
            toks = []
            for t_ in a[i] + b[i] + [c[i]]:
                tree_tokens(t_, toks)
            lines.append(f"c15.affrow {nx} {nu} {nx} {nu} " + " ".join(toks) + " " + wire_list(xs) + " " + wire_list(us) + " " + to_wire(ts))
            metas.append((i, xs, us, ts, got, tols))
    for rep, (i, xs, us, ts, got, tols) in zip(ctx.driver.run(lines), metas):
        want = common.reply_nums(rep)
        if len(want) != len(got) + 1:
            ctx.disagree("affrow", pub(case), f"model reply has {len(want)} numbers, expected {len(got) + 1}: {rep[:60]}")
            return
        for q_, (gv, w_, tl) in enumerate(zip(got, want, tols)):
            if not (abs(Fraction(gv) - w_) <= tl):
                ctx.disagree("affrow", pub(case), f"row {i} at x*={xs} u*={us} t*={ts}: entry {q_} of (A-row, B-row, c1): implementation {gv!r}, model (linearize of Fn.affRow) {float(w_)!r}")
                return


DET_CORPUS += [{"kind": "det", "corpus": 47 + k_, "seed": 9547 + k_, "sub": "affrow", "dseed": 90 + k_, "dtype": dt_, "n": n_, "m": m_, "p": 1, "batch": [], "nobj": 0, "nops": 0,
                "matbatched": False} for k_, (dt_, n_, m_) in enumerate([("float64", 2, 1), ("float64", 3, 2), ("float32", 2, 2), ("float64", 1, 1)])]


def gen_affrow_case(seed, quick=True):
    rng = random.Random(seed)
    return {"kind": "det", "seed": seed, "sub": "affrow", "dseed": rng.randrange(1 << 30), "dtype": rng.choice(["float64", "float64", "float32"]),
            "n": rng.choice([1, 2, 3]), "m": rng.choice([1, 2]), "p": 1, "batch": [], "nobj": 0, "nops": 0, "matbatched": False}


def run_det(ctx: Ctx, cases):
    for case in cases:
        fn = {"defaults": check_defaults, "dtype": check_dtype, "interleave": check_interleave, "ties": check_ties, "affrow": check_affrow}[case["sub"]]
        ctx.note_case(("det", case["sub"], case.get("tie"), case["dtype"], case["n"], case["m"], case["p"], tuple(case["batch"]), case["nobj"], case["nops"], case["matbatched"], case["dseed"]), True)
        guarded(ctx, case, fn)


# ============================================================================= stream: big batches (chunk / block boundaries)

BIG_SHAPES = [[16385], [65537], [128, 128], [129, 127], [1, 16385], [4097, 4], [3, 5, 1093], [2 ** 17 + 5]]
BIG_SHAPES_THOROUGH = [[2 ** 18 + 1], [2 ** 18 + 37], [2 ** 20 + 1], [2, 2 ** 17 + 19]]


def gen_big_case(seed, quick):
    rng = random.Random(seed)
    return {"kind": "big", "seed": seed, "fn": rng.choice(["bmv", "bvv", "bvmv", "lti"]), "shape": rng.choice(BIG_SHAPES if quick else BIG_SHAPES + BIG_SHAPES_THOROUGH), "n": rng.choice([1, 2, 3]),
            "m": rng.choice([1, 2, 3]), "dtype": rng.choice(["float64", "float32"]), "matbatched": rng.random() < 0.6, "dseed": rng.randrange(1 << 30)}


BIG_CORPUS = [{"kind": "big", "corpus": k_, "seed": 9300 + k_, "fn": fn_, "shape": sh_, "n": 2, "m": 3, "dtype": dt_, "matbatched": mb_, "dseed": 800 + k_}
              for k_, (fn_, sh_, dt_, mb_) in enumerate([("bmv", [16385], "float64", True), ("bmv", [65537], "float32", False), ("bvv", [16385], "float32", True),
                                                         ("bvmv", [65537], "float64", True), ("lti", [65537], "float64", False), ("lti", [129, 127], "float32", True),
                                                         ("bmv", [3, 5, 1093], "float64", True), ("bvmv", [16385], "float32", False),
                                                         # beyond 2^17 (quick) and 2^18 / 2^20 (thorough): block sizes and dropped remainders
                                                         ("bmv", [2 ** 17 + 5], "float32", True), ("bvv", [2 ** 17 + 5], "float64", True),
                                                         ("bmv", [2 ** 18 + 37], "float64", False), ("bvv", [2 ** 18 + 37], "float32", True),
                                                         ("bvmv", [2 ** 18 + 1], "float32", True), ("lti", [2 ** 18 + 37], "float64", False),
                                                         ("bmv", [2 ** 20 + 1], "float32", True), ("bvv", [2 ** 20 + 1], "float32", True)])]
BIG_QUICK = [0, 1, 2, 3, 4, 8, 9]


def check_big(ctx: Ctx, case):
    """2^14+1 … 2^16+1 items: every item equals the one-item call bit for bit (first, last, random), the result equals the
    concatenation of the results on two parts for several cut points, and the exact equations hold on sampled items
    including the LAST one"""
    P = pp()
    fn, n, m, shape = case["fn"], case["n"], case["m"], case["shape"]
    dt, eps = DT(case["dtype"]), common.EPS[case["dtype"]]
    g = torch.Generator().manual_seed(case["dseed"])
    N = int(math.prod(shape))
    mk = lambda b_, c_: (torch.round(torch.randn(tuple(b_) + tuple(c_), generator=g, dtype=torch.float64) * 16) / 16).to(dt)
    mb = shape if case["matbatched"] else []
    if fn == "bmv":
        ops = [mk(mb, (n, m)), mk(shape, (m,))]
        f = lambda a, b: P.bmv(a, b)
    elif fn == "bvv":
        ops = [mk(shape, (n,)), mk(shape, (m,))]
        f = lambda a, b: P.bvv(a, b)
    elif fn == "bvmv":
        ops = [mk(shape, (n,)), mk(mb, (n, m)), mk(shape, (m,))]
        f = lambda a, b, c: P.bvmv(a, b, c)
    else:
        A, B, c = mk(mb, (n, n)), mk(mb, (n, m)), mk(mb, (n,))
        ops = [mk(shape, (n,)), mk(shape, (m,))]

        def f(x_, u_, sel=None):
            pick = (lambda t_: t_ if (sel is None or not case["matbatched"]) else t_.reshape((N,) + t_.shape[len(shape):])[sel])
            return P.module.LTI(pick(A), pick(B), pick(A), pick(B), pick(c), pick(c))(x_, u_)[0]
    core = {"bmv": [2, 1], "bvv": [1, 1], "bvmv": [1, 2, 1], "lti": [1, 1]}[fn]
    flat = [t_.reshape((N,) + t_.shape[t_.ndim - c_:]) if t_.ndim - c_ == len(shape) else t_ for t_, c_ in zip(ops, core)]   # batch flattened
    isb = [t_.ndim - c_ == len(shape) for t_, c_ in zip(ops, core)]
    y = f(*ops)
    nd_out = {"bmv": 1, "bvv": 2, "bvmv": 0, "lti": 1}[fn]
    if tuple(y.shape[:y.ndim - nd_out]) != tuple(shape):
        ctx.fail(pub(case), f"big-shape: {fn} on batch {shape} returned shape {tuple(y.shape)}")
        return False
    yf = y.reshape((N,) + tuple(y.shape[len(shape):]))
    if not bool(torch.isfinite(yf).all()):
        ctx.fail(pub(case), f"big-eq: {fn} on a batch of {N} items returned non-finite entries (first at item {int((~torch.isfinite(yf.reshape(N, -1))).any(-1).nonzero()[0])})")
        return False
    rr = random.Random(case["seed"] ^ 0xB16)
    items = [0, N - 1, N - 2, rr.randrange(N), 2 ** 14 - 1, 2 ** 14, 2 ** 16 - 1, 2 ** 16, 2 ** 17, 2 ** 18 - 1, 2 ** 18]
    tails = []
    for k_ in (10, 12, 14, 16, 17, 18, 20):              # the last `N mod 2^k` items (a remainder dropped by a floor division)
        r_ = N % (2 ** k_)
        if 0 < r_ < N:
            items += [N - r_, N - 1 - r_ // 2]
            tails.append(N - r_)
    items = sorted({i_ for i_ in items if 0 <= i_ < N})
    sl = lambda t_, b_, s_: t_[s_] if b_ else t_
    ok = True
    for i_ in items:
        one = (f(*[sl(t_, b_, slice(i_, i_ + 1)) for t_, b_ in zip(flat, isb)], slice(i_, i_ + 1)) if fn == "lti"
               else f(*[sl(t_, b_, slice(i_, i_ + 1)) for t_, b_ in zip(flat, isb)]))
        if not torch.equal(one.reshape(yf[i_].shape), yf[i_]):
            ctx.fail({**pub(case), "item": i_}, f"big-item: item {i_} of {fn} on a batch of {N} is {yf[i_].reshape(-1)[:4].tolist()} but the same call on that item alone gives {one.reshape(-1)[:4].tolist()}")
            ok = False
            break
    for a_ in sorted({c_ for c_ in [1, N // 2, N - 1, 2 ** 14] + tails[-2:] if 0 < c_ < N}):
        parts = []
        for s_ in (slice(0, a_), slice(a_, N)):
            parts.append(f(*[sl(t_, b_, s_) for t_, b_ in zip(flat, isb)], s_) if fn == "lti" else f(*[sl(t_, b_, s_) for t_, b_ in zip(flat, isb)]))
        cat = torch.cat([p_.reshape((-1,) + tuple(yf.shape[1:])) for p_ in parts], 0)
        if not torch.equal(cat, yf):
            bad = int((cat.reshape(N, -1) != yf.reshape(N, -1)).any(-1).nonzero()[0])
            ctx.fail({**pub(case), "cut": a_, "item": bad}, f"big-split: {fn} on {N} items differs from the concatenation of the calls on [:{a_}] and [{a_}:] (first at item {bad})")
            ok = False
            break
    # exact equations on sampled items, the last one included
    for i_ in sorted({0, N - 1, rr.randrange(N)} | set(tails[-2:])):
        its = [sl(t_, b_, i_).double().tolist() for t_, b_ in zip(flat, isb)]
        if fn == "bmv":
            want = [sum((Fraction(a) * Fraction(b) for a, b in zip(row, its[1])), Fraction(0)) for row in its[0]]
        elif fn == "bvv":
            want = [Fraction(a) * Fraction(b) for a in its[0] for b in its[1]]
        elif fn == "bvmv":
            want = [sum((Fraction(its[0][a]) * Fraction(its[1][a][b]) * Fraction(its[2][b]) for a in range(n) for b in range(m)), Fraction(0))]
        else:
            pick = (lambda t_: (t_.reshape((N,) + t_.shape[len(shape):])[i_] if case["matbatched"] else t_).double().tolist())
            want, _ = frac_affine(pick(A), pick(B), pick(c), its[0], its[1])
        got = yf[i_].double().reshape(-1).tolist()
        for q_, (w, gv) in enumerate(zip(want, got)):
            if not (abs(Fraction(gv) - w) <= 64 * eps * (abs(float(w)) + 64.0)):
                ctx.fail({**pub(case), "item": i_}, f"big-eq: item {i_} of {N} ({fn}), entry {q_} = {gv!r}, exact value {float(w)!r}")
                ok = False
    return ok


def run_big(ctx: Ctx, cases):
    for case in cases:
        guarded(ctx, case, check_big)
        ctx.note_case(("big", case["fn"], tuple(case["shape"]), case["n"], case["m"], case["dtype"], case["matbatched"]), True)
        ctx.count("big." + case["fn"])


# ============================================================================= deterministic corner corpora (run first)

def _lin(k, sys, n, m, p, T, full, events, **kw):
    c = {"kind": "lin", "corpus": k, "seed": 9000 + k, "sys": sys, "n": n, "m": m, "p": p, "T": T, "full": full, "dtype": "float64",
         "bA": list(full), "bB": list(full), "bC": list(full), "bD": list(full), "c1": True, "c2": True, "bc1": list(full), "bc2": list(full),
         "scalar": False, "scale": 1.0, "regimes": False, "layout": {}, "dseed": 500 + 3 * k + 1, "slots": [1, 2], "events": events}
    c.update(kw)
    return c


def _call(feed=False, bx=(), bu=(), same=False, scalar=True):
    return {"ev": "call", "feed": feed, "bx": list(bx), "bu": list(bu), "same": same, "scalar": scalar}


def _set(ev, v, how="py"):
    return {"ev": ev, "t": None if v is None else {"v": v, "as": how}}


LIN_CORPUS = [
    # 0-dim state and input on a 1x1 system, fed back, reset in between
    _lin(0, "lti", 1, 1, 1, 1, [], [_call(), _call(True), _call(True, scalar=False), _set("reset", 5), _call(True), {"ev": "fwd", "bx": [], "bu": []}, _call()], scalar=True),
    # every tensor with its own broadcastable batch; constants: c1 batched, c2 absent; a matrix updated in place between calls
    _lin(1, "lti", 3, 2, 4, 1, [3, 1, 2], [_call(bx=[3, 1, 2], bu=[2]), _call(True, bu=[1, 2]), {"ev": "pokemat", "which": "A", "how": "mul_"}, _call(True, bu=[]),
                                          {"ev": "xdim", "which": "x"}, {"ev": "pokemat", "which": "c1", "how": "setitem"}, _call(bx=[], bu=[3, 1, 1]), {"ev": "xdim", "which": "u"}, _call(True)],
         bA=[1, 2], bB=[2], bC=[], bD=[3, 1, 2], bc1=[2], c2=False),
    # LTV indexed by _t: negative wrap, last slice, first index out of range on either side, roll-out running off the end
    _lin(2, "ltvi", 2, 1, 2, 3, [], [_set("assign", -3), _call(), _set("assign", -1), _call(), _set("assign", 2), _call(), _call(), _set("assign", -4), _call(),
                                     _set("reset", None), _call(), _call(True), _call(True), _call(True), _set("ref", 1, "int64"), _call()]),
    # LTV indexed by _t % T: negative and huge clocks, set_refpoint(t) as the only way the time is set
    _lin(3, "ltvp", 2, 2, 1, 4, [2], [_set("assign", -1), _call(bx=[2]), _set("assign", 1000), _call(), _call(True), _set("reset", 10 ** 12), _call(), _set("ref", 7, "int64"), _call(),
                                      _set("ref", -6, "int64"), _call(same=True, bx=[2], bu=[2])]),
    # float32, mixed regimes in one batch, non-contiguous matrices, state and input the same tensor
    _lin(4, "lti", 2, 2, 3, 1, [3], [_call(bx=[3], bu=[3], same=True), _call(bx=[3], bu=[3]), _call(bx=[], bu=[3], same=True), _call(bx=[3], bu=[])],
         dtype="float32", regimes=True, layout={"A": "T", "B": "slice", "C": "T", "D": "slice", "c1": "slice", "c2": "c", "x": "slice", "u": "slice"}),
    # larger dimensions, expanded (stride-0) matrices, a 10-step feedback roll-out
    _lin(5, "lti", 6, 4, 5, 1, [2, 3], [_call(bx=[2, 3], bu=[3])] + [_call(True, bu=[2, 1])] * 9,
         layout={"A": "expand", "B": "expand", "C": "c", "D": "expand", "c1": "expand", "c2": "c"}, scale=0.3),
    # caller's in-place updates between every pair of calls, a second system exchanging times
    _lin(6, "ltvp", 2, 1, 2, 2, [], [_call(), {"ev": "pokex", "how": "add_"}, _call(True), {"ev": "pokemat", "which": "B", "how": "add_"}, {"ev": "twin", "op": "from_main"}, _call(True),
                                     {"ev": "twin", "op": "call"}, {"ev": "pokemat", "which": "D", "how": "setitem"}, _call(), {"ev": "twin", "op": "to_main"}, _call(True),
                                     {"ev": "assign", "t": {"slot": 0, "v": 1, "as": "slot"}}, _call(), {"ev": "pokemat", "which": "c2", "how": "mul_"}, _call(True)]),
    # a copy of an LTV system made in the middle of a roll-out: both continue with their own time slices
    _lin(9, "ltvp", 2, 1, 2, 3, [], [_call(), _call(True), {"ev": "clone", "op": "make", "how": "deepcopy"}, {"ev": "clone", "op": "call", "t": 0}, {"ev": "clone", "op": "call", "t": 0},
                                     _call(True), {"ev": "clone", "op": "reset", "t": -1}, _call(True), {"ev": "clone", "op": "call", "t": 0}, _set("reset", None), {"ev": "clone", "op": "call", "t": 0}, _call()]),
    _lin(10, "lti", 2, 2, 2, 1, [2], [_call(bx=[2], bu=[2]), {"ev": "clone", "op": "make", "how": "pickle"}, {"ev": "clone", "op": "call", "t": 0}, _call(True, bu=[2]),
                                      {"ev": "pokemat", "which": "A", "how": "mul_"}, {"ev": "clone", "op": "call", "t": 0}, _call(True, bu=[2])]),
    _lin(11, "ltvi", 2, 1, 1, 4, [], [_call(), {"ev": "clone", "op": "make", "how": "state_dict"}, _call(True), _call(True), {"ev": "clone", "op": "call", "t": 0}, {"ev": "clone", "op": "call", "t": 0},
                                      {"ev": "clone", "op": "call", "t": 0}, {"ev": "clone", "op": "call", "t": 0}, _call(True)]),
    # the usual structure: full state observed (C = I, D = 0, no c2), square system
    _lin(12, "lti", 3, 2, 3, 1, [2], [_call(bx=[2], bu=[2]), _call(True, bu=[]), _call(bx=[], bu=[2], same=False)], special={"C": "eye", "D": "zero"}, c2=False),
    _lin(13, "lti", 2, 2, 2, 1, [], [_call(), _call(True), _call(same=True)], special={"A": "eye", "B": "zero"}, c1=False, c2=False),
    # C = I up to 1e-6, D = 1e-7·noise, no c2, scale 1e3: a shortcut guarded by a default-tolerance allclose would take the identity path
    _lin(25, "lti", 3, 2, 3, 1, [], [_call(scalar=False), _call(True), _call(True)], special={"C": "neareye", "D": "nearzero"}, c2=False, scale=1.0),
    _lin(26, "lti", 2, 2, 2, 1, [2], [_call(bx=[2], bu=[2]), _call(True, bu=[2])], special={"A": "neareye", "B": "nearzero"}, c1=False, bA=[], bB=[]),
    _lin(14, "lti", 3, 1, 3, 1, [2], [_call(scalar=False), _call(True), dict(_call(bx=[2], bu=[2]), mode="no_grad"), dict(_call(True), mode="grad", kw=True)],
         special={"C": "eye", "D": "zero"}, c2=False, bA=[], bB=[], bC=[], bD=[], bc1=[]),
    # shapes fresh in the process, first used under inference_mode / no_grad, then with autograd (and the other way round)
    _lin(16, "lti", 5, 3, 2, 1, [11], [dict(_call(bx=[11], bu=[11]), mode="inference"), dict(_call(bx=[11], bu=[11]), mode="grad"), dict(_call(bx=[11], bu=[11]), mode="no_grad"),
                                       dict(_call(True, bu=[11]), mode="grad"), _call(True, bu=[11])], bA=[], bB=[], bC=[], bD=[], bc1=[], bc2=[]),
    _lin(17, "ltvp", 4, 2, 3, 3, [7], [dict(_call(bx=[7], bu=[7]), mode="no_grad"), dict(_call(True, bu=[7]), mode="grad"), dict(_call(True, bu=[7]), mode="inference"),
                                       dict(_call(True, bu=[7]), mode="grad", kw=True)]),
    # a long stacked time axis (4097 slices): the last slice, one past it, the wrapped first one
    _lin(18, "ltvi", 2, 1, 1, 4097, [], [_set("assign", 4096), _call(), _call(), _set("assign", -4097), _call(), _set("assign", 2048), _call(), _call(True)], c1=False, c2=False),
    # the same calls spelled with keywords and run under every grad mode
    _lin(15, "lti", 2, 2, 2, 1, [3], [dict(_call(bx=[3], bu=[3]), mode="no_grad"), dict(_call(bx=[3], bu=[3]), mode="inference", kw=True), dict(_call(True, bu=[3]), mode="grad"),
                                      dict(_call(True, bu=[]), kw=True), _set("reset", 2), dict(_call(bx=[], bu=[3]), mode="no_grad", kw=True)]),
    # user subclasses overriding PROPERTIES whose values are generated outside the object (constructor: None / dummy):
    # the seed's scenario (stacked A, B, C, D; c1, c2 generated from the clock), a constant c1 on a subclass of LTI, everything
    # generated on an LTI subclass reading _t % T, matrices only, the observation side only
    _lin(19, "ltvp", 3, 2, 2, 6, [], [_call(), _call(True), _call(True), _set("assign", 4), _call(True), _call(True), _call(True), _set("ref", 2, "int64"), _call()],
         ov={"c1": "none", "c2": "none"}),
    _lin(20, "lti", 2, 1, 2, 1, [2], [_call(bx=[2], bu=[2]), _call(True, bu=[]), _set("reset", 3), _call(True, bu=[2])], ov={"c1": "none"}, c2=False),
    _lin(21, "ltip", 2, 2, 3, 3, [], [_call(), _call(True), _call(True), _call(True), _set("assign", -2), _call(), _set("ref", 1, "int64"), _call(True)],
         ov={"A": "none", "B": "junk", "C": "zeros", "D": "none", "c1": "junk", "c2": "none"}),
    _lin(22, "ltvi", 2, 1, 2, 4, [3], [_call(bx=[3], bu=[3]), _call(True, bu=[3]), _call(True, bu=[]), _call(True, bu=[3]), _call(True, bu=[3])], ov={"A": "zeros", "D": "junk"}),
    _lin(23, "lti", 3, 2, 1, 1, [], [_call(), _call(True), {"ev": "pokemat", "which": "c2", "how": "mul_"}, _call(True)], ov={"C": "junk", "D": "zeros", "c2": "zeros"}),
    _lin(24, "ltvp", 1, 1, 1, 2, [], [_call(scalar=True), _call(True), _call(True)], ov={"c2": "none"}, c1=False, scalar=True),
    # extreme magnitudes
    _lin(7, "lti", 3, 2, 2, 1, [2], [_call(bx=[2], bu=[2]), _call(bx=[], bu=[2])], scale=1e-30),
    _lin(8, "lti", 3, 2, 2, 1, [2], [_call(bx=[2], bu=[2]), _call(bx=[], bu=[2])], scale=1e8),
]

_X0, _X1 = ("V", 0), ("V", 1)


def _nls(k, nx, nu, fs, gs, events, dtype="float64"):
    return {"kind": "nls", "corpus": k, "seed": 9100 + k, "nx": nx, "nu": nu, "dtype": dtype, "fs": fs, "gs": gs, "events": events,
            "slots": [{"v": 4, "shape": 0}, {"v": 9, "shape": 1}]}


def _ncall(x, u, scalar=False, lay="c"):
    return {"ev": "call", "x": x, "u": u, "scalar": scalar, "lay": lay}


def _nref(x, u, t, scalar=False, lay="c"):
    return {"ev": "ref", "x": x, "u": u, "t": t, "scalar": scalar, "lay": lay}


def _poke(tgt, how="add_", delta=2.0, fill=1.5, j=0):
    return {"ev": "poke", "tgt": tgt, "how": how, "delta": delta, "fill": fill, "j": j}


_R = {"ev": "read"}
_A2 = ("+", _X0, ("V", 2))            # shared sub-tree x0 + u (nx = 2: u is variable 2)
NLS_CORPUS = [
    # f = x t + u: reference time left to the default, the system is stepped, the matrices are read later (D32)
    _nls(0, 1, 1, [("+", ("*", _X0, ("V", 2)), ("V", 1))], [_X0],
         [_ncall([1.0], [0.0]), _nref(None, None, None), _R, _ncall([1.0], [0.0]), _ncall([2.0], [0.5], True), _R, _set("reset", None), _R, _nref(None, None, "live"), _ncall([1.0], [0.0]), _R]),
    # f = x^2: the caller re-uses the tensors it gave to set_refpoint (the reference point is a snapshot)
    _nls(1, 1, 1, [("+", ("P", _X0, 2), ("*", _X0, ("V", 1)))], [("*", _X0, ("V", 1))],
         [_nref([1.0], [0.0], {"v": 0, "as": "int64"}), _R, _poke("refX"), _R, _poke("refU", "copy_"), _R, _poke("refT"), _R,
          _ncall([0.5], [1.0]), _nref(None, None, None), _poke("lastX", "setitem", fill=-2.0), _R, _ncall([0.25], [1.0]), _poke("refX", "add_", 0.5), _R]),
    # reads and set_refpoint before anything exists; None resolved from tensors the caller changed after the call
    _nls(2, 2, 1, [("+", ("S", ("*", _X0, _X1)), ("V", 2)), ("*", ("K", ("V", 3)), _X1)], [("-", ("P", _X0, 3), _X1), ("P", _X0, 0), ("C", False, 3, 2)],
         [_R, _nref(None, [0.5], None), _R, _ncall([0.5, -1.0], [2.0], lay="slice"), _poke("lastX", "add_", 0.5), _nref(None, None, None), _R, _ncall([1.0, 1.0], [0.0]), _R,
          _nref([0.25, 3.0], None, {"v": 2.5, "as": "float64", "dim1": True}, lay="slice"), _R, _set("assign", 7), _R, {"ev": "assign", "t": {"slot": 0, "v": 4, "as": "slot"}},
          _nref([1.0, 2.0], [3.0], {"slot": 1, "v": 9, "as": "slot"}), _ncall([0.0, 0.0], [0.0]), _R]),
    # shared sub-trees; every autograd route; two set_refpoints in a row
    _nls(3, 2, 1, [("*", _A2, _A2), ("*", _A2, ("S", _A2))], [("~", _A2)],
         [_nref([0.5, 1.0], [0.25], {"v": 3, "as": "int32"}), _R, {"ev": "jacargs", "v": [True, "forward-mode"]}, _R, {"ev": "jacargs", "v": [False, "reverse-mode"]}, _R,
          _nref([1.5, 1.0], [0.25], {"v": 3, "as": "int64"}), _nref([-1.0, 2.0], [0.5], {"v": 1, "as": "int64"}), _R, {"ev": "jacargs", "v": [True, "reverse-mode"]}, _R]),
    # outputs that do not depend on state or input at all
    _nls(4, 1, 1, [("*", ("V", 2), ("V", 2))], [("C", False, 3, 2)],
         [_ncall([1.0], [2.0], True), _nref(None, None, "live"), _R, _ncall([3.0], [1.0]), _R, {"ev": "twin", "op": "from_main"}, {"ev": "twin", "op": "call"}, {"ev": "twin", "op": "to_main"}, _R]),
]
NLS_CORPUS.append(dict(NLS_CORPUS[2], corpus=5, seed=9105, dtype="float32"))
# time stamps above 2^24 with float32 states (2^24+1, 2^24+3, a UNIX epoch), above 2^53 with float64: f = x cos(t - T0) + u (t - T0),
# the epoch subtracted in exact integer arithmetic; forwards and set_refpoint(t=None) must see the same exact clock
def _big(k, T0, dtype):
    tv = ("V", 2)
    return dict(_nls(k, 1, 1, [("+", ("*", _X0, ("K", tv)), ("*", ("V", 1), tv))], [("*", _X0, tv)],
                     [_set("assign", T0 + 1), _ncall([1.0], [0.5]), _ncall([2.0], [0.25]), _nref(None, None, None), _R, _ncall([1.5], [1.0]), _R,
                      _set("reset", T0 + 3), _ncall([1.0], [1.0]), dict(_nref([0.5], [2.0], {"v": T0 + 5, "as": "int64"}), kw=True), _R,
                      dict(_set("assign", T0 + 7), t={"v": T0 + 7, "as": "int64"}), _ncall([0.25], [0.5]), _nref(None, None, "live"), _ncall([1.0], [0.0]), _R],
                     dtype=dtype), T0=T0)


# exact coincidences: reference time = clock, clock - 1, clock + 1; reference state = the last call's state (another tensor
# with the same values); a time assigned to the value it already has
NLS_CORPUS.append(resolve_rel(_nls(12, 1, 1, [("*", _X0, ("V", 2))], [("+", _X0, ("*", ("V", 1), ("V", 2)))],
                                   [_ncall([1.5], [0.5]), _ncall([1.5], [0.5]), _nref([1.5], [0.5], {"rel": 0, "as": "int64"}), _R, _nref(None, None, None), _R,
                                    _nref([1.5], [0.5], {"rel": -1, "as": "int64"}), _R, _nref([1.5], [0.5], {"rel": 1, "as": "int64", "dim1": True}), _R,
                                    {"ev": "assign", "t": {"rel": 0, "as": "int64"}}, _ncall([1.5], [0.5]), _R, _set("reset", 3), _nref(None, None, {"rel": 0, "as": "int64"}), _R])))
NLS_CORPUS += [_big(8, 2 ** 24, "float32"), _big(9, 1_700_000_000, "float32"), _big(10, 2 ** 53, "float64"), _big(11, 2 ** 31, "float64")]
# positional and keyword spellings, grad modes, a user function that raises inside forward / set_refpoint
NLS_CORPUS.append(_nls(7, 2, 1, [("*", _X0, ("V", 2)), ("+", _X1, ("*", ("V", 3), _X0))], [("-", _X0, ("V", 2))],
                       [dict(_ncall([1.0, 2.0], [0.5]), mode="no_grad", kw=True), dict(_nref([0.5, 1.5], [2.0], {"v": 3, "as": "int64"}), kw=False), dict(_R, mode="no_grad"),
                        dict(_ncall([2.0, 0.0], [1.0]), mode="grad", kw=False), {"ev": "xraise", "x": [9.0, 9.0], "u": [9.0]}, _ncall([1.0, 1.0], [1.0]), _R,
                        dict(_nref(None, None, None), mode="no_grad", kw=True), _R, {"ev": "refraise", "x": [4.0, 4.0], "u": [4.0], "t": {"v": 2, "as": "int64"}},
                        dict(_nref([0.25, 0.5], [1.0], {"v": 1, "as": "int64"}), mode="grad", kw=False), _R, _ncall([0.0, 1.0], [2.0]), _R]))
# user callbacks returning their argument or a view of it: g = x (the same tensor), g = x[:1] (a view), f = u, f = x; the
# reference point is read repeatedly (an in-place update of the stored f(ref) / g(ref) would corrupt the reference state)
def _pt(k, nx, nu, fs, gs, pt, dtype="float64"):
    xs = [[0.5, -1.0, 2.0][:nx], [1.5, 0.25, -0.75][:nx], [2.0, 3.0, -1.0][:nx]]
    us = [[1.0, -2.0][:nu], [0.5, 0.75][:nu], [-1.5, 2.5][:nu]]
    return dict(_nls(k, nx, nu, fs, gs,
                     [_ncall(xs[0], us[0]), _nref(None, None, None), _R, _R, _ncall(xs[1], us[1], nx == 1 and nu == 1), _R, _nref(xs[2], us[2], {"v": 3, "as": "int64"}), _R, _R,
                      _poke("refX"), _R, _ncall(xs[0], us[1]), _poke("lastX", "add_", 0.5), _nref(None, None, "live"), _R, {"ev": "jacargs", "v": [True, "forward-mode"]}, _R,
                      {"ev": "clone", "op": "make"}, {"ev": "clone", "op": "call", "x": xs[1], "u": us[0], "t": 0}, {"ev": "clone", "op": "read", "x": xs[0], "u": us[0], "t": 0}, _R],
                     dtype=dtype), passthrough=pt)


NLS_CORPUS += [_pt(13, 2, 1, [("+", ("S", _X0), ("V", 2)), ("*", _X1, ("V", 3))], [_X0, _X1], {"g": "state"}),
               _pt(14, 2, 2, [("V", 2), ("V", 3)], [_X0], {"f": "input", "g": "view"}),
               _pt(15, 1, 1, [_X0], [_X0], {"f": "state", "g": "state"}, "float32"),
               _pt(16, 3, 1, [("*", _X0, _X1), ("K", ("V", 2)), ("+", ("V", 3), ("V", 4))], [("V", 3)], {"g": "input"}),
               _pt(17, 2, 1, [("-", _X1, ("V", 2)), ("P", _X0, 2)], [_X0, _X1], {"g": "state"}, "float32")]
# an LTV system written as an NLS (time-dependent coefficients, affine in state and input): the linearisation is the system
# itself — exact far from the reference point, the same matrices at every reference state (nls_affine_exact,
# nls_affine_jacobian_constant); one non-affine component next to them
_T3 = ("V", 3)
NLS_CORPUS += [_pt(18, 2, 1, [("+", ("+", ("*", _T3, _X0), ("*", ("C", False, 2, 1), ("V", 2))), ("K", _T3)), ("+", ("-", _X1, ("*", ("C", False, 1, 2), _X0)), ("*", ("S", _T3), ("V", 2)))],
                   [("+", _X0, _X1), ("*", ("P", _T3, 2), ("V", 2)), ("*", _X0, ("V", 2))], {}),
               _pt(19, 1, 1, [("-", ("*", ("C", True, 3, 4), _X0), ("~", ("V", 1)))], [("*", ("K", ("V", 2)), _X0), ("C", False, 5, 2)], {}, "float32")]
# lesson 44: converging reference points on one object, k = 1 … 14 (distances 1e-1 … 1e-14), state / input / both / alternating
# moving, reference time fixed or defaulted; f, g nonlinear so that the Jacobians and c1, c2 move with the point
def _conv(k, nx, nu, fs, gs, moving, tmode, ks, dtype="float64"):
    return _nls(k, nx, nu, fs, gs, converge_events(random.Random(4400 + k), nx, nu, dtype, ks, moving, tmode), dtype=dtype)


_U1 = ("V", 1)
NLS_CORPUS += [_conv(20, 1, 1, [("+", ("S", _X0), ("*", _X0, _U1))], [("P", _X0, 2), ("K", _U1)], "x", "value", range(1, 15)),
               _conv(21, 1, 1, [("*", ("S", _X0), ("K", _U1))], [("*", _U1, _U1)], "u", "value", range(1, 15)),
               _conv(22, 2, 1, [("*", _X0, _X1), ("+", ("S", _X1), ("P", ("V", 2), 2))], [("*", ("K", _X0), ("V", 2))], "xu", "none", range(1, 15)),
               _conv(23, 1, 1, [("P", _X0, 3)], [("*", _X0, ("S", _U1))], "alt", "value", range(1, 15)),
               _conv(24, 1, 1, [("+", ("P", _X0, 2), ("S", _U1))], [("*", _X0, _U1)], "xu", "value", range(1, 8), "float32")]
# a deep copy taken after set_refpoint: copy and original stepped / reset in turn; both keep their own time in f, g and both
# keep the reference point
NLS_CORPUS.append(_nls(6, 1, 1, [("+", ("*", _X0, ("V", 2)), ("V", 1))], [("*", _X0, ("V", 2))],
                       [_ncall([1.0], [0.5]), _nref(None, None, None), {"ev": "clone", "op": "make"}, {"ev": "clone", "op": "call", "x": [2.0], "u": [0.25], "t": 0},
                        {"ev": "clone", "op": "call", "x": [1.5], "u": [0.0], "t": 0}, _ncall([3.0], [1.0]), {"ev": "clone", "op": "read", "x": [0.0], "u": [0.0], "t": 0}, _R,
                        {"ev": "clone", "op": "reset", "x": [0.0], "u": [0.0], "t": 7}, _ncall([0.5], [0.5]), {"ev": "clone", "op": "call", "x": [1.0], "u": [1.0], "t": 0},
                        _set("reset", None), {"ev": "clone", "op": "call", "x": [1.0], "u": [2.0], "t": 0}, _ncall([2.0], [2.0]), _R]))


def _bmv(k, fn, n, m, full, b1, b2, b3=(), **kw):
    c = {"kind": "bmv", "corpus": k, "seed": 9200 + k, "fn": fn, "full": list(full), "n": n, "m": m, "dtype": "float64", "b1": list(b1), "b2": list(b2), "b3": list(b3),
         "same": False, "scale": 3.0, "regimes": False, "layout": ["c", "c", "c"], "lie": False, "out": False, "dyadic": True, "dseed": 700 + k}
    c.update(kw)
    return c


BMV_CORPUS = [
    _bmv(0, "bmv", 1, 1, [], [], []),
    _bmv(1, "bmv", 3, 3, [2, 3], [2, 3], [3], layout=["T", "slice", "c"]),            # square, batched, transposed storage
    _bmv(2, "bmv", 2, 3, [2, 1], [2, 1], [1], out=True),
    _bmv(3, "bmv", 4, 3, [2], [2], [2], lie=True),
    _bmv(4, "bvv", 3, 3, [2], [2], [2], same=True),                                    # the same tensor twice
    _bmv(5, "bvv", 2, 4, [3, 1, 2], [3, 1, 1], [2], layout=["slice", "expand", "c"]),
    _bmv(6, "bvmv", 3, 3, [2], [2], [2], [2], same=True, dyadic=False),                # non-symmetric M, l is r
    _bmv(7, "bvmv", 2, 3, [2, 1], [1], [2, 1], [1]),
    _bmv(8, "bvmv", 4, 4, [], [], [], []),
    _bmv(9, "bmv", 3, 2, [3], [3], [3], dtype="float32", regimes=True),
    _bmv(10, "bmv", 2, 2, [2], [2], [], scale=1e40, dyadic=False),
    _bmv(11, "bvv", 7, 7, [2], [2], [2], layout=["expand", "expand", "c"]),
    _bmv(12, "bvv", 2, 3, [2], [2], [2], out=True),
    # shapes that are fresh in the process, first seen under inference_mode / no_grad, then with autograd
    _bmv(22, "bmv", 5, 4, [13], [13], [13], mode="inference", modes=["grad", "plain", "no_grad", "grad"]),
    _bmv(23, "bvv", 6, 5, [11], [11], [11], mode="no_grad", modes=["grad", "inference", "grad"]),
    _bmv(24, "bvmv", 5, 6, [17], [17], [17], [17], mode="inference", modes=["grad", "plain"]),
    _bmv(25, "bmv", 6, 6, [19], [19], [], mode="grad", modes=["inference", "grad"]),
    _bmv(26, "bvv", 7, 4, [23], [23], [23], mode="inference", modes=["grad", "plain", "grad"]),
    _bmv(27, "bvmv", 4, 7, [29], [29], [29], [29], mode="no_grad", modes=["inference", "grad"]),
    {"kind": "bmv", "corpus": 18, "seed": 9218, "fn": "lti", "full": [2, 3], "n": 2, "m": 1, "dtype": "float64", "b1": [3], "b2": [2, 1], "b3": [1, 3], "bx": [], "bu": [2, 3],
     "hasc": True, "lie": False, "out": False, "dseed": 718},
    {"kind": "bmv", "corpus": 19, "seed": 9219, "fn": "lti", "full": [3], "n": 3, "m": 2, "dtype": "float32", "b1": [], "b2": [3], "b3": [], "bx": [3], "bu": [1],
     "hasc": False, "lie": False, "out": False, "dseed": 719},
    {"kind": "bmv", "corpus": 20, "seed": 9220, "fn": "bmv", "full": [], "n": 2, "m": 2, "dtype": "float64", "b1": [], "b2": [], "bad": [[2, 3], [2]], "lie": False, "out": False, "dseed": 720},
    {"kind": "bmv", "corpus": 32, "seed": 9232, "fn": "bmv", "full": [], "n": 2, "m": 3, "dtype": "float64", "b1": [], "b2": [], "bad": [[2], [2]], "badcore": [2, 3, 1], "lie": False, "out": False, "dseed": 732},
    {"kind": "bmv", "corpus": 28, "seed": 9228, "fn": "bmv", "full": [], "n": 1, "m": 2, "dtype": "float64", "b1": [], "b2": [], "bad": [[], []], "badcore": [1, 2, 3], "lie": False, "out": False, "dseed": 728},
    {"kind": "bmv", "corpus": 29, "seed": 9229, "fn": "bmv", "full": [], "n": 2, "m": 3, "dtype": "float32", "b1": [], "b2": [], "bad": [[2], [2]], "badcore": [2, 3, 2], "lie": False, "out": False, "dseed": 729},
    {"kind": "bmv", "corpus": 30, "seed": 9230, "fn": "bvmv", "full": [], "n": 2, "m": 2, "dtype": "float64", "b1": [], "b2": [], "bad": [[], []], "badcore": [3, 2, 2, 2], "lie": False, "out": False, "dseed": 730},
    {"kind": "bmv", "corpus": 31, "seed": 9231, "fn": "bvmv", "full": [], "n": 2, "m": 2, "dtype": "float64", "b1": [], "b2": [], "bad": [[2, 3], [2, 3]], "badcore": [2, 2, 3, 4], "lie": False, "out": False, "dseed": 731},
    {"kind": "bmv", "corpus": 21, "seed": 9221, "fn": "bvmv", "full": [], "n": 2, "m": 3, "dtype": "float64", "b1": [], "b2": [], "bad": [[3, 1], [2, 2]], "lie": False, "out": False, "dseed": 721},
    _bmv(13, "bvv", 3, 3, [2], [2], [2], lie=True, lie_which=2, dyadic=False),
    _bmv(14, "bvmv", 3, 3, [2], [2], [], [2], lie=True, lie_which=5, dyadic=False),
    _bmv(15, "bmv", 2, 3, [3], [3], [3], lie=True, lie_which=1, mode="no_grad"),
    _bmv(16, "bmv", 3, 2, [3], [3], [], mode="grad"),
    _bmv(17, "bvmv", 2, 2, [3], [3], [3], [3], mode="inference"),
]
CORPORA = {k_: {c_["corpus"]: c_ for c_ in v_} for k_, v_ in
           {"multi": CORPUS, "lin": LIN_CORPUS, "nls": NLS_CORPUS, "bmv": BMV_CORPUS, "big": BIG_CORPUS, "det": DET_CORPUS}.items()}     # replay looks a corpus case up by its id
assert all(len(CORPORA[k_]) == len(v_) for k_, v_ in (("multi", CORPUS), ("lin", LIN_CORPUS), ("nls", NLS_CORPUS), ("bmv", BMV_CORPUS), ("big", BIG_CORPUS), ("det", DET_CORPUS))), "corpus ids must be unique"


# ============================================================================= driver

GEN = {"big": gen_big_case, "clock": gen_clock_case, "multi": gen_multi_case, "lin": gen_lin_case, "nls": gen_nls_case, "bmv": gen_bmv_case, "det": gen_det_case}


def run(ctx: Ctx):
    import mpmath
    mpmath.mp.dps = 50
    rng = ctx.rng
    torch.set_num_threads(2)
    q = ctx.quick
    seeds = lambda n: [rng.randrange(1 << 40) for _ in range(n)]
    # deterministic corner corpora first: detection of the scenario classes never depends on the seed
    run_multi(ctx, [dict(c) for c in CORPUS])
    run_lin(ctx, [dict(c) for c in LIN_CORPUS])
    run_bmv(ctx, [dict(c) for c in BMV_CORPUS])
    run_nls(ctx, [dict(c) for c in NLS_CORPUS], 10 ** 6)
    run_det(ctx, [dict(c) for c in DET_CORPUS] + [gen_det_case(s, q) for s in seeds(ctx.pick(40, 600))])
    run_big(ctx, [dict(c) for k_, c in enumerate(BIG_CORPUS) if (not q or k_ in BIG_QUICK)] + [gen_big_case(s, q) for s in seeds(ctx.pick(2, 30))])
    run_clock(ctx, [gen_clock_case(s, q) for s in seeds(ctx.pick(600, 6000))])
    run_multi(ctx, [gen_multi_case(s, q) for s in seeds(ctx.pick(400, 5000))])
    run_lin(ctx, [gen_lin_case(s, q) for s in seeds(ctx.pick(520, 8000))])
    run_bmv(ctx, [gen_bmv_case(s, q) for s in seeds(ctx.pick(300, 5000))])
    run_nls(ctx, [gen_nls_case(s, q) for s in seeds(ctx.pick(420, 7000))], ctx.pick(450, 9000))
    # (pass 10; drawn last so that the sub-seeds of all earlier streams are what they were)
    run_det(ctx, [gen_affrow_case(s, q) for s in seeds(ctx.pick(30, 400))])


def search(ctx: Ctx):
    """after a broken proof / correspondence: the same oracles (clock law, exact equations, mpmath Jacobians, affine
    reproduction, Lagrange bound) on a larger, differently seeded population; stops at the first failing input."""
    rng = random.Random(ctx.seed * 7919 + 15)
    for rnd in range(6):
        n0 = len(ctx.failures)
        run_clock(ctx, [gen_clock_case(rng.randrange(1 << 40), False) for _ in range(60)])
        run_multi(ctx, [dict(c) for c in CORPUS] + [gen_multi_case(rng.randrange(1 << 40), False) for _ in range(80)])
        if rnd == 0:
            run_lin(ctx, [dict(c) for c in LIN_CORPUS])
            run_bmv(ctx, [dict(c) for c in BMV_CORPUS])
            run_nls(ctx, [dict(c) for c in NLS_CORPUS], 10 ** 6)
        run_lin(ctx, [gen_lin_case(rng.randrange(1 << 40), False) for _ in range(100)])
        run_bmv(ctx, [gen_bmv_case(rng.randrange(1 << 40), False) for _ in range(80)])
        run_nls(ctx, [gen_nls_case(rng.randrange(1 << 40), False) for _ in range(80)], 200)
        if len(ctx.failures) > n0:
            return


def replay(ctx: Ctx, case) -> bool:
    c = case["case"]
    kind = c.get("kind")
    n0, d0, k0 = len(ctx.failures), len(ctx.disagreements), len(ctx.known_hits)
    full = dict(CORPORA[kind][c["corpus"]]) if "corpus" in c else (gen_affrow_case(c["seed"]) if c.get("sub") == "affrow" else GEN[kind](c["seed"], True))     # cases are functions of their sub-seed
    if kind == "clock":
        run_clock(ctx, [full])
    elif kind == "multi":
        run_multi(ctx, [full])
    elif kind == "big":
        run_big(ctx, [full])
    elif kind == "lin":
        run_lin(ctx, [full])
    elif kind == "bmv":
        run_bmv(ctx, [full])
    elif kind == "det":
        run_det(ctx, [full])
    else:
        run_nls(ctx, [full], 10 ** 6)
    for f in ctx.failures[n0:]:
        print("  fails:", f["what"])
    for f in ctx.known_hits[k0:]:
        print("  known finding", f["finding"], ":", f["what"])
    for d in ctx.disagreements[d0:]:
        print("  model/implementation disagreement:", d["stream"], d["detail"])
    return len(ctx.failures) == n0 and len(ctx.disagreements) == d0
