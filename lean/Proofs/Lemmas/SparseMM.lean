import Pose.Model.SparseMM
import Mathlib.Data.Matrix.Mul
import Mathlib.Data.Real.Basic
import Mathlib.Algebra.BigOperators.Fin
import Mathlib.Algebra.BigOperators.Group.Finset.Basic
import Mathlib.Algebra.BigOperators.Intervals
import Mathlib.Data.Matrix.Basic
/-!
# Lemmas for C10, block-sparse product: the two-pointer merge join computes the dense block product.
-/
namespace PP.SparseMM

/-- well-formed compressed structure with `s` compressed rows: pointers monotone, plain indices strictly
increasing inside every compressed row.  This is torch's DOCUMENTED invariant of compressed tensors; the constructors
`torch.sparse_bsr_tensor` / `sparse_bsc_tensor` do NOT check it unless `check_invariants=True` (tensors produced by
`to_sparse_bsr/bsc` satisfy it).  On an operand that violates it the merge join is silently wrong — outside this
hypothesis, hence outside the theorems (see notes/C10.md). -/
structure WF (ptr idx : Nat → Nat) (s : Nat) : Prop where
  mono : ∀ i, i < s → ptr i ≤ ptr (i+1)
  strict : ∀ i, i < s → ∀ a b, ptr i ≤ a → a < b → b < ptr (i+1) → idx a < idx b

/-- the partner of `k1` in the plain index range `[lo2, hi2)` of the other operand, if any -/
def partner (col row : Nat → Nat) (lo2 hi2 k1 : Nat) : Option Nat :=
  (List.range' lo2 (hi2 - lo2)).find? fun k2 => row k2 = col k1

/-- functional specification of one merge join: every `k1` in order, paired with its partner -/
def joinSpec (col row : Nat → Nat) (lo1 hi1 lo2 hi2 : Nat) : List (Nat × Nat) :=
  (List.range' lo1 (hi1 - lo1)).filterMap fun k1 => (partner col row lo2 hi2 k1).map fun k2 => (k1, k2)

theorem advance_spec (row : Nat → Nat) (c hi : Nat) : ∀ (fuel k2 : Nat), hi - k2 ≤ fuel → k2 < hi →
    k2 ≤ advance row c hi fuel k2 ∧ advance row c hi fuel k2 < hi ∧
    (∀ k', k2 ≤ k' → k' < advance row c hi fuel k2 → row k' < c) ∧
    (c ≤ row (advance row c hi fuel k2) ∨ advance row c hi fuel k2 + 1 = hi) := by
  intro fuel
  induction fuel with
  | zero => intro k2 h1 h2; omega
  | succ fuel ih =>
    intro k2 h1 h2
    unfold advance
    by_cases hcond : row k2 < c ∧ k2 + 1 < hi
    · rw [if_pos hcond]
      obtain ⟨a1, a2, a3, a4⟩ := ih (k2 + 1) (by omega) hcond.2
      refine ⟨by omega, a2, ?_, a4⟩
      intro k' hk1 hk2
      by_cases hk : k' = k2
      · subst hk; exact hcond.1
      · exact a3 k' (by omega) hk2
    · rw [if_neg hcond]
      refine ⟨Nat.le_refl _, h2, ?_, ?_⟩
      · intro k' hk1 hk2; omega
      · by_cases hr : row k2 < c
        · right
          have : ¬ (k2 + 1 < hi) := fun h => hcond ⟨hr, h⟩
          omega
        · left; omega

theorem find?_range'_eq_some (p : Nat → Bool) (k0 : Nat) : ∀ (n s : Nat),
    (∀ k, s ≤ k → k < k0 → p k = false) → s ≤ k0 → k0 < s + n → p k0 = true →
    (List.range' s n).find? p = some k0 := by
  intro n
  induction n with
  | zero => intro s _ h1 h2 _; omega
  | succ n ih =>
    intro s hlt h1 h2 hp
    rw [List.range'_succ, List.find?_cons]
    by_cases hs : s = k0
    · subst hs; rw [hp]
    · rw [hlt s (Nat.le_refl _) (by omega)]
      exact ih (s + 1) (fun k hk1 hk2 => hlt k (by omega) hk2) (by omega) (by omega) hp

theorem find?_range'_some_imp (p : Nat → Bool) (s n k0 : Nat)
    (h : (List.range' s n).find? p = some k0) : s ≤ k0 ∧ k0 < s + n ∧ p k0 = true := by
  have h1 := List.mem_of_find?_eq_some h
  have h2 := List.find?_some h
  rw [List.mem_range'_1] at h1
  exact ⟨h1.1, h1.2, h2⟩

theorem find?_range'_eq_none (p : Nat → Bool) (s n : Nat) :
    (List.range' s n).find? p = none ↔ ∀ k, s ≤ k → k < s + n → p k = false := by
  rw [List.find?_eq_none]
  constructor
  · intro h k h1 h2
    have := h k (List.mem_range'_1.2 ⟨h1, h2⟩)
    simpa using this
  · intro h k hk
    rw [List.mem_range'_1] at hk
    simp [h k hk.1 hk.2]

theorem partner_eq_some (col row : Nat → Nat) (lo2 hi2 k1 k2 : Nat)
    (hr : ∀ a b, lo2 ≤ a → a < b → b < hi2 → row a < row b) :
    partner col row lo2 hi2 k1 = some k2 ↔ lo2 ≤ k2 ∧ k2 < hi2 ∧ row k2 = col k1 := by
  unfold partner
  constructor
  · intro h
    obtain ⟨h1, h2, h3⟩ := find?_range'_some_imp _ _ _ _ h
    exact ⟨h1, by omega, by simpa using h3⟩
  · rintro ⟨h1, h2, h3⟩
    apply find?_range'_eq_some
    · intro k hk1 hk2
      have := hr k k2 hk1 hk2 h2
      simp only [decide_eq_false_iff_not]
      omega
    · exact h1
    · omega
    · simpa using h3

theorem partner_eq_none (col row : Nat → Nat) (lo2 hi2 k1 : Nat) (h2 : lo2 ≤ hi2) :
    partner col row lo2 hi2 k1 = none ↔ ∀ k, lo2 ≤ k → k < hi2 → row k ≠ col k1 := by
  unfold partner
  rw [find?_range'_eq_none]
  constructor
  · intro h k a b; simpa using h k a (by omega)
  · intro h k a b; simpa using h k a (by omega)

theorem joinRow_gen (col row : Nat → Nat) (lo1 hi1 lo2 hi2 : Nat) (hlt : lo2 < hi2)
    (hc : ∀ a b, lo1 ≤ a → a < b → b < hi1 → col a < col b)
    (hr : ∀ a b, lo2 ≤ a → a < b → b < hi2 → row a < row b) :
    ∀ (n a k2 : Nat), a + n ≤ hi1 → lo1 ≤ a → lo2 ≤ k2 → k2 < hi2 →
      (0 < n → ∀ k', lo2 ≤ k' → k' < k2 → row k' < col a) →
      joinRow col row hi2 (List.range' a n) k2 =
        (List.range' a n).filterMap fun k1 => (partner col row lo2 hi2 k1).map fun k2 => (k1, k2) := by
  intro n
  induction n with
  | zero => intro a k2 _ _ _ _ _; rfl
  | succ n ih =>
    intro a k2 han hla hlk hkh hinv
    have hinv' := hinv (Nat.succ_pos n)
    rw [List.range'_succ]
    unfold joinRow
    rw [if_neg (by omega)]
    obtain ⟨a1, a2, a3, a4⟩ := advance_spec row (col a) hi2 (hi2 - k2) k2 (Nat.le_refl _) hkh
    simp only []
    generalize advance row (col a) hi2 (hi2 - k2) k2 = k2' at a1 a2 a3 a4
    have hless : ∀ k', lo2 ≤ k' → k' < k2' → row k' < col a := by
      intro k' h1 h2
      by_cases hk : k' < k2
      · exact hinv' k' h1 hk
      · exact a3 k' (by omega) h2
    have hnext : 0 < n → ∀ k', lo2 ≤ k' → k' < k2' → row k' < col (a + 1) := by
      intro hn k' h1 h2
      have := hc a (a + 1) hla (by omega) (by omega)
      have := hless k' h1 h2
      omega
    have hrec := ih (a + 1) k2' (by omega) (by omega) (by omega) a2 hnext
    by_cases heq : row k2' = col a
    · rw [if_pos heq]
      have hp : partner col row lo2 hi2 a = some k2' :=
        (partner_eq_some col row lo2 hi2 a k2' hr).2 ⟨by omega, a2, heq⟩
      rw [List.filterMap_cons_some (b := (a, k2')) (by rw [hp]; rfl), hrec]
    · rw [if_neg heq]
      have hp : partner col row lo2 hi2 a = none := by
        rw [partner_eq_none col row lo2 hi2 a (by omega)]
        intro k h1 h2
        by_cases hk : k < k2'
        · have := hless k h1 hk; omega
        · by_cases hk' : k = k2'
          · subst hk'; exact heq
          · have := hr k2' k (by omega) (by omega) h2
            rcases a4 with a4 | a4
            · omega
            · omega
      rw [List.filterMap_cons_none (by rw [hp]; rfl), hrec]

/-- **The two-pointer loop equals its specification** for sorted, duplicate-free index runs. -/
theorem joinRow_eq_spec (col row : Nat → Nat) (lo1 hi1 lo2 hi2 : Nat) (h2 : lo2 ≤ hi2)
    (hc : ∀ a b, lo1 ≤ a → a < b → b < hi1 → col a < col b)
    (hr : ∀ a b, lo2 ≤ a → a < b → b < hi2 → row a < row b) :
    joinRow col row hi2 (List.range' lo1 (hi1 - lo1)) lo2 = joinSpec col row lo1 hi1 lo2 hi2 := by
  unfold joinSpec
  by_cases hlt : lo2 < hi2
  · by_cases h1 : hi1 ≤ lo1
    · rw [Nat.sub_eq_zero_of_le h1]; rfl
    apply joinRow_gen col row lo1 hi1 lo2 hi2 hlt hc hr
    · omega
    · exact Nat.le_refl _
    · exact Nat.le_refl _
    · exact hlt
    · intro _ k' h1 h2; omega
  · have he : lo2 = hi2 := by omega
    subst he
    have hnil : ∀ l : List Nat, joinRow col row lo2 l lo2 = [] := by
      intro l; cases l with
      | nil => rfl
      | cons x xs => unfold joinRow; rw [if_pos rfl]
    rw [hnil]
    symm
    rw [List.filterMap_eq_nil_iff]
    intro k1 _
    have : partner col row lo2 lo2 k1 = none := by
      rw [partner_eq_none col row lo2 lo2 k1 (Nat.le_refl _)]
      intro k a b; omega
    rw [this]; rfl


/-- one `(i, j)` cell of the loop nest equals its specification -/
theorem joinIJ_eq_spec (crow col ccol row : Nat → Nat) (sm sp : Nat) (hA : WF crow col sm) (hB : WF ccol row sp)
    (i j : Nat) (hi : i < sm) (hj : j < sp) :
    joinIJ crow col ccol row i j = joinSpec col row (crow i) (crow (i+1)) (ccol j) (ccol (j+1)) := by
  unfold joinIJ
  exact joinRow_eq_spec col row (crow i) (crow (i+1)) (ccol j) (ccol (j+1)) (hB.mono j hj)
    (hA.strict i hi) (hB.strict j hj)

theorem mem_joinSpec (col row : Nat → Nat) (lo1 hi1 lo2 hi2 : Nat)
    (hr : ∀ a b, lo2 ≤ a → a < b → b < hi2 → row a < row b) (k1 k2 : Nat) :
    (k1, k2) ∈ joinSpec col row lo1 hi1 lo2 hi2 ↔
      (lo1 ≤ k1 ∧ k1 < hi1) ∧ (lo2 ≤ k2 ∧ k2 < hi2) ∧ row k2 = col k1 := by
  unfold joinSpec
  rw [List.mem_filterMap]
  constructor
  · rintro ⟨a, ha, hf⟩
    rw [Option.map_eq_some_iff] at hf
    obtain ⟨b, hb, hab⟩ := hf
    have h1 : a = k1 := congrArg Prod.fst hab
    have h2 : b = k2 := congrArg Prod.snd hab
    subst h1; subst h2
    rw [List.mem_range'_1] at ha
    rw [partner_eq_some col row lo2 hi2 a b hr] at hb
    exact ⟨⟨ha.1, by omega⟩, ⟨hb.1, hb.2.1⟩, hb.2.2⟩
  · rintro ⟨⟨h1, h2⟩, ⟨h3, h4⟩, h5⟩
    refine ⟨k1, List.mem_range'_1.2 ⟨h1, by omega⟩, ?_⟩
    rw [(partner_eq_some col row lo2 hi2 k1 k2 hr).2 ⟨h3, h4, h5⟩]
    rfl

/-- the selected pairs are exactly the index coincidences of block row `i` and block column `j` -/
theorem mem_joinIJ (crow col ccol row : Nat → Nat) (sm sp : Nat) (hA : WF crow col sm) (hB : WF ccol row sp)
    (i j : Nat) (hi : i < sm) (hj : j < sp) (k1 k2 : Nat) :
    (k1, k2) ∈ joinIJ crow col ccol row i j ↔
      (crow i ≤ k1 ∧ k1 < crow (i+1)) ∧ (ccol j ≤ k2 ∧ k2 < ccol (j+1)) ∧ row k2 = col k1 := by
  rw [joinIJ_eq_spec crow col ccol row sm sp hA hB i j hi hj]
  exact mem_joinSpec col row _ _ _ _ (hB.strict j hj) k1 k2

theorem joinSpec_nodup (col row : Nat → Nat) (lo1 hi1 lo2 hi2 : Nat) :
    (joinSpec col row lo1 hi1 lo2 hi2).Nodup := by
  unfold joinSpec
  apply List.Nodup.filterMap _ List.nodup_range'
  intro a a' b hb hb'
  rw [Option.mem_def, Option.map_eq_some_iff] at hb hb'
  obtain ⟨x, _, hx⟩ := hb
  obtain ⟨y, _, hy⟩ := hb'
  have h1 : a = b.1 := by rw [← hx]
  have h2 : a' = b.1 := by rw [← hy]
  rw [h1, h2]

/-- every coincidence is selected once -/
theorem joinIJ_nodup (crow col ccol row : Nat → Nat) (sm sp : Nat) (hA : WF crow col sm) (hB : WF ccol row sp)
    (i j : Nat) (hi : i < sm) (hj : j < sp) : (joinIJ crow col ccol row i j).Nodup := by
  rw [joinIJ_eq_spec crow col ccol row sm sp hA hB i j hi hj]
  exact joinSpec_nodup _ _ _ _ _ _

theorem findIdx_eq_none (ptr idx : Nat → Nat) (i c : Nat) (h : ptr i ≤ ptr (i+1)) :
    findIdx ptr idx i c = none ↔ ∀ k, ptr i ≤ k → k < ptr (i+1) → idx k ≠ c := by
  unfold findIdx
  rw [find?_range'_eq_none]
  constructor
  · intro h k a b; simpa using h k a (by omega)
  · intro h k a b; simpa using h k a (by omega)

theorem findIdx_eq_some (ptr idx : Nat → Nat) (i c k : Nat)
    (hs : ∀ a b, ptr i ≤ a → a < b → b < ptr (i+1) → idx a < idx b) :
    findIdx ptr idx i c = some k ↔ ptr i ≤ k ∧ k < ptr (i+1) ∧ idx k = c := by
  unfold findIdx
  constructor
  · intro h
    obtain ⟨h1, h2, h3⟩ := find?_range'_some_imp _ _ _ _ h
    exact ⟨h1, by omega, by simpa using h3⟩
  · rintro ⟨h1, h2, h3⟩
    apply find?_range'_eq_some
    · intro k' hk1 hk2
      have := hs k' k hk1 hk2 h2
      simp only [decide_eq_false_iff_not]
      omega
    · exact h1
    · omega
    · simpa using h3

/-- no result block is produced exactly when block row `i` and block column `j` share no index -/
theorem joinIJ_eq_nil_iff (crow col ccol row : Nat → Nat) (sm sp : Nat) (hA : WF crow col sm) (hB : WF ccol row sp)
    (i j : Nat) (hi : i < sm) (hj : j < sp) :
    joinIJ crow col ccol row i j = [] ↔ ∀ c, findIdx crow col i c = none ∨ findIdx ccol row j c = none := by
  constructor
  · intro hnil c
    cases hf : findIdx crow col i c with
    | none => left; rfl
    | some k1 =>
      right
      rw [findIdx_eq_some crow col i c k1 (hA.strict i hi)] at hf
      rw [findIdx_eq_none ccol row j c (hB.mono j hj)]
      intro k2 h1 h2 h3
      have hm : (k1, k2) ∈ joinIJ crow col ccol row i j :=
        (mem_joinIJ crow col ccol row sm sp hA hB i j hi hj k1 k2).2
          ⟨⟨hf.1, hf.2.1⟩, ⟨h1, h2⟩, by rw [h3, hf.2.2]⟩
      rw [hnil] at hm
      exact List.not_mem_nil hm
  · intro h
    rw [List.eq_nil_iff_forall_not_mem]
    rintro ⟨k1, k2⟩ hm
    rw [mem_joinIJ crow col ccol row sm sp hA hB i j hi hj k1 k2] at hm
    obtain ⟨⟨h1, h2⟩, ⟨h3, h4⟩, h5⟩ := hm
    rcases h (col k1) with hn | hn
    · rw [findIdx_eq_none crow col i _ (hA.mono i hi)] at hn
      exact hn k1 h1 h2 rfl
    · rw [findIdx_eq_none ccol row j _ (hB.mono j hj)] at hn
      exact hn k2 h3 h4 h5


section values
variable {β₁ β₂ β₃ : Type} [AddCommMonoid β₃] (mul : β₁ → β₂ → β₃) (z₁ : β₁) (z₂ : β₂)

theorem blockSum_eq_sum (va : Nat → β₁) (vb : Nat → β₂) (ps : List (Nat × Nat)) :
    blockSum 0 (· + ·) mul va vb ps = (ps.map fun p => mul (va p.1) (vb p.2)).sum := by
  unfold blockSum
  have key : ∀ (z : β₃), ps.foldl (fun acc p => acc + mul (va p.1) (vb p.2)) z
      = z + (ps.map fun p => mul (va p.1) (vb p.2)).sum := by
    induction ps with
    | nil => intro z; simp
    | cons p ps ih => intro z; rw [List.foldl_cons, ih, List.map_cons, List.sum_cons, add_assoc]
  rw [key, zero_add]

/-- contribution of `k1` to the block sum: its product with the partner block, if any -/
def pairTerm (col row : Nat → Nat) (va : Nat → β₁) (vb : Nat → β₂) (lo2 hi2 k1 : Nat) : β₃ :=
  match partner col row lo2 hi2 k1 with
  | some k2 => mul (va k1) (vb k2)
  | none => 0

theorem sum_joinSpec (col row : Nat → Nat) (va : Nat → β₁) (vb : Nat → β₂) (lo2 hi2 : Nat) (l : List Nat) :
    ((l.filterMap fun k1 => (partner col row lo2 hi2 k1).map fun k2 => (k1, k2)).map
        fun p => mul (va p.1) (vb p.2)).sum
      = (l.map (pairTerm mul col row va vb lo2 hi2)).sum := by
  induction l with
  | nil => rfl
  | cons k l ih =>
    rw [List.map_cons, List.sum_cons, ← ih]
    unfold pairTerm
    cases hp : partner col row lo2 hi2 k with
    | none =>
      rw [List.filterMap_cons_none (by rw [hp]; rfl)]
      simp only [zero_add]
    | some k2 =>
      rw [List.filterMap_cons_some (b := (k, k2)) (by rw [hp]; rfl), List.map_cons, List.sum_cons]

theorem list_sum_range' (h : Nat → β₃) : ∀ (n s : Nat),
    ((List.range' s n).map h).sum = ∑ k ∈ Finset.Ico s (s + n), h k := by
  intro n
  induction n with
  | zero => intro s; simp
  | succ n ih =>
    intro s
    have e : s + 1 + n = s + (n + 1) := by omega
    rw [List.range'_succ, List.map_cons, List.sum_cons, ih (s + 1), e,
      Finset.sum_eq_sum_Ico_succ_bot (by omega : s < s + (n + 1))]

/-- **Merge join = dense block product**: the accumulated block of cell `(i, j)` is `Σ_c A[i,c] · B[c,j]`
over all `sn` inner block indices, where absent blocks read as zero blocks. -/
theorem blockSum_eq_dense (hz1 : ∀ y, mul z₁ y = 0) (hz2 : ∀ x, mul x z₂ = 0)
    (crow col ccol row : Nat → Nat) (va : Nat → β₁) (vb : Nat → β₂)
    (sm sn sp : Nat) (hA : WF crow col sm) (hB : WF ccol row sp)
    (i j : Nat) (hi : i < sm) (hj : j < sp)
    (hcol : ∀ k1, crow i ≤ k1 → k1 < crow (i+1) → col k1 < sn) :
    blockSum 0 (· + ·) mul va vb (joinIJ crow col ccol row i j)
      = ∑ c ∈ Finset.range sn, mul (getBlock z₁ crow col va i c) (getBlock z₂ ccol row vb j c) := by
  have hm := hA.mono i hi
  rw [blockSum_eq_sum, joinIJ_eq_spec crow col ccol row sm sp hA hB i j hi hj]
  unfold joinSpec
  rw [sum_joinSpec, list_sum_range', Nat.add_sub_cancel' hm]
  -- the right-hand side: restrict to the image of `col` on block row `i`
  have hinj : ∀ x ∈ Finset.Ico (crow i) (crow (i+1)), ∀ y ∈ Finset.Ico (crow i) (crow (i+1)),
      col x = col y → x = y := by
    intro x hx y hy hxy
    rw [Finset.mem_Ico] at hx hy
    rcases Nat.lt_trichotomy x y with h | h | h
    · have := hA.strict i hi x y hx.1 h hy.2; omega
    · exact h
    · have := hA.strict i hi y x hy.1 h hx.2; omega
  have hsub : (Finset.Ico (crow i) (crow (i+1))).image col ⊆ Finset.range sn := by
    intro c hc
    rw [Finset.mem_image] at hc
    obtain ⟨k, hk, rfl⟩ := hc
    rw [Finset.mem_Ico] at hk
    exact Finset.mem_range.2 (hcol k hk.1 hk.2)
  rw [← Finset.sum_subset hsub, Finset.sum_image hinj]
  · apply Finset.sum_congr rfl
    intro k hk
    rw [Finset.mem_Ico] at hk
    have h1 : findIdx crow col i (col k) = some k :=
      (findIdx_eq_some crow col i (col k) k (hA.strict i hi)).2 ⟨hk.1, hk.2, rfl⟩
    have h2 : findIdx ccol row j (col k) = partner col row (ccol j) (ccol (j+1)) k := rfl
    unfold pairTerm getBlock
    rw [h1, h2]
    cases partner col row (ccol j) (ccol (j+1)) k with
    | none => exact (hz2 _).symm
    | some k2 => rfl
  · intro c _ hc
    have h1 : findIdx crow col i c = none := by
      rw [findIdx_eq_none crow col i c hm]
      intro k hk1 hk2 hk3
      exact hc (Finset.mem_image.2 ⟨k, Finset.mem_Ico.2 ⟨hk1, hk2⟩, hk3⟩)
    unfold getBlock
    rw [h1]
    exact hz1 _
end values


/-- the cells emitted for block row `i` (the `for j` loop) -/
def rowCells (sp : Nat) (crow col ccol row : Nat → Nat) (i : Nat) : List (Nat × Nat × List (Nat × Nat)) :=
  (List.range sp).filterMap fun j =>
    let ps := joinIJ crow col ccol row i j
    if ps.isEmpty then none else some (i, j, ps)

theorem joinAll_eq_flatMap (sm sp : Nat) (crow col ccol row : Nat → Nat) :
    joinAll sm sp crow col ccol row = (List.range sm).flatMap (rowCells sp crow col ccol row) := rfl

theorem rowCells_fn_eq_some (crow col ccol row : Nat → Nat) (i j : Nat) (b : Nat × Nat × List (Nat × Nat)) :
    (let ps := joinIJ crow col ccol row i j
     if ps.isEmpty then none else some (i, j, ps)) = some b ↔
      joinIJ crow col ccol row i j ≠ [] ∧ b = (i, j, joinIJ crow col ccol row i j) := by
  simp only []
  by_cases he : (joinIJ crow col ccol row i j).isEmpty = true
  · rw [if_pos he]
    rw [List.isEmpty_iff] at he
    constructor
    · intro h; cases h
    · intro h; exact absurd he h.1
  · rw [if_neg he]
    rw [List.isEmpty_iff] at he
    constructor
    · intro h; exact ⟨he, (Option.some.inj h).symm⟩
    · intro h; rw [h.2]

theorem mem_rowCells (sp : Nat) (crow col ccol row : Nat → Nat) (i : Nat) (b : Nat × Nat × List (Nat × Nat)) :
    b ∈ rowCells sp crow col ccol row i ↔
      ∃ j, j < sp ∧ joinIJ crow col ccol row i j ≠ [] ∧ b = (i, j, joinIJ crow col ccol row i j) := by
  unfold rowCells
  rw [List.mem_filterMap]
  constructor
  · rintro ⟨j, hj, hf⟩
    rw [rowCells_fn_eq_some] at hf
    exact ⟨j, List.mem_range.1 hj, hf⟩
  · rintro ⟨j, hj, hf⟩
    exact ⟨j, List.mem_range.2 hj, (rowCells_fn_eq_some crow col ccol row i j b).2 hf⟩

theorem rowCells_fst (sp : Nat) (crow col ccol row : Nat → Nat) (i : Nat) :
    ∀ b ∈ rowCells sp crow col ccol row i, b.1 = i := by
  intro b hb
  rw [mem_rowCells] at hb
  obtain ⟨j, _, _, rfl⟩ := hb
  rfl

theorem rowCells_sorted (sp : Nat) (crow col ccol row : Nat → Nat) (i : Nat) :
    (rowCells sp crow col ccol row i).Pairwise (fun a b => a.2.1 < b.2.1) := by
  unfold rowCells
  rw [List.pairwise_filterMap]
  apply List.Pairwise.imp _ List.pairwise_lt_range
  intro j j' hjj b hb b' hb'
  rw [rowCells_fn_eq_some] at hb hb'
  rw [hb.2, hb'.2]
  exact hjj

/-- the emitted cells: exactly the `(i, j)` with a non-empty join, each with its own pairs -/
theorem mem_joinAll (sm sp : Nat) (crow col ccol row : Nat → Nat) (i j : Nat) (ps : List (Nat × Nat)) :
    (i, j, ps) ∈ joinAll sm sp crow col ccol row ↔
      i < sm ∧ j < sp ∧ ps = joinIJ crow col ccol row i j ∧ ps ≠ [] := by
  rw [joinAll_eq_flatMap, List.mem_flatMap]
  constructor
  · rintro ⟨i', hi', hb⟩
    rw [mem_rowCells] at hb
    obtain ⟨j', hj', hne, heq⟩ := hb
    have h1 : i = i' := congrArg Prod.fst heq
    have h2 : j = j' := congrArg (fun x => x.2.1) heq
    have h3 : ps = joinIJ crow col ccol row i' j' := congrArg (fun x => x.2.2) heq
    subst h1; subst h2
    exact ⟨List.mem_range.1 hi', hj', h3, by rw [h3]; exact hne⟩
  · rintro ⟨hi, hj, hps, hne⟩
    refine ⟨i, List.mem_range.2 hi, ?_⟩
    rw [mem_rowCells]
    exact ⟨j, hj, by rw [← hps]; exact hne, by rw [hps]⟩

/-- cells are emitted in strictly increasing row-major order, so `coalesce()` keeps their order and
`reduced[result_step]` lines up with the CSR order of the result. -/
theorem joinAll_sorted (sm sp : Nat) (crow col ccol row : Nat → Nat) :
    (joinAll sm sp crow col ccol row).Pairwise
      (fun a b => a.1 < b.1 ∨ (a.1 = b.1 ∧ a.2.1 < b.2.1)) := by
  rw [joinAll_eq_flatMap, List.pairwise_flatMap]
  constructor
  · intro i _
    apply List.Pairwise.imp_of_mem _ (rowCells_sorted sp crow col ccol row i)
    intro a b ha hb hab
    right
    exact ⟨by rw [rowCells_fst _ _ _ _ _ _ a ha, rowCells_fst _ _ _ _ _ _ b hb], hab⟩
  · apply List.Pairwise.imp _ List.pairwise_lt_range
    intro i i' hii a ha b hb
    left
    rw [rowCells_fst _ _ _ _ _ _ a ha, rowCells_fst _ _ _ _ _ _ b hb]
    exact hii


theorem range_split (sm i : Nat) (hi : i < sm) :
    List.range sm = List.range i ++ i :: List.range' (i+1) (sm - (i+1)) := by
  have e : sm = i + ((sm - (i+1)) + 1) := by omega
  conv_lhs => rw [e]
  rw [List.range_eq_range', List.range_eq_range', ← List.range'_append_1, Nat.zero_add,
    List.range'_succ]

theorem joinAll_split (sm sp : Nat) (crow col ccol row : Nat → Nat) (i : Nat) (hi : i < sm) :
    ∃ L1 L2, joinAll sm sp crow col ccol row = L1 ++ rowCells sp crow col ccol row i ++ L2 ∧
      (∀ b ∈ L1, b.1 < i) ∧ (∀ b ∈ L2, i < b.1) := by
  refine ⟨(List.range i).flatMap (rowCells sp crow col ccol row),
    (List.range' (i+1) (sm - (i+1))).flatMap (rowCells sp crow col ccol row), ?_, ?_, ?_⟩
  · rw [joinAll_eq_flatMap, range_split sm i hi, List.flatMap_append, List.flatMap_cons,
      List.append_assoc]
  · intro b hb
    rw [List.mem_flatMap] at hb
    obtain ⟨i', hi', hb⟩ := hb
    rw [rowCells_fst _ _ _ _ _ _ b hb]
    exact List.mem_range.1 hi'
  · intro b hb
    rw [List.mem_flatMap] at hb
    obtain ⟨i', hi', hb⟩ := hb
    rw [rowCells_fst _ _ _ _ _ _ b hb]
    rw [List.mem_range'_1] at hi'
    omega

theorem filter_seg_length {α : Type} (f : α → Nat) (L1 M L2 : List α) (i : Nat)
    (h1 : ∀ b ∈ L1, f b < i) (hM : ∀ b ∈ M, f b = i) (h2 : ∀ b ∈ L2, i < f b) :
    ((L1 ++ M ++ L2).filter fun b => f b < i).length = L1.length ∧
    ((L1 ++ M ++ L2).filter fun b => f b < i + 1).length = L1.length + M.length := by
  constructor
  · rw [List.filter_append, List.filter_append,
      List.filter_eq_self.2 (fun b hb => by simpa using h1 b hb),
      List.filter_eq_nil_iff.2 (fun b hb => by have := hM b hb; simp; omega),
      List.filter_eq_nil_iff.2 (fun b hb => by have := h2 b hb; simp; omega)]
    simp
  · rw [List.filter_append, List.filter_append,
      List.filter_eq_self.2 (fun b hb => by have := h1 b hb; simp; omega),
      List.filter_eq_self.2 (fun b hb => by have := hM b hb; simp; omega),
      List.filter_eq_nil_iff.2 (fun b hb => by have := h2 b hb; simp; omega)]
    simp

theorem getD_map_seg {α β : Type} (f : α → β) (d : β) (L1 M L2 : List α) (t : Nat) (ht : t < M.length) :
    ((L1 ++ M ++ L2).map f).getD (L1.length + t) d = f (M[t]) := by
  rw [List.getD_eq_getElem?_getD, List.getElem?_map, List.append_assoc,
    List.getElem?_append_right (Nat.le_add_right _ _), Nat.add_sub_cancel_left,
    List.getElem?_append_left ht, List.getElem?_eq_getElem ht]
  rfl

theorem resultCrow_getD' (sm : Nat) (blocks : List (Nat × Nat × List (Nat × Nat))) (t : Nat) (ht : t ≤ sm) :
    (resultCrow sm blocks).getD t 0 = (blocks.filter fun b => b.1 < t).length := by
  unfold resultCrow
  rw [List.getD_eq_getElem?_getD, List.getElem?_map, List.getElem?_range (by omega)]
  rfl

/-- the segment of the emitted list that belongs to block row `i`, with the two crow pointers -/
theorem result_row_seg (sm sp : Nat) (crow col ccol row : Nat → Nat) (i : Nat) (hi : i < sm) :
    ∃ L1 L2, joinAll sm sp crow col ccol row = L1 ++ rowCells sp crow col ccol row i ++ L2 ∧
      (resultCrow sm (joinAll sm sp crow col ccol row)).getD i 0 = L1.length ∧
      (resultCrow sm (joinAll sm sp crow col ccol row)).getD (i+1) 0
        = L1.length + (rowCells sp crow col ccol row i).length := by
  obtain ⟨L1, L2, h, h1, h2⟩ := joinAll_split sm sp crow col ccol row i hi
  refine ⟨L1, L2, h, ?_, ?_⟩
  · rw [resultCrow_getD' sm _ i (by omega), h]
    exact (filter_seg_length (fun b => b.1) L1 _ L2 i h1 (rowCells_fst sp crow col ccol row i) h2).1
  · rw [resultCrow_getD' sm _ (i+1) (by omega), h]
    exact (filter_seg_length (fun b => b.1) L1 _ L2 i h1 (rowCells_fst sp crow col ccol row i) h2).2

section result
variable {β₁ β₂ β₃ : Type} [AddCommMonoid β₃] (mul : β₁ → β₂ → β₃) (z₁ : β₁) (z₂ : β₂)

/-- the result triple is a well-formed BSR structure with `sm` block rows and block columns `< sp` -/
theorem bsrBscMatmul_wf (sm sp : Nat) (crow col ccol row : Nat → Nat) (va : Nat → β₁) (vb : Nat → β₂) :
    let R := bsrBscMatmul (0 : β₃) (· + ·) mul sm sp crow col va ccol row vb
    WF (fun t => R.1.getD t 0) (fun t => R.2.1.getD t 0) sm ∧
    R.2.1.length = R.2.2.length ∧ R.1.getD 0 0 = 0 ∧ R.1.getD sm 0 = R.2.1.length ∧
    ∀ t, t < R.2.1.length → R.2.1.getD t 0 < sp := by
  intro R
  have hR1 : R.1 = resultCrow sm (joinAll sm sp crow col ccol row) := rfl
  have hR2 : R.2.1 = (joinAll sm sp crow col ccol row).map (·.2.1) := rfl
  have hR3 : R.2.2 = (joinAll sm sp crow col ccol row).map
      fun b => blockSum (0 : β₃) (· + ·) mul va vb b.2.2 := rfl
  rw [hR1, hR2, hR3]
  refine ⟨⟨?_, ?_⟩, ?_, ?_, ?_, ?_⟩
  · intro i hi
    obtain ⟨L1, L2, _, e1, e2⟩ := result_row_seg sm sp crow col ccol row i hi
    show (resultCrow sm _).getD i 0 ≤ (resultCrow sm _).getD (i+1) 0
    rw [e1, e2]; omega
  · intro i hi a b hab1 hab2 hab3
    obtain ⟨L1, L2, h, e1, e2⟩ := result_row_seg sm sp crow col ccol row i hi
    change (resultCrow sm _).getD i 0 ≤ a at hab1
    change b < (resultCrow sm _).getD (i+1) 0 at hab3
    rw [e1] at hab1
    rw [e2] at hab3
    show ((joinAll sm sp crow col ccol row).map (·.2.1)).getD a 0
      < ((joinAll sm sp crow col ccol row).map (·.2.1)).getD b 0
    obtain ⟨ta, rfl⟩ : ∃ ta, a = L1.length + ta := ⟨a - L1.length, by omega⟩
    obtain ⟨tb, rfl⟩ : ∃ tb, b = L1.length + tb := ⟨b - L1.length, by omega⟩
    have htb : tb < (rowCells sp crow col ccol row i).length := by omega
    have hta : ta < (rowCells sp crow col ccol row i).length := by omega
    rw [h, getD_map_seg _ _ _ _ _ ta hta, getD_map_seg _ _ _ _ _ tb htb]
    exact (List.pairwise_iff_getElem.1 (rowCells_sorted sp crow col ccol row i)) ta tb hta htb
      (by omega)
  · rw [List.length_map, List.length_map]
  · rw [resultCrow_getD' sm _ 0 (by omega)]
    rw [List.filter_eq_nil_iff.2 (fun b _ => by simp)]
    rfl
  · rw [resultCrow_getD' sm _ sm (Nat.le_refl _), List.length_map, List.filter_eq_self.2]
    rintro ⟨i, j, ps⟩ hb
    rw [mem_joinAll] at hb
    simpa using hb.1
  · intro t ht
    rw [List.length_map] at ht
    rw [List.getD_eq_getElem?_getD, List.getElem?_map, List.getElem?_eq_getElem ht]
    show ((joinAll sm sp crow col ccol row)[t]).2.1 < sp
    have hm := List.getElem_mem ht
    generalize (joinAll sm sp crow col ccol row)[t] = b at hm
    obtain ⟨i, j, ps⟩ := b
    rw [mem_joinAll] at hm
    exact hm.2.1

/-- **`bsr_bsc_matmul` returns the dense product** (block level, read back through the same dense
semantics as the operands): every block `(i, j)` of the result is `Σ_c A[i,c] · B[c,j]`. -/
theorem bsrBscMatmul_dense (hz1 : ∀ y, mul z₁ y = 0) (hz2 : ∀ x, mul x z₂ = 0)
    (crow col ccol row : Nat → Nat) (va : Nat → β₁) (vb : Nat → β₂)
    (sm sn sp : Nat) (hA : WF crow col sm) (hB : WF ccol row sp)
    (hcol : ∀ i, i < sm → ∀ k1, crow i ≤ k1 → k1 < crow (i+1) → col k1 < sn)
    (i j : Nat) (hi : i < sm) (hj : j < sp) :
    let R := bsrBscMatmul (0 : β₃) (· + ·) mul sm sp crow col va ccol row vb
    getBlock (0 : β₃) (fun t => R.1.getD t 0) (fun t => R.2.1.getD t 0) (fun t => R.2.2.getD t 0) i j
      = ∑ c ∈ Finset.range sn, mul (getBlock z₁ crow col va i c) (getBlock z₂ ccol row vb j c) := by
  intro R
  have hR1 : R.1 = resultCrow sm (joinAll sm sp crow col ccol row) := rfl
  have hR2 : R.2.1 = (joinAll sm sp crow col ccol row).map (·.2.1) := rfl
  have hR3 : R.2.2 = (joinAll sm sp crow col ccol row).map
      fun b => blockSum (0 : β₃) (· + ·) mul va vb b.2.2 := rfl
  rw [hR1, hR2, hR3]
  obtain ⟨L1, L2, h, e1, e2⟩ := result_row_seg sm sp crow col ccol row i hi
  rw [← blockSum_eq_dense mul z₁ z₂ hz1 hz2 crow col ccol row va vb sm sn sp hA hB i j hi hj
    (hcol i hi)]
  unfold getBlock
  cases hf : findIdx (fun t => (resultCrow sm (joinAll sm sp crow col ccol row)).getD t 0)
      (fun t => ((joinAll sm sp crow col ccol row).map (·.2.1)).getD t 0) i j with
  | none =>
    show (0 : β₃) = _
    have hle : (resultCrow sm (joinAll sm sp crow col ccol row)).getD i 0
        ≤ (resultCrow sm (joinAll sm sp crow col ccol row)).getD (i+1) 0 := by
      rw [e1, e2]; omega
    rw [findIdx_eq_none _ _ _ _ hle] at hf
    have hnil : joinIJ crow col ccol row i j = [] := by
      by_contra hne
      have hm : (i, j, joinIJ crow col ccol row i j) ∈ rowCells sp crow col ccol row i :=
        (mem_rowCells sp crow col ccol row i _).2 ⟨j, hj, hne, rfl⟩
      obtain ⟨t, ht, het⟩ := List.mem_iff_getElem.1 hm
      apply hf (L1.length + t)
      · show (resultCrow sm _).getD i 0 ≤ _
        rw [e1]; omega
      · show _ < (resultCrow sm _).getD (i+1) 0
        rw [e2]; omega
      · show ((joinAll sm sp crow col ccol row).map (·.2.1)).getD (L1.length + t) 0 = j
        rw [h, getD_map_seg _ _ _ _ _ t ht, het]
    rw [hnil]
    rfl
  | some k =>
    show ((joinAll sm sp crow col ccol row).map
      fun b => blockSum (0 : β₃) (· + ·) mul va vb b.2.2).getD k 0 = _
    unfold findIdx at hf
    obtain ⟨h1, h2, h3⟩ := find?_range'_some_imp _ _ _ _ hf
    change (resultCrow sm _).getD i 0 ≤ k at h1
    change k < (resultCrow sm _).getD i 0 + ((resultCrow sm _).getD (i+1) 0 - (resultCrow sm _).getD i 0) at h2
    rw [e1] at h1
    rw [e1, e2] at h2
    obtain ⟨t, rfl⟩ : ∃ t, k = L1.length + t := ⟨k - L1.length, by omega⟩
    have ht : t < (rowCells sp crow col ccol row i).length := by omega
    have h3' : ((joinAll sm sp crow col ccol row).map (·.2.1)).getD (L1.length + t) 0 = j := by
      simpa using h3
    rw [h, getD_map_seg _ _ _ _ _ t ht] at h3'
    rw [h, getD_map_seg _ _ _ _ _ t ht]
    have hm := List.getElem_mem ht
    rw [mem_rowCells] at hm
    obtain ⟨j', _, _, hb⟩ := hm
    rw [hb] at h3'
    have hjj : j' = j := h3'
    rw [hb, hjj]
end result


/-! ## block-wise products are the dense product -/
section denseBlocks
variable {R : Type} [Semiring R] {sm sn sp dm dn dp : Nat}

/-- the dense matrix of a grid of blocks (`.to_dense()` of a block layout) -/
def denseOf {a b c d : Nat} (X : Fin a → Fin c → Matrix (Fin b) (Fin d) R) :
    Matrix (Fin a × Fin b) (Fin c × Fin d) R :=
  fun p q => X p.1 q.1 p.2 q.2

/-- the block-level formula `C[i,j] = Σ_c A[i,c] · B[c,j]` is the ordinary matrix product -/
theorem denseOf_blockMul (A : Fin sm → Fin sn → Matrix (Fin dm) (Fin dn) R)
    (B : Fin sn → Fin sp → Matrix (Fin dn) (Fin dp) R) :
    denseOf (fun i j => ∑ c, A i c * B c j) = denseOf A * denseOf B := by
  ext ⟨i, r⟩ ⟨j, s⟩
  simp only [denseOf, Matrix.mul_apply, Matrix.sum_apply, Fintype.sum_prod_type]
end denseBlocks

section toDense
open Matrix
variable {dm dn dp : Nat}

/-- `.to_dense()` of a block-CSR structure with `sm × sn` blocks of size `dm × dn` -/
def denseBSR (sm sn : Nat) (crow col : Nat → Nat) (va : Nat → Matrix (Fin dm) (Fin dn) ℝ) :
    Matrix (Fin sm × Fin dm) (Fin sn × Fin dn) ℝ :=
  fun p q => getBlock 0 crow col va p.1.val q.1.val p.2 q.2

/-- `.to_dense()` of a block-CSC structure with `sn × sp` blocks of size `dn × dp` -/
def denseBSC (sn sp : Nat) (ccol row : Nat → Nat) (vb : Nat → Matrix (Fin dn) (Fin dp) ℝ) :
    Matrix (Fin sn × Fin dn) (Fin sp × Fin dp) ℝ :=
  fun p q => getBlock 0 ccol row vb q.1.val p.1.val p.2 q.2

/-- **`bsr_bsc_matmul(A, B).to_dense() = A.to_dense() @ B.to_dense()`** as real matrices, for every block grid, every
block size and every pair of well-formed sparsity patterns. -/
theorem bsrBscMatmul_toDense (sm sn sp : Nat) (crow col ccol row : Nat → Nat)
    (va : Nat → Matrix (Fin dm) (Fin dn) ℝ) (vb : Nat → Matrix (Fin dn) (Fin dp) ℝ)
    (hA : WF crow col sm) (hB : WF ccol row sp)
    (hcol : ∀ i, i < sm → ∀ k1, crow i ≤ k1 → k1 < crow (i+1) → col k1 < sn) :
    let R := bsrBscMatmul (0 : Matrix (Fin dm) (Fin dp) ℝ) (· + ·) (fun x y => x * y) sm sp crow col va ccol row vb
    denseBSR sm sp (fun t => R.1.getD t 0) (fun t => R.2.1.getD t 0) (fun t => R.2.2.getD t 0)
      = denseBSR sm sn crow col va * denseBSC sn sp ccol row vb := by
  intro R
  ext ⟨i, a⟩ ⟨j, c⟩
  have h := bsrBscMatmul_dense (fun (x : Matrix (Fin dm) (Fin dn) ℝ) (y : Matrix (Fin dn) (Fin dp) ℝ) => x * y) 0 0
    (fun y => Matrix.zero_mul y) (fun x => Matrix.mul_zero x) crow col ccol row va vb sm sn sp hA hB hcol
    i.val j.val i.isLt j.isLt
  simp only [denseBSR, denseBSC, Matrix.mul_apply, Fintype.sum_prod_type]
  rw [h, Matrix.sum_apply, Finset.sum_range]
  apply Finset.sum_congr rfl
  intro k _
  rw [Matrix.mul_apply]

/-- accepted arguments of `bsr_bsc_matmul` fit together: equal inner dimension, equal inner block size, and the
block grid tiles the matrices exactly -/
theorem bsrBscGuard_ok (m n n' p dm dn dn' dp sm sn sp : Nat)
    (h : bsrBscGuard m n n' p dm dn dn' dp = .ok (sm, sn, sp)) :
    n = n' ∧ dn = dn' ∧ sm * dm = m ∧ sn * dn = n ∧ sp * dp = p := by
  unfold bsrBscGuard at h
  split at h
  · cases h
  · split at h
    · cases h
    · split at h
      · cases h
      · rename_i h1 h2 h3
        simp only [Except.ok.injEq, Prod.mk.injEq] at h
        obtain ⟨rfl, rfl, rfl⟩ := h
        push Not at h1 h2 h3
        refine ⟨h1, h3, ?_, ?_, ?_⟩
        · rw [Nat.mul_comm]; exact h2.1
        · rw [Nat.mul_comm]; exact h2.2.1
        · rw [Nat.mul_comm]; exact h2.2.2
end toDense

end PP.SparseMM
