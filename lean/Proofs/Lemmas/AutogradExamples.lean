/-
C04: concrete values used by the non-vacuity `example`s of `Props/C04.lean` — the quarter turn about the x-axis,
`q = (√2/2, 0, 0, √2/2)`, whose logarithm is `(π/2, 0, 0)`, at any threshold `eps < 0.7` (in particular `eps = 1/2 > 0`).
-/
import Proofs.Lemmas.AutogradBatch
set_option linter.unusedSimpArgs false
set_option linter.unusedVariables false
namespace PP.AD
open PP

/-- `√2/2` -/
noncomputable def qr : ℝ := Real.sqrt 2 / 2

theorem qr_pos : 0 < qr := by unfold qr; positivity
theorem qr_sq : qr * qr = 1/2 := by
  unfold qr; have := Real.mul_self_sqrt (show (0:ℝ) ≤ 2 by norm_num); nlinarith
theorem qr_gt : (7:ℝ)/10 < qr := by
  have h := qr_sq; have hp := qr_pos; nlinarith
theorem qr_lt : qr < 1 := by
  have h := qr_sq; have hp := qr_pos; nlinarith

theorem quarter_vnorm : (⟨qr, 0, 0, qr⟩ : Quat ℝ).vec.norm = qr := by
  simp only [Vec3.norm, Vec3.normSq, Quat.vec, sqrt_real]
  rw [show qr * qr + 0 * 0 + 0 * 0 = qr * qr by ring]; exact Real.sqrt_mul_self (le_of_lt qr_pos)

theorem quarter_w : |(⟨qr, 0, 0, qr⟩ : Quat ℝ).w| = qr := abs_of_pos qr_pos

theorem quarter_SO3Log (eps : ℝ) (h : eps < 7/10) : SO3Log eps (⟨qr, 0, 0, qr⟩ : Quat ℝ) = ⟨Real.pi / 2, 0, 0⟩ := by
  have h1 : eps < (⟨qr, 0, 0, qr⟩ : Quat ℝ).vec.norm := by rw [quarter_vnorm]; exact lt_trans h qr_gt
  have h2 : eps < |(⟨qr, 0, 0, qr⟩ : Quat ℝ).w| := by rw [quarter_w]; exact lt_trans h qr_gt
  rw [SO3Log_regime1 eps _ h1 h2, quarter_vnorm]
  simp only [Quat.vec, Vec3.smul, div_self (ne_of_gt qr_pos), Real.arctan_one]
  ext <;> simp
  have := qr_pos
  field_simp
  norm_num

theorem pihalf_norm : (⟨Real.pi / 2, 0, 0⟩ : Vec3 ℝ).norm = Real.pi / 2 := by
  simp only [Vec3.norm, Vec3.normSq, sqrt_real]
  rw [show Real.pi / 2 * (Real.pi / 2) + 0 * 0 + 0 * 0 = (Real.pi / 2) * (Real.pi / 2) by ring]
  exact Real.sqrt_mul_self (by positivity)

theorem pihalf_gt : (1:ℝ) ≤ Real.pi / 2 := by have := Real.two_le_pi; linarith

theorem sin_quarter_ne : Real.sin (1/2 * (Real.pi / 2)) ≠ 0 := by
  rw [show 1/2 * (Real.pi / 2) = Real.pi / 4 by ring, Real.sin_pi_div_four]; positivity

/-- `logF` of the quarter turn, as a list -/
theorem quarter_logF (eps : ℝ) (h : eps < 7/10) : logF .SO3 eps [qr, 0, 0, qr] = [Real.pi / 2, 0, 0] := by
  have e : qt ([qr, 0, 0, qr] : DVec ℝ) = ⟨qr, 0, 0, qr⟩ := by simp [qt]
  simp only [logF, e, quarter_SO3Log eps h]
  simp [Vec3.toList]

end PP.AD
