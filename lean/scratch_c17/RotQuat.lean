import Proofs.Lemmas.Align
namespace PP
open Vec3 Quat Mat3

/-- the 21 polynomial relations among the entries `(a b c / d e f / g h i)` of a proper rotation matrix:
rows orthonormal, columns orthonormal, every entry equals its cofactor -/
structure RotEqs (a b c d e f g h i : ℝ) : Prop where
  hr00 : a*a + b*b + c*c = 1
  hr01 : a*d + b*e + c*f = 0
  hr02 : a*g + b*h + c*i = 0
  hr11 : d*d + e*e + f*f = 1
  hr12 : d*g + e*h + f*i = 0
  hr22 : g*g + h*h + i*i = 1
  hc00 : a*a + d*d + g*g = 1
  hc01 : a*b + d*e + g*h = 0
  hc02 : a*c + d*f + g*i = 0
  hc11 : b*b + e*e + h*h = 1
  hc12 : b*c + e*f + h*i = 0
  hc22 : c*c + f*f + i*i = 1
  ha00 : e*i - f*h = a
  ha01 : c*h - b*i = d
  ha02 : b*f - c*e = g
  ha10 : f*g - d*i = b
  ha11 : a*i - c*g = e
  ha12 : c*d - a*f = h
  ha20 : d*h - e*g = c
  ha21 : b*g - a*h = f
  ha22 : a*e - b*d = i

theorem Mat3.IsRot.rotEqs {R : Mat3 ℝ} (h : Mat3.IsRot R) :
    RotEqs R.r0.x R.r0.y R.r0.z R.r1.x R.r1.y R.r1.z R.r2.x R.r2.y R.r2.z := by
  have hr := h.1
  have hc := Mat3.IsOrth.tmul h.1
  have ha := h.adjugate_eq

  have e : ∀ (A B : Mat3 ℝ), A = B → A.r0.x = B.r0.x ∧ A.r0.y = B.r0.y ∧ A.r0.z = B.r0.z ∧ A.r1.x = B.r1.x ∧
      A.r1.y = B.r1.y ∧ A.r1.z = B.r1.z ∧ A.r2.x = B.r2.x ∧ A.r2.y = B.r2.y ∧ A.r2.z = B.r2.z := by
    intro A B hAB; subst hAB; simp
  obtain ⟨r00, r01, r02, -, r11, r12, -, -, r22⟩ := e _ _ hr
  obtain ⟨c00, c01, c02, -, c11, c12, -, -, c22⟩ := e _ _ hc
  obtain ⟨a00, a01, a02, a10, a11, a12, a20, a21, a22⟩ := e _ _ ha
  revert r00 r01 r02 r11 r12 r22 c00 c01 c02 c11 c12 c22 a00 a01 a02 a10 a11 a12 a20 a21 a22
  lie_unfold
  intro r00 r01 r02 r11 r12 r22 c00 c01 c02 c11 c12 c22 a00 a01 a02 a10 a11 a12 a20 a21 a22
  constructor <;> linarith


/-- a quaternion whose ten pairwise products are the entries of `K(R)/4` is a unit quaternion with matrix `R` -/
theorem quat_of_products (R : Mat3 ℝ) (p : Quat ℝ)
    (hxx : 4 * (p.x * p.x) = 1 + R.r0.x - R.r1.y - R.r2.z) (hyy : 4 * (p.y * p.y) = 1 - R.r0.x + R.r1.y - R.r2.z)
    (hzz : 4 * (p.z * p.z) = 1 - R.r0.x - R.r1.y + R.r2.z) (hww : 4 * (p.w * p.w) = 1 + R.r0.x + R.r1.y + R.r2.z)
    (hxy : 4 * (p.x * p.y) = R.r0.y + R.r1.x) (hxz : 4 * (p.x * p.z) = R.r0.z + R.r2.x)
    (hyz : 4 * (p.y * p.z) = R.r1.z + R.r2.y) (hwx : 4 * (p.w * p.x) = R.r2.y - R.r1.z)
    (hwy : 4 * (p.w * p.y) = R.r0.z - R.r2.x) (hwz : 4 * (p.w * p.z) = R.r1.x - R.r0.y) :
    p.normSq = 1 ∧ SO3matrix p = R := by
  constructor
  · lie_unfold; linarith
  · unfold SO3matrix; mat3_ext <;> lie_unfold <;> linarith

/-- products of the components of `Cand.toQuat` -/
theorem Cand.toQuat_products (c : Cand ℝ) (ht : 0 < c.t) (p : Quat ℝ) (hp : c.toQuat = p) :
    4 * c.t * (p.x * p.x) = c.x * c.x ∧ 4 * c.t * (p.y * p.y) = c.y * c.y ∧ 4 * c.t * (p.z * p.z) = c.z * c.z ∧
    4 * c.t * (p.w * p.w) = c.w * c.w ∧ 4 * c.t * (p.x * p.y) = c.x * c.y ∧ 4 * c.t * (p.x * p.z) = c.x * c.z ∧
    4 * c.t * (p.y * p.z) = c.y * c.z ∧ 4 * c.t * (p.w * p.x) = c.w * c.x ∧ 4 * c.t * (p.w * p.y) = c.w * c.y ∧
    4 * c.t * (p.w * p.z) = c.w * c.z := by
  subst hp
  have hs : c.t = Real.sqrt c.t * Real.sqrt c.t := (Real.mul_self_sqrt ht.le).symm
  have hs0 : Real.sqrt c.t ≠ 0 := (Real.sqrt_pos.mpr ht).ne'
  simp only [Cand.toQuat, sqrt_real, k_real, Nat.cast_ofNat]
  generalize Real.sqrt c.t = s at hs hs0 ⊢
  rw [hs]
  refine ⟨?_, ?_, ?_, ?_, ?_, ?_, ?_, ?_, ?_, ?_⟩ <;> field_simp <;> ring

/-- the selected `t_i` is positive for *any* matrix as soon as `|atol| < 1` -/
theorem selected_t_pos (atol : ℝ) (ha : |atol| < 1) (T : Mat3 ℝ) : 0 < (candOf T (mat2SO3Region atol T)).t := by
  have h1 := (abs_lt.mp ha).1
  have h2 := (abs_lt.mp ha).2
  simp only [mat2SO3Region, lt_real]
  by_cases c2 : T.r2.z < atol
  · by_cases c01 : T.r1.y < T.r0.x
    · simp only [c2, c01, decide_true, ↓reduceIte, candOf, cand0, k_real, Nat.cast_one]; linarith
    · simp only [c2, c01, decide_true, decide_false, ↓reduceIte, Bool.false_eq_true, candOf, cand1, k_real,
        Nat.cast_one]; linarith
  · by_cases c0n1 : T.r0.x < -T.r1.y
    · simp only [c2, c0n1, decide_true, decide_false, ↓reduceIte, Bool.false_eq_true, candOf, cand2, k_real,
        Nat.cast_one]; linarith
    · simp only [c2, c0n1, decide_false, ↓reduceIte, Bool.false_eq_true, candOf, cand3, k_real, Nat.cast_one]
      linarith

/-! ### the 2×2 minors of `K(R)` vanish (generated from sympy certificates: constant-coefficient combinations of `RotEqs`) -/
namespace RotEqs
variable {a b c d e f g h i : ℝ}
theorem m_x_yy (H : RotEqs a b c d e f g h i) : (b + d) * (b + d) = (1 + a - e - i) * (1 - a + e - i) := by
  linear_combination (1) * H.hc00 + (1) * H.hc11 + (-1) * H.hr22 + (-2) * H.ha22
theorem m_x_yz (H : RotEqs a b c d e f g h i) : (b + d) * (c + g) = (1 + a - e - i) * (f + h) := by
  linear_combination (1) * H.hr12 + (1) * H.hc12 + (1) * H.ha12 + (1) * H.ha21
theorem m_x_yw (H : RotEqs a b c d e f g h i) : (b + d) * (h - f) = (1 + a - e - i) * (c - g) := by
  linear_combination (1) * H.hr02 + (-1) * H.hc02 + (-1) * H.ha02 + (1) * H.ha20
theorem m_x_zz (H : RotEqs a b c d e f g h i) : (c + g) * (c + g) = (1 + a - e - i) * (1 - a - e + i) := by
  linear_combination (1) * H.hr00 + (-1) * H.hc11 + (1) * H.hr22 + (-2) * H.ha11
theorem m_x_zw (H : RotEqs a b c d e f g h i) : (c + g) * (h - f) = (1 + a - e - i) * (d - b) := by
  linear_combination (-1) * H.hr01 + (1) * H.hc01 + (1) * H.ha01 + (-1) * H.ha10
theorem m_x_ww (H : RotEqs a b c d e f g h i) : (h - f) * (h - f) = (1 + a - e - i) * (1 + a + e + i) := by
  linear_combination (-1) * H.hc00 + (1) * H.hr11 + (1) * H.hr22 + (2) * H.ha00
theorem m_y_xx (H : RotEqs a b c d e f g h i) : (b + d) * (b + d) = (1 - a + e - i) * (1 + a - e - i) := by
  linear_combination (1) * H.hc00 + (1) * H.hc11 + (-1) * H.hr22 + (-2) * H.ha22
theorem m_y_xz (H : RotEqs a b c d e f g h i) : (b + d) * (f + h) = (1 - a + e - i) * (c + g) := by
  linear_combination (1) * H.hr02 + (1) * H.hc02 + (1) * H.ha02 + (1) * H.ha20
theorem m_y_xw (H : RotEqs a b c d e f g h i) : (b + d) * (c - g) = (1 - a + e - i) * (h - f) := by
  linear_combination (-1) * H.hr12 + (1) * H.hc12 + (1) * H.ha12 + (-1) * H.ha21
theorem m_y_zz (H : RotEqs a b c d e f g h i) : (f + h) * (f + h) = (1 - a + e - i) * (1 - a - e + i) := by
  linear_combination (-1) * H.hc00 + (1) * H.hr11 + (1) * H.hr22 + (-2) * H.ha00
theorem m_y_zw (H : RotEqs a b c d e f g h i) : (f + h) * (c - g) = (1 - a + e - i) * (d - b) := by
  linear_combination (1) * H.hr01 + (-1) * H.hc01 + (1) * H.ha01 + (-1) * H.ha10
theorem m_y_ww (H : RotEqs a b c d e f g h i) : (c - g) * (c - g) = (1 - a + e - i) * (1 + a + e + i) := by
  linear_combination (1) * H.hr00 + (-1) * H.hc11 + (1) * H.hr22 + (2) * H.ha11
theorem m_z_xx (H : RotEqs a b c d e f g h i) : (c + g) * (c + g) = (1 - a - e + i) * (1 + a - e - i) := by
  linear_combination (1) * H.hr00 + (-1) * H.hc11 + (1) * H.hr22 + (-2) * H.ha11
theorem m_z_xy (H : RotEqs a b c d e f g h i) : (c + g) * (f + h) = (1 - a - e + i) * (b + d) := by
  linear_combination (1) * H.hr01 + (1) * H.hc01 + (1) * H.ha01 + (1) * H.ha10
theorem m_z_xw (H : RotEqs a b c d e f g h i) : (c + g) * (d - b) = (1 - a - e + i) * (h - f) := by
  linear_combination (1) * H.hr12 + (-1) * H.hc12 + (1) * H.ha12 + (-1) * H.ha21
theorem m_z_yy (H : RotEqs a b c d e f g h i) : (f + h) * (f + h) = (1 - a - e + i) * (1 - a + e - i) := by
  linear_combination (-1) * H.hc00 + (1) * H.hr11 + (1) * H.hr22 + (-2) * H.ha00
theorem m_z_yw (H : RotEqs a b c d e f g h i) : (f + h) * (d - b) = (1 - a - e + i) * (c - g) := by
  linear_combination (-1) * H.hr02 + (1) * H.hc02 + (-1) * H.ha02 + (1) * H.ha20
theorem m_z_ww (H : RotEqs a b c d e f g h i) : (d - b) * (d - b) = (1 - a - e + i) * (1 + a + e + i) := by
  linear_combination (1) * H.hc00 + (1) * H.hc11 + (-1) * H.hr22 + (2) * H.ha22
theorem m_w_xx (H : RotEqs a b c d e f g h i) : (h - f) * (h - f) = (1 + a + e + i) * (1 + a - e - i) := by
  linear_combination (-1) * H.hc00 + (1) * H.hr11 + (1) * H.hr22 + (2) * H.ha00
theorem m_w_xy (H : RotEqs a b c d e f g h i) : (h - f) * (c - g) = (1 + a + e + i) * (b + d) := by
  linear_combination (-1) * H.hr01 + (-1) * H.hc01 + (1) * H.ha01 + (1) * H.ha10
theorem m_w_xz (H : RotEqs a b c d e f g h i) : (h - f) * (d - b) = (1 + a + e + i) * (c + g) := by
  linear_combination (-1) * H.hr02 + (-1) * H.hc02 + (1) * H.ha02 + (1) * H.ha20
theorem m_w_yy (H : RotEqs a b c d e f g h i) : (c - g) * (c - g) = (1 + a + e + i) * (1 - a + e - i) := by
  linear_combination (1) * H.hr00 + (-1) * H.hc11 + (1) * H.hr22 + (2) * H.ha11
theorem m_w_yz (H : RotEqs a b c d e f g h i) : (c - g) * (d - b) = (1 + a + e + i) * (f + h) := by
  linear_combination (-1) * H.hr12 + (-1) * H.hc12 + (1) * H.ha12 + (1) * H.ha21
theorem m_w_zz (H : RotEqs a b c d e f g h i) : (d - b) * (d - b) = (1 + a + e + i) * (1 - a - e + i) := by
  linear_combination (1) * H.hc00 + (1) * H.hc11 + (-1) * H.hr22 + (2) * H.ha22
end RotEqs

theorem cand0_quat (R : Mat3 ℝ) (hR : Mat3.IsRot R) (ht : 0 < (cand0 R.transpose).t) :
    ((cand0 R.transpose).toQuat : Quat ℝ).normSq = 1 ∧ SO3matrix ((cand0 R.transpose).toQuat : Quat ℝ) = R := by
  have H := hR.rotEqs
  generalize hp : ((cand0 R.transpose).toQuat : Quat ℝ) = p
  obtain ⟨pxx, pyy, pzz, pww, pxy, pxz, pyz, pwx, pwy, pwz⟩ := Cand.toQuat_products (cand0 R.transpose) ht p hp
  have ht0 := ht.ne'
  simp only [cand0, Mat3.transpose, Mat3.c0, Mat3.c1, Mat3.c2, k_real, Nat.cast_one] at pxx pyy pzz pww pxy pxz pyz pwx pwy pwz ht0
  apply quat_of_products R
  · apply mul_left_cancel₀ ht0; linear_combination pxx
  · apply mul_left_cancel₀ ht0; linear_combination pyy + H.m_x_yy
  · apply mul_left_cancel₀ ht0; linear_combination pzz + H.m_x_zz
  · apply mul_left_cancel₀ ht0; linear_combination pww + H.m_x_ww
  · apply mul_left_cancel₀ ht0; linear_combination pxy
  · apply mul_left_cancel₀ ht0; linear_combination pxz
  · apply mul_left_cancel₀ ht0; linear_combination pyz + H.m_x_yz
  · apply mul_left_cancel₀ ht0; linear_combination pwx
  · apply mul_left_cancel₀ ht0; linear_combination pwy + H.m_x_yw
  · apply mul_left_cancel₀ ht0; linear_combination pwz + H.m_x_zw

theorem cand1_quat (R : Mat3 ℝ) (hR : Mat3.IsRot R) (ht : 0 < (cand1 R.transpose).t) :
    ((cand1 R.transpose).toQuat : Quat ℝ).normSq = 1 ∧ SO3matrix ((cand1 R.transpose).toQuat : Quat ℝ) = R := by
  have H := hR.rotEqs
  generalize hp : ((cand1 R.transpose).toQuat : Quat ℝ) = p
  obtain ⟨pxx, pyy, pzz, pww, pxy, pxz, pyz, pwx, pwy, pwz⟩ := Cand.toQuat_products (cand1 R.transpose) ht p hp
  have ht0 := ht.ne'
  simp only [cand1, Mat3.transpose, Mat3.c0, Mat3.c1, Mat3.c2, k_real, Nat.cast_one] at pxx pyy pzz pww pxy pxz pyz pwx pwy pwz ht0
  apply quat_of_products R
  · apply mul_left_cancel₀ ht0; linear_combination pxx + H.m_y_xx
  · apply mul_left_cancel₀ ht0; linear_combination pyy
  · apply mul_left_cancel₀ ht0; linear_combination pzz + H.m_y_zz
  · apply mul_left_cancel₀ ht0; linear_combination pww + H.m_y_ww
  · apply mul_left_cancel₀ ht0; linear_combination pxy
  · apply mul_left_cancel₀ ht0; linear_combination pxz + H.m_y_xz
  · apply mul_left_cancel₀ ht0; linear_combination pyz
  · apply mul_left_cancel₀ ht0; linear_combination pwx + H.m_y_xw
  · apply mul_left_cancel₀ ht0; linear_combination pwy
  · apply mul_left_cancel₀ ht0; linear_combination pwz + H.m_y_zw

theorem cand2_quat (R : Mat3 ℝ) (hR : Mat3.IsRot R) (ht : 0 < (cand2 R.transpose).t) :
    ((cand2 R.transpose).toQuat : Quat ℝ).normSq = 1 ∧ SO3matrix ((cand2 R.transpose).toQuat : Quat ℝ) = R := by
  have H := hR.rotEqs
  generalize hp : ((cand2 R.transpose).toQuat : Quat ℝ) = p
  obtain ⟨pxx, pyy, pzz, pww, pxy, pxz, pyz, pwx, pwy, pwz⟩ := Cand.toQuat_products (cand2 R.transpose) ht p hp
  have ht0 := ht.ne'
  simp only [cand2, Mat3.transpose, Mat3.c0, Mat3.c1, Mat3.c2, k_real, Nat.cast_one] at pxx pyy pzz pww pxy pxz pyz pwx pwy pwz ht0
  apply quat_of_products R
  · apply mul_left_cancel₀ ht0; linear_combination pxx + H.m_z_xx
  · apply mul_left_cancel₀ ht0; linear_combination pyy + H.m_z_yy
  · apply mul_left_cancel₀ ht0; linear_combination pzz
  · apply mul_left_cancel₀ ht0; linear_combination pww + H.m_z_ww
  · apply mul_left_cancel₀ ht0; linear_combination pxy + H.m_z_xy
  · apply mul_left_cancel₀ ht0; linear_combination pxz
  · apply mul_left_cancel₀ ht0; linear_combination pyz
  · apply mul_left_cancel₀ ht0; linear_combination pwx + H.m_z_xw
  · apply mul_left_cancel₀ ht0; linear_combination pwy + H.m_z_yw
  · apply mul_left_cancel₀ ht0; linear_combination pwz

theorem cand3_quat (R : Mat3 ℝ) (hR : Mat3.IsRot R) (ht : 0 < (cand3 R.transpose).t) :
    ((cand3 R.transpose).toQuat : Quat ℝ).normSq = 1 ∧ SO3matrix ((cand3 R.transpose).toQuat : Quat ℝ) = R := by
  have H := hR.rotEqs
  generalize hp : ((cand3 R.transpose).toQuat : Quat ℝ) = p
  obtain ⟨pxx, pyy, pzz, pww, pxy, pxz, pyz, pwx, pwy, pwz⟩ := Cand.toQuat_products (cand3 R.transpose) ht p hp
  have ht0 := ht.ne'
  simp only [cand3, Mat3.transpose, Mat3.c0, Mat3.c1, Mat3.c2, k_real, Nat.cast_one] at pxx pyy pzz pww pxy pxz pyz pwx pwy pwz ht0
  apply quat_of_products R
  · apply mul_left_cancel₀ ht0; linear_combination pxx + H.m_w_xx
  · apply mul_left_cancel₀ ht0; linear_combination pyy + H.m_w_yy
  · apply mul_left_cancel₀ ht0; linear_combination pzz + H.m_w_zz
  · apply mul_left_cancel₀ ht0; linear_combination pww
  · apply mul_left_cancel₀ ht0; linear_combination pxy + H.m_w_xy
  · apply mul_left_cancel₀ ht0; linear_combination pxz + H.m_w_xz
  · apply mul_left_cancel₀ ht0; linear_combination pyz + H.m_w_yz
  · apply mul_left_cancel₀ ht0; linear_combination pwx
  · apply mul_left_cancel₀ ht0; linear_combination pwy
  · apply mul_left_cancel₀ ht0; linear_combination pwz

/-- **Every proper rotation matrix is the matrix of the unit quaternion that the code's conversion returns**
(for any mask threshold `|atol| < 1`): `mat2SO3(R, check=False)` is a unit quaternion with `matrix() = R`. -/
theorem mat2SO3Raw_of_rotation (R : Mat3 ℝ) (hR : Mat3.IsRot R) (atol : ℝ) (ha : |atol| < 1) :
    (mat2SO3Raw atol R).normSq = 1 ∧ SO3matrix (mat2SO3Raw atol R) = R := by
  have ht := selected_t_pos atol ha R.transpose
  show ((candOf R.transpose (mat2SO3Region atol R.transpose)).toQuat : Quat ℝ).normSq = 1 ∧
    SO3matrix ((candOf R.transpose (mat2SO3Region atol R.transpose)).toQuat : Quat ℝ) = R
  generalize mat2SO3Region atol R.transpose = r at ht ⊢
  match r with
  | 0 => exact cand0_quat R hR ht
  | 1 => exact cand1_quat R hR ht
  | 2 => exact cand2_quat R hR ht
  | (n+3) => exact cand3_quat R hR ht

/-- surjectivity of `q ↦ R(q)` onto the proper rotations -/
theorem exists_quat_of_rotation (R : Mat3 ℝ) (hR : Mat3.IsRot R) : ∃ p : Quat ℝ, p.normSq = 1 ∧ SO3matrix p = R :=
  ⟨mat2SO3Raw 0 R, mat2SO3Raw_of_rotation R hR 0 (by simp)⟩

/-- the matrix of a unit quaternion is a proper rotation -/
theorem isRot_SO3matrix (p : Quat ℝ) (h : p.normSq = 1) : Mat3.IsRot (SO3matrix p) :=
  ⟨rot_orthogonal p h, rot_det p h⟩

/-- `R(q) v = q.act v` -/
theorem SO3matrix_mulVec (p : Quat ℝ) (v : Vec3 ℝ) : (SO3matrix p).mulVec v = p.act v := by
  unfold SO3matrix; apply Vec3.ext' <;> lie_unfold <;> ring

end PP
