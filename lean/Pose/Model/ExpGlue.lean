import Pose.Model.Lie
/-!
# Glue around the `Exp` kernels (C01): type dispatch, shape handling, dtype-dependent eps

Models what happens between the public entry points (`pp.Exp(x)`, `x.Exp()`, `<alg>_type.Exp(x)`, `x.matrix()`)
and the item-level kernels of `Pose/Model/Lie.lean`:

* `LieTensor.__init__` accepts data whose last dimension equals the type's storage dimension (`mkLieTensor`);
* `LieType.Exp` of a group type raises ("Lie Group has no Exp attribute"), the four algebra types dispatch to
  `so3_Exp / se3_Exp / rxso3_Exp / sim3_Exp` and wrap the result in the matching group type (`expTarget`);
* the kernels act on the last dimension; the leading dimensions (`lshape`, any rank, empty extents allowed) are kept;
* the small-angle threshold is `torch.finfo(dtype).eps` of the tensor's dtype (`DType.eps`);
* `<lt>_type.Exp` accepts a LieTensor or a plain Tensor (`typeExp`); `x.Exp()` is `x.ltype.Exp(x)`;
* `matrix()` of an algebra tensor is `matrix()` of its `Exp`; the result has shape `lshape ++ [n, n]`.

A tensor is a shape and a flat row-major list (`TensorV`).
-/
namespace PP

inductive LType where
  | SO3 | so3 | SE3 | se3 | Sim3 | sim3 | RxSO3 | rxso3
deriving DecidableEq, Repr, Inhabited

namespace LType
/-- storage dimension (`LieType.dimension`) -/
def dim : LType → Nat
  | SO3 => 4 | so3 => 3 | SE3 => 7 | se3 => 6 | Sim3 => 8 | sim3 => 7 | RxSO3 => 5 | rxso3 => 4
/-- `on_manifold`: the Lie-algebra types -/
def onManifold : LType → Bool
  | so3 | se3 | sim3 | rxso3 => true
  | _ => false
/-- the type of `Exp x` -/
def expTarget : LType → Option LType
  | so3 => some SO3 | se3 => some SE3 | sim3 => some Sim3 | rxso3 => some RxSO3
  | _ => none
/-- group type whose `matrix()` is returned -/
def groupOf : LType → LType
  | so3 => SO3 | se3 => SE3 | sim3 => Sim3 | rxso3 => RxSO3 | g => g
/-- side of the matrix returned by `matrix()` -/
def matN : LType → Nat
  | SO3 | so3 => 3
  | _ => 4
def name : LType → String
  | SO3 => "SO3" | so3 => "so3" | SE3 => "SE3" | se3 => "se3" | Sim3 => "Sim3" | sim3 => "sim3"
  | RxSO3 => "RxSO3" | rxso3 => "rxso3"
def ofName : String → Option LType
  | "SO3" => some SO3 | "so3" => some so3 | "SE3" => some SE3 | "se3" => some se3 | "Sim3" => some Sim3
  | "sim3" => some sim3 | "RxSO3" => some RxSO3 | "rxso3" => some rxso3 | _ => none
end LType

/-- the dtypes the property quantifies over -/
inductive DType where
  | f64 | f32
deriving DecidableEq, Repr, Inhabited

namespace DType
/-- number of explicit mantissa bits -/
def mant : DType → Nat
  | f64 => 52 | f32 => 23
def ofName : String → Option DType
  | "float64" => some f64 | "float32" => some f32 | _ => none
variable {α : Type} [Scalar α]
/-- `torch.finfo(dtype).eps = 2^(-mant)` -/
def eps (d : DType) : α := q 1 (2 ^ d.mant)
end DType

inductive GlueErr where
  /-- `LieTensor.__init__`: the last dimension does not match the type (AssertionError) -/
  | lastDim
  /-- `Exp` of a group type (AttributeError "Lie Group has no Exp attribute") -/
  | noExp
  /-- malformed tensor value (data length ≠ product of the shape) — cannot be built in the real code -/
  | numel
deriving DecidableEq, Repr

def GlueErr.name : GlueErr → String
  | .lastDim => "lastDim" | .noExp => "noExp" | .numel => "numel"

variable {α : Type} [Scalar α]

def numel (shape : List Nat) : Nat := shape.foldl (· * ·) 1

/-- cut a flat list into consecutive rows of length `n` -/
def chunksAux (n : Nat) : Nat → List α → List (List α)
  | 0, _ => []
  | fuel + 1, l => if l.isEmpty then [] else l.take n :: chunksAux n fuel (l.drop n)
def chunks (n : Nat) (l : List α) : List (List α) := if n = 0 then [] else chunksAux n l.length l

def l3 (l : List α) (o : Nat) : Vec3 α := ⟨l.getD o (k 0), l.getD (o + 1) (k 0), l.getD (o + 2) (k 0)⟩
def l4 (l : List α) (o : Nat) : Quat α := ⟨l.getD o (k 0), l.getD (o + 1) (k 0), l.getD (o + 2) (k 0), l.getD (o + 3) (k 0)⟩

/-- the kernel the type dispatches to, on one row (PyPose storage order) -/
def itemExp (eps : α) : LType → List α → List α
  | .so3, l => (so3Exp eps (l3 l 0)).toList
  | .se3, l => (se3Exp eps ⟨l3 l 0, l3 l 3⟩).toList
  | .rxso3, l => (rxso3Exp eps ⟨l3 l 0, l.getD 3 (k 0)⟩).toList
  | .sim3, l => (sim3Exp eps ⟨l3 l 0, l3 l 3, l.getD 6 (k 0)⟩).toList
  | _, l => l

/-- `matrix()` of one group element (row-major) -/
def itemMatrix : LType → List α → List α
  | .SO3, l => (SO3matrix (l4 l 0)).toList
  | .SE3, l => (SE3matrix ⟨l3 l 0, l4 l 3⟩).flat
  | .RxSO3, l => (RxSO3matrix ⟨l4 l 0, l.getD 4 (k 0)⟩).flat
  | .Sim3, l => (Sim3matrix ⟨l3 l 0, l4 l 3, l.getD 7 (k 0)⟩).flat
  | _, l => l

structure TensorV (α : Type) where
  ltype : LType
  shape : List Nat
  data : List α

/-- `LieTensor(data, ltype=…)` -/
def mkLieTensor (lt : LType) (shape : List Nat) (data : List α) : Except GlueErr (TensorV α) :=
  if shape.getLast? ≠ some lt.dim then .error .lastDim
  else if data.length ≠ numel shape then .error .numel
  else .ok ⟨lt, shape, data⟩

namespace TensorV
def lshape (x : TensorV α) : List Nat := x.shape.dropLast

/-- `x.Exp()` = `pp.Exp(x)` = `x.ltype.Exp(x)` for a tensor of dtype `dt` -/
def Exp (dt : DType) (x : TensorV α) : Except GlueErr (TensorV α) :=
  match x.ltype.expTarget with
  | none => .error .noExp
  | some g => .ok ⟨g, x.lshape ++ [g.dim], ((chunks x.ltype.dim x.data).map (itemExp dt.eps x.ltype)).flatten⟩

/-- `x.matrix()`: shape `lshape ++ [n, n]`; an algebra tensor is exponentiated first -/
def matrix (dt : DType) (x : TensorV α) : List Nat × List α :=
  let g := x.ltype.groupOf
  let rows := chunks x.ltype.dim x.data
  let grp := if x.ltype.onManifold then rows.map (itemExp dt.eps x.ltype) else rows
  (x.lshape ++ [g.matN, g.matN], (grp.map (itemMatrix g)).flatten)
end TensorV

/-- `<lt>_type.Exp(x)` — the method every entry point ends in.  The code starts with
`x = x.tensor() if isinstance(x, LieTensor) else x`: a LieTensor argument is stripped to its data (its own `ltype` is not
consulted) and a plain `Tensor` is taken as it is, so both branches reach the kernel of `lt` with a bare (shape, data).
A group type raises first (`LieType.Exp`); a last dimension other than the type's makes the kernel / the result
constructor fail (modelled as `lastDim`). -/
def typeExp (lt : LType) (dt : DType) (shape : List Nat) (data : List α) : Except GlueErr (TensorV α) :=
  match lt.expTarget with
  | none => .error .noExp
  | some g =>
    if shape.getLast? ≠ some lt.dim then .error .lastDim
    else if data.length ≠ numel shape then .error .numel
    else .ok ⟨g, shape.dropLast ++ [g.dim], ((chunks lt.dim data).map (itemExp dt.eps lt)).flatten⟩

/-- `pp.Exp(pp.LieTensor(data, ltype=lt))` -/
def ppExp (lt : LType) (dt : DType) (shape : List Nat) (data : List α) : Except GlueErr (TensorV α) :=
  mkLieTensor lt shape data >>= TensorV.Exp dt

end PP
