import Pose.Model.Basic
import Pose.Model.Batch
/-!
# Model of `pypose/module/dynamics.py` (`System`, `LTI`, `LTV`, `NLS`) and of the batched
mat-vec helpers `bmv`, `bvv`, `bvmv` of `pypose/function/linalg.py`

Item level (one batch element); batching / broadcasting is C06's business and is expanded by the
harness.  Vectors are `DVec α = List α`, matrices `DMat α = List (List α)` (rows) from `Model/Basic`.

## What is modelled

* **Clock** `_t` (an int64 0-dim buffer): `__call__` = `forward` followed by the forward hook
  `_t.add_(1)`; a `forward` that raises never reaches the hook; calling `.forward` /
  `.state_transition` / `.observation` directly does not run the hook; `reset(t)` is `_t.fill_(t)`,
  `systime = t` is `_t.copy_(tensor(t))` — both *truncate a float toward zero* (copy into int64);
  `LTV.set_refpoint(t=…)` is `self.systime = t` (raises for `t=None`), `System/LTI.set_refpoint` is a
  no-op, `NLS.set_refpoint` does not touch the clock.
* **LTI / LTV** `state_transition`, `observation` through the (possibly overridden, time indexed)
  properties `A,B,C,D,c1,c2`; the `assert mat.shape[-1] == vec.shape[-1]` of `bmv`; python indexing
  of a stacked matrix by `_t` (plain, with negative wrap and `IndexError`) or by `_t % T`.
* **NLS**: user functions are expression trees `Fn` (polynomial / trigonometric, time dependent);
  `torch.autograd.functional.jacobian` is modelled by the *symbolic* partial derivative `Fn.D`
  (autograd of built-in ops is trusted base §3.4; `Fn.D` is proved correct in `Props/C15`).
  `set_refpoint` is modelled statement by statement (five assignments, the first two can raise
  `AttributeError` when no `forward` happened yet, leaving a partial update behind).

  `aliasT = false`, `aliasX = false` is the code (and the documentation): `set_refpoint` stores *copies* of the reference
  time, state and input. The two flags are kept as historical witnesses of two repaired defects:
  `aliasT = true` — before fix D32 `self._ref_t = self.systime` stored **the clock buffer itself**, so the reference
  time followed every later `forward`/`reset`/assignment while `_ref_f/_ref_g` stayed frozen;
  `aliasX = true` — before fix D38 `_ref_state`, `_ref_input` were the *caller's tensors* (no copy), so an in-place
  update of those tensors by the caller (`poke`) moved the reference point while `_ref_f/_ref_g` stayed frozen.
  `partialF = true` is the code: `self.state/self.input` are assigned before the user function runs, and `set_refpoint`
  assigns `_ref_state`, `_ref_input`, `_ref_t` one by one before `_ref_f`, so a call that raises leaves a partial update
  behind (an observation, outside the property: its quantifier has no raising calls). `partialF = false` is what atomic
  error paths would give; it is used only to state that variant (`nls_failed_call_atomic`).
-/
namespace PP.Dyn
variable {α : Type} [Scalar α]

/-! ## 0. helpers -/

/-- integer → scalar -/
def ofInt (i : Int) : α := if i < 0 then -(k i.natAbs) else k i.natAbs

/-- `bmv(mat, vec)` on one item: `matmul(mat, vec.unsqueeze(-1)).squeeze(-1)` -/
def bmv (M : DMat α) (v : DVec α) : DVec α := DMat.mulVec M v
/-- `bvv(lvec, rvec)` on one item: the outer product `l rᵀ` -/
def bvv (l r : DVec α) : DMat α := l.map (fun a => r.map (fun b => a * b))
/-- `bvmv(lvec, mat, rvec)` on one item: `lᵀ M r` -/
def bvmv (l : DVec α) (M : DMat α) (r : DVec α) : α := DVec.dot (DMat.vecMul l M) r

/-- the shape assertion of `bmv`: every row of `mat` has as many entries as `vec` -/
def bmvOK (M : DMat α) (v : DVec α) : Bool := M.all (fun r => r.length == v.length)

/-! ### the helpers on batches: `torch.matmul` broadcasting

`bmv(mat, vec) = matmul(mat, vec.unsqueeze(-1)).squeeze(-1)` after the shape assertions of the code: the batch shapes `mat.shape[:-2]`, `vec.shape[:-1]` are
broadcast by `torch.matmul` (its documented contract, an external kernel: `Batch.broadcastShapes` / `Batch.proj` of C06's
model) and the item kernel runs on every pair. `bvv` is the same with the outer product; `bvmv` is two matmuls
`(lvec.mT @ mat) @ rvec`, i.e. two broadcasts in a row. A batch is `Batch.T item` (row-major items). -/

/-- a broadcasting binary op: `none` when the batch shapes do not broadcast (torch raises) -/
def bcast2 {β γ δ : Type} (f : β → γ → δ) (x : Batch.T β) (y : Batch.T γ) : Option (Batch.T δ) :=
  match Batch.broadcastShapes x.shape y.shape with
  | none => none
  | some out =>
    some ⟨out, fun k => f (x.get (Batch.proj x.shape (Batch.unravel out k))) (y.get (Batch.proj y.shape (Batch.unravel out k)))⟩

/-- a batch of vectors: a tensor of shape `shape ++ [len]` (row-major items) -/
structure VT (α : Type) where
  shape : Batch.Shape
  len : Nat
  data : Nat → DVec α

/-- a batch of matrices: a tensor of shape `shape ++ [rows, cols]`. (The code's `mat.ndim >= 2`, `vec.ndim >= 1` assertions
hold by construction of these two types.) -/
structure MT (α : Type) where
  shape : Batch.Shape
  rows : Nat
  cols : Nat
  data : Nat → DMat α

def VT.t (v : VT α) : Batch.T (DVec α) := ⟨v.shape, v.data⟩
def MT.t (M : MT α) : Batch.T (DMat α) := ⟨M.shape, M.data⟩
/-- the items really have the declared core dimensions -/
def VT.WF (v : VT α) : Prop := ∀ k, (v.data k).length = v.len
def MT.WF (M : MT α) : Prop := ∀ k, (M.data k).length = M.rows ∧ ∀ r ∈ M.data k, r.length = M.cols

/-- `bmv(mat, vec)`: `assert mat.shape[-1] == vec.shape[-1]`, then `torch.matmul` broadcasting -/
def bmvG (M : MT α) (v : VT α) : Option (VT α) :=
  if M.cols = v.len then (bcast2 bmv M.t v.t).map fun z => ⟨z.shape, M.rows, z.data⟩ else none

/-- `bvv(lvec, rvec)`: no assertion in the code, any two lengths -/
def bvvG (l r : VT α) : Option (MT α) := (bcast2 bvv l.t r.t).map fun z => ⟨z.shape, l.len, r.len, z.data⟩

/-- `torch.atleast_1d` on the batch shape of a scalar-per-item result -/
def atleast1d (s : Batch.Shape) : Batch.Shape := if s = [] then [1] else s

/-- `bvmv(lvec, mat, rvec)`: `assert lvec.shape[-1] == mat.shape[-2] and mat.shape[-1] == rvec.shape[-1]`, two matmuls
(two broadcasts in a row), then `torch.atleast_1d`: an unbatched call returns shape `(1,)` -/
def bvmvG (l : VT α) (M : MT α) (r : VT α) : Option (Batch.T α) :=
  if l.len = M.rows ∧ M.cols = r.len then
    ((bcast2 DMat.vecMul l.t M.t).bind fun lm => bcast2 DVec.dot lm r.t).map fun z => ⟨atleast1d z.shape, z.data⟩
  else none

/-- `a + b` on the last dimension as torch does it: equal lengths, or one of them of length 1 is repeated -/
def vaddB (a b : DVec α) : DVec α :=
  if a.length = b.length then DVec.add a b
  else if b.length = 1 then a.map (fun x => x + b.getD 0 (k 0))
  else if a.length = 1 then b.map (fun y => a.getD 0 (k 0) + y)
  else []

/-- `a + b` of two batches of vectors: the last dimensions and the batch shapes broadcast -/
def addG (a b : VT α) : Option (VT α) :=
  match Batch.bdim a.len b.len with
  | none => none
  | some l => (bcast2 vaddB a.t b.t).map fun z => ⟨z.shape, l, z.data⟩

/-- one batched LTI forward: `bmv(A, x) + bmv(B, u) (+ c)` -/
def affineG (A B : MT α) (c : Option (VT α)) (x u : VT α) : Option (VT α) :=
  (bmvG A x).bind fun ax => (bmvG B u).bind fun bu => (addG ax bu).bind fun z =>
    match c with
    | none => some z
    | some c => addG z c

/-! ## 1. The clock -/

inductive Kind | lti | ltv | nls
deriving DecidableEq, Repr, Inhabited

/-- a time argument as the caller wrote it: the exact rational `n / d` (python int, float, 0-dim tensor) -/
structure TArg where
  n : Int
  d : Nat
deriving Repr, Inhabited, DecidableEq

/-- what lands in the int64 buffer: truncation toward zero -/
def TArg.trunc (a : TArg) : Int := Int.tdiv a.n a.d

/-- a time the caller can actually write: positive denominator (`d = 0` is a totalisation artefact: `Int.tdiv _ 0 = 0`;
`inf`, `nan` are not representable, the code raises on them) -/
def TArg.valid (a : TArg) : Prop := 0 < a.d

inductive Ev
  | call                        -- `sys(x, u)`: forward, then the hook
  | callRaise                   -- `sys(x, u)` whose forward raises: the hook is not reached
  | fwdDirect                   -- `sys.forward(x, u)` / `sys.state_transition(..)`: no hook
  | reset (t : TArg)            -- `sys.reset(t)`
  | assign (t : TArg)           -- `sys.systime = t`
  | refpoint (t : Option TArg)  -- `sys.set_refpoint(t=…)`
deriving Repr, Inhabited

def stepClock (kind : Kind) (c : Int) : Ev → Int
  | .call => c + 1
  | .callRaise => c
  | .fwdDirect => c
  | .reset t => t.trunc
  | .assign t => t.trunc
  | .refpoint t =>
    match kind, t with
    | .ltv, some t => t.trunc
    | _, _ => c

def runClock (kind : Kind) (c : Int) (evs : List Ev) : Int := evs.foldl (stepClock kind) c

/-- clock after each event -/
def traceClock (kind : Kind) (c : Int) : List Ev → List Int
  | [] => []
  | e :: es => stepClock kind c e :: traceClock kind (stepClock kind c e) es

/-- value an event writes into the clock, if it is a setting event for this kind of system -/
def setVal (kind : Kind) : Ev → Option Int
  | .reset t => some t.trunc
  | .assign t => some t.trunc
  | .refpoint (some t) => if kind = .ltv then some t.trunc else none
  | _ => none

def isCall : Ev → Bool
  | .call => true
  | _ => false

/-- number of completed calls -/
def calls (evs : List Ev) : Nat := (evs.filter isCall).length

/-! ### several systems

Each system owns its clock buffer: `b.systime = a.systime` (`_t.copy_`), `b.reset(a.systime)` (`_t.fill_`) and
`ltv.set_refpoint(t=a.systime)` *copy the value* the other clock has at that moment; nothing is shared afterwards. -/

inductive MEv
  | own (e : Ev)                -- an event with a literal time
  | assignFrom (j : Nat)        -- `sys_i.systime = sys_j.systime`
  | resetFrom (j : Nat)         -- `sys_i.reset(sys_j.systime)`
  | refFrom (j : Nat)           -- `sys_i.set_refpoint(t=sys_j.systime)`
  | copyOf (j : Nat)            -- `sys_i = copy.deepcopy(sys_j)` / pickle round trip / `load_state_dict(sys_j.state_dict())`
deriving Repr, Inhabited

/-- the plain clock event a tagged event amounts to, given all clocks now -/
def MEv.toEv (cs : List Int) : MEv → Ev
  | .own e => e
  | .assignFrom j => .assign ⟨cs.getD j 0, 1⟩
  | .resetFrom j => .reset ⟨cs.getD j 0, 1⟩
  | .refFrom j => .refpoint (some ⟨cs.getD j 0, 1⟩)
  | .copyOf j => .assign ⟨cs.getD j 0, 1⟩     -- a copy is a new, independent system that starts with the same time

/-- event `te.2` happens on system `te.1` -/
def stepMulti (ks : List Kind) (cs : List Int) (te : Nat × MEv) : List Int :=
  cs.set te.1 (stepClock (ks.getD te.1 .lti) (cs.getD te.1 0) (te.2.toEv cs))

def runMulti (ks : List Kind) (cs : List Int) (evs : List (Nat × MEv)) : List Int :=
  evs.foldl (stepMulti ks) cs

/-- all clocks after each event -/
def traceMulti (ks : List Kind) (cs : List Int) : List (Nat × MEv) → List (List Int)
  | [] => []
  | te :: r => stepMulti ks cs te :: traceMulti ks (stepMulti ks cs te) r

/-- the same history with every "from system j" replaced by the literal value `j`'s clock had then -/
def resolveMulti (ks : List Kind) (cs : List Int) : List (Nat × MEv) → List (Nat × Ev)
  | [] => []
  | te :: r => (te.1, te.2.toEv cs) :: resolveMulti ks (stepMulti ks cs te) r

/-- the events of system `i` -/
def projEv (i : Nat) (l : List (Nat × Ev)) : List Ev :=
  l.filterMap fun te => if te.1 = i then some te.2 else none

/-! ## 2. LTI / LTV -/

/-- A linear system with (possibly) stacked, time indexed matrices.  `slices = 1`, `kind = lti` is `LTI`. -/
structure LinSys (α : Type) where
  kind : Kind
  periodic : Bool             -- the subclass indexes with `_t % T` (true) or `_t` (false)
  A : List (DMat α)
  B : List (DMat α)
  C : List (DMat α)
  D : List (DMat α)
  c1 : Option (List (DVec α))
  c2 : Option (List (DVec α))

/-- python indexing `stack[idx]` of a length-`T` axis: negative wrap, `IndexError` outside `[-T, T)` -/
def pyIndex (T : Nat) (t : Int) : Option Nat :=
  if 0 ≤ t ∧ t < T then some t.toNat
  else if -(T : Int) ≤ t ∧ t < 0 then some (t + T).toNat
  else none

/-- which slice a read of `self.A` (etc.) uses at clock `t` -/
def sliceIdx (kind : Kind) (periodic : Bool) (T : Nat) (t : Int) : Option Nat :=
  match kind with
  | .ltv => if periodic then (if T = 0 then none else some (t % (T : Int)).toNat) else pyIndex T t
  | _ =>
    -- an `LTI` object reads slice 0 — unless a user subclass of `LTI` overrides its properties with values computed from
    -- `_t % T` (`periodic = true`; with `T = 1` this is slice 0 again)
    if periodic then (if T = 0 then none else some (t % (T : Int)).toNat) else some 0

def optAdd (z : DVec α) : Option (DVec α) → DVec α
  | none => z
  | some c => DVec.add z c

/-- `z = bmv(A, x) + bmv(B, u); z if c is None else z + c` -/
def affine (A B : DMat α) (c : Option (DVec α)) (x u : DVec α) : DVec α :=
  optAdd (DVec.add (bmv A x) (bmv B u)) c

/-- one `forward` at clock `t`: `(state_transition, observation)`, or `none` when the code raises
(slice index out of range, or a `bmv` shape assertion fails). -/
def linForward (S : LinSys α) (t : Int) (x u : DVec α) : Option (DVec α × DVec α) :=
  match sliceIdx S.kind S.periodic S.A.length t with
  | none => none
  | some i =>
    match S.A[i]?, S.B[i]?, S.C[i]?, S.D[i]? with
    | some A, some B, some C, some D =>
      if bmvOK A x && bmvOK B u && bmvOK C x && bmvOK D u then
        let c1 := S.c1.bind (fun l => l[i]?)
        let c2 := S.c2.bind (fun l => l[i]?)
        some (affine A B c1 x u, affine C D c2 x u)
      else none
    | _, _, _, _ => none

/-- **An LTI / LTV object as the user built it**: what the constructor stored in the private buffers `_A … _c2`, and what a
user subclass *overrides*: the public properties `A, B, C, D, c1, c2` (values per time slice — e.g. computed from the
clock while the constructor received `None` or a dummy). `state_transition` / `observation` read the **properties**, for
the `is None` test of the constant term as well as for its value. -/
structure LinObj (α : Type) where
  kind : Kind
  periodic : Bool
  bufA : List (DMat α)
  bufB : List (DMat α)
  bufC : List (DMat α)
  bufD : List (DMat α)
  bufc1 : Option (List (DVec α))
  bufc2 : Option (List (DVec α))
  ovA : Option (List (DMat α)) := none
  ovB : Option (List (DMat α)) := none
  ovC : Option (List (DMat α)) := none
  ovD : Option (List (DMat α)) := none
  ovc1 : Option (Option (List (DVec α))) := none       -- an overridden property may itself return `None`
  ovc2 : Option (Option (List (DVec α))) := none

/-- the public properties: the override where there is one, else the buffer -/
def LinObj.props (o : LinObj α) : LinSys α :=
  { kind := o.kind, periodic := o.periodic
    A := o.ovA.getD o.bufA, B := o.ovB.getD o.bufB, C := o.ovC.getD o.bufC, D := o.ovD.getD o.bufD
    c1 := o.ovc1.getD o.bufc1, c2 := o.ovc2.getD o.bufc2 }

/-- one forward of the object: the LTI equations on its **properties** -/
def objForward (o : LinObj α) (t : Int) (x u : DVec α) : Option (DVec α × DVec α) := linForward o.props t x u

/-- the variant of the seeded change C15-5 (NOT the code): the `is None` test looks at the private buffer, the value at the
property — an overridden `c1` / `c2` is dropped when the constructor received `None` -/
def objForwardPrivateTest (o : LinObj α) (t : Int) (x u : DVec α) : Option (DVec α × DVec α) :=
  linForward { o.props with c1 := o.bufc1.bind (fun _ => o.props.c1), c2 := o.bufc2.bind (fun _ => o.props.c2) } t x u

inductive LEv (α : Type)
  | call (x u : DVec α)
  | fwd (x u : DVec α)          -- `.forward(x,u)` directly
  | reset (t : TArg)
  | assign (t : TArg)
  | refpoint (t : Option TArg)

/-- the clock event a linear-system event amounts to at clock `c` -/
def LEv.toEv (S : LinSys α) (c : Int) : LEv α → Ev
  | .call x u => if (linForward S c x u).isSome then .call else .callRaise
  | .fwd _ _ => .fwdDirect
  | .reset t => .reset t
  | .assign t => .assign t
  | .refpoint t => .refpoint t

/-- what the caller sees: outputs of a (direct) call, or nothing -/
def LEv.out (S : LinSys α) (c : Int) : LEv α → Option (DVec α × DVec α)
  | .call x u => linForward S c x u
  | .fwd x u => linForward S c x u
  | _ => none

/-- run a history: list of (clock after the event, outputs of the event) -/
def runLin (S : LinSys α) (c : Int) : List (LEv α) → List (Int × Option (DVec α × DVec α))
  | [] => []
  | e :: es =>
    let c' := stepClock S.kind c (e.toEv S c)
    (c', e.out S c) :: runLin S c' es

/-- roll-out: feed the new state back, one input per step (the loop `x, y = sys(x, u[i])`) -/
def rollout (S : LinSys α) (c : Int) (x : DVec α) : List (DVec α) → List (DVec α × DVec α)
  | [] => []
  | u :: us =>
    match linForward S c x u with
    | none => []
    | some (x', y) => (x', y) :: rollout S (c + 1) x' us

/-! ## 3. Expression trees for the user's `state_transition` / `observation` -/

inductive Fn where
  | const (neg : Bool) (a b : Nat)     -- the rational `± a / b`
  | var (i : Nat)                      -- `state[i]`, `input[i - nx]`, `t` (see `mkEnv`)
  | add (a b : Fn)
  | sub (a b : Fn)
  | mul (a b : Fn)
  | neg (a : Fn)
  | sin (a : Fn)
  | cos (a : Fn)
  | pow (a : Fn) (n : Nat)             -- `a ** n`, python int exponent
deriving Repr, Inhabited

def npow (x : α) : Nat → α
  | 0 => k 1
  | n + 1 => npow x n * x

namespace Fn

def eval (env : Nat → α) : Fn → α
  | .const s a b => if s then -(q a b) else q a b
  | .var i => env i
  | .add a b => eval env a + eval env b
  | .sub a b => eval env a - eval env b
  | .mul a b => eval env a * eval env b
  | .neg a => -(eval env a)
  | .sin a => Scalar.sin (eval env a)
  | .cos a => Scalar.cos (eval env a)
  | .pow a n => npow (eval env a) n

/-- every constant has a positive denominator (`const _ a 0` is a totalisation artefact: it evaluates to 0 over `ℝ` and
`BigF`; the driver rejects it and the generator never produces it) -/
def wf : Fn → Bool
  | .const _ _ b => decide (0 < b)
  | .var _ => true
  | .add a b => wf a && wf b
  | .sub a b => wf a && wf b
  | .mul a b => wf a && wf b
  | .neg a => wf a
  | .sin a => wf a
  | .cos a => wf a
  | .pow a _ => wf a

def zero : Fn := .const false 0 1
def one : Fn := .const false 1 1

/-- symbolic partial derivative with respect to variable `v` (what reverse-mode autograd computes) -/
def D (v : Nat) : Fn → Fn
  | .const _ _ _ => zero
  | .var i => if i = v then one else zero
  | .add a b => .add (D v a) (D v b)
  | .sub a b => .sub (D v a) (D v b)
  | .mul a b => .add (.mul (D v a) b) (.mul a (D v b))
  | .neg a => .neg (D v a)
  | .sin a => .mul (.cos a) (D v a)
  | .cos a => .neg (.mul (.sin a) (D v a))
  | .pow _ 0 => zero
  | .pow a (n + 1) => .mul (.mul (.const false (n + 1) 1) (.pow a n)) (D v a)

def size : Fn → Nat
  | .const _ _ _ => 1
  | .var _ => 1
  | .add a b => size a + size b + 1
  | .sub a b => size a + size b + 1
  | .mul a b => size a + size b + 1
  | .neg a => size a + 1
  | .sin a => size a + 1
  | .cos a => size a + 1
  | .pow a _ => size a + 1

/-- the tree mentions no variable below `nv` (no state / input entry): a *coefficient* — a constant or any function of
the time variable -/
def freeOf (nv : Nat) : Fn → Bool
  | .const _ _ _ => true
  | .var i => decide (nv ≤ i)
  | .add a b => freeOf nv a && freeOf nv b
  | .sub a b => freeOf nv a && freeOf nv b
  | .mul a b => freeOf nv a && freeOf nv b
  | .neg a => freeOf nv a
  | .sin a => freeOf nv a
  | .cos a => freeOf nv a
  | .pow a _ => freeOf nv a

/-- the tree is **affine in the variables below `nv`** (state and input) with coefficients that may depend on time in any
way: sums, differences, negations of affine trees; products with one factor a coefficient; `sin` / `cos` / powers of
coefficients only. (`A(t) x + B(t) u + c(t)` written as a tree — an LTI / LTV system given as an `NLS` — satisfies it.) -/
def affineIn (nv : Nat) : Fn → Bool
  | .const _ _ _ => true
  | .var _ => true
  | .add a b => affineIn nv a && affineIn nv b
  | .sub a b => affineIn nv a && affineIn nv b
  | .mul a b => (freeOf nv a && affineIn nv b) || (affineIn nv a && freeOf nv b)
  | .neg a => affineIn nv a
  | .sin a => freeOf nv a
  | .cos a => freeOf nv a
  | .pow a n => freeOf nv a || n == 0

/-- `Σ_j coefs[j] · var (lo + j)` as a tree -/
def lincomb (lo : Nat) : List Fn → Fn
  | [] => zero
  | c :: cs => .add (.mul c (.var lo)) (lincomb (lo + 1) cs)

/-- one row of a linear time-variant system written as an `NLS`: `Σ_j a_j(t) x_j + Σ_j b_j(t) u_j + c(t)` (`nx` state
entries; the coefficient trees `a_j`, `b_j`, `c` mention the time variable only) -/
def affRow (nx : Nat) (a b : List Fn) (c : Fn) : Fn := .add (.add (lincomb 0 a) (lincomb nx b)) c

end Fn

/-! ### explicit bounds: value, first-order part, second-order remainder

For a box `|q i| ≤ ea i` containing the point `p` and the perturbed point `p + d`, and `|d i| ≤ da i`, `Fn.bnd ea da e`
is a computable triple `(m0, l, r)` with `|e(p)|, |e(p+d)| ≤ m0`, `|Σ_v ∂_v e(p)·d_v| ≤ l` and
`|e(p+d) − e(p) − Σ_v ∂_v e(p)·d_v| ≤ r` (proved in `Props/C15`: `second_order_explicit`). `r` is built like half a bound
of the second directional derivative: `r(ab) = r_a·|b| + |a|·r_b + l_a·l_b (+ l_a·r_b)`, `r(sin a) = r_a + (l_a + r_a)²/2`.
It scales like `h²` when the perturbation is scaled by `h ≤ 1` (`bnd_scale`). -/

structure Bnd (α : Type) where
  m0 : α
  l : α
  r : α
deriving Repr, Inhabited

def Bnd.add (a b : Bnd α) : Bnd α := ⟨a.m0 + b.m0, a.l + b.l, a.r + b.r⟩
def Bnd.mul (a b : Bnd α) : Bnd α :=
  ⟨a.m0 * b.m0, a.l * b.m0 + a.m0 * b.l, a.r * b.m0 + a.m0 * b.r + a.l * b.l + a.l * b.r⟩
/-- composition with `sin` / `cos` -/
def Bnd.trig (a : Bnd α) : Bnd α := ⟨k 1, a.l, a.r + (a.l + a.r) * (a.l + a.r) / k 2⟩
def Bnd.pow (a : Bnd α) : Nat → Bnd α
  | 0 => ⟨k 1, k 0, k 0⟩
  | n + 1 => (Bnd.pow a n).mul a

def Fn.bnd (ea da : Nat → α) : Fn → Bnd α
  | .const _ a b => ⟨q a b, k 0, k 0⟩
  | .var i => ⟨ea i, da i, k 0⟩
  | .add a b => (Fn.bnd ea da a).add (Fn.bnd ea da b)
  | .sub a b => (Fn.bnd ea da a).add (Fn.bnd ea da b)
  | .mul a b => (Fn.bnd ea da a).mul (Fn.bnd ea da b)
  | .neg a => Fn.bnd ea da a
  | .sin a => (Fn.bnd ea da a).trig
  | .cos a => (Fn.bnd ea da a).trig
  | .pow a n => (Fn.bnd ea da a).pow n

/-- variable numbering: `0 … nx-1` state, `nx … nx+nu-1` input, `nx+nu` time -/
def mkEnv (x u : DVec α) (t : α) : Nat → α := fun i =>
  if i < x.length then x.getD i (k 0)
  else if i < x.length + u.length then u.getD (i - x.length) (k 0)
  else if i = x.length + u.length then t
  else k 0

def evalAll (fs : List Fn) (env : Nat → α) : DVec α := fs.map (fun f => f.eval env)

/-- Jacobian block: rows = components of `fs`, columns = variables `lo … lo+n-1` -/
def jac (fs : List Fn) (lo n : Nat) (env : Nat → α) : DMat α :=
  fs.map fun f => (List.range n).map fun j => (f.D (lo + j)).eval env

/-- everything the linearised-system properties return -/
structure Lin (α : Type) where
  A : DMat α
  B : DMat α
  C : DMat α
  D : DMat α
  c1 : DVec α
  c2 : DVec α
deriving Repr, Inhabited

/-- the properties `A, B, C, D, c1, c2` of `NLS` evaluated with reference state `x`, input `u`,
time `t` and the *stored* values `fref = _ref_f`, `gref = _ref_g`:
`c1 = _ref_f - bmv(A, x*) - bmv(B, u*)`. -/
def linAt (fs gs : List Fn) (x u : DVec α) (t : α) (fref gref : DVec α) : Lin α :=
  let env := mkEnv x u t
  let A := jac fs 0 x.length env
  let B := jac fs x.length u.length env
  let C := jac gs 0 x.length env
  let D := jac gs x.length u.length env
  { A := A, B := B, C := C, D := D
    c1 := DVec.sub (DVec.sub fref (bmv A x)) (bmv B u)
    c2 := DVec.sub (DVec.sub gref (bmv C x)) (bmv D u) }

/-- the linearisation at a reference point, as documented -/
def linearize (fs gs : List Fn) (x u : DVec α) (t : α) : Lin α :=
  linAt fs gs x u t (evalAll fs (mkEnv x u t)) (evalAll gs (mkEnv x u t))

/-- the affine model `A x + B u + c1`, `C x + D u + c2` -/
def Lin.predict (L : Lin α) (x u : DVec α) : DVec α × DVec α :=
  (DVec.add (DVec.add (bmv L.A x) (bmv L.B u)) L.c1, DVec.add (DVec.add (bmv L.C x) (bmv L.D u)) L.c2)

/-! ## 4. The NLS object as a state machine -/

/-- the `t` argument of `set_refpoint` -/
inductive TRef (α : Type)
  | default                     -- `t=None`  → `self.systime`
  | live                        -- the caller passes `sys.systime` (the buffer itself; `atleast_1d` is a view)
  | val (t : α)                 -- a fresh tensor / number

/-- how `_ref_t` is held: its own value, or the clock buffer itself -/
inductive RefT (α : Type)
  | own (t : α)
  | clock

structure NState (α : Type) where
  clock : Int
  last : Option (DVec α × DVec α)      -- `self.state`, `self.input` (set by every forward)
  refx : Option (DVec α)               -- `_ref_state`
  refu : Option (DVec α)               -- `_ref_input`
  reft : Option (RefT α)               -- `_ref_t`
  reff : Option (DVec α)               -- `_ref_f`
  refg : Option (DVec α)               -- `_ref_g`
  refxLast : Bool := false             -- `_ref_state` is the very tensor object `self.state` (set_refpoint(state=None))
  refuLast : Bool := false             -- `_ref_input` is the very tensor object `self.input`

def NState.init (c : Int) : NState α := ⟨c, none, none, none, none, none, none, false, false⟩

/-- a tensor of the caller that the system has seen and that the caller now updates in place
(`add_`, `copy_`, item assignment): the one passed to the last `forward`, or the one the reference point was set with -/
inductive PokeTgt | lastX | lastU | refX | refU
deriving Repr, Inhabited, DecidableEq

inductive NEv (α : Type)
  | call (x u : DVec α)
  | refpoint (x u : Option (DVec α)) (t : TRef α)
  | reset (t : TArg)
  | assign (t : TArg)
  | poke (tgt : PokeTgt) (v : DVec α)   -- the caller overwrites that tensor's content with `v`
  | callRaise (x u : DVec α)            -- `sys(x, u)` whose user function raises
  | refRaise (x u : Option (DVec α)) (t : TRef α)   -- `set_refpoint(..)` whose user function raises

inductive NOut (α : Type)
  | outputs (f g : DVec α)
  | done
  | raised

def RefT.value (c : Int) : RefT α → α
  | .own t => t
  | .clock => ofInt c

/-- `self.state if state is None else atleast_1d(state)` -/
def orLast {β : Type} (a? : Option β) (last : Option β) : Option β :=
  match a? with
  | some a => some a
  | none => last

/-- the reference time the documentation promises: the given one, else the clock *now* -/
def refTime (c : Int) : TRef α → α
  | .val t => t
  | _ => ofInt c

/-- `self._ref_t = self.systime if t is None else atleast_1d(t)`: with `aliasT` the clock buffer itself
is stored (also when the caller passes `sys.systime`: `atleast_1d` of a 0-dim tensor is a view) -/
def refTOf (aliasT : Bool) (c : Int) : TRef α → RefT α
  | .val t => .own t
  | _ => if aliasT then .clock else .own (ofInt c)

/-- `set_refpoint`, statement by statement -/
def setRefpoint (aliasT : Bool) (fs gs : List Fn) (S : NState α)
    (x? u? : Option (DVec α)) (t? : TRef α) (partialF : Bool := false) (cbRaises : Bool := false) :
    NState α × NOut α :=
  -- self._ref_state = self.state if state is None else atleast_1d(state)
  match orLast x? (S.last.map Prod.fst) with
  | none => (S, .raised)
  | some x =>
    let S1 := { S with refx := some x, refxLast := x?.isNone }
    -- self._ref_input = self.input if input is None else atleast_1d(input)
    match orLast u? (S.last.map Prod.snd) with
    | none => (if partialF then S1 else S, .raised)
    | some u =>
      if cbRaises then
        -- the user function raises while `_ref_f` is computed: three attributes are already assigned (`partialF`)
        (if partialF then { S1 with refu := some u, refuLast := u?.isNone, reft := some (refTOf aliasT S.clock t?) } else S,
         .raised)
      else
      -- self._ref_t = self.systime if t is None else atleast_1d(t)
      let rt : RefT α := refTOf aliasT S.clock t?
      -- self._ref_f = self.state_transition(...); self._ref_g = self.observation(...)
      let env := mkEnv x u (rt.value S.clock)
      ({ S1 with refu := some u, refuLast := u?.isNone, reft := some rt,
                 reff := some (evalAll fs env), refg := some (evalAll gs env) }, .done)

/-- overwrite the value inside an `Option` that is set -/
def setSome {β : Type} (o : Option β) (v : β) : Option β := o.map fun _ => v

/-- the caller updates one of its own tensors in place. `self.state` / `self.input` are the caller's tensors, so the
"most recent state" follows (either semantics). `aliasX = false` is the code (a snapshot is stored). `aliasX = true` is the code before fix
D38: `_ref_state` / `_ref_input` were the caller's tensors as well, so the reference point followed too while
`_ref_f`, `_ref_g` stayed frozen. -/
def pokeN (aliasX : Bool) (S : NState α) (tgt : PokeTgt) (v : DVec α) : NState α :=
  match tgt with
  | .lastX => { S with last := S.last.map (fun p => (v, p.2)),
                       refx := if aliasX && S.refxLast then setSome S.refx v else S.refx }
  | .lastU => { S with last := S.last.map (fun p => (p.1, v)),
                       refu := if aliasX && S.refuLast then setSome S.refu v else S.refu }
  | .refX => { S with refx := if aliasX then setSome S.refx v else S.refx,
                      last := if S.refxLast then S.last.map (fun p => (v, p.2)) else S.last }
  | .refU => { S with refu := if aliasX then setSome S.refu v else S.refu,
                      last := if S.refuLast then S.last.map (fun p => (p.1, v)) else S.last }

def stepN (aliasT aliasX partialF : Bool) (fs gs : List Fn) (S : NState α) : NEv α → NState α × NOut α
  | .call x u =>
    let env := mkEnv x u (ofInt S.clock)
    ({ S with clock := S.clock + 1, last := some (x, u), refxLast := false, refuLast := false },
     .outputs (evalAll fs env) (evalAll gs env))
  | .refpoint x? u? t? => setRefpoint aliasT fs gs S x? u? t? partialF
  | .refRaise x? u? t? => setRefpoint aliasT fs gs S x? u? t? partialF true
  | .callRaise x u =>
    -- `self.state, self.input = …` is assigned before the user function runs; the hook is not reached
    (if partialF then { S with last := some (x, u), refxLast := false, refuLast := false } else S, .raised)
  | .reset t => ({ S with clock := t.trunc }, .done)
  | .assign t => ({ S with clock := t.trunc }, .done)
  | .poke tgt v => (pokeN aliasX S tgt v, .done)

def runN (aliasT aliasX partialF : Bool) (fs gs : List Fn) (S : NState α) (evs : List (NEv α)) : NState α :=
  evs.foldl (fun S e => (stepN aliasT aliasX partialF fs gs S e).1) S

/-- reading `A, B, C, D, c1, c2` now (`none`: an `AttributeError`, no reference point yet) -/
def readLin (fs gs : List Fn) (S : NState α) : Option (Lin α) :=
  match S.refx, S.refu, S.reft, S.reff, S.refg with
  | some x, some u, some rt, some f, some g => some (linAt fs gs x u (rt.value S.clock) f g)
  | _, _, _, _, _ => none

/-- clock event an NLS event amounts to -/
def NEv.toEv : NEv α → Ev
  | .call _ _ => .call
  | .refpoint _ _ _ => .refpoint none
  | .reset t => .reset t
  | .assign t => .assign t
  | .poke _ _ => .fwdDirect          -- no effect on the clock
  | .callRaise _ _ => .callRaise
  | .refRaise _ _ _ => .refpoint none

/-- any `set_refpoint` attempt (successful, unresolved arguments, or a user function that raises) -/
def NEv.isRef : NEv α → Bool
  | .refpoint _ _ _ => true
  | .refRaise _ _ _ => true
  | _ => false

def NEv.isPoke : NEv α → Bool
  | .poke _ _ => true
  | _ => false

end PP.Dyn
