"""C07 — a GN / LM step is the documented damped, weighted linear solve on the manifold.

Model: lean/Pose/Model/GNStep.lean (flattenRowJac = flatten_row_jacobian, pickCorrector, wblocks / blockDiag = normalize_RWJ,
gnA / gnb, lmJT / lmA0 / dampDiag / lmAk / lmb, updateParams / stepUpdate with the shared Lie model for Exp(d)·X);
theorems: lean/Proofs/Props/C07.lean.

Every case is a random residual model (harness/util_c07.py) driven through 1-3 consecutive `step()` calls of a real
`pp.optim.GN` / `pp.optim.LM` whose solver, strategy and correctors are *recording wrappers* around the real ones
(public constructor arguments / attributes, no hooks):

  recording corrector : sees (R_i, J_i) after flatten_row_jacobian, returns what the wrapped corrector returns
  recording solver    : sees (A, b) of every trial, the damping current at that trial, the parameters at that moment;
                        returns the wrapped solver's D (or a deliberately bad multiple of it, to force LM rejections)
  recording strategy  : sees the parameters right after `+D`, and (J, D, R) handed to `strategy.update`

Correspondence streams (implementation vs the Lean model in 192-bit arithmetic; ctx.disagree)
  hcat    : modjac's raw blocks of every parameter -> model `flattenRowJac` (frozen blocks dropped) == the J_i the
            corrector saw                                                                           (exact)
  pick    : which corrector object served which residual == model `pickCorrector`                  (exact)
  wdiag   : RobustModel.normalize_RWJ's block-diagonal weight == model `blockDiag ∘ wblocks` for every residual rank
            <= 4, every documented weight shape, d = 1..3 (+ malformed shapes: both raise)          (exact)
  gn      : (A, b) seen by the solver == model `gnSystem` of the corrected (R', J') and the weights (64 eps |W||J|)
  lm      : (A_k, b) of every trial == model `lmA0`/`lmAk`/`lmb` with the observed dampings        (64 eps |J|ᵀ|W||J|)
  update  : parameters after `+D` (and after a rejected `-D`) == model `stepUpdate` (Exp(d)·X in 192 bit)
            rotation 32 eps, translation 64 eps·scale, scale 64 eps relative, Euclidean / algebra 2 eps·scale
Oracles on the real code (the property's own statement; ctx.fail with a concrete input)
  residual: R_i == program(params) - target_i recomputed by the harness
  jac     : J_i == Richardson central differences of the real forward pass in the parameters' tangent coordinates
            (left perturbation), 1e-6 relative (float32 models: 2e-3); slot columns of group parameters exactly 0
  weight / lm-system : A, b, A_k recomputed in float64 by broadcasting W against the residual items (einsum), the
            clamp and the cumulative damping product — no block_diag, no in-place update
  solve   : the D returned by the library solver satisfies the normal equations of (A, b) (GN; minimum norm for PINV)
            resp. A_k D = b (LM)
  corrector: with corrector=None the corrected (R', J') are sqrt(rho_i'(|R_item|^2))·(R, J) for the i-th configured kernel
  update  : frozen parameters bit-identical; trainable ones equal the retraction by their own slice of D computed with
            the library's Exp / @ on float64 copies; strategy.update receives cat(J'), D, cat(R')
  frozen  : a model with a requires_grad=False parameter must still step and move every trainable parameter by its own
            slice (this found defects D29 / D29b, since repaired in /repo)
  purity / attributes / aliasing (hardening): every tensor the caller passed (inputs, targets, step and constructor
            weights — also as non-contiguous views, expanded tensors, slices of larger buffers, one tensor used twice) is
            bit-identical after step(), the storage next to a view is untouched, a parameter that is a view of the caller's
            buffer is updated *in place*, and min / max / reject / solver / strategy / corrector / weight of the optimizer
            are unchanged by a call
  weight-view: a valid SPD weight of a documented shape must be accepted whatever its strides (this found D37, repaired)
  itemwise : a batch of independent items (every leaf batched) stepped by GN moves item t exactly as the step on item t
            alone (per-item targets exact / tiny / ordinary / far in one batch; every kernel x {auto, Fast, Triggs})
  crash    : anything the implementation returns that the check cannot even process is reported with the case
Histories (hardening): from the second call on every per-call argument may be replaced (input values and batch shapes,
targets, step weights and their documented shape / layout), the caller may overwrite its own input / target tensors and
the constructor weight in place, and may modify parameters in place (copy_, add_, item assignment) between steps.
Pass 5 (classes 29-36): default-constructed optimizers interleaved and compared step by step with twins built from the
documented defaults (`defaults`); identical histories repeated after every other operation ran in the process (`repeat`);
models that return a parameter / a view of one / their input / the same tensor twice; targets of every dtype torch promotes
(int8 … int64, uint8, float16, bfloat16, float32 for float64 models); `weight` as a property of a user subclass; SPD weights
at relative distance 1e-3 … 1e-14 from I / c·I / a diagonal / one common block (hidden `allclose` fast paths, seed C07-5); update_parameter and the correctors at 2^17+37 items (quick), 2^18+1, 2^18+37,
2^20+1 (thorough) with cuts at the last multiple of 2^k and every item against the float64 reference.
Degenerate situations are counted, not judged (input_distribution `degenerate.*`): non-finite forward pass after a
deliberately bad trial step, |D| > 1e4 (Exp loses its phase / overflows), damped diagonal beyond the dtype's range.
"""
from __future__ import annotations

import contextlib
import copy
import io
import json
import math
import random
import warnings

import torch
from torch import nn

from . import common, util_lie as U, util_c07 as G
from .common import Ctx

META = {
    "rule": "random residual programs over {Exp, Log, Inv, @, Act (3/4-vectors), Adj, AdjT, Retr, matrix(), tensor(), +, "
            "scalar *} with 1-3 parameters of mixed kinds (SO3/SE3/RxSO3/Sim3 group, so3/se3/rxso3/sim3 algebra, Euclidean "
            "3/4-vectors, 0-dim and (…,1) scalars; per-parameter batch shapes broadcastable to the case's batch shape of rank "
            "0-3; unused and frozen parameters included), 1-2 residual outputs (algebra LieTensor / tensor / matrix), targets "
            "at distance {0,1e-12,…,1} from the current output or absent, input passed as tensor/tuple/list/dict; SPD weights "
            "in every documented shape (suffix of the residual's batch shape + (d,d), d=1 included) with magnitudes 1e-3..1e3, "
            "given to the constructor, to step() or both (different values); kernels x correctors (None/auto/FastTriggs/Triggs, "
            "single or per residual); solvers PINV/LSTSQ (GN, LM) + Cholesky/CG (LM); strategies Constant/Adaptive/TrustRegion; "
            "damping ladder 1e-9..1e3; clamps min 1e-9..50 x max 1e-3..1e32 (incl. min>max); reject 0..5; vectorize on/off; "
            "float64/float32; 1-3 consecutive step() calls on the same optimizer with param_groups min/max/damping edited in "
            "between, every per-call argument (input values / batch shapes, targets, step weights, constructor weight in place, "
            "parameters in place) varied from the second call on; memory layouts: inputs / targets / weights / parameters as "
            "non-contiguous views, expanded weights, slices of guarded buffers, shared tensors; extreme-but-valid elements "
            "(rotation up to pi-1e-3, translations 1e3, scales e^+-12, weights 1e-8..1e8) with probability 0.06 per leaf; "
            "per-item target distances (mixed regimes in one batch); an item-wise stream (batched GN step == step on each item "
            "alone) over every kernel x corrector; LM trials forced to be rejected 0-3 times by a solver wrapper that returns a bad multiple of D. A fixed "
            "deterministic corner corpus (all weight shapes on a rank-3 residual, clamp regimes, multi-trial damping, all "
            "group kinds incl. Sim3 scale steps, tiny/zero steps, two correctors, step-weight override, edited clamps, frozen "
            "parameter; pass-5 classes: aliasing models, target dtypes, nearly-identity / nearly-symmetric weights, nearly equal items, "
            "omitted optional arguments, property weights) precedes the random cases on every seed; a quarter of the random "
            "weights is a perturbation (1e-3 … 1e-14 relative) of I / c·I / a diagonal / a block-constant weight. non-trivial = at least one trainable parameter is reached by "
            "a residual; distinct by (optimizer, solver, strategy, kinds, shapes, weight shapes, corrector layout, dtype, "
            "trials, clamp regime).",
    "trusted": [
        "torch.autograd.functional.jacobian / PyPose backward passes give the tangent Jacobian (property C04) — re-checked "
        "here against finite differences of the real forward pass at 1e-6 relative",
        "the wrapped correctors (C09), solvers (C10), strategies and the accept/reject loop (C08) are contract parameters of "
        "the model: their observed outputs are fed to the model",
        "finite-difference oracle: Richardson-extrapolated central differences in float64 (cases whose two step sizes "
        "disagree by more than 1e-7 relative are not used for the Jacobian oracle; counted as jac.fd-unreliable)",
    ],
    "assumptions": [
        "weights are symmetric positive definite and have one of the documented shapes (suffix of the residual's batch "
        "shape followed by (d, d)); other broadcastable shapes (interior 1s) are outside the property's quantifier",
        "group parameters hold valid elements (unit quaternion to rounding, positive scale)",
        "J (the Jacobian returned by modjac) is the tangent Jacobian — property C04; theorems take J as given",
    ],
    "partial": [
        "IEEE rounding of the matrix products / of Exp(d)·X is measured against the 192-bit model at the property's "
        "tolerance, not proved",
        "the corrector formulas (C09), the solver's internals (C10) and the accept/reject loop (C08) are parameters here",
        "not modelled (oracles on the real code only): the sparse `update_parameter` / `sparse=True` path, the `vectorize` flag of "
        "modjac (both settings must meet the finite-difference Jacobian), atomicity of the real step() (the model's gnCall is "
        "atomic by construction; the code updates parameters one after the other and LM writes self.last/self.loss before its "
        "loop — decided by the `atomic` oracle), GN with non-square weight blocks (outside the SPD domain)",
        "a full step() costs O(N^2) in the number of residual rows (row-by-row Jacobian): exercised up to 2^12+1 rows in quick and "
        "2^14+1 in thorough; the entry points that are linear in N (update_parameter, the correctors) run at 2^16+1",
        "programs exclude Jinvp and Exp/Log of RxSO3/Sim3 (truncated-series backward passes would not meet the 1e-6 Jacobian "
        "oracle); RxSO3/Sim3 still occur as group parameters under Inv/@/Act/Adj/AdjT/matrix and in the update Exp(d)·X",
    ],
}

EPS = common.EPS
KIND_CODE = {("E", None): 0, ("A", "SO3"): 1, ("A", "SE3"): 2, ("A", "RxSO3"): 3, ("A", "Sim3"): 4,
             ("G", "SO3"): 5, ("G", "SE3"): 6, ("G", "RxSO3"): 7, ("G", "Sim3"): 8}


def pp():
    return U.pp()


raw = G.raw


def fw(tok: str) -> float:
    """float of a wire token `m:e` (correctly rounded mantissa, exact scaling); astronomically large / small exponents
    (the 192-bit model does not overflow where the float code does) become +-inf / 0"""
    m, e = tok.split(":")
    m, e = int(m), int(e)
    if m == 0:
        return 0.0
    try:
        return math.ldexp(float(m), e)
    except OverflowError:
        return math.copysign(math.inf, m)


def wl(t):
    """wire tokens of a tensor (exact float64 values)"""
    return common.wire_list(t.detach().double().reshape(-1).tolist())


# ----------------------------------------------------------------------------- recorders

class InjectedError(RuntimeError):
    """raised on purpose by a recording solver / corrector (a user callback that fails)"""


# (48) every attribute the harness puts on an object that may derive from a shipped class (user_subclass mixes the recorders
# into PINV / Cholesky / TrustRegion / FastTriggs …) carries the prefix `vfh07_`, so that a library refactor that introduces
# a private helper or attribute (`_jac`, `log`, `opt`, …) cannot collide with it; only the public names the library itself
# reads are kept (`forward`, `update`, `defaults`, `update_parameter`, the property `weight`)
class RecCorr(nn.Module):
    def __init__(self, inner, tag, log, box=None):
        nn.Module.__init__(self)        # (not super(): the recorder may be mixed into a shipped class, see user_subclass)
        self.vfh07_inner, self.vfh07_tag, self.vfh07_log = inner, tag, log
        self.vfh07_box = box if box is not None else {}

    def forward(self, R, J):
        if self.vfh07_box.get("raise_corr") == self.vfh07_box.get("n_corr_calls", 0):
            self.vfh07_box["n_corr_calls"] = self.vfh07_box.get("n_corr_calls", 0) + 1
            raise InjectedError("injected: the user's corrector raises")
        self.vfh07_box["n_corr_calls"] = self.vfh07_box.get("n_corr_calls", 0) + 1
        out = self.vfh07_inner(R=R, J=J)
        Rc, Jc = out
        self.vfh07_log.append({"tag": self.vfh07_tag, "R": raw(R).clone(), "J": raw(J).clone(), "Rc": raw(Rc).clone(), "Jc": raw(Jc).clone()})
        return Rc, Jc


def user_subclass(rec_cls, inner):
    """(21) a recorder that DERIVES from the shipped class of the object it wraps (a user's `class MySolver(PINV)` with its own
    `forward`): code that dispatches on isinstance / class identity instead of calling the object's own method shows there"""
    base = type(inner)
    if base.__module__.startswith("harness") or not isinstance(base, type):
        return rec_cls
    try:
        return type("User" + base.__name__, (rec_cls, base), {})
    except TypeError:
        return rec_cls


class RecSolver(nn.Module):
    def __init__(self, inner, log):
        nn.Module.__init__(self)
        self.vfh07_inner, self.vfh07_log = inner, log
        self.vfh07_opt = None
        self.vfh07_bad = []          # factors for the first calls of the current step
        self.vfh07_raise_at = None   # index of the solver call (within the current step) that raises

    def forward(self, A, b):
        pg = self.vfh07_opt.param_groups[0]
        rec = {"A": raw(A).clone(), "b": raw(b).clone(), "damping": pg.get("damping"), "min": pg.get("min"), "max": pg.get("max"),
               "params": [raw(p).clone() for p in pg["params"]]}
        k = len(self.vfh07_log)
        self.vfh07_log.append(rec)
        if self.vfh07_raise_at is not None and k == self.vfh07_raise_at:
            rec["raised"] = "InjectedError"
            raise InjectedError("injected: the user's solver raises")
        try:
            D = self.vfh07_inner(A=A, b=b)
        except Exception as e:      # LM prints the message and breaks out of its loop (property C08 / C10)
            rec["raised"] = f"{type(e).__name__}: {str(e)[:120]}"
            raise
        rec["D_true"] = raw(D).clone()
        if k < len(self.vfh07_bad) and self.vfh07_bad[k] is not None:
            D = D * self.vfh07_bad[k]
        rec["D"] = raw(D).clone()
        return D


class RecStrategy:
    def __init__(self, inner, log):
        self.vfh07_inner, self.vfh07_log = inner, log
        self.defaults = inner.defaults

    def update(self, pg, last, loss, J, D, R, *a, **kw):
        self.vfh07_log.append({"params": [raw(p).clone() for p in pg["params"]], "J": raw(J).clone(), "D": raw(D).clone(),
                         "R": raw(R).clone(), "last": float(last), "loss": float(loss)})
        return self.vfh07_inner.update(pg, last=last, loss=loss, J=J, D=D, R=R)


# ----------------------------------------------------------------------------- building the optimizer of a case

class UserQuad(nn.Module):
    """a user-supplied kernel with rho'' > 0 (rho(x) = x + c x^2 / 2): the only way to reach the second-order branch of the
    Triggs corrector — every library kernel has rho'' <= 0"""

    def __init__(self, c=0.3):
        super().__init__()
        self.c = c

    def forward(self, x):
        return x + 0.5 * self.c * x * x


def build_kernel(spec):
    if spec is None:
        return None
    if spec["name"] == "UserQuad":
        return UserQuad(*spec.get("args", []))
    if spec["name"].startswith("SubQuad:"):     # (21) derives from a shipped kernel, computes its own function
        import pypose.optim.kernel as K
        base = getattr(K, spec["name"].split(":")[1])
        c_ = spec.get("args", [0.3])[0]
        cls = type("User" + base.__name__, (base,), {"forward": lambda self, x, c_=c_: x + 0.5 * c_ * x * x})
        return cls()
    import pypose.optim.kernel as K
    return getattr(K, spec["name"])(*spec.get("args", []))


def build_corrector(spec):
    if spec is None:
        return None
    import pypose.optim.corrector as C
    return getattr(C, spec["type"])(build_kernel(spec["kernel"]))


def build_arg(spec, builder):
    if isinstance(spec, list):
        return [builder(s) for s in spec]
    return builder(spec)


def build_solver(name):
    import pypose.optim.solver as S
    if name == "PINV":
        return S.PINV()
    if name == "LSTSQ":
        return S.LSTSQ()
    if name == "Cholesky":
        return S.Cholesky()
    if name == "CG":
        return S.CG(tol=1e-8)
    if name == "Cholesky_upper":
        return S.Cholesky(upper=True)
    if name == "PINV_herm":
        return S.PINV(hermitian=True)
    if name == "LSTSQ_gelsd":
        return S.LSTSQ(driver="gelsd")
    if name == "LSTSQ_gelss":
        return S.LSTSQ(rcond=1e-14, driver="gelss")
    if name == "default":
        return None
    raise ValueError(name)


def build_strategy(spec):
    import pypose.optim.strategy as S
    kw = {k: v for k, v in spec.items() if k != "name"}
    return getattr(S, spec["name"])(**kw)


def weight_layout(t, layout, spec):
    """weight tensor with the logical values `t` and the requested memory layout: (tensor, buffer, layout)
    contig | mT (transposed storage of the symmetric blocks) | slice (last dim of a wider buffer) | expand (a weight of a
    shorter documented shape expanded, stride 0, to this one) | tbatch (first two batch dims stored transposed) |
    bslice (slice of a longer buffer along the second batch dim; the first one if there is only one)"""
    nb = t.dim() - 2
    if layout == "mT":
        return t.mT.contiguous().mT, None, layout
    if layout == "slice":
        v, buf = G.laid_out(t, "slice")
        return v, buf, layout
    if layout == "expand" and spec.get("base_shape") is not None:
        base = t.reshape(-1, *spec["shape"][-2:])[: int(math.prod(spec["base_shape"][:-2]))].reshape(spec["base_shape"]).clone()
        return base.expand(*spec["shape"]), None, layout
    if layout == "tbatch" and nb >= 2:
        return t.transpose(0, 1).contiguous().transpose(0, 1), None, layout
    if layout == "bslice" and nb >= 1:
        dim = 1 if nb >= 2 else 0
        shp = list(t.shape); shp[dim] += 2
        buf = torch.full(shp, G.GUARD, dtype=t.dtype)
        buf.narrow(dim, 1, t.shape[dim]).copy_(t)
        return buf.narrow(dim, 1, t.shape[dim]), (buf, dim), layout
    return t.clone(), None, "contig"


def weight_tensors(wspec, D, with_info=False):
    """wspec: None | list (one per residual) of {"shape": […], "values": flat list, ["layout": …, "base_shape": …]}
    (`values` are the logical values of the full shape; for layout `expand` they are constant along the expanded dims)"""
    if wspec is None:
        return (None, []) if with_info else None
    ws, info = [], []
    for w in wspec:
        if isinstance(w.get("alias_of"), int):
            ws.append(ws[w["alias_of"]]); info.append(None)
            continue
        t = torch.tensor(w["values"], dtype=torch.float64).to(D).reshape(w["shape"])
        v, buf, lay = weight_layout(t, w.get("layout", "contig"), w)
        ws.append(v); info.append((buf, lay))
    return (ws, info) if with_info else ws


def weight_guard_ok(info):
    for it in info:
        if it is None or it[0] is None:
            continue
        buf, lay = it
        if lay == "slice" and not G.guard_ok(buf, "slice"):
            return False
        if lay == "bslice":
            b_, dim = buf
            if not (bool((b_.narrow(dim, 0, 1) == G.GUARD).all()) and bool((b_.narrow(dim, b_.shape[dim] - 1, 1) == G.GUARD).all())):
                return False
    return True


def pass_weight(ws, style):
    if ws is None:
        return None
    if len(ws) == 1 and style == "tensor":
        return ws[0]
    return tuple(ws) if style == "tuple" else list(ws)


class Env:
    pass


def target_tensors(tg, D):
    """list of target tensors (or None) with their layouts; aliases share the tensor object"""
    if tg is None:
        return None, []
    tl, info = [], []
    for t in tg:
        if t is None:
            tl.append(None); info.append(None)
        elif isinstance(t.get("alias_of"), int):
            tl.append(tl[t["alias_of"]]); info.append(None)
        else:
            tD = getattr(torch, t["tdtype"]) if t.get("tdtype") else D      # (30) targets of another dtype (promotion keeps the parameters')
            v, buf = G.laid_out(torch.tensor(t["values"], dtype=torch.float64).to(tD).reshape(t["shape"]), t.get("layout"))
            if t.get("as_lie"):        # (13) the target of an algebra-valued output given as a LieTensor
                v = pp().LieTensor(v, ltype=U.ltype(U.ALG[t["as_lie"]]))
            tl.append(v); info.append((buf, t.get("layout")))
    return tl, info


def pack_target(case, tl):
    if tl is None:
        return None
    return tl[0] if (len(case["roots"]) == 1 and not case.get("tuple_out")) else (tuple(tl) if case.get("target_tuple") else tl)


def effective_case(case, ci, prev=None):
    """the data of call `ci`: input leaves / targets / step weights may be replaced per call"""
    call = case["calls"][ci]
    base = prev if prev is not None else case
    e = dict(base)
    if call.get("inputs"):
        leaves = [dict(lf) for lf in base["leaves"]]
        for k_, ov in call["inputs"].items():
            leaves[int(k_)].update(ov)
        e["leaves"] = leaves
    if "targets" in call:
        e["targets"] = call["targets"]
    if "weight_step" in call:
        e["weight_step"] = call["weight_step"]
    e["calls"] = case["calls"]
    return e


def build_env(case):
    P = pp()
    D = U.dt(case["dtype"])
    env = Env()
    env.case = case
    env.D = D
    env.model = G.ProgModel(case)
    env.kernels = build_arg(case["kernel"], build_kernel)
    env.corr_log, env.sol_log, env.str_log = [], [], []
    corr = build_arg(case["corrector"], build_corrector)
    if case.get("ktuple"):      # (13) tuples are accepted wherever lists are
        env.kernels = tuple(env.kernels) if isinstance(env.kernels, list) else env.kernels
        corr = tuple(corr) if isinstance(corr, list) else corr
    inner = build_solver(case["solver"])
    env.wctor, env.wctor_info = weight_tensors(case["weight_ctor"], D, with_info=True)
    wct = pass_weight(env.wctor, case.get("wstyle", "list"))
    pos = case.get("ctor_style") == "pos"       # (10) positional vs keyword passing
    sub = bool(case.get("subclass"))
    env.upd_calls = []
    GNc, LMc = P.optim.GN, P.optim.LM
    if sub:     # (21) the user's own optimizer classes, overriding update_parameter (and delegating to the library's)
        def _upd_gn(self, params, step, _log=env.upd_calls, **kw):
            _log.append(int(step.numel()))
            return P.optim.GN.update_parameter(self, params=params, step=step)

        def _upd_lm(self, params, step, _log=env.upd_calls, **kw):
            _log.append(int(step.numel()))
            return P.optim.LM.update_parameter(self, params, step)
        GNc = type("UserGN", (P.optim.GN,), {"update_parameter": _upd_gn})
        LMc = type("UserLM", (P.optim.LM,), {"update_parameter": _upd_lm})
    # (33) a user subclass that provides `weight` as a PROPERTY (the constructor receives None): the step must read the
    # public attribute, not a private copy made at construction
    env.prop_weight = bool(sub and case.get("prop_weight") and wct is not None)
    if env.prop_weight:
        def _getw(self, _w=wct):
            return _w

        def _setw(self, value):
            pass
        GNc = type("UserGNw", (GNc,), {"weight": property(_getw, _setw)})
        LMc = type("UserLMw", (LMc,), {"weight": property(_getw, _setw)})
    wct_arg = None if env.prop_weight else wct
    omit = bool(case.get("omit"))          # (29) optional arguments OMITTED (not passed at all), so that defaults from the signature apply
    if case["opt"] == "GN":
        if pos and not omit:
            opt = GNc(env.model, inner, env.kernels, corr, wct_arg, case["vectorize"])
        else:
            kw_ = {"solver": inner, "kernel": env.kernels, "corrector": corr, "weight": wct_arg}
            if omit:
                kw_ = {k_: v_ for k_, v_ in kw_.items() if v_ is not None}
            opt = GNc(env.model, vectorize=case["vectorize"], **kw_)
    else:
        strat = None
        if case["strategy"] is not None:
            si_ = build_strategy(case["strategy"])
            strat = (user_subclass(RecStrategy, si_) if sub else RecStrategy)(si_, env.str_log)
        opts = {}
        for k_ in ("reject", "min", "max"):         # None = the argument is not passed (library default)
            if case.get(k_) is not None:
                opts[k_] = case[k_]
        if pos and len(opts) == 3 and case.get("strategy") is not None and not omit:
            opt = LMc(env.model, inner, strat, env.kernels, corr, wct_arg, case["reject"], case["min"], case["max"], case["vectorize"])
        else:
            kw_ = {"solver": inner, "strategy": strat, "kernel": env.kernels, "corrector": corr, "weight": wct_arg}
            if omit:
                kw_ = {k_: v_ for k_, v_ in kw_.items() if v_ is not None}
            opt = LMc(env.model, vectorize=case["vectorize"], **kw_, **opts)
        if strat is None:   # default strategy: wrap what the optimizer created
            env.default_strategy_obj = opt.strategy
            opt.strategy = (user_subclass(RecStrategy, opt.strategy) if sub else RecStrategy)(opt.strategy, env.str_log)
    env.default_solver_obj = opt.solver
    env.user_corr = corr
    env.default_solver = type(opt.solver).__name__
    env.solver = (user_subclass(RecSolver, opt.solver) if sub else RecSolver)(opt.solver, env.sol_log)
    env.solver.vfh07_opt = opt
    opt.solver = env.solver
    env.n_corr = len(opt.corrector)
    env.corr_inner = list(opt.corrector)
    env.box = {}
    opt.corrector = [(user_subclass(RecCorr, c) if sub else RecCorr)(c, j, env.corr_log, env.box) for j, c in enumerate(opt.corrector)]
    env.opt = opt
    env.names = [n for n, _ in env.model.named_parameters()]
    env.params = [getattr(env.model, n) for n in env.names]
    env.layout = G.tangent_layout(case)
    env.rg = [bool(p.requires_grad) for p in env.params]
    env.ecase = None
    env.ins = None
    return env


def setup_call(env, ci):
    """tensors of call `ci`: fresh objects, or (call['inplace']) the previous call's objects updated in place"""
    case = env.case
    call = case["calls"][ci]
    ecase = effective_case(case, ci, env.ecase)
    D = env.D
    new_ins, new_bufs = G.make_inputs(ecase, with_bufs=True)
    if call.get("inplace") and env.ins is not None and all(tuple(raw(a_).shape) == tuple(raw(b_).shape) for a_, b_ in zip(env.ins, new_ins)):
        with torch.no_grad():
            for a_, b_ in zip(env.ins, new_ins):
                raw(a_).copy_(raw(b_))          # the caller keeps its tensors and overwrites them
    else:
        env.ins, env.in_bufs = new_ins, new_bufs
    env.input = G.pack_input(ecase, env.ins)
    tl, tinfo = target_tensors(ecase["targets"], D)
    if (call.get("inplace") and getattr(env, "target_list", None) is not None and tl is not None
            and len(tl) == len(env.target_list)
            and all((a_ is None) == (b_ is None) and (a_ is None or a_.shape == b_.shape) for a_, b_ in zip(env.target_list, tl))):
        with torch.no_grad():
            for a_, b_ in zip(env.target_list, tl):
                if a_ is not None:
                    raw(a_).copy_(raw(b_))
    else:
        env.target_list, env.t_info = tl, tinfo
    env.target = pack_target(ecase, env.target_list)
    env.wstep, env.wstep_info = (weight_tensors(ecase["weight_step"], D, with_info=True)
                                 if call.get("weight", "none") == "step" else (None, []))
    env.ecase = ecase
    return ecase


# ----------------------------------------------------------------------------- independent float64 formulas

def item_view(v, shape):
    """(N, d) view of a flat residual of tensor shape `shape` (rank 0 counts as one item of dimension 1)"""
    if len(shape) == 0:
        return v.reshape(1, 1)
    return v.reshape(-1, shape[-1])


def bcast_weight(W, shape):
    """weight broadcast against the residual's items: (N, d, d)"""
    d = shape[-1]
    batch = tuple(shape[:-1])
    return W.double().expand(batch + (d, d)).reshape(-1, d, d)


def indep_system(Rc, Jc, shapes, weights, n):
    """per-item weighted quantities in float64 (no block_diag): WJ, WR, JᵀWJ, JᵀWR and their absolute-value sums"""
    WJ, WR, aWJ, aWR = [], [], [], []
    H = torch.zeros(n, n, dtype=torch.float64)
    g = torch.zeros(n, dtype=torch.float64)
    aH = torch.zeros(n, n, dtype=torch.float64)
    ag = torch.zeros(n, dtype=torch.float64)
    for i, (r, j, sh) in enumerate(zip(Rc, Jc, shapes)):
        r = item_view(r.double().reshape(-1), sh)
        N, d = r.shape
        j = j.double().reshape(N, d, n)
        if weights is None:
            Wb = torch.eye(d, dtype=torch.float64).expand(N, d, d)
        else:
            Wb = bcast_weight(weights[i], sh if len(sh) else [1])
        wj = torch.einsum("tab,tbn->tan", Wb, j)
        wr = torch.einsum("tab,tb->ta", Wb, r)
        WJ.append(wj.reshape(N * d, n))
        WR.append(wr.reshape(N * d))
        aWJ.append(torch.einsum("tab,tbn->tan", Wb.abs(), j.abs()).reshape(N * d, n))
        aWR.append(torch.einsum("tab,tb->ta", Wb.abs(), r.abs()).reshape(N * d))
        H += torch.einsum("tan,tam->nm", j, wj)
        g += torch.einsum("tan,ta->n", j, wr)
        aH += torch.einsum("tan,tam->nm", j.abs(), aWJ[-1].reshape(N, d, n))
        ag += torch.einsum("tan,ta->n", j.abs(), aWR[-1].reshape(N, d))
    return {"WJ": torch.cat(WJ), "WR": torch.cat(WR), "aWJ": torch.cat(aWJ), "aWR": torch.cat(aWR), "H": H, "g": g, "aH": aH, "ag": ag}


def clamp64(x, lo, hi):
    return torch.minimum(torch.maximum(x, torch.tensor(float(lo), dtype=torch.float64)), torch.tensor(float(hi), dtype=torch.float64))


FLOOR = {"float64": 1e-300, "float32": 64 * 1.1754944e-38}   # products below the dtype's normal range underflow


def worst(obs, ref, scale, tol, floor=1e-300):
    """largest violation ratio of |obs-ref| <= tol*scale (+ underflow floor) and its flat index"""
    err = (obs.double() - ref.double()).abs()
    lim = tol * scale.double() + floor
    ratio = err / lim
    ratio = torch.nan_to_num(ratio, nan=float("inf"))
    if ratio.numel() == 0:
        return 0.0, -1
    i = int(ratio.reshape(-1).argmax())
    return float(ratio.reshape(-1)[i]), i


# ----------------------------------------------------------------------------- parameter update: independent + model

def indep_update(env, before, D):
    """library Exp / @ on float64 copies, each trainable parameter with its own slice of D (registration order)"""
    P = pp()
    out, off = [], 0
    Dv = D.double().reshape(-1)
    for p0, (kind, g, n, sd, td), rg in zip(before, env.layout, env.rg):
        if not rg:
            out.append(p0.double().clone())
            continue
        d = Dv[off: off + n * sd].reshape(n, sd) if n * sd else Dv[off:off]
        off += n * sd
        x = p0.double().reshape(n, sd) if n * sd else p0.double().reshape(0, sd)
        if kind == "G" and n:
            X = P.LieTensor(x, ltype=U.ltype(g))
            y = (P.LieTensor(d[:, :td].contiguous(), ltype=U.ltype(U.ALG[g])).Exp() @ X).tensor()
        else:
            y = x + d
        out.append(y.reshape(p0.shape))
    return out, off


def update_tolerances(env, before, after_ref, D, eps, floor=0.0):
    """per-parameter (abs tolerance tensor) following the property's block tolerances"""
    tols, off = [], 0
    Dv = D.double().reshape(-1)
    for p0, ref, (kind, g, n, sd, td), rg in zip(before, after_ref, env.layout, env.rg):
        if not rg:
            tols.append(torch.zeros_like(ref, dtype=torch.float64))
            continue
        d = Dv[off: off + n * sd].reshape(n, sd)
        off += n * sd
        x = p0.double().reshape(n, sd)
        r = ref.double().reshape(n, sd)
        t = torch.zeros(n, sd, dtype=torch.float64)
        if kind == "G":
            # a step of rotation angle th > 1 loses th ulp in the phase of sin/cos: every block scales with max(1, th)
            big = torch.clamp(d[:, U.PHISL[g]].norm(dim=1), min=1.0)
            q = U.QSL[g]
            t[:, q] = (32 * eps * big).unsqueeze(1)
            sdl = torch.ones(n, dtype=torch.float64)
            if U.SIGIDX[g] is not None:
                sdl = torch.exp(d[:, U.SIGIDX[g]].clamp(max=700.0))
            if U.TSL[g] is not None:
                ts = U.TSL[g]
                # Exp's translation block: 4·sqrt(eps) relative to the translation scale of the step (the property's
                # tolerance for Exp, C01); the group product t' = t_d + s_d R_d t: 64·eps·scale
                sc = torch.maximum(torch.maximum(x[:, ts].abs().amax(1) * torch.clamp(sdl, min=1.0), r[:, ts].abs().amax(1)), x[:, ts].abs().amax(1))
                tstep = d[:, :3].abs().amax(1) * torch.clamp(sdl, min=1.0)
                # the closed-form coefficients of Exp's translation block cancel like eps/theta (and eps/|sigma| for Sim3):
                # allowance 64·eps·max(1, 1/theta, 1/|sigma|), never more than the property's 4·sqrt(eps)
                th_ = d[:, U.PHISL[g]].norm(dim=1)
                small = th_.clone()
                if U.SIGIDX[g] is not None:
                    sg_ = d[:, U.SIGIDX[g]].abs()
                    small = torch.where((sg_ > 0) & ((sg_ < small) | (small == 0)), sg_, small)
                amp = torch.where(small > 0, torch.clamp(1.0 / small, min=1.0), torch.ones_like(small))
                rel = torch.clamp(64 * eps * amp, max=4 * math.sqrt(eps))
                t[:, ts] = ((64 * eps * sc + rel * tstep) * big + 1e-300).unsqueeze(1)
            if U.SIDX[g] is not None:
                t[:, U.SIDX[g]] = 64 * eps * r[:, U.SIDX[g]].abs() * (1 + d[:, U.SIGIDX[g]].abs())
        else:
            t = 2 * eps * torch.maximum(x.abs(), d.abs()) + 1e-300
        tols.append(t.reshape(ref.shape) + floor)
    return tols


def update_line(env, before, D, eps_model):
    specs, data = [], []
    for p0, (kind, g, n, sd, td), rg in zip(before, env.layout, env.rg):
        specs += [KIND_CODE[(kind, g)], n * sd, 1 if rg else 0]
        data.append(wl(p0))
    Dv = D.reshape(-1)
    return (f"c07.update {len(before)} " + " ".join(map(str, specs)) + f" {Dv.numel()} " + common.to_wire(eps_model) + " "
            + " ".join(x for x in data if x) + (" " + wl(Dv) if Dv.numel() else ""))


def near_threshold(env, D, eps):
    """does any group item's step have |phi| or |sigma| within 0.1 % of the Exp branch threshold eps?"""
    off = 0
    Dv = D.double().reshape(-1)
    for (kind, g, n, sd, td), rg in zip(env.layout, env.rg):
        if not rg:
            continue
        d = Dv[off: off + n * sd].reshape(n, sd)
        off += n * sd
        if kind != "G" or n == 0:
            continue
        ph = d[:, U.PHISL[g]].norm(dim=1)
        vals = [ph]
        if U.SIGIDX[g] is not None:
            vals.append(d[:, U.SIGIDX[g]].abs())
        for v in vals:
            if bool(((v / eps - 1).abs() < 1e-3).any()):
                return True
    return False


# ----------------------------------------------------------------------------- one case

def cdesc(case):
    """what goes into ctx.fail / ctx.disagree: the full case (replayable)"""
    return {k: v for k, v in case.items() if not k.startswith("_")}


def residual_shapes(env):
    with torch.no_grad():
        outs = env.model(*env.ins)
    outs = outs if isinstance(outs, tuple) else (outs,)
    return [list(raw(o).shape) for o in outs], [raw(o).clone() for o in outs]   # clone: tensor() of a parameter aliases it


def apply_param_edit(env, edit):
    """the caller modifies parameters in place between two steps (copy_ / add_ / item assignment)"""
    leaf_to_param = {}
    ip = 0
    for li, lf in enumerate(env.case["leaves"]):
        if lf["role"] == "param":
            leaf_to_param[li] = ip
            ip += 1
    with torch.no_grad():
        for k_, ed in edit.items():
            p_ = raw(env.params[leaf_to_param[int(k_)]])
            v = torch.tensor(ed["values"], dtype=torch.float64).to(p_.dtype)
            if ed["mode"] == "copy":
                p_.copy_(v.reshape(p_.shape))
            elif ed["mode"] == "add":
                p_.add_(v.reshape(p_.shape))
            else:   # item assignment
                flat = p_.reshape(-1, p_.shape[-1]) if p_.dim() else p_.reshape(1, 1)
                if flat.data_ptr() == p_.data_ptr() or p_.is_contiguous():
                    flat[ed["item"]] = v.reshape(-1)
                else:
                    idx = list(torch.unravel_index(torch.tensor(ed["item"]), p_.shape[:-1]))
                    p_[tuple(int(i_) for i_ in idx)] = v.reshape(-1)


def public_state(opt):
    """attributes a step must not change (damping / radius / down / loss / last / reject_count are documented state)"""
    pg = opt.param_groups[0]
    return {"min": pg.get("min"), "max": pg.get("max"), "reject": getattr(opt, "reject", None),
            "jackwargs": dict(opt.jackwargs), "solver": id(opt.solver), "strategy": id(getattr(opt, "strategy", None)),
            "corrector": [id(c_) for c_ in opt.corrector], "n_groups": len(opt.param_groups),
            "params": [id(p_) for p_ in pg["params"]], "high": pg.get("high"), "low": pg.get("low"), "up": pg.get("up"),
            "factor": pg.get("factor"),
            "weight": None if opt.weight is None else ([id(w_) for w_ in opt.weight] if isinstance(opt.weight, (tuple, list)) else id(opt.weight))}


def check_case(ctx: Ctx, case, pending):
    """class (8) of the hardening list: whatever the implementation does (wrong shapes, wrong types, exceptions in places
    the harness did not foresee) must end as a reported failure with the case, never as a crash of the harness"""
    return run_interleaved(ctx, [case], pending)[0]


def run_interleaved(ctx: Ctx, cases, pending):
    """(17) the histories of several cases (different optimizers, dtypes, objects) advance in turn, one step() at a time,
    in one process; every history is judged exactly as if it ran alone"""
    gens = [_check_case_gen(ctx, c_, pending) for c_ in cases]
    res = [None] * len(cases)
    live = list(range(len(cases)))
    while live:
        for i_ in list(live):
            try:
                next(gens[i_])
            except StopIteration as e:
                res[i_] = bool(e.value)
                live.remove(i_)
            except common.InfraError:
                raise
            except Exception as e:
                import traceback
                ctx.fail(cdesc(cases[i_]), f"crash: the step produced something the check could not process — {type(e).__name__}: "
                                           f"{str(e)[:160]} | " + traceback.format_exc()[-1500:].replace("\n", " / "))
                res[i_] = False
                live.remove(i_)
    return res


@contextlib.contextmanager
def default_dtype(name):
    """(25) a process-wide default dtype different from the operands' dtype around construction and calls"""
    if not name:
        yield
        return
    old = torch.get_default_dtype()
    torch.set_default_dtype(getattr(torch, name))
    try:
        yield
    finally:
        torch.set_default_dtype(old)


def arg_tokens(spec):
    """wire encoding of a kernel= / corrector= argument: -1 None | 0 one module | L flag_1 … flag_L"""
    if spec is None:
        return "-1"
    if isinstance(spec, list):
        return f"{len(spec)} " + " ".join("0" if e_ is None else "1" for e_ in spec)
    return "0"


def corrector_codes(env):
    """what optimizer.corrector holds, in the model's vocabulary: T | AN | A<kernel index> | U<corrector index>"""
    uc = env.user_corr
    ucl = [] if uc is None else (list(uc) if isinstance(uc, (list, tuple)) else [uc])
    ks = env.kernels
    kl = [] if ks is None else (list(ks) if isinstance(ks, (list, tuple)) else [ks])
    codes = []
    for c_ in env.corr_inner:
        hit = [j_ for j_, u_ in enumerate(ucl) if u_ is c_]
        if hit:
            codes.append(f"U{hit[0]}")
        elif type(c_).__name__ == "Trivial":
            codes.append("T")
        elif type(c_).__name__ == "FastTriggs":
            try:
                kern = c_.func.__closure__[0].cell_contents
            except Exception:
                kern = None
            kh = [j_ for j_, k_ in enumerate(kl) if k_ is kern]
            codes.append(f"A{kh[0]}" if kh else ("AN" if type(kern).__name__ == "Trivial" else "A?"))
        else:
            codes.append("?" + type(c_).__name__)
    return codes


def make_twin(env, case):
    """(14) an independent optimizer in the same state: fresh model + optimizer, model.load_state_dict and
    optimizer.load_state_dict of the original (deepcopy / pickle of the optimizer itself drop every attribute through
    torch's Optimizer.__getstate__ on the clean tree — an observation, see notes)"""
    try:
        tw = build_env(case)
        tw.model.load_state_dict(env.model.state_dict())
        for p_, q_ in zip(tw.params, env.params):
            p_.requires_grad_(bool(q_.requires_grad))
        tw.rg = list(env.rg)
        tw.opt.load_state_dict(env.opt.state_dict())
        if hasattr(env.opt, "loss"):
            tw.opt.loss = env.opt.loss.clone()
        if hasattr(env.opt, "last"):
            tw.opt.last = env.opt.last.clone() if isinstance(env.opt.last, torch.Tensor) else env.opt.last
        tw.ecase, tw.ins = None, None
        if env.ecase is not None:
            tw.ecase = env.ecase
        return tw
    except Exception:
        return None


def twin_snapshot(env, ref=None):
    cur = ([raw(p_).clone() for p_ in env.params],
           {k_: v_ for k_, v_ in env.opt.param_groups[0].items() if k_ != "params"})
    if ref is None:
        return cur
    same = all(torch.equal(torch.nan_to_num(a_, nan=12345.0), torch.nan_to_num(b_, nan=12345.0)) for a_, b_ in zip(cur[0], ref[0])) \
        and cur[1] == ref[1]
    return same


def _check_case_gen(ctx: Ctx, case, pending):
    """runs every call of the case on the real code; oracles -> ctx.fail immediately; model comparisons are appended to
    `pending` as (line, callback(reply))"""
    P = pp()
    eps = EPS[case["dtype"]]
    fl = FLOOR[case["dtype"]]
    f32 = case["dtype"] == "float32"
    cd = cdesc(case)
    try:
        with default_dtype(case.get("default_dtype")):
            env = build_env(case)
    except Exception as e:
        ctx.fail(cd, f"construct: optimizer construction raises {type(e).__name__}: {str(e)[:160]}")
        return False
    opt = env.opt
    if case.get("default_dtype"):
        ctx.count(f"defaultdtype.{case['default_dtype']}.operands-{case['dtype']}")
    # (10) what was passed to the constructor — positionally or by keyword — is what the optimizer uses
    pg_ = opt.param_groups[0]
    want_args = {}
    if case["opt"] == "LM":
        want_args = {"min": 1e-6 if case.get("min") is None else case["min"], "max": 1e32 if case.get("max") is None else case["max"]}
        if float(pg_["min"]) != float(want_args["min"]) or float(pg_["max"]) != float(want_args["max"]) \
                or opt.reject != (16 if case.get("reject") is None else case["reject"]):
            ctx.fail(cd, f"ctor-args: LM(min={case.get('min')}, max={case.get('max')}, reject={case.get('reject')}, style "
                         f"{case.get('ctor_style')}) holds min={pg_['min']}, max={pg_['max']}, reject={opt.reject}")
            return False
        sp_ = case.get("strategy")
        if sp_ is not None and "damping" in sp_ and float(pg_["damping"]) != float(sp_["damping"]):
            ctx.fail(cd, f"ctor-args: strategy damping {sp_['damping']} but param_groups hold {pg_['damping']}")
            return False
    if opt.jackwargs.get("vectorize") != case["vectorize"]:
        ctx.fail(cd, f"ctor-args: vectorize={case['vectorize']} but the optimizer holds {opt.jackwargs}")
        return False
    uc = env.user_corr
    if uc is not None:
        ucl = list(uc) if isinstance(uc, (list, tuple)) else [uc]
        got_ = env.corr_inner
        okc = len(got_) == len(ucl) and all((g_ is u_) if u_ is not None else type(g_).__name__ == "Trivial" for g_, u_ in zip(got_, ucl))
        if not okc:
            ctx.fail(cd, f"ctor-args: the corrector(s) passed to the constructor are not the ones the optimizer uses "
                         f"(configured {[type(u_).__name__ for u_ in ucl]}, in use {[type(g_).__name__ for g_ in got_]}; kernel "
                         f"{'given' if case['kernel'] is not None else 'not given'})")
            return False
    # glue in the model: constructor plumbing of kernels / correctors, LM's defaults
    codes = corrector_codes(env)

    def cb_config(rep, codes=codes, cd=cd):
        st_, toks = common.parse_reply(rep)
        if st_ != "ok" or toks != codes:
            ctx.disagree("config", cd, f"optimizer.corrector holds {codes}, model configCorrectors gives {toks if st_ == 'ok' else 'raise'} "
                                       f"(kernel arg {arg_tokens(case['kernel'])!r}, corrector arg {arg_tokens(case['corrector'])!r})")
    pending.append((f"c07.config {arg_tokens(case['kernel'])} {arg_tokens(case['corrector'])}", cb_config))
    if case["opt"] == "LM":
        fl_ = [0 if case.get(k_) is None else 1 for k_ in ("min", "max", "reject")]
        line = "c07.lmcfg " + " ".join(map(str, fl_))
        if fl_[0]:
            line += " " + common.to_wire(float(case["min"]))
        if fl_[1]:
            line += " " + common.to_wire(float(case["max"]))
        if fl_[2]:
            line += f" {int(case['reject'])}"
        got_cfg = (float(pg_["min"]), float(pg_["max"]), int(opt.reject))

        def cb_cfg(rep, got_cfg=got_cfg, cd=cd):
            st_, toks = common.parse_reply(rep)
            ok_ = st_ == "ok" and len(toks) == 3
            if ok_:
                lo_, hi_, rj_ = fw(toks[0]), fw(toks[1]), int(toks[2])
                ok_ = (abs(lo_ - got_cfg[0]) <= 2e-16 * abs(lo_) and abs(hi_ - got_cfg[1]) <= 2e-16 * abs(hi_) and rj_ == got_cfg[2])
            if not ok_:
                ctx.disagree("lmcfg", cd, f"LM holds (min, max, reject) = {got_cfg}, model lmConfig gives {toks}")
        pending.append((line, cb_cfg))
    n_frozen = sum(1 for lf in case["leaves"] if lf["role"] == "param" and not lf["rg"] and (lf.get("zerodim") or math.prod(lf["lshape"]) > 0))
    cd["n_frozen"] = n_frozen
    numels = [int(raw(p).numel()) for p in env.params]

    st = {"ok": True}

    def do_call(env, ci, who=""):
        """one step() of the history on `env` (the case's optimizer or its state_dict twin)"""
        call = case["calls"][ci]
        opt = env.opt
        tag = f"call{ci}{who}"
        pg = opt.param_groups[0]
        for key, val in (call.get("pg_edit") or {}).items():
            pg[key] = val
        ecase = setup_call(env, ci)
        if call.get("rg_edit"):
            # the caller freezes / unfreezes parameters after construction and between steps (requires_grad_ is public API):
            # every step must use the flags as they are NOW
            leaf_to_param, ip_ = {}, 0
            for li_, lf_ in enumerate(case["leaves"]):
                if lf_["role"] == "param":
                    leaf_to_param[li_] = ip_; ip_ += 1
            for k_, flag_ in call["rg_edit"].items():
                env.params[leaf_to_param[int(k_)]].requires_grad_(bool(flag_))
            env.rg = [bool(p_.requires_grad) for p_ in env.params]
            ctx.count("reuse.requires_grad-toggled")
        if call.get("param_edit"):
            apply_param_edit(env, call["param_edit"])
            ctx.count("reuse.param-edited-in-place")
        if call.get("ctor_weight_edit") and env.wctor is not None:
            with torch.no_grad():
                for w_, vals in zip(env.wctor, call["ctor_weight_edit"]):
                    if vals is not None and w_.is_contiguous():
                        w_.copy_(torch.tensor(vals, dtype=torch.float64).to(w_.dtype).reshape(w_.shape))
            ctx.count("reuse.ctor-weight-edited-in-place")
        if call.get("inplace"):
            ctx.count("reuse.inputs-updated-in-place")
        if call.get("inputs") or "targets" in call or "weight_step" in call:
            ctx.count("reuse.per-call-data-changed")
        n_frozen = sum(1 for p_, r_ in zip(env.params, env.rg) if not r_ and raw(p_).numel() > 0)
        before = [raw(p).clone() for p in env.params]
        shapes, outs0 = residual_shapes(env)
        nres = len(shapes)
        if not all(bool(torch.isfinite(o).all()) for o in outs0) or not all(bool(torch.isfinite(p_).all()) for p_ in before):
            ctx.count("degenerate.nonfinite-forward")     # earlier (deliberately bad) steps drove the model out of its domain
            return "stop"
        # raw Jacobian blocks, as the optimizer obtains them
        big = bool(case.get("large"))        # (19) 10^4..10^5 residual rows: oracles only, the 192-bit model on a sample
        try:
            Jraw = None
            if not big:
                with contextlib.redirect_stdout(io.StringIO()):
                    Jraw = P.optim.functional.modjac(opt.model, input=(env.input, env.target), flatten=False, vectorize=case["vectorize"])
        except Exception as e:
            ctx.fail(cd, f"modjac: raises {type(e).__name__}: {str(e)[:200]}")
            st["ok"] = False
            return "stop"
        env.corr_log.clear(); env.sol_log.clear(); env.str_log.clear()
        env.solver.vfh07_bad = list(call.get("bad") or [])
        wstep = env.wstep
        weff_t = env.wstep if call.get("weight", "none") == "step" else env.wctor
        weff = None if weff_t is None else [w_.clone() for w_ in weff_t]       # logical values at call time
        # what the caller holds, bit for bit (purity) + the optimizer's public attributes
        held = ([("input", raw(t_)) for t_ in env.ins] + [("target", raw(t_)) for t_ in (env.target_list or []) if t_ is not None]
                + [("step weight", t_) for t_ in (env.wstep or [])] + [("constructor weight", t_) for t_ in (env.wctor or [])])
        snaps = [t_.clone() for _, t_ in held]
        pub0 = public_state(opt)
        meta0 = [(type(p_).__name__, raw(p_).dtype, tuple(raw(p_).shape), type(getattr(p_, "ltype", None)).__name__, bool(p_.requires_grad),
                  raw(p_).device) for p_ in env.params]
        pg0 = {k_: v_ for k_, v_ in opt.param_groups[0].items() if k_ != "params"}
        prev_loss = float(opt.loss) if hasattr(opt, "loss") else None
        # (11) a user callback that fails / a documented argument check that fires
        inj = call.get("raise") or {}
        env.solver.vfh07_raise_at = inj.get("at") if inj.get("where") == "solver" else None
        env.box.clear()
        if inj.get("where") == "corrector":
            env.box["raise_corr"] = inj.get("at", 0)
        wpass = pass_weight(wstep, case.get("wstyle", "list"))
        if call.get("bad_weight_count") and wstep is not None:
            wpass = list(wstep) + [wstep[0]]            # one weight too many: `assert len(R) == len(weight)`
        # (12) grad modes: the values of a step do not depend on them
        rq = call.get("req_grad") or []
        for nm_, t_ in ([("inputs", raw_leaf) for raw_leaf in env.ins] + [("targets", t__) for t__ in (env.target_list or []) if t__ is not None]
                        + [("weights", t__) for t__ in (wstep or [])]):
            if nm_ in rq and t_.is_floating_point() and t_.is_leaf and t_.data_ptr() not in {q_.data_ptr() for q_ in (env.wctor or [])}:
                t_.requires_grad_(True)
        gm = call.get("grad")
        gctx = {"no_grad": torch.no_grad, "enable_grad": torch.enable_grad, "inference": torch.inference_mode}.get(gm, contextlib.nullcontext)
        raised = None
        try:
            with contextlib.redirect_stdout(io.StringIO()), warnings.catch_warnings(), gctx():
                warnings.simplefilter("ignore")
                sstyle = call.get("step_style", "kw")      # (10) keyword vs positional passing
                if sstyle == "pos":
                    loss = opt.step(env.input, env.target, wpass)
                elif sstyle == "allkw":
                    loss = opt.step(input=env.input, target=env.target, weight=wpass)
                else:
                    loss = opt.step(env.input, target=env.target, weight=wpass)
        except Exception as e:
            raised = e
        for nm_, t_ in ([("inputs", raw_leaf) for raw_leaf in env.ins] + [("targets", t__) for t__ in (env.target_list or []) if t__ is not None]
                        + [("weights", t__) for t__ in (wstep or [])]):
            if t_.is_leaf and t_.requires_grad:
                t_.requires_grad_(False)
        if gm:
            ctx.count(f"gradmode.{gm}")
        if rq:
            ctx.count("gradmode.requires_grad-operands")
        if gm == "inference" and raised is not None and not isinstance(raised, InjectedError):
            ctx.count("gradmode.inference-unsupported")      # scope rule: code that needs autograd under inference_mode
            return "stop"
        after = [raw(p).clone() for p in env.params]
        # (25) metadata: the step keeps class / dtype / shape / ltype / requires_grad of every parameter, and everything it
        # hands to the corrector, the solver and the strategy has the parameters' dtype — whatever the process default is
        meta1 = [(type(p_).__name__, raw(p_).dtype, tuple(raw(p_).shape), type(getattr(p_, "ltype", None)).__name__, bool(p_.requires_grad),
                  raw(p_).device) for p_ in env.params]
        if meta1 != meta0:
            bad_ = [i_ for i_, (a_, b_) in enumerate(zip(meta0, meta1)) if a_ != b_]
            ctx.fail(cd, f"metadata: step() changed class / dtype / shape / ltype / requires_grad of parameter(s) {bad_}: "
                         f"{[meta0[i_] for i_ in bad_]} -> {[meta1[i_] for i_ in bad_]} (default dtype {torch.get_default_dtype()}) ({tag})")
            st["ok"] = False
        seen_ = ([("corrector R", c_["R"]) for c_ in env.corr_log] + [("corrector J", c_["J"]) for c_ in env.corr_log]
                 + [("solver A", s_["A"]) for s_ in env.sol_log] + [("solver b", s_["b"]) for s_ in env.sol_log]
                 + [("solver D", s_["D_true"]) for s_ in env.sol_log if "D_true" in s_]
                 + [("strategy J", s_["J"]) for s_ in env.str_log] + [("strategy R", s_["R"]) for s_ in env.str_log])
        wrong_ = sorted({f"{nm_}:{t_.dtype}" for nm_, t_ in seen_ if t_.dtype != env.D})
        if wrong_:
            ctx.fail(cd, f"metadata: tensors of dtype other than the parameters' {env.D} were handed to user objects: {wrong_} "
                         f"(default dtype {torch.get_default_dtype()}) ({tag})")
            st["ok"] = False
        for s_ in env.sol_log:
            if s_["b"].dim() != 2 or s_["b"].shape[1] != 1 or s_["A"].dim() != 2 or s_["A"].shape[0] != s_["b"].shape[0]:
                ctx.fail(cd, f"metadata: the solver was handed A {list(s_['A'].shape)}, b {list(s_['b'].shape)} (documented: A m x n, b m x 1) ({tag})")
                st["ok"] = False
        # purity of everything the caller passed, guard regions of the buffers behind views, public attributes
        for (nm, t_), s0 in zip(held, snaps):
            same_ = torch.equal(t_, s0) if not t_.is_floating_point() else torch.equal(torch.nan_to_num(t_, nan=12345.0), torch.nan_to_num(s0, nan=12345.0))
            if not same_:
                ctx.fail(cd, f"purity: step() changed the caller's {nm} tensor ({tag})")
                st["ok"] = False
        bufs_ok = (all(G.guard_ok(b_, l_) for b_, l_ in getattr(env, "in_bufs", [])) and weight_guard_ok(env.wstep_info)
                   and weight_guard_ok(env.wctor_info) and all(G.guard_ok(*i_) for i_ in getattr(env, "t_info", []) if i_ is not None))
        for nm_, buf_, lay_ in env.model.param_bufs:
            if lay_ == "zd":
                bufs_ok = bufs_ok and bool(buf_[0] == G.GUARD) and bool(buf_[2] == G.GUARD)
                region = buf_[1]
            else:
                bufs_ok = bufs_ok and G.guard_ok(buf_, lay_)
                region = buf_[..., 1:-1] if lay_ == "slice" else buf_[..., ::2]
            if not torch.equal(torch.nan_to_num(region, nan=12345.0), torch.nan_to_num(raw(getattr(env.model, nm_)), nan=12345.0)):
                ctx.fail(cd, f"aliasing: parameter {nm_} is a view of the caller's buffer, but after step() the buffer no longer holds "
                             f"the parameter's values (the update was not made in place) ({tag})")
                st["ok"] = False
        if not bufs_ok:
            ctx.fail(cd, f"purity: step() wrote outside a view (storage of the caller's buffer next to an input / target / weight / parameter view changed) ({tag})")
            st["ok"] = False
        pub1 = public_state(opt)
        if pub1 != pub0:
            diff = [k_ for k_ in pub0 if pub0[k_] != pub1[k_]]
            ctx.fail(cd, f"attributes: step() changed public attributes {diff} of the optimizer ({tag})")
            st["ok"] = False
        expected_fail = (isinstance(raised, InjectedError)
                         or (call.get("bad_weight_count") and wstep is not None and isinstance(raised, AssertionError)))
        if (inj.get("where") == "corrector" or (inj.get("where") == "solver" and case["opt"] == "GN")) and not isinstance(raised, InjectedError):
            ctx.fail(cd, f"atomic: the exception of the user's {inj['where']} did not reach the caller of step() ({tag})")
            st["ok"] = False
            return "stop"
        if call.get("bad_weight_count") and wstep is not None and raised is None:
            ctx.fail(cd, f"atomic: step() accepted {len(wpass)} weights for {nres} residuals (documented check `len(R) == len(weight)`) ({tag})")
            st["ok"] = False
            return "stop"
        if expected_fail:
            # (11) the failed call must leave everything as it was: parameters bit for bit, param_groups, attributes
            pg1 = {k_: v_ for k_, v_ in opt.param_groups[0].items() if k_ != "params"}
            same_p = all(torch.equal(torch.nan_to_num(a_, nan=12345.0), torch.nan_to_num(b_, nan=12345.0)) for a_, b_ in zip(after, before))
            if not same_p or pg1 != pg0:
                what_ = "parameters" if not same_p else f"param_groups entries {[k_ for k_ in pg0 if pg0[k_] != pg1.get(k_)]}"
                ctx.fail(cd, f"atomic: step() raised ({type(raised).__name__}) but left {what_} changed ({tag})")
                st["ok"] = False
            ctx.count("atomic.failed-call-checked")
            return "go"
        if raised is not None:
            msg = f"{type(raised).__name__}: {str(raised)[:160]}"
            _, outs1 = residual_shapes(env)
            if not all(bool(torch.isfinite(o).all()) for o in outs1):
                ctx.count("degenerate.nonfinite-forward")   # a (deliberately bad) trial step left the model's domain
                return "stop"
            lays = [w_.get("layout", "contig") for w_ in ((ecase["weight_step"] if call.get("weight") == "step" else ecase["weight_ctor"]) or [])]
            if "view size is not compatible" in str(raised) and any(l_ != "contig" for l_ in lays):
                ctx.fail(cd, f"weight-view: step() raises for a valid SPD weight of a documented shape whose storage is not contiguous "
                             f"(layouts {lays}): {msg}")
            elif n_frozen:
                ctx.fail(cd, f"frozen: step() raises for a model with a requires_grad=False parameter ({msg})")
            else:
                ctx.fail(cd, f"raises: step() raises {msg}")
            st["ok"] = False
            return "stop"
        if n_frozen:
            ctx.count("frozen.steps")
        if case.get("subclass"):
            n_sol = sum(1 for s_ in env.sol_log if "D" in s_)
            if n_sol and len(env.upd_calls) < n_sol:
                ctx.fail(cd, f"subclass: the user's optimizer subclass overrides update_parameter, but step() applied {n_sol} solver "
                             f"result(s) with only {len(env.upd_calls)} call(s) of it ({tag})")
                st["ok"] = False
            env.upd_calls.clear()
            ctx.count("subclass.calls")
        if inj.get("where") == "solver" and case["opt"] == "LM" and env.sol_log and "raised" in env.sol_log[0] and inj.get("at") == 0:
            pg1 = {k_: v_ for k_, v_ in opt.param_groups[0].items() if k_ != "params"}
            if not all(torch.equal(a_, b_) for a_, b_ in zip(after, before)) or pg1 != pg0:
                ctx.fail(cd, f"atomic: the solver raised in the first trial but LM left parameters / param_groups changed ({tag})")
                st["ok"] = False
            ctx.count("atomic.failed-call-checked")
        # (15) the updated parameters own their memory: no overlap with anything the caller passed, no stride-0 dimension
        held_ptrs = {t_.untyped_storage().data_ptr() for _, t_ in held if t_.numel()}
        for pi_, p_ in enumerate(env.params):
            rp_ = raw(p_)
            if rp_.numel() > 1 and (rp_.untyped_storage().data_ptr() in held_ptrs
                                    or any(st_ == 0 and sz_ > 1 for st_, sz_ in zip(rp_.stride(), rp_.shape))):
                ctx.fail(cd, f"ownership: after step() parameter {pi_} shares memory with a tensor the caller passed or overlaps itself ({tag})")
                st["ok"] = False

        # ---------------- corrector dispatch, raw residuals, Jacobian
        tags = [c["tag"] for c in env.corr_log]
        if len(env.corr_log) != nres:
            ctx.fail(cd, f"corrector: {len(env.corr_log)} corrector calls for {nres} residuals ({tag})")
            st["ok"] = False
            return "stop"

        if not all(bool(torch.isfinite(c_[k_]).all()) for c_ in env.corr_log for k_ in ("R", "J", "Rc", "Jc")):
            # (38) the forward pass and the parameters are finite here (checked above).  With moderate magnitudes nothing in
            # R = f - y, the Jacobian or the corrector may be NaN / inf: that is a failure with this input, not a degenerate
            # case.  Only after (deliberately bad) earlier trial steps pushed the parameters beyond 1e6 — where squares
            # overflow in float32 and the closed-form coefficients lose all accuracy — it is counted instead.
            pmax = max([float(p_.abs().max()) for p_ in before if p_.numel()] + [0.0])
            omax = max([float(o_.abs().max()) for o_ in outs0 if o_.numel()] + [0.0])
            tmax = max([float(raw(t_).double().abs().max()) for t_ in (getattr(env, "target_list", None) or []) if t_ is not None and raw(t_).numel()] + [0.0])
            if max(pmax, omax, tmax) <= 1e6:
                which = [f"{k_} of residual {i_}" for i_, c_ in enumerate(env.corr_log) for k_ in ("R", "J", "Rc", "Jc")
                         if not bool(torch.isfinite(c_[k_]).all())]
                ctx.fail(cd, f"non-finite: finite parameters / inputs / targets (|values| <= {max(pmax, omax, tmax):.3g}) give non-finite "
                             f"{which[:4]} (R, J = residual and Jacobian handed to the corrector; Rc, Jc = what it returned) ({tag})")
                st["ok"] = False
                return "stop"
            ctx.count("degenerate.nonfinite-residual")
            return "stop"

        def cb_pick(rep, tags=tags, cd=cd, tag=tag, ncorr=env.n_corr):
            st, toks = common.parse_reply(rep)
            want = [int(t) for t in toks] if st == "ok" else None
            if want != tags:
                ctx.disagree("pick", cd, f"{tag}: corrector objects used {tags}, model {want} (ncorr={ncorr})")
                ctx.fail(cd, f"corrector: residual i must be served by corrector[0] if one is configured else corrector[i]: used {tags} ({tag})")
        pending.append((f"c07.pick {env.n_corr} {nres}", cb_pick))
        # the same through the constructor arguments (`servedBy` = pickCorrector ∘ configCorrectors)
        ccodes = corrector_codes(env)
        served = [ccodes[t_] if t_ < len(ccodes) else "?" for t_ in tags]

        def cb_served(rep, served=served, cd=cd, tag=tag):
            st_, toks = common.parse_reply(rep)
            if st_ != "ok" or toks != served:
                ctx.disagree("served", cd, f"{tag}: residuals were corrected by {served}, model servedBy gives {toks if st_ == 'ok' else 'raise'}")
        pending.append((f"c07.served {nres} {arg_tokens(case['kernel'])} {arg_tokens(case['corrector'])}", cb_served))
        wlabel = call.get("weight", "none") if weff_t is not None else "none"

        def cb_wsel(rep, wlabel=wlabel, cd=cd, tag=tag):
            st_, toks = common.parse_reply(rep)
            if st_ != "ok" or toks != [wlabel]:
                ctx.disagree("wsel", cd, f"{tag}: the harness passed weights so that '{wlabel}' applies, model selectWeight says {toks}")
        pending.append((f"c07.wsel {0 if env.wctor is None else 1} {0 if wstep is None else 1}", cb_wsel))
        # residuals through the model: residualsOf(outputs, targets)
        if all(list(c_["R"].shape) == list(o_.shape) for c_, o_ in zip(env.corr_log, outs0)):
            tl_ = env.target_list
            line = f"c07.resid {nres} " + " ".join(str(int(o_.numel())) for o_ in outs0)
            if tl_ is None:
                line += " 0"
            else:
                line += f" 1 {len(tl_)} " + " ".join("0" if t_ is None else "1" for t_ in tl_)
            data = [wl(o_) for o_ in outs0] + ([] if tl_ is None else [wl(raw(t_)) for t_ in tl_ if t_ is not None])
            line += " " + " ".join(x_ for x_ in data if x_)
            gotR = torch.cat([c_["R"].double().reshape(-1) for c_ in env.corr_log])
            scR = torch.cat([(o_.double().abs() + (0 if (tl_ is None or tl_[i_] is None) else raw(tl_[i_]).double().abs())).reshape(-1)
                             for i_, o_ in enumerate(outs0)])

            def cb_resid(rep, gotR=gotR, scR=scR, cd=cd, tag=tag, eps=eps, fl=fl):
                st_, toks = common.parse_reply(rep)
                if st_ != "ok" or len(toks) != gotR.numel():
                    ctx.disagree("resid", cd, f"{tag}: model residualsOf {'raises' if st_ != 'ok' else 'has another length'}, the implementation computed residuals")
                    return
                want = torch.tensor([fw(t_) for t_ in toks], dtype=torch.float64)
                r_, i_ = worst(gotR, want, scR, 4 * eps, fl)
                if r_ > 1:
                    ctx.disagree("resid", cd, f"{tag}: residual differs from the model's output - target (ratio {r_:.2e} at {i_})")
            if not big:
                pending.append((line, cb_resid))
        ctx.count(f"corr.n{env.n_corr}.res{nres}")

        # the configured corrector: with corrector=None the optimizer builds FastTriggs(kernel_i) (or the identity when
        # there is no kernel) — its output must be sqrt(rho_i'(|R_item|^2)) · (R, J) for the i-th *configured* kernel
        if case["corrector"] is None:
            for i in range(nres):
                kspec = case["kernel"]
                if isinstance(kspec, list):
                    kspec = kspec[0] if len(kspec) == 1 else (kspec[i] if i < len(kspec) else None)
                c_ = env.corr_log[i]
                R64, J64 = c_["R"].double(), c_["J"].double()
                if kspec is None:
                    sR, sJ = R64, J64
                else:
                    kern = build_kernel(kspec)
                    x = (R64 * R64).sum(-1, keepdim=True) if R64.dim() else (R64 * R64).reshape(1)
                    # rho' item by item (each |R_item|^2 on its own): a kernel that decides something for the whole batch
                    # must not be able to agree with itself here
                    g1 = torch.zeros_like(x)
                    xf, gf = x.reshape(-1), g1.reshape(-1)
                    for it_ in range(xf.numel()):
                        xg = xf[it_:it_ + 1].detach().clone().requires_grad_(True)
                        with torch.enable_grad():
                            gf[it_] = torch.autograd.grad(kern(xg).sum(), xg)[0][0]
                    sc_ = g1.sqrt()
                    sR = sc_ * R64
                    sJ = sc_.expand_as(R64).reshape(-1, 1) * J64
                tolc = 1e-4 if f32 else 1e-9
                e1 = float((c_["Rc"].double() - sR).abs().max()) if sR.numel() else 0.0
                e2 = float((c_["Jc"].double() - sJ).abs().max()) if sJ.numel() else 0.0
                lim1 = tolc * max(1.0, float(sR.abs().max()) if sR.numel() else 0.0)
                lim2 = tolc * max(1.0, float(sJ.abs().max()) if sJ.numel() else 0.0)
                if not (e1 <= lim1 and e2 <= lim2):    # NaN counts as failure
                    ctx.fail(cd, f"corrector: with corrector=None residual {i} must be corrected by FastTriggs of its own configured kernel "
                                 f"({kspec}): R' error {e1:.3e}, J' error {e2:.3e} ({tag})")
                    st["ok"] = False
            ctx.count("corr.auto-checked")
        ncols = int(env.corr_log[0]["J"].shape[1])
        jac_params = [i for i, r in enumerate(env.rg) if r]
        if ncols != sum(numels[i] for i in jac_params):
            ctx.fail(cd, f"jac-width: Jacobian has {ncols} columns; the parameters that require grad have numel "
                         f"{[numels[i] for i in jac_params]} (all: {numels}, requires_grad {env.rg})")
            st["ok"] = False
            return "stop"
        # residuals
        for i in range(nres):
            o = outs0[i]
            t = None if env.target_list is None else env.target_list[i]
            t = None if t is None else raw(t)
            want = o if t is None else o - t
            got = env.corr_log[i]["R"]
            if list(got.shape) != list(want.shape):
                ctx.fail(cd, f"residual: residual {i} has shape {list(got.shape)}, output - target has {list(want.shape)} ({tag})")
                st["ok"] = False
            else:
                r, _ = worst(got, want, torch.maximum(o.abs(), want.abs()) + (0 if t is None else t.abs()), 4 * eps)
                if r > 1:
                    ctx.fail(cd, f"residual: residual {i} is not output_i - target_i (ratio {r:.2e}) ({tag})")
                    st["ok"] = False
        # hcat correspondence: raw blocks -> J_i
        for i in range(0 if big else nres):
            Ji = env.corr_log[i]["J"]
            rows = int(Ji.shape[0])
            blocks = Jraw[i] if isinstance(Jraw[i], (tuple, list)) else (Jraw[i],)
            if len(blocks) != len(numels):
                ctx.fail(cd, f"jac-width: modjac returns {len(blocks)} blocks for {len(numels)} parameters ({tag})")
                st["ok"] = False
                return "stop"
            if not all(bool(torch.isfinite(raw(b)).all()) for b in blocks):
                continue
            data = " ".join(x for x in (wl(raw(b)) for b in blocks) if x)
            line = (f"c07.hcat {rows} {len(numels)} " + " ".join(f"{n_} {1 if r_ else 0}" for n_, r_ in zip(numels, env.rg))
                    + (" " + data if data else ""))

            def cb_hcat(rep, Ji=Ji, i=i, cd=cd, tag=tag):
                want = torch.tensor([fw(t_) for t_ in common.parse_reply(rep)[1]], dtype=torch.float64).reshape(Ji.shape)
                if not torch.equal(want, Ji.double()):
                    bad = (want != Ji.double()).nonzero()[0].tolist()
                    ctx.disagree("hcat", cd, f"{tag}: flatten_row_jacobian of residual {i} differs from the model at {bad}")
            pending.append((line, cb_hcat))
        # Jacobian oracle (finite differences of the real forward pass)
        if call.get("jac_check", True):
            try:
                Jfd, rel = G.fd_jacobian(ecase, before)
            except Exception as e:
                Jfd, rel = None, 1.0
                ctx.count("jac.fd-error")
            if Jfd is not None and rel < 1e-7:
                # column selection (all parameters / trainable ones)
                cols, o = [], 0
                for pi, n_ in enumerate(numels):
                    if pi in jac_params:
                        cols += list(range(o, o + n_))
                    o += n_
                Jfd = Jfd[:, cols]
                Jobs = torch.cat([c["J"].double() for c in env.corr_log])
                tolj = 2e-3 if f32 else 1e-6
                if Jobs.shape != Jfd.shape:
                    ctx.fail(cd, f"jac: stacked Jacobian has shape {list(Jobs.shape)}, expected {list(Jfd.shape)} ({tag})")
                    st["ok"] = False
                else:
                    # per (residual, parameter) block: relative to that block's own scale (a global scale would swallow a
                    # wrong small block next to a large one) + the absolute accuracy of the finite differences
                    err = (Jobs - Jfd).abs()
                    gsc = max(1.0, float(Jfd.abs().max()))
                    # cancellation noise of both the backward passes and the finite differences grows with the magnitudes
                    # that meet inside the program (translations 1e3 in X·X^-1 leave 1e3·1e3·eps), not with the output
                    vmag = max([float(p_.abs().max()) for p_ in before if p_.numel()] + [float(raw(t_).abs().max()) for t_ in env.ins if raw(t_).numel()] + [0.0])
                    # a rotation below ~1e-2 rad anywhere in the program: the forward pass loses eps/theta^2 in its closed-form
                    # coefficients once the finite-difference step has moved theta to ~h, i.e. the finite differences (not the
                    # Jacobian) carry an error ~ eps·|values|/h^2
                    tiny_rot = False
                    for lf_, t_ in ([(lf__, p__) for lf__, p__ in zip([l_ for l_ in ecase["leaves"] if l_["role"] == "param"], before)]
                                    + [(lf__, raw(x__)) for lf__, x__ in zip([l_ for l_ in ecase["leaves"] if l_["role"] == "input"], env.ins)]):
                        ty_ = lf_["ty"]
                        if ty_[0] == "A" and t_.numel():
                            tiny_rot = tiny_rot or bool((t_.double()[..., U.PHISL[ty_[1]]].norm(dim=-1) < 1e-2).any())
                        elif ty_[0] == "G" and t_.numel():
                            q_ = t_.double()[..., U.QSL[ty_[1]]]
                            tiny_rot = tiny_rot or bool((2 * torch.atan2(q_[..., :3].norm(dim=-1), q_[..., 3].abs()) < 1e-2).any())
                    fd_noise = (4 * 2.2e-16 / 1e-10) * (1.0 + vmag) if tiny_rot else 0.0
                    lim = torch.zeros_like(err)
                    r0 = 0
                    for i_ in range(nres):
                        r1 = r0 + int(env.corr_log[i_]["J"].shape[0])
                        omag = float(outs0[i_].abs().max()) if outs0[i_].numel() else 0.0
                        c0 = 0
                        for pi in jac_params:
                            c1 = c0 + numels[pi]
                            bsc = float(Jfd[r0:r1, c0:c1].abs().max()) if (r1 > r0 and c1 > c0) else 0.0
                            lim[r0:r1, c0:c1] = (tolj * gsc) if f32 else (tolj * bsc + 1e-9 * (1.0 + omag) + 1e-11 * (1.0 + vmag) ** 2 + fd_noise)
                            c0 = c1
                        r0 = r1
                    if not bool((err <= lim).all()):      # (38) NaN-safe polarity: a NaN entry fails
                        # re-judge with Richardson extrapolation on every column before calling it a failure
                        try:
                            Jfd2, rel2 = G.fd_jacobian(ecase, before, full=True)
                            Jfd2 = Jfd2[:, cols]
                        except Exception:
                            Jfd2, rel2 = None, 1.0
                        if Jfd2 is None or rel2 >= 1e-7:
                            ctx.count("jac.fd-unreliable")
                            err = torch.zeros_like(err)
                        else:
                            err = (Jobs - Jfd2).abs()
                    if not bool((err <= lim).all()):      # (38) NaN-safe polarity: a NaN entry fails
                        ratio = torch.nan_to_num(err / lim, nan=float("inf"))
                        ij = (ratio == ratio.max()).nonzero()[0].tolist()
                        ctx.fail(cd, f"jac: Jacobian seen by the optimizer differs from the tangent-space finite-difference Jacobian "
                                     f"by {float(err[ij[0], ij[1]]):.3e} (allowed {float(lim[ij[0], ij[1]]):.3e}) at row/col {ij} ({tag})")
                        st["ok"] = False
                    # slot columns of group parameters are exactly zero
                    o = 0
                    for pi in jac_params:
                        kind, g, n_, sd, td = env.layout[pi]
                        if kind == "G":
                            for it in range(n_):
                                if sd > td and float(Jobs[:, o + it * sd + td: o + (it + 1) * sd].abs().max()) != 0.0:
                                    ctx.fail(cd, f"jac: non-zero Jacobian column in the unused storage slot of a group parameter ({tag})")
                                    st["ok"] = False
                        o += numels[pi]
                ctx.count("jac.checked")
            else:
                ctx.count("jac.fd-unreliable")

        # ---------------- the linear system(s)
        Rc = [c["Rc"] for c in env.corr_log]
        Jc = [c["Jc"] for c in env.corr_log]
        rows_i = [int(c["Jc"].shape[0]) for c in env.corr_log]
        m = sum(rows_i)
        n = ncols
        if not env.sol_log:
            if prev_loss is not None and not math.isfinite(prev_loss):
                ctx.count("degenerate.nan-cached-loss")    # LM's `while last <= loss` is false for the NaN loss an earlier
                return "stop"                                   # (deliberately bad / overflowing) call left behind — C08's domain
            ctx.fail(cd, f"solve: the solver was never called ({tag})")
            st["ok"] = False
            return "stop"
        ind = indep_system(Rc, Jc, shapes, weff, n)
        hdr = f"{n} {nres} " + " ".join(map(str, rows_i))
        if weff is None:
            hdr += " 0"
            wdata = ""
        else:
            hdr += f" 1 {nres}"
            for sh, w in zip(shapes, weff):
                hdr += f" {len(sh)} " + " ".join(map(str, sh)) + f" {w.dim()} " + " ".join(map(str, w.shape))
            wdata = " ".join(wl(w) for w in weff)
        rdata = "" if big else " ".join(x for x in (s for r_, j_ in zip(Rc, Jc) for s in (wl(r_), wl(j_))) if x)
        if big:
            wdata = ""
        wtag = "none" if weff is None else "/".join("x".join(map(str, w.shape)) for w in weff)
        ctx.count(f"weight.{call.get('weight', 'none')}")

        if case["opt"] == "GN":
            s0 = env.sol_log[0]
            A, b = s0["A"], s0["b"].reshape(-1)
            if list(A.shape) != [m, n] or b.numel() != m:
                ctx.fail(cd, f"weight: GN system has shape {list(A.shape)}, {list(s0['b'].shape)}; expected {[m, n]}, {[m, 1]} ({tag})")
                st["ok"] = False
                return "stop"
            r1, i1 = worst(A, ind["WJ"], ind["aWJ"], 64 * eps, fl)
            r2, i2 = worst(b, -ind["WR"], ind["aWR"], 64 * eps, fl)
            if r1 > 1 or r2 > 1:
                ctx.fail(cd, f"weight: GN system is not (W J', -W R') with W applied per residual item: A ratio {r1:.2e} at {i1}, "
                             f"b ratio {r2:.2e} at {i2} (weights {wtag}) ({tag})")
                st["ok"] = False
            line = "c07.gn " + hdr + (" " + rdata if rdata else "") + (" " + wdata if wdata else "")

            def cb_gn(rep, A=A, b=b, ind=ind, cd=cd, tag=tag, m=m, n=n, eps=eps, wtag=wtag, fl=fl):
                st, toks = common.parse_reply(rep)
                if st != "ok":
                    ctx.disagree("gn", cd, f"{tag}: model raises ({toks}) where the implementation builds a system (weights {wtag})")
                    return
                vals = torch.tensor([fw(t) for t in toks[1:]], dtype=torch.float64)
                if int(toks[0]) != m or vals.numel() != m * n + m:
                    ctx.disagree("gn", cd, f"{tag}: model system has {toks[0]} rows, implementation {m}")
                    return
                Am, bm = vals[: m * n].reshape(m, n), vals[m * n:]
                r1, i1 = worst(A, Am, ind["aWJ"], 64 * eps, fl)
                r2, i2 = worst(b, bm, ind["aWR"], 64 * eps, fl)
                if r1 > 1 or r2 > 1:
                    ctx.disagree("gn", cd, f"{tag}: (A, b) differ from the model: A ratio {r1:.2e} at {i1}, b ratio {r2:.2e} at {i2} (weights {wtag})")
            if not big:
                pending.append((line, cb_gn))
            ctx.count("sys.gn")
        else:
            K = len(env.sol_log)
            lams = [float(s["damping"]) for s in env.sol_log]
            lo, hi = float(env.sol_log[0]["min"]), float(env.sol_log[0]["max"])
            d0 = clamp64(ind["H"].diagonal(), lo, hi)
            sc_d = torch.maximum(ind["aH"].diagonal(), d0.abs())
            bref = -ind["g"]
            prodf = 1.0
            for k_, s in enumerate(env.sol_log):
                A, b = s["A"], s["b"].reshape(-1)
                if list(A.shape) != [n, n] or b.numel() != n:
                    ctx.fail(cd, f"lm-system: LM system has shape {list(A.shape)}; expected {[n, n]} ({tag})")
                    st["ok"] = False
                    return "stop"
                prodf = prodf * (1.0 + lams[k_])
                if float(sc_d.max()) * prodf > 1e-3 * float(torch.finfo(env.D).max) or not math.isfinite(prodf):
                    ctx.count("degenerate.damping-overflow")     # the damped diagonal leaves the dtype's range
                    K = k_
                    break
                Aref = ind["H"].clone()
                Aref.diagonal().copy_(d0 * prodf)
                scA = ind["aH"].clone()
                scA.diagonal().copy_(sc_d * prodf)
                tolk = (64 + 8 * (k_ + 1)) * eps
                r1, i1 = worst(A, Aref, scA, tolk, fl)
                r2, i2 = worst(b, bref, ind["ag"], 64 * eps, fl)
                if r1 > 1 or r2 > 1:
                    ctx.fail(cd, f"lm-system: trial {k_ + 1} of {K}: A_k is not JᵀWJ with its diagonal clamped to [{lo:g},{hi:g}] and damped by "
                                 f"prod(1+lambda_i), lambdas {lams[:k_ + 1]} (A ratio {r1:.2e} at {i1}), or b is not -JᵀWR (ratio {r2:.2e} at {i2}) "
                                 f"(weights {wtag}) ({tag})")
                    st["ok"] = False
                    break
            lams = lams[:K]
            line = ("c07.lm " + hdr + f" {K} " + common.wire_list([lo, hi] + lams) + (" " + rdata if rdata else "")
                    + (" " + wdata if wdata else ""))
            obsA = [s["A"].double() for s in env.sol_log[:K]]
            obsb = [s["b"].double().reshape(-1) for s in env.sol_log[:K]]

            def cb_lm(rep, obsA=obsA, obsb=obsb, ind=ind, cd=cd, tag=tag, n=n, K=K, eps=eps, lams=lams, sc_d=sc_d, wtag=wtag, fl=fl):
                st, toks = common.parse_reply(rep)
                if st != "ok":
                    ctx.disagree("lm", cd, f"{tag}: model raises ({toks}) where the implementation builds a system (weights {wtag})")
                    return
                vals = torch.tensor([fw(t) for t in toks], dtype=torch.float64)
                if vals.numel() != n + K * n * n:
                    ctx.disagree("lm", cd, f"{tag}: model reply has {vals.numel()} numbers, expected {n + K * n * n}")
                    return
                bm = vals[:n]
                prodf = 1.0
                for k_ in range(K):
                    Am = vals[n + k_ * n * n: n + (k_ + 1) * n * n].reshape(n, n)
                    prodf *= 1.0 + lams[k_]
                    scA = ind["aH"].clone()
                    scA.diagonal().copy_(torch.maximum(sc_d * prodf, Am.diagonal().abs()))
                    r1, i1 = worst(obsA[k_], Am, scA, (64 + 8 * (k_ + 1)) * eps, fl)
                    r2, i2 = worst(obsb[k_], bm, ind["ag"], 64 * eps, fl)
                    if r1 > 1 or r2 > 1:
                        ctx.disagree("lm", cd, f"{tag}: trial {k_ + 1}/{K}: (A_k, b) differ from the model: A ratio {r1:.2e} at {i1}, "
                                               f"b ratio {r2:.2e} at {i2} (lambdas {lams[:k_ + 1]}, weights {wtag})")
                        return
            if not big:
                pending.append((line, cb_lm))
            ctx.count(f"sys.lm.trials{min(K, 4)}")
            # clamp regime statistics
            raw_d = ind["H"].diagonal()
            if bool((raw_d < lo).any()):
                ctx.count("lm.clamp.below-min")
            if bool((raw_d > hi).any()):
                ctx.count("lm.clamp.above-max")
            # strategy.update arguments
            Jcat, Rcat = torch.cat([j.double() for j in Jc]), torch.cat([r_.double().reshape(-1) for r_ in Rc])
            for k_, st_ in enumerate(env.str_log):
                if "raised" in env.sol_log[k_]:
                    break
                if not (torch.equal(st_["J"].double(), Jcat) and torch.equal(st_["R"].double().reshape(-1), Rcat)
                        and torch.equal(torch.nan_to_num(st_["D"], nan=12345.0), torch.nan_to_num(env.sol_log[k_]["D"], nan=12345.0))):
                    ctx.fail(cd, f"update: strategy.update of trial {k_ + 1} does not receive cat(J'), D, cat(R') ({tag})")
                    st["ok"] = False
                    break

        # ---------------- the solver's answer
        for k_, s in enumerate(env.sol_log):
            if "raised" in s:
                ctx.count("solve.raised")
                continue
            if any(w_.get("asym") for w_ in ((ecase["weight_step"] if call.get("weight") == "step" else ecase["weight_ctor"]) or [])) \
                    and case["opt"] == "LM":
                ctx.count("solve.asym-weight")      # Cholesky / hermitian pinv read one triangle of a matrix that is not symmetric
                continue
            if case["solver"] == "CG":
                continue
            A, b, D = s["A"].double(), s["b"].double().reshape(-1), s["D_true"].double().reshape(-1)
            if not bool(torch.isfinite(D).all()):
                continue
            def rnorm(v):       # Euclidean norm that does not underflow for entries like 1e-237
                m_ = float(v.abs().max()) if v.numel() else 0.0
                return 0.0 if m_ == 0.0 else m_ * float((v / m_).norm())
            nA = rnorm(A.reshape(-1))
            gres = A.T @ (A @ D - b)
            lim = (2e5 if not f32 else 2e3) * eps * (nA * nA * rnorm(D) + nA * rnorm(b)) + 1e-300
            sv = torch.linalg.svdvals(A) if A.numel() else torch.zeros(0)
            smax = float(sv.max()) if sv.numel() else 0.0
            pos = sv[sv > 2 * eps * smax] if smax > 0 else sv      # anything pinv (cut-off max(m,n)·eps) might invert is non-zero
            # usable only when the numerical rank is unambiguous: every singular value is either (numerically) zero or
            # well above the grey zone
            well = smax > 0 and pos.numel() > 0 and float(pos.min()) > (1e-5 if not f32 else 1e-2) * smax
            # squares of the entries must stay inside the dtype's normal range (a kernel derivative like e^-x can push
            # the corrected Jacobian to 1e-135: AᵀA underflows and the residual of the normal equations means nothing)
            well = well and (1e-60 < smax < 1e60 if not f32 else 1e-12 < smax < 1e12)
            if well and not (float(gres.abs().max()) <= lim * max(1.0, (smax / float(pos.min())) ** 2)):
                ctx.fail(cd, f"solve: D returned by {case['solver']} does not satisfy the normal equations of (A, b): "
                             f"|Aᵀ(AD-b)| = {float(gres.abs().max()):.3e} > {lim:.3e} (trial {k_ + 1}) ({tag})")
                st["ok"] = False
            uses_pinv = case["solver"] == "PINV" or (case["solver"] == "default" and env.default_solver == "PINV")
            if well and uses_pinv and A.numel() and case["opt"] == "GN":
                # minimum norm: D orthogonal to the null space of A
                _, S_, Vh = torch.linalg.svd(A, full_matrices=bool(A.shape[0] < A.shape[1]))
                rk = int((S_ > 2 * eps * smax).sum())
                N0 = Vh[rk:]
                floor_ = 1e4 * eps * rnorm(b) / float(pos.min())
                if N0.numel() and float((N0 @ D).abs().max()) > (1e-6 if not f32 else 1e-2) * rnorm(D) + floor_ + 1e-300:
                    ctx.fail(cd, f"solve: D of the default/PINV solver is not the minimum-norm least-squares solution "
                                 f"(component {float((N0 @ D).abs().max()):.3e} in the null space of A) ({tag})")
                    st["ok"] = False
            ctx.count("solve.checked" if well else "solve.ill-conditioned")

        # ---------------- parameter update
        def check_update(p_before, Dk, p_after, what, sign=1.0):
            Dk = (Dk.double() * sign).reshape(-1)
            if not bool(torch.isfinite(Dk).all()) or not all(bool(torch.isfinite(x_).all()) for x_ in p_before):
                ctx.count("degenerate.nonfinite-step")
                return
            if float(Dk.abs().max()) > 1e4 if Dk.numel() else False:
                ctx.count("degenerate.wild-step")     # |D| > 1e4: Exp overflows / loses all phase accuracy in floating point
                return
            want_len = sum(n_ for n_, r in zip(numels, env.rg) if r)
            if Dk.numel() != want_len:
                return   # (cannot happen after a successful step)
            ref, used = indep_update(env, p_before, Dk)
            fmax = float(torch.finfo(env.D).max)
            off_ = 0
            for (kind_, g_, n_, sd_, td_), rg_ in zip(env.layout, env.rg):
                if not rg_:
                    continue
                if kind_ == "G" and U.SIGIDX[g_] is not None and n_:
                    if float(Dk[off_: off_ + n_ * sd_].reshape(n_, sd_)[:, U.SIGIDX[g_]].abs().max()) > 0.9 * math.log(fmax):
                        ctx.count("degenerate.update-overflow")     # exp(sigma) alone leaves the dtype's range
                        return
                off_ += n_ * sd_
            if any((not bool(torch.isfinite(r_).all())) or (r_.numel() and float(r_.abs().max()) > 1e-3 * fmax) for r_ in ref) \
                    or any(float(x_.abs().max()) > 1e-3 * fmax for x_ in p_before if x_.numel()):
                ctx.count("degenerate.update-overflow")     # the exact result leaves the dtype's range (e.g. exp(sigma) in float32)
                return
            tols = update_tolerances(env, p_before, ref, Dk, eps, fl)
            for pi, (a_, r_, t_, rg) in enumerate(zip(p_after, ref, tols, env.rg)):
                if not rg:
                    if not torch.equal(a_, p_before[pi]):
                        ctx.fail(cd, f"update: parameter {pi} has requires_grad=False but was changed ({what}, {tag})")
                        st["ok"] = False
                    continue
                kind, g = env.layout[pi][0], env.layout[pi][1]
                av, rv = a_.double(), r_.double()
                if kind == "G":   # quaternion sign is a representation detail only if both signs are the same rotation
                    pass
                err = (av - rv).abs()
                if not bool((err <= t_ * 4).all()):      # (38) a NaN / inf parameter after a finite, moderate step fails
                    j = int(torch.nan_to_num(err / (t_ * 4 + 1e-300), nan=float("inf")).reshape(-1).argmax())
                    ctx.fail(cd, f"update: parameter {pi} ({kind}{'/' + g if g else ''}) after {what} is not "
                                 f"{'Exp(d[:m])·X' if kind == 'G' else 'x + d'} with its own slice of D: error {float(err.reshape(-1)[j]):.3e} "
                                 f"> {float(t_.reshape(-1)[j] * 4):.3e} at flat index {j} ({tag})")
                    st["ok"] = False
            # model (192 bit)
            epss = [eps] if not near_threshold(env, Dk, eps) else [eps * (1 - 2.0 ** -40), eps * (1 + 2.0 ** -40)]
            lines = [update_line(env, p_before, Dk, e_) for e_ in epss]
            got = torch.cat([a_.double().reshape(-1) for a_ in p_after]) if p_after else torch.zeros(0)
            tolv = torch.cat([t_.reshape(-1) for t_ in tols]) if tols else torch.zeros(0)
            box = {"best": None, "n": 0}

            def cb_upd(rep, got=got, tolv=tolv, box=box, total=len(lines), cd=cd, what=what, tag=tag):
                st, toks = common.parse_reply(rep)
                box["n"] += 1
                if st != "ok":
                    r = float("inf")
                else:
                    want = torch.tensor([fw(t) for t in toks], dtype=torch.float64)
                    if want.numel() != got.numel():
                        r = float("inf")
                    else:
                        r = float(((got - want).abs() / (tolv + 1e-300)).max()) if got.numel() else 0.0
                box["best"] = r if box["best"] is None else min(box["best"], r)
                if box["n"] == total and box["best"] > 1:
                    ctx.disagree("update", cd, f"{tag}: parameters after {what} differ from the model (worst ratio {box['best']:.2e})")
            for ln in lines:
                pending.append((ln, cb_upd))
            ctx.count("update.checked")

        if case["opt"] == "GN":
            check_update(before, env.sol_log[0]["D"], after, "the GN step")
        else:
            for k_, s in enumerate(env.sol_log):
                if k_ < len(env.str_log) and "raised" not in s:
                    check_update(s["params"], s["D"], env.str_log[k_]["params"], f"+D of trial {k_ + 1}")
                    nxt = env.sol_log[k_ + 1]["params"] if k_ + 1 < len(env.sol_log) else after
                    if not all(torch.equal(x, y) for x, y in zip(nxt, env.str_log[k_]["params"])):
                        # the trial was rejected: parameters were moved back by -D
                        check_update(env.str_log[k_]["params"], s["D"], nxt, f"-D of rejected trial {k_ + 1}", sign=-1.0)
                        ctx.count("lm.rejected-trials")
        for pi, rg in enumerate(env.rg):
            if not rg and not torch.equal(after[pi], before[pi]):
                ctx.fail(cd, f"update: parameter {pi} has requires_grad=False but was changed by step() ({tag})")
                st["ok"] = False
        return "go"

    if case.get("poison"):
        # (23) a throw-away optimizer of the same model / shapes / dtypes takes one step under inference_mode / no_grad first
        # (not judged: modjac has no autograd there); whatever it left in module-level caches must not reach the judged calls
        try:
            with default_dtype(case.get("default_dtype")):
                pz = build_env(case)
                setup_call(pz, 0)
                gm_ = torch.inference_mode if case["poison"] == "inference" else torch.no_grad
                with contextlib.redirect_stdout(io.StringIO()), warnings.catch_warnings(), gm_():
                    warnings.simplefilter("ignore")
                    pz.opt.step(pz.input, target=pz.target, weight=pass_weight(pz.wstep, case.get("wstyle", "list")))
        except Exception:
            pass
        ctx.count(f"gradorder.{case['poison']}-first")
    for k_ in ("tie_clamp", "dup", "near_clamp"):
        if case.get(k_):
            ctx.count(f"ties.{k_}" if k_ != "near_clamp" else "lm.clamp.near-threshold-case")
    twin = None
    for ci, call in enumerate(case["calls"]):
        if case.get("fork") == ci and twin is None:
            twin = make_twin(env, case)
            if twin is None:
                ctx.count("copies.twin-unavailable")
            else:
                ctx.count("copies.state_dict-twin")
        for who, e_, other in ((("", env, twin),) + ((("[twin]", twin, env),) if twin is not None else ())):
            snap = None if other is None else twin_snapshot(other)
            with default_dtype(case.get("default_dtype")):
                res_ = do_call(e_, ci, who)
            if res_ == "stop":
                return st["ok"]
            if other is not None and twin_snapshot(other, snap) is False:
                ctx.fail(cd, f"copies: stepping one optimizer changed the parameters / param_groups of the other one "
                             f"(state_dict copy, call{ci}{who})")
                return False
        yield ci        # (17) another history may run between two calls of this one (run_interleaved)
    return st["ok"]


# ----------------------------------------------------------------------------- weight-expansion stream (normalize_RWJ directly)

def run_wdiag(ctx: Ctx, pending, configs):
    P = pp()
    rm = P.optim.optimizer.RobustModel(nn.Identity())
    for cfg in configs:
        g = torch.Generator().manual_seed(cfg["data_seed"])
        Rs, Ws = [], []
        for rs, ws in zip(cfg["rshapes"], cfg["wshapes"]):
            Rs.append(torch.randn(rs, generator=g, dtype=torch.float64))
            w_ = torch.randint(-8, 9, ws, generator=g).to(torch.float64) if len(ws) else torch.tensor(2.0, dtype=torch.float64)
            if len(ws) >= 2 and ws[-1] == ws[-2]:
                w_ = w_ + w_.transpose(-1, -2)       # the property quantifies over symmetric (SPD) weights
                if cfg.get("near"):                  # (36) a hair away from I / c·I / a diagonal / one common block
                    w_ = torch.tensor(near_blocks(random.Random(cfg["data_seed"]), int(math.prod(ws[:-2])), ws[-1], *cfg["near"]),
                                      dtype=torch.float64).reshape(ws)
            Ws.append(w_.contiguous())
        ncol = 2
        Js = [torch.randn(int(math.prod(rs)), ncol, generator=g, dtype=torch.float64) for rs in cfg["rshapes"]]
        case = {"kind": "wdiag", **cfg}
        impl = None
        try:
            Rcat, Wd, Jcat = rm.normalize_RWJ(list(Rs), list(Ws) if len(Ws) > 1 or cfg.get("aslist") else Ws[0], list(Js))
            impl = Wd
        except Exception as e:
            impl = e
        line = f"c07.wdiag {len(Rs)}"
        for rs, ws in zip(cfg["rshapes"], cfg["wshapes"]):
            line += f" {len(rs)} " + " ".join(map(str, rs)) + f" {len(ws)} " + " ".join(map(str, ws))
        line = " ".join(line.split()) + " " + " ".join(wl(w) for w in Ws)
        documented = cfg.get("documented", False)
        ctx.note_case(("wdiag", tuple(map(tuple, cfg["rshapes"])), tuple(map(tuple, cfg["wshapes"]))), documented)
        ctx.count("wdiag.documented" if documented else "wdiag.malformed")
        if documented:
            # oracle on the real code: block-diagonal weight times the flattened residual == per-item application with broadcasting
            if isinstance(impl, Exception):
                ctx.fail(case, f"weight: normalize_RWJ raises for a documented weight shape {cfg['wshapes']} on residual {cfg['rshapes']}: {impl}")
            else:
                want = torch.cat([torch.einsum("tab,tb->ta", bcast_weight(w, rs), item_view(r.reshape(-1), rs)).reshape(-1)
                                  for r, w, rs in zip(Rs, Ws, cfg["rshapes"])])
                got = impl @ Rcat if impl.shape[1] == Rcat.numel() else None
                if got is None or not bool(((got - want).abs() <= 1e-13 * (1 + want.abs() + max(float(w.abs().max()) for w in Ws) * Rcat.abs().max())).all()):
                    ctx.fail(case, f"weight: block-diagonal expansion of weight shapes {cfg['wshapes']} for residual shapes {cfg['rshapes']} "
                                   f"does not apply W_i to residual item i")

        def cb(rep, impl=impl, case=case):
            # a weight is usable by the step only if it is tot x tot (otherwise `weight @ J` raises): an unusable weight on
            # one side must be unusable (or a raise) on the other side; usable ones must be equal entry by entry
            st, toks = common.parse_reply(rep)
            tot = sum(int(math.prod(rs)) for rs in case["rshapes"])
            m_ok = st == "ok" and int(toks[0]) == tot and int(toks[1]) == tot
            i_ok = (not isinstance(impl, Exception)) and list(impl.shape) == [tot, tot]
            if not m_ok and not i_ok:
                return
            if m_ok != i_ok:
                ctx.disagree("wdiag", case, f"usable weight on one side only: model {'ok' if m_ok else 'raises/unusable'}, implementation "
                                            f"{'ok' if i_ok else (type(impl).__name__ if isinstance(impl, Exception) else list(impl.shape))}")
                return
            vals = torch.tensor([fw(t) for t in toks[2:]], dtype=torch.float64).reshape(tot, tot)
            if not torch.equal(vals, impl.double()):
                ctx.disagree("wdiag", case, f"block-diagonal weight differs from the model ({tot}x{tot})")
        pending.append((line, cb))


def wdiag_configs(rng, quick):
    cfgs = []
    exts = [1, 2, 3]
    batches = [[]]
    for rank in (1, 2, 3):
        new = []
        import itertools
        for t in itertools.product(exts, repeat=rank):
            new.append(list(t))
        batches += new
    batches.append([2, 1, 2, 2])
    batches.append([1, 2, 2, 3])
    seed = 1
    for b in batches:
        if len(b) == 3 and quick and rng.random() < 0.5:
            continue
        for d in (1, 2, 3):
            for j in range(len(b) + 1):
                seed += 1
                cfgs.append({"rshapes": [b + [d]], "wshapes": [b[len(b) - j:] + [d, d]], "data_seed": seed, "documented": True,
                             "aslist": rng.random() < 0.5})
                if rng.random() < 0.3:
                    seed += 1
                    cfgs.append({**cfgs[-1], "data_seed": seed, "near": [rng.choice(["I", "I", "cI", "diag", "const"]), rng.choice(NEAR_RELS)]})
    # two residuals
    for _ in range(12 if quick else 60):
        seed += 1
        rs, ws = [], []
        for _k in range(2):
            b = rng.choice(batches)
            d = rng.choice([1, 2, 3, 4])
            j = rng.randint(0, len(b))
            rs.append(b + [d]); ws.append(b[len(b) - j:] + [d, d])
        cfgs.append({"rshapes": rs, "wshapes": ws, "data_seed": seed, "documented": True})
        if rng.random() < 0.5:
            cfgs[-1]["near"] = [rng.choice(["I", "I", "cI", "diag", "const"]), rng.choice(NEAR_RELS)]
    # malformed: scalar weights for d = 1, wrong d, 0-dim, non-dividing batch
    mal = [([4, 1], [4]), ([2, 4, 1], [4]), ([3, 2], [3, 3]), ([3, 2], []), ([], [1, 1]), ([5, 2], [2, 2, 2]), ([4, 2], [3, 2, 2]),
           ([2, 3], [2, 3]), ([2, 1], [1]), ([6], [6, 6]), ([6], [3, 3]), ([2, 2], [2, 1, 2, 2])]
    for rs, ws in mal:
        seed += 1
        cfgs.append({"rshapes": [rs], "wshapes": [ws], "data_seed": seed, "documented": False})
    return cfgs


# ----------------------------------------------------------------------------- case generation

KERNELS = [("Huber", [1.0]), ("Huber", [0.3]), ("PseudoHuber", [1.0]), ("Cauchy", [1.0]), ("Cauchy", [0.5]), ("SoftLOne", [1.0]),
           ("Arctan", [1.0]), ("Tolerant", [1.0, -1.0]), ("Scale", [0.5]), ("UserQuad", [0.3]), ("SubQuad:Huber", [0.3]),
           ("SubQuad:Cauchy", [0.2])]
DAMPINGS = [1e-9, 1e-7, 1e-6, 1e-4, 1e-2, 0.1, 1.0, 10.0, 1e3]
MINS = [1e-9, 1e-6, 1e-6, 1e-6, 1e-3, 0.1, 1.0, 50.0]
MAXS = [1e32, 1e32, 1e32, 1e3, 10.0, 1.0, 0.5, 1e-3]
BSHAPES = [[], [], [1], [2], [2], [3], [3], [2, 2], [1, 3], [2, 1, 2], [4], [3, 2], [1, 1], [3, 3], [5], [6], [7], [1, 1, 1], [3, 1]]
PARAM_TYPES = ([["G", g] for g in U.GROUPS] * 3 + [["A", g] for g in U.GROUPS] * 2 + [["E", 3], ["E", 3], ["E", 4], ["S"], ["S"]])


def rand_kernel(rng):
    n, a = rng.choice(KERNELS)
    return {"name": n, "args": list(a)}


def gen_spd(rng, d, mag=None):
    mag = mag if mag is not None else rng.choice([1e-3, 0.1, 1.0, 1.0, 10.0, 1e3])
    Gm = [[rng.gauss(0, 1) for _ in range(d)] for _ in range(d)]
    c = rng.choice([0.1, 1.0])
    M = [[sum(Gm[i][k_] * Gm[j][k_] for k_ in range(d)) + (c if i == j else 0.0) for j in range(d)] for i in range(d)]
    return [[mag * M[i][j] for j in range(d)] for i in range(d)]


NEAR_RELS = [1e-3, 9e-6, 9.9e-6, 3e-6, 1e-6, 1e-7, 1e-8, 1e-10, 1e-12, 1e-14]


def near_blocks(rng, nb, d, base, rel):
    """(36) SPD blocks at relative distance `rel` from the identity / a multiple of it / a diagonal matrix / one common block:
    diagonal entries off by rel·u, off-diagonal entries by 1e-3·rel·u (inside the band of an `allclose` with default
    tolerances for rel <= 1e-5, far above round-off in float64)"""
    if base == "I":
        B0 = torch.eye(d, dtype=torch.float64)
    elif base == "cI":
        B0 = rng.choice([0.5, 2.0, 1e-3, 1e3]) * torch.eye(d, dtype=torch.float64)
    elif base == "diag":
        B0 = torch.diag(torch.tensor([rng.choice([0.3, 1.0, 1.0, 4.0]) for _ in range(d)], dtype=torch.float64))
    else:
        B0 = torch.tensor(gen_spd(rng, d, 1.0), dtype=torch.float64)
    out = []
    for _ in range(nb):
        U_ = torch.tensor([[rng.uniform(-1, 1) for _ in range(d)] for _ in range(d)], dtype=torch.float64)
        U_ = (U_ + U_.T) / 2
        sc = torch.full((d, d), 1e-3, dtype=torch.float64) + (1 - 1e-3) * torch.eye(d, dtype=torch.float64)
        scale = B0.abs() if base == "const" else B0.diagonal().abs().max() * torch.ones(d, d, dtype=torch.float64)
        out.append(B0 + rel * sc * U_ * scale)
    return torch.stack(out).reshape(-1).tolist()


def gen_weight(rng, shapes, dtype, force_suffix=None, layouts=0.0, wide=False, layout=None, alias=0.0, zero_block=0.0, asym=0.0, near=0.0,
               near_base=None, near_rel=None):
    """SPD weights, one per residual, in a documented shape (suffix of the batch shape + (d, d)).  `layouts` = probability
    of a non-contiguous memory layout, `layout` forces one, `alias` = probability that two residuals share one tensor"""
    ws = []
    for sh in shapes:
        if not sh:
            return None     # a 0-dim residual cannot carry a weight (r.shape[-1] does not exist)
        batch, d = sh[:-1], sh[-1]
        j = rng.randint(0, len(batch)) if force_suffix is None else min(force_suffix, len(batch))
        wb = batch[len(batch) - j:]
        if ws and rng.random() < alias and ws[0]["shape"] == wb + [d, d] and "alias_of" not in ws[0] and ws[0].get("layout", "contig") != "expand":
            ws.append({"shape": wb + [d, d], "values": ws[0]["values"], "alias_of": 0, "layout": ws[0].get("layout", "contig")})
            continue
        nb = int(math.prod(wb))
        vals = []
        asym_used = False
        for _ in range(nb):
            mag = rng.choice([1e-8, 1e8, 1e-5, 1e5]) if (wide and rng.random() < 0.5) else None
            vals += [x for row in gen_spd(rng, d, mag) for x in row]
        near_used = None
        if rng.random() < near:
            near_used = (near_base or rng.choice(["I", "I", "cI", "diag", "const"]), near_rel or rng.choice(NEAR_RELS))
            vals = near_blocks(rng, nb, d, *near_used)
        t = torch.tensor(vals, dtype=torch.float64).to(U.dt(dtype)).to(torch.float64)
        if rng.random() < asym and d >= 2:       # (36) NEARLY symmetric: a relative asymmetry of 1e-6 (between round-off and 1e-5)
            tt = t.reshape(nb, d, d)
            sk = torch.triu(torch.ones(d, d, dtype=torch.float64), 1) - torch.tril(torch.ones(d, d, dtype=torch.float64), -1)
            tt.mul_(1.0 + 1e-6 * sk)
            asym_used = True
        if rng.random() < zero_block:            # (20) a weight that is exactly zero for one block (boundary of the SPD cone)
            t.reshape(nb, d * d)[rng.randrange(nb)] = 0.0
        spec = {"shape": wb + [d, d], "values": t.tolist()}
        if asym_used:
            spec["asym"] = True
        if near_used:
            spec["near"] = list(near_used)
        lay = layout if layout is not None else (rng.choice(["mT", "slice", "tbatch", "bslice", "expand"]) if rng.random() < layouts else "contig")
        if lay == "expand":
            if j < len(batch):      # the same values, presented as the next longer documented shape through expand()
                j2 = rng.randint(j + 1, len(batch))
                full = batch[len(batch) - j2:] + [d, d]
                spec = {"shape": full, "base_shape": wb + [d, d], "layout": "expand",
                        "values": t.reshape(wb + [d, d]).expand(*full).reshape(-1).tolist()}
            else:
                lay = "contig"
        if lay == "tbatch" and j < 2:
            lay = "bslice" if j >= 1 else "mT"
        if lay == "bslice" and j < 1:
            lay = "slice"
        if lay not in ("contig", "expand"):
            spec["layout"] = lay
        ws.append(spec)
    return ws


def gen_targets(rng, outs, dtype, tmode, tscale=None, layouts=0.0, alias=0.0, first_scales=None, tdtypes=0.0, tdtype=None):
    """targets at a chosen distance from the current outputs; tmode `peritem`: every batch item its own distance
    (exact / tiny / ordinary / large mixed in one batch)"""
    if tmode == "none":
        return None
    e_ = EPS[dtype]
    ladder = [0.0, 1e-18, 1e-15, e_ / 2, e_, 3 * e_, 1e-12, 1e-9, 1e-6, 1e-3, 0.1, 0.1, 1.0, 1.0]      # (18) steps below / at / above Exp's threshold
    tg = []
    for o in outs:
        if tmode == "mixed" and rng.random() < 0.4:
            tg.append(None)
            continue
        if tg and tg[0] is not None and rng.random() < alias and tg[0]["shape"] == list(o.shape) and "alias_of" not in tg[0]:
            tg.append({"shape": list(o.shape), "values": tg[0]["values"], "alias_of": 0})
            continue
        noise = torch.tensor([rng.gauss(0, 1) for _ in range(o.numel())], dtype=torch.float64).reshape(o.shape)
        if tmode in ("above", "below"):          # (26) residuals of one sign only (all negative / all positive)
            noise = noise.abs() * (1.0 if tmode == "above" else -1.0)
        if tmode == "peritem" and o.dim() >= 2:
            nit = int(math.prod(o.shape[:-1]))
            scv = torch.tensor([rng.choice([0.0, 0.0, 1e-15, 1e-9, 1e-3, 0.3, 3.0, 30.0]) for _ in range(nit)], dtype=torch.float64)
            if first_scales:        # deterministic mix: the first items are exact / ordinary / far
                for i_, v_ in enumerate(first_scales[:nit]):
                    scv[i_] = v_
            sc = scv.reshape(tuple(o.shape[:-1]) + (1,))
        else:
            sc = tscale if tscale is not None else rng.choice(ladder)
        t = (o.double() + sc * noise).to(U.dt(dtype)).to(torch.float64)
        spec = {"shape": list(o.shape), "values": t.reshape(-1).tolist()}
        if rng.random() < tdtypes:
            td_ = tdtype or rng.choice(["int64", "int32", "int16", "int8", "uint8", "float16", "bfloat16"] + (["float32"] if dtype == "float64" else []))
            tv = t.round().clamp(0 if td_ == "uint8" else (-120 if td_ == "int8" else -30000), 250 if td_ == "uint8" else (120 if td_ == "int8" else 30000)) \
                if td_.startswith(("int", "uint")) else t
            spec["values"] = tv.to(getattr(torch, td_)).to(torch.float64).reshape(-1).tolist()
            spec["tdtype"] = td_
        if rng.random() < layouts:
            spec["layout"] = rng.choice(["slice", "step", "perm"])
        tg.append(spec)
    return tg


def param_edit_for(rng, case):
    """an in-place modification of one parameter by the caller between two steps"""
    cands = [(li, lf) for li, lf in enumerate(case["leaves"]) if lf["role"] == "param"]
    li, lf = rng.choice(cands)
    ty = lf["ty"]
    if lf.get("zerodim"):
        return {str(li): {"mode": "copy", "values": G.gen_leaf_item(rng, ty)[0]}}
    n = int(math.prod(lf["lshape"]))
    if n == 0:
        return None
    mode = rng.choice(["copy", "item", "add"] if ty[0] in ("E", "S", "A") else ["copy", "item"])
    if mode == "copy":
        return {str(li): {"mode": "copy", "values": [G.gen_leaf_item(rng, ty) for _ in range(n)]}}
    if mode == "item":
        return {str(li): {"mode": "item", "item": rng.randrange(n), "values": G.gen_leaf_item(rng, ty)}}
    return {str(li): {"mode": "add", "values": [[rng.gauss(0, 0.3) for _ in range(G.tdim(ty))] for _ in range(n)]}}


def make_case(rng, **force):
    """a complete, JSON-serialisable case"""
    dtype = force.get("dtype") or rng.choice(["float64", "float64", "float64", "float32"])
    for attempt in range(50):
        bshape = force.get("bshape", rng.choice(BSHAPES))
        nP = force.get("nparams", rng.choice([1, 2, 2, 3]))
        ptypes = force.get("ptypes") or [rng.choice(PARAM_TYPES) for _ in range(nP)]
        nP = len(ptypes)
        frozen = force.get("frozen")
        if frozen is None:
            frozen = [False] * nP
            if nP >= 2 and rng.random() < 0.06:
                frozen[rng.randrange(nP)] = True
        bld = G.Builder(rng, bshape, ptypes, frozen, wide=force.get("wide", 0.06), full=force.get("full", False))
        nres = force.get("nres", rng.choice([1, 1, 2]))
        roots, rtys = [], []
        pidx = [i for i, lf in enumerate(bld.leaves) if lf["role"] == "param"]
        for r in range(nres):
            unused = [i for i in pidx if i not in bld.used and bld.leaves[i]["rg"]]
            start = rng.choice(unused) if unused and rng.random() < 0.85 else rng.choice(pidx)
            node, ty = bld.chain(start, force.get("depth", rng.choice([1, 1, 2, 2, 3, 4])))
            roots.append(node); rtys.append(ty)
        # (31) models that hand back what they were given: a parameter itself / a view of it / the input itself as a
        # residual, two residual outputs that are one tensor or views of one another
        am = force.get("alias_model")
        if am is None and rng.random() < 0.1:
            am = rng.choice(["param", "view", "input", "same_out", "view_out"])
        if am == "param":
            cand = [i for i in pidx if bld.leaves[i]["ty"][0] in ("E", "A") and not bld.leaves[i].get("zerodim")]
            if cand:
                roots[0] = ["L", rng.choice(cand)]
        elif am == "view":
            cand = [i for i in pidx if bld.leaves[i]["ty"][0] in ("E", "A") and not bld.leaves[i].get("zerodim")]
            if cand:
                roots[0] = ["Slice", 2, ["L", rng.choice(cand)]]
        elif am == "input":
            cand = [i for i, lf in enumerate(bld.leaves) if lf["role"] == "input" and lf["ty"][0] == "E"]
            if not cand and force.get("alias_model"):
                cand = [bld.new_leaf(["E", 3], "input")]
            if cand:
                roots = roots[:1] + [["L", rng.choice(cand)]]
        elif am == "same_out":
            roots = roots[:1] + [["OutRef", 0, 0]]
        elif am == "view_out":
            roots = roots[:1] + [["OutRef", 0, 2]]
        if am is not None:      # the types of replaced roots are no longer those of the chains: no LieTensor-typed targets for them
            rtys = [rtys[0] if am in ("input", "same_out", "view_out") else ["E", 0]] + [["E", 0] for _ in roots[1:]]
        case = {"kind": "step", "dtype": dtype, "leaves": bld.leaves, "roots": roots,
                "out_as_tensor": [True for _ in roots], "tuple_out": len(roots) == 1 and rng.random() < 0.2,
                "input_mode": rng.choice(["tuple", "tuple", "list", "dict", "single"])}
        n_in = sum(1 for lf in bld.leaves if lf["role"] == "input")
        if n_in == 0:
            # the optimizer needs an input object: give the model an unused constant
            bld.new_leaf(["E", 3], "input")
        try:
            outs = G.out_batch_dims(case)
        except Exception:
            continue
        if not all(bool(torch.isfinite(o).all()) for o in outs):
            continue
        shapes = [list(o.shape) for o in outs]
        m = sum(int(o.numel()) for o in outs)
        ncol = sum((1 if lf.get("zerodim") else int(math.prod(lf["lshape"])) * G.tdim(lf["ty"])) for lf in bld.leaves if lf["role"] == "param")
        if m == 0 or ncol == 0 or m > force.get("max_rows", 42) or ncol > force.get("max_cols", 26):
            continue
        break
    else:
        raise common.InfraError("could not generate a residual model within the size limits")
    case["shapes"] = shapes
    if rng.random() < force.get("dup", 0.1):      # (20) two identical items in every batched leaf: equal residuals / diagonal entries
        for lf in case["leaves"]:
            if not lf.get("zerodim") and len(lf["values"]) >= 2:
                lf["values"][1] = list(lf["values"][0])
        case["dup"] = True
        if rng.random() < force.get("dup_near", 0.5):          # (36) NEARLY equal instead of equal: 1e-7 relative (rank decisions by isclose show here)
            for lf in case["leaves"]:
                if not lf.get("zerodim") and len(lf["values"]) >= 2 and lf["ty"][0] in ("E", "S", "A"):
                    lf["values"][1] = [x_ * (1 + 1e-7) for x_ in lf["values"][0]]
            case["dup"] = "near"
        outs = G.out_batch_dims(case)
    # memory layouts: parameters that are views into a larger buffer of the caller, non-contiguous inputs
    vprob, lprob = force.get("views", 0.12), force.get("layouts", 0.15)
    for lf in case["leaves"]:
        if lf["role"] == "param" and rng.random() < vprob:
            lf["view"] = rng.choice(["slice", "step"])
        if lf["role"] == "input" and rng.random() < lprob:
            lf["layout"] = rng.choice(["slice", "step", "perm", "bslice"])
    # targets
    tmode = force.get("target", rng.choice(["near", "near", "near", "none", "mixed", "peritem", "peritem", "above", "below"]))
    case["targets"] = gen_targets(rng, outs, dtype, tmode, force.get("tscale"), lprob, force.get("alias", 0.3), force.get("first_scales"),
                                  force.get("tdtypes", 0.12), force.get("tdtype"))
    if case["targets"] is not None:
        if not any(t is not None for t in case["targets"]) and rng.random() < 0.5:
            case["targets"] = None
        elif len(roots) == 1 and not case["tuple_out"] and case["targets"][0] is None:
            case["targets"] = None
    case["target_tuple"] = rng.random() < 0.5
    # optimizer
    case["opt"] = force.get("opt", rng.choice(["GN", "LM", "LM"]))
    case["vectorize"] = force.get("vectorize", rng.random() < 0.5)
    if case["opt"] == "GN":
        case["solver"] = force.get("solver", rng.choice(["default", "PINV", "LSTSQ", "LSTSQ_gelsd", "LSTSQ_gelss"]))
    else:
        case["solver"] = force.get("solver", rng.choice(["default", "Cholesky", "PINV", "LSTSQ", "CG", "Cholesky_upper", "PINV_herm", "LSTSQ_gelsd"]))
        lam = force.get("damping", rng.choice(DAMPINGS))
        sname = force.get("strategy", rng.choice(["Constant", "Adaptive", "Adaptive", "TrustRegion", "default"]))
        if sname == "Constant":
            case["strategy"] = {"name": "Constant", "damping": lam}
        elif sname == "Adaptive":
            case["strategy"] = {"name": "Adaptive", "damping": lam, "up": rng.choice([2.0, 3.0, 10.0]), "down": rng.choice([0.5, 0.1]),
                                "min": 1e-9, "max": 1e16}
        elif sname == "TrustRegion":
            case["strategy"] = {"name": "TrustRegion", "radius": 1.0 / lam, "up": rng.choice([2.0, 4.0]), "down": rng.choice([0.5, 0.25]),
                                "min": 1e-9, "max": 1e16}
        else:
            case["strategy"] = None
        case["min"] = force.get("min", rng.choice(MINS + [None]))            # None: the argument is not passed (library default)
        case["max"] = force.get("max", rng.choice(MAXS + [None]))
        case["reject"] = force.get("reject", rng.choice([0, 1, 2, 3, 5, 16, None]))
    # kernels / correctors
    kmode = force.get("kmode", rng.choice(["none", "none", "auto", "auto", "fast", "triggs", "list", "list", "corr_only"]))
    if kmode == "none":
        case["kernel"], case["corrector"] = None, None
    elif kmode == "corr_only":     # (10) exactly one of the two related arguments: a corrector without a kernel
        ks_ = [rand_kernel(rng) for _ in roots]
        case["kernel"] = None
        case["corrector"] = ({"type": rng.choice(["FastTriggs", "Triggs"]), "kernel": ks_[0]} if rng.random() < 0.5 else
                             [{"type": rng.choice(["FastTriggs", "Triggs"]), "kernel": k_} if rng.random() < 0.8 else None for k_ in ks_])
    elif kmode == "auto":
        case["kernel"], case["corrector"] = (force.get("kernel_spec") or rand_kernel(rng)), None
    elif kmode in ("fast", "triggs"):
        kk = force.get("kernel_spec") or rand_kernel(rng)
        case["kernel"] = kk
        case["corrector"] = {"type": "FastTriggs" if kmode == "fast" else "Triggs", "kernel": kk}
    else:
        ks = [rand_kernel(rng) if rng.random() < 0.75 else None for _ in roots]
        if force.get("auto_list"):      # distinct kernels, correctors built by the optimizer
            names = rng.sample(KERNELS, len(roots))
            ks = [{"name": n_, "args": list(a_)} for n_, a_ in names]
        case["kernel"] = ks
        c = 0.0 if force.get("auto_list") else rng.random()
        if c < 0.35:
            case["corrector"] = None
        elif c < 0.7:
            case["corrector"] = [None if kk is None else {"type": rng.choice(["FastTriggs", "Triggs"]), "kernel": kk} for kk in ks]
        else:
            kk = ks[0] or rand_kernel(rng)
            case["corrector"] = {"type": "FastTriggs", "kernel": kk}
    # a LieTensor-valued residual is only usable without kernel / corrector (the library's own error message asks for
    # `.tensor()` otherwise): keep the algebra LieTensor output in that configuration only
    if case["kernel"] is None and case["corrector"] is None:
        case["out_as_tensor"] = [rng.random() < 0.5 for _ in roots]
        if case["targets"] is not None:
            for sp_, ty_, ast_ in zip(case["targets"], rtys, case["out_as_tensor"]):
                if sp_ is not None and not ast_ and ty_[0] == "A" and "alias_of" not in sp_ and rng.random() < 0.5:
                    sp_["as_lie"] = ty_[1]
    case["ktuple"] = rng.random() < 0.3
    case["subclass"] = rng.random() < force.get("subclass", 0.3)          # (21) user subclasses of every shipped class involved
    case["prop_weight"] = rng.random() < force.get("prop_weight", 0.5)                              # (33) … that provide `weight` as a property
    case["omit"] = rng.random() < force.get("omit", 0.4)                  # (29) None-valued optional arguments are not passed at all
    if dtype == "float32" and rng.random() < force.get("defdtype", 0.4):
        case["default_dtype"] = "float64"                                  # (25) process default differs from the operands' dtype
    case["ctor_style"] = rng.choice(["kw", "kw", "pos"])
    for lf in case["leaves"]:
        if lf["role"] == "param" and lf["ty"][0] == "E" and rng.random() < force.get("pp_param", 0.2):
            lf["pp_param"] = True
    # weights
    wmode = force.get("wmode", rng.choice(["none", "none", "ctor", "ctor", "step", "both"]))
    wkw = dict(layouts=force.get("wlayouts", 0.2), wide=rng.random() < force.get("wide", 0.06) * 2, layout=force.get("wlayout"),
               alias=force.get("alias", 0.3), zero_block=force.get("zero_block", 0.04), asym=force.get("asym", 0.0) if dtype == "float64" else 0.0,
               near=force.get("near", 0.25), near_base=force.get("near_base"), near_rel=force.get("near_rel"))
    case["weight_ctor"] = gen_weight(rng, shapes, dtype, force.get("wsuffix"), **wkw) if wmode in ("ctor", "both") else None
    case["weight_step"] = gen_weight(rng, shapes, dtype, force.get("wsuffix"), **wkw) if wmode in ("step", "both") else None
    case["wstyle"] = rng.choice(["list", "tuple", "tensor"])
    # calls
    ncalls = force.get("ncalls", rng.choice([1, 1, 2, 2, 3]))
    calls = []
    rg_state = {}
    cur_case, cur_shapes = case, shapes
    for ci in range(ncalls):
        call = {}
        if case["weight_step"] is not None and (wmode == "step" or rng.random() < 0.6 or ci == 0):
            call["weight"] = "step"
        elif case["weight_ctor"] is not None:
            call["weight"] = "ctor"
        else:
            call["weight"] = "none"
        if case["opt"] == "LM":
            nb = force.get("nbad", rng.choice([0, 0, 1, 1, 2, 3]))
            call["bad"] = [rng.choice([-2.0, -3.0, 4.0, -1.0, -0.5]) for _ in range(nb)]
            if ci > 0 and rng.random() < 0.5:
                ed = {}
                if rng.random() < 0.6:
                    ed["min"] = rng.choice(MINS)
                if rng.random() < 0.4:
                    ed["max"] = rng.choice(MAXS)
                if rng.random() < 0.5:
                    ed["damping"] = rng.choice(DAMPINGS)
                call["pg_edit"] = ed
        call["jac_check"] = ci == 0 or rng.random() < force.get("jac_later", 0.5)
        call["step_style"] = rng.choice(["kw", "kw", "pos", "allkw"])
        if case["input_mode"] == "dict" and call["step_style"] == "allkw":
            call["step_style"] = "kw"
        if rng.random() < force.get("gradmode", 0.25):
            # torch.inference_mode() is left out on purpose: modjac silently returns an all-zero Jacobian there (observation
            # in the notes; the library's FastTriggs even asserts against it) — code that needs autograd, scope rule
            call["grad"] = rng.choice(["no_grad", "enable_grad"])
        if rng.random() < force.get("gradmode", 0.25):
            call["req_grad"] = [x_ for x_ in ("inputs", "targets", "weights") if rng.random() < 0.6]
        if rng.random() < force.get("inject", 0.08):
            wh = rng.choice(["solver", "corrector"])
            call["raise"] = {"where": wh, "at": ((rng.choice([0, 0, 1]) if case["opt"] == "LM" else 0) if wh == "solver"
                                                  else rng.randrange(len(roots)))}
        elif call["weight"] == "step" and rng.random() < force.get("inject", 0.08) / 2:
            call["bad_weight_count"] = True
        # OBJECT REUSE / STALE READS: from the second call on, everything the caller can vary per call may vary
        if ci > 0 and rng.random() < force.get("vary", 0.7):
            cur = cur_case
            newin = {}
            reshape_ok = wmode in ("none", "step") and not force.get("keep_shapes")
            for li, lf in enumerate(cur["leaves"]):
                if lf["role"] != "input" or rng.random() < 0.25:
                    continue
                lsh = lf["lshape"]
                if reshape_ok and rng.random() < 0.3:
                    lsh = G.sub_shape(rng, bshape)
                n_ = int(math.prod(lsh))
                ov = {"lshape": list(lsh), "values": [G.gen_leaf_item(rng, lf["ty"]) for _ in range(n_)]}
                ov["layout"] = rng.choice(["slice", "step", "perm", "bslice"]) if rng.random() < lprob else None
                newin[str(li)] = ov
            trial = dict(cur); trial_leaves = [dict(lf) for lf in cur["leaves"]]
            for k_, ov in newin.items():
                trial_leaves[int(k_)].update(ov)
            trial["leaves"] = trial_leaves
            try:
                outs_c = G.out_batch_dims(trial)
                good = all(bool(torch.isfinite(o).all()) for o in outs_c) and sum(int(o.numel()) for o in outs_c) <= force.get("max_rows", 42) \
                    and all(o.numel() > 0 for o in outs_c)
            except Exception:
                good = False
            if good:
                shapes_c = [list(o.shape) for o in outs_c]
                same_shapes = shapes_c == cur_shapes
                if newin:
                    call["inputs"] = newin
                if rng.random() < 0.8 or not same_shapes:
                    tm = rng.choice(["near", "peritem", "mixed", "none"]) if case["targets"] is not None or rng.random() < 0.3 else "none"
                    tgs = gen_targets(rng, outs_c, dtype, tm, None, lprob, force.get("alias", 0.3))
                    if tgs is not None and len(roots) == 1 and not case["tuple_out"] and tgs[0] is None:
                        tgs = None
                    call["targets"] = tgs
                if case["weight_step"] is not None and (rng.random() < 0.8 or not same_shapes):
                    call["weight_step"] = gen_weight(rng, shapes_c, dtype, None, **wkw)
                    call["weight"] = "step" if (not same_shapes or rng.random() < 0.7) else call["weight"]
                elif not same_shapes:
                    call["weight"] = "none"
                if same_shapes and rng.random() < 0.4:
                    call["inplace"] = True        # the caller overwrites its own tensors instead of passing new ones
                    for ov in newin.values():
                        ov.pop("layout", None)       # the overwritten tensor keeps its memory layout
                if same_shapes and call["weight"] == "ctor" and case["weight_ctor"] is not None and rng.random() < 0.5:
                    fresh = gen_weight(rng, shapes_c, dtype, None, layouts=0.0, wide=False, layout="contig", alias=0.0, zero_block=0.0, asym=0.0)
                    edits = []
                    for w0, w1 in zip(case["weight_ctor"], fresh):
                        edits.append(w1["values"] if (w0["shape"] == w1["shape"] and w0.get("layout", "contig") == "contig"
                                                      and "alias_of" not in w0) else None)
                    if any(e_ is not None for e_ in edits):
                        call["ctor_weight_edit"] = edits
                cur_case, cur_shapes = trial, shapes_c
        if nP >= 2 and rng.random() < force.get("rgedit", 0.12):
            pl_ = [li_ for li_, lf_ in enumerate(case["leaves"]) if lf_["role"] == "param"]
            li_ = rng.choice(pl_)
            cur_ = rg_state.get(li_, case["leaves"][li_]["rg"])
            others_ = [rg_state.get(x_, case["leaves"][x_]["rg"]) for x_ in pl_ if x_ != li_]
            if (not cur_) or any(others_):          # keep at least one trainable parameter
                rg_state[li_] = not cur_
                call["rg_edit"] = {str(li_): (not cur_)}
        if ci > 0 and rng.random() < force.get("pedit", 0.3):
            pe = param_edit_for(rng, case)
            if pe is not None:
                call["param_edit"] = pe
        calls.append(call)
    case["calls"] = force.get("calls", calls)
    if len(case["calls"]) >= 2 and rng.random() < force.get("fork", 0.3):
        case["fork"] = rng.randrange(1, len(case["calls"]))
    if case["opt"] == "LM" and rng.random() < force.get("near_clamp", 0.25):
        near_threshold_clamps(rng, case)
    if case["opt"] == "LM" and rng.random() < force.get("tie_clamp", 0.15):
        exact_tie_clamps(rng, case)
    if rng.random() < force.get("poison", 0.12):
        case["poison"] = rng.choice(["inference", "no_grad"])     # (23) an unjudged first step of a throw-away twin in that mode
    return case


def exact_tie_clamps(rng, case):
    """(20) clamp bounds EXACTLY equal to diagonal entries of JᵀWJ as the step itself computes them (a dry run of the same
    first call with clamps far away and a damping that rounds away records them bit for bit): min == d_i, max == d_j, or
    min == max == d_i"""
    try:
        c = json.loads(json.dumps(case))
        c.update({"min": 1e-300 if case["dtype"] == "float64" else 1e-37, "max": 1e300 if case["dtype"] == "float64" else 1e37,
                  "strategy": {"name": "Constant", "damping": 1e-300}, "solver": "PINV", "reject": 0, "subclass": False})
        c["calls"] = [dict(c["calls"][0], bad=[], pg_edit=None)]
        c["calls"][0].pop("raise", None); c["calls"][0].pop("bad_weight_count", None); c["calls"][0].pop("grad", None)
        c.pop("fork", None); c.pop("poison", None); c.pop("default_dtype", None)
        env = build_env(c)
        setup_call(env, 0)
        with contextlib.redirect_stdout(io.StringIO()), warnings.catch_warnings():
            warnings.simplefilter("ignore")
            env.opt.step(env.input, target=env.target, weight=pass_weight(env.wstep, c.get("wstyle", "list")))
        d = env.sol_log[0]["A"].diagonal().double()
        pos = sorted({float(x_) for x_ in d.tolist() if x_ > 1e-30 and math.isfinite(x_)})
        if not pos:
            return
        mode = rng.choice(["min", "max", "both", "minmax"])
        h1, h2 = pos[rng.randrange(len(pos))], pos[rng.randrange(len(pos))]
        if mode == "min":
            case["min"], case["max"] = h1, None
        elif mode == "max":
            case["max"], case["min"] = h1, min(1e-9, h1)
        elif mode == "both":
            case["min"], case["max"] = min(h1, h2), max(h1, h2)
        else:
            case["min"] = case["max"] = h1
        for call in case["calls"]:
            if call.get("pg_edit"):
                call["pg_edit"].pop("min", None); call["pg_edit"].pop("max", None)
        case["tie_clamp"] = mode
    except Exception:
        return


def near_threshold_clamps(rng, case):
    """(18) put the clamp bounds next to actual diagonal entries of JᵀWJ (a hair below / above, either sign), so that
    entries sit below, at and above `min` / `max` in one matrix"""
    try:
        env = build_env(case)
        setup_call(env, 0)
        with contextlib.redirect_stdout(io.StringIO()):
            Jraw = pp().optim.functional.modjac(env.opt.model, input=(env.input, env.target), flatten=False, vectorize=False)
        blocks = [torch.cat([raw(b_).reshape(-1, int(raw(p_).numel())) for b_, p_ in zip(Jr, env.params) if p_.requires_grad], 1).double()
                  for Jr in Jraw]
        d = (torch.cat(blocks) ** 2).sum(0)
        d = d[d > 0]
        if d.numel() == 0:
            return
        pick = sorted(d.tolist())
        h = pick[rng.randrange(len(pick))]
        f = 1.0 + rng.choice([-1.0, 1.0]) * 2.0 ** rng.choice([-20, -30, -45, -52])
        if rng.random() < 0.5:
            case["min"] = h * f
            if case.get("max") is not None and case["max"] < case["min"]:
                case["max"] = None
        else:
            case["max"] = h * f
            if case.get("min") is not None and case["min"] > case["max"]:
                case["min"] = min(case["min"], 1e-9)
        case["near_clamp"] = True
    except Exception:
        return


def case_signature(case):
    kinds = tuple((lf["ty"][0], lf["ty"][1] if len(lf["ty"]) > 1 else "", tuple(lf["lshape"]), lf["rg"]) for lf in case["leaves"] if lf["role"] == "param")
    wsh = tuple(tuple(w["shape"]) for w in (case["weight_ctor"] or [])) + tuple(tuple(w["shape"]) for w in (case["weight_step"] or []))
    corr = str(type(case["corrector"]).__name__) + str(type(case["kernel"]).__name__)
    return (case["opt"], case["solver"], (case.get("strategy") or {}).get("name") if case["opt"] == "LM" else "", kinds,
            tuple(map(tuple, case["shapes"])), wsh, corr, case["dtype"], len(case["calls"]),
            tuple(len(c.get("bad") or []) for c in case["calls"]), (case.get("min"), case.get("max")))


def nontrivial(case):
    reach = set()
    for r in case["roots"]:
        reach |= G.node_leaves(r)
    return any(case["leaves"][i]["role"] == "param" and case["leaves"][i]["rg"] for i in reach)


# ----------------------------------------------------------------------------- item-wise = batched (mixed-regime batches)

def slice_case(case, t):
    """the same problem restricted to batch item `t` (every leaf, target and weight carries the batch as first dim)"""
    c = json.loads(json.dumps(case))
    B = case["bshape"][0]
    for lf in c["leaves"]:
        lf["lshape"] = lf["lshape"][1:]
        per = len(lf["values"]) // B
        lf["values"] = lf["values"][t * per:(t + 1) * per]
        lf.pop("view", None); lf.pop("layout", None)
    for key in ("targets",):
        if c[key] is not None:
            for sp in c[key]:
                if sp is not None:
                    per = len(sp["values"]) // B
                    sp["shape"] = sp["shape"][1:]
                    sp["values"] = sp["values"][t * per:(t + 1) * per]
    for key in ("weight_ctor", "weight_step"):
        if c[key] is not None:
            for sp, sh in zip(c[key], case["shapes"]):
                if len(sp["shape"]) - 2 == len(sh) - 1:      # the weight has the full batch shape: take item t's blocks
                    per = len(sp["values"]) // B
                    sp["shape"] = sp["shape"][1:]
                    sp["values"] = sp["values"][t * per:(t + 1) * per]
    c["shapes"] = [sh[1:] for sh in case["shapes"]]
    c["bshape"] = case["bshape"][1:]
    return c


def gn_delta(case):
    """one GN step on the real code: (parameters before, after, singular values of A, env, exception or None)"""
    env = build_env(case)
    setup_call(env, 0)
    before = [raw(p_).clone() for p_ in env.params]
    exc = None
    try:
        with contextlib.redirect_stdout(io.StringIO()), warnings.catch_warnings():
            warnings.simplefilter("ignore")
            env.opt.step(env.input, target=env.target, weight=pass_weight(env.wstep, case.get("wstyle", "list")))
    except Exception as e:
        exc = e
    if not env.sol_log:
        raise exc if exc is not None else RuntimeError("solver not called")
    A = env.sol_log[0]["A"].double()
    sv = torch.linalg.svdvals(A) if A.numel() and bool(torch.isfinite(A).all()) else torch.zeros(0)
    return before, [raw(p_).clone() for p_ in env.params], sv, env, exc


def check_itemwise(ctx: Ctx, case):
    """a batch whose items are independent problems (every leaf batched, no sharing): the batched GN step must move item t
    exactly as the same step on item t alone — batch-level any()/all() decisions (Exp/Log branches, kernel and corrector
    masks, rank decisions) are invisible to homogeneous batches and to per-entry checks of one run"""
    cd = cdesc(case)
    eps = EPS[case["dtype"]]
    f64 = case["dtype"] == "float64"
    B = case["bshape"][0]
    singles = []
    for t in range(B):
        try:
            b1, a1, sv1, _, e1 = gn_delta(slice_case(case, t))
        except Exception:
            ctx.count("itemwise.degenerate")       # an item that cannot be stepped on its own says nothing about batching
            return
        if e1 is not None or not all(bool(torch.isfinite(x_).all()) for x_ in a1):
            ctx.count("itemwise.degenerate")
            return
        singles.append((b1, a1, sv1))
    try:
        b0, a0, sv0, env, e0 = gn_delta(case)
    except Exception as e:
        ctx.fail(cd, f"itemwise: the batched step raises {type(e).__name__}: {str(e)[:160]} before the solver is reached although every item steps on its own")
        return
    # conditioning first: rank decisions (pinv / lstsq cut-offs) are relative to the largest singular value of the *whole
    # batch*; the comparison is meaningful only if no item has a non-zero singular value the batch would treat differently,
    # and only if the Jacobian is not pure rounding noise
    smax = float(sv0.max()) if sv0.numel() else 0.0
    zero = 2 * eps * smax           # below pinv's own cut-off max(m,n)·eps: anything pinv might invert counts as non-zero
    thr = (1e-5 if f64 else 1e-2) * smax
    pos = sv0[sv0 > zero] if smax > 0 else sv0
    single_ok = all(sv1.numel() > 0 and float(sv1.max()) >= 1e-6 and bool((sv1[sv1 > 2 * eps * float(sv1.max())] > 10 * thr).all())
                    for _, _, sv1 in singles)
    if smax < 1e-6 or pos.numel() == 0 or float(pos.min()) < thr or not single_ok:
        ctx.count("itemwise.ill-conditioned")
        return
    A0 = env.sol_log[0]["A"].double()
    zero_cols = int((A0.abs().amax(0) == 0).sum()) if A0.numel() else 0
    unique = int((sv0 > zero).sum()) == A0.shape[1] - zero_cols
    uses_pinv = case["solver"] == "PINV" or (case["solver"] == "default" and env.default_solver == "PINV")
    if not unique and not uses_pinv:
        ctx.count("itemwise.nonunique-lstsq")      # LSTSQ promises *a* least-squares solution; only PINV's is canonical
        return
    if e0 is not None:
        ctx.fail(cd, f"itemwise: the batched step raises {type(e0).__name__}: {str(e0)[:160]} although every item steps on its own")
        return
    if not all(bool(torch.isfinite(x_).all()) for x_ in a0):
        ctx.fail(cd, "itemwise: the batched step produces non-finite parameters although every item alone gives finite ones")
        return
    cond = smax / float(pos.min())
    gmax = max((float((xa - xb).abs().max()) for xa, xb in zip(a0, b0) if xa.numel()), default=0.0)
    for t in range(B):
        b1, a1, _ = singles[t]
        for pi, (xb, xa, yb, ya) in enumerate(zip(b0, a0, b1, a1)):
            db = (xa - xb).double().reshape(B, -1)[t]
            ds = (ya - yb).double().reshape(-1)
            sc = max(float(db.abs().max()), float(ds.abs().max()))
            # relative to the item's own step + the coupling a backward-stable solve of the whole batch may introduce
            lim = ((1e-6 if f64 else 2e-2) * sc + 256 * eps * cond * gmax
                   + 256 * eps * cond * max(1.0, float(xb.double().abs().max())))
            if not bool(((db - ds).abs() <= lim).all()):
                j = int((db - ds).abs().argmax())
                ctx.fail(cd, f"itemwise: batched GN step moves item {t} of parameter {pi} by {float(db[j]):.6e} (component {j}) but the same "
                             f"step on that item alone moves it by {float(ds[j]):.6e}")
                return
    ctx.count("itemwise.checked")


def itemwise_cases(rng, n, kernels=False):
    out = []
    plan = [None] * n
    if kernels:     # every kernel with the automatic, the fast and the full Triggs corrector
        plan = [(km, {"name": nm, "args": list(ar)}) for nm, ar in KERNELS for km in ("auto", "fast", "triggs")]
    for i, pl in enumerate(plan):
        B = rng.choice([2, 3, 4])
        extra = {} if pl is None else {"kmode": pl[0], "kernel_spec": pl[1], "ptypes": [["E", 3]], "depth": 2, "solver": "PINV",
                                       "first_scales": [0.0, 0.3, 3.0], "dtype": "float64", "wide": 0.0}
        if pl is not None:
            B = 3
        c = make_case(rng, opt="GN", bshape=[B], full=True, ncalls=1, target="peritem", views=0.0, layouts=0.0, wlayouts=0.0,
                      alias=0.0, frozen=None, max_rows=60, max_cols=40, wsuffix=rng.choice([0, 0, 1, 1, 1]),
                      **({"kmode": rng.choice(["none", "auto", "fast", "triggs", "list"]), "nparams": rng.choice([1, 1, 2]),
                          "solver": rng.choice(["PINV", "LSTSQ", "default"]), "wide": 0.15} if pl is None else extra))
        c["bshape"] = [B]
        c["kind"] = "itemwise"
        if any(not lf["rg"] for lf in c["leaves"] if lf["role"] == "param"):
            continue
        out.append(c)
    return out


# ----------------------------------------------------------------------------- (19) large problems, (28) kernel switch-over sizes

def large_case(rng, N, opt, dtype, weighted=False, shape=None):
    """N residual items of dimension 1 that share a handful of parameters: sum_k s·(x_i + a)_k  (n = 4 columns, N rows —
    the normal equations stay tiny while every per-row loop of the library runs N times)"""
    shp = list(shape) if shape is not None else [N]
    xs = [[rng.gauss(0, 1) for _ in range(3)] for _ in range(N)]
    leaves = [{"role": "param", "ty": ["E", 3], "lshape": [], "values": [[rng.gauss(0, 1) for _ in range(3)]], "rg": True},
              {"role": "param", "ty": ["S"], "lshape": [], "values": rng.choice([0.7, 1.3, -1.1]), "rg": True, "zerodim": True},
              {"role": "input", "ty": ["E", 3], "lshape": shp, "values": xs, "rg": True}]
    case = {"kind": "step", "large": True, "dtype": dtype, "leaves": leaves,
            "roots": [["Sum1", ["ScaleE", ["AddE", ["L", 2], ["L", 0]], ["L", 1]]]], "out_as_tensor": [True], "tuple_out": False,
            "input_mode": "single", "target_tuple": False, "opt": opt, "vectorize": False, "kernel": None, "corrector": None,
            "weight_ctor": None, "weight_step": None, "wstyle": "list", "ktuple": False, "ctor_style": "kw", "subclass": False,
            "solver": "PINV" if opt == "GN" else "Cholesky"}
    outs = G.out_batch_dims(case)
    case["shapes"] = [list(o.shape) for o in outs]
    noise = torch.tensor([rng.gauss(0, 1) for _ in range(N)], dtype=torch.float64).reshape(outs[0].shape)
    case["targets"] = [{"shape": list(outs[0].shape), "values": (outs[0].double() + 0.3 * noise).to(U.dt(dtype)).double().reshape(-1).tolist()}]
    if opt == "LM":
        case.update({"strategy": {"name": "Constant", "damping": 1e-4}, "min": 1e-6, "max": 1e32, "reject": 2})
    call = {"weight": "none", "jac_check": True, "step_style": "kw"}
    if weighted:        # only for moderate N: the library's block-diagonal weight is dense (N^2 entries)
        case["weight_step"] = gen_weight(rng, case["shapes"], dtype, force_suffix=len(shp), layouts=0.0, alias=0.0, zero_block=0.0)
        call["weight"] = "step"
    if opt == "LM":
        call["bad"] = []
    case["calls"] = [call]
    return case


def slice_range(case, lo, hi):
    """the same large problem restricted to the items lo..hi-1 (flat item order; the result has batch shape [hi-lo])"""
    c = json.loads(json.dumps({k_: v_ for k_, v_ in case.items() if k_ != "leaves"}))
    c["leaves"] = []
    for lf in case["leaves"]:
        l2 = dict(lf)
        if lf["role"] == "input":
            l2["lshape"] = [hi - lo]
            l2["values"] = lf["values"][lo:hi]
        c["leaves"].append(l2)
    for key in ("targets",):
        if case[key] is not None:
            c[key] = [None if sp is None else {"shape": [hi - lo, 1], "values": sp["values"][lo:hi]} for sp in case[key]]
    c["shapes"] = [[hi - lo, 1]]
    c["weight_step"] = None
    c["calls"] = [dict(case["calls"][0], weight="none")]
    return c


def system_of(case):
    """(A, b) of the first solver call of the first step"""
    env = build_env(case)
    setup_call(env, 0)
    with contextlib.redirect_stdout(io.StringIO()), warnings.catch_warnings():
        warnings.simplefilter("ignore")
        env.opt.step(env.input, target=env.target, weight=None)
    if not env.sol_log:
        raise RuntimeError("the solver was never called")
    return env.sol_log[0]["A"], env.sol_log[0]["b"].reshape(-1)


def check_split(ctx: Ctx, case):
    """(19) split consistency on the real code: the rows of the GN system of the whole batch are, bit for bit, the rows of the
    systems of two pieces (and of single items: first, last, one in the middle); the LM normal matrix and right-hand side of
    the whole batch are the sums over the pieces"""
    cd = {k_: v_ for k_, v_ in case.items()}
    N = len(case["leaves"][2]["values"])
    eps = EPS[case["dtype"]]
    try:
        A, b = system_of(case)
        # rows agree up to the rounding of the 3-term sums inside the model (torch's reduction order may depend on the batch
        # size); anything a block / chunk boundary can do wrong is O(1)
        xs = torch.tensor(case["leaves"][2]["values"], dtype=torch.float64)
        a0 = torch.tensor(case["leaves"][0]["values"][0], dtype=torch.float64)
        rsc = ((xs.abs() + a0.abs()).sum(1) * max(1.0, abs(case["leaves"][1]["values"])) + 1.0)
        tg = torch.tensor(case["targets"][0]["values"], dtype=torch.float64).abs()

        def rows_close(Aw, bw, Ap, bp, lo):
            k_ = Ap.shape[0]
            return (Aw.shape[1] == Ap.shape[1]
                    and bool(((Aw[lo:lo + k_].double() - Ap.double()).abs() <= 16 * eps * rsc[lo:lo + k_, None]).all())
                    and bool(((bw[lo:lo + k_].double() - bp.double()).abs() <= 16 * eps * (rsc[lo:lo + k_] + tg[lo:lo + k_])).all()))
        cut = 1 << (N.bit_length() - 1) if N > 2 else 1          # the power of two just below N: a piece of 2^k and a short rest
        cut = cut if cut < N else N // 2
        A1, b1 = system_of(slice_range(case, 0, cut))
        A2, b2 = system_of(slice_range(case, cut, N))
        if case["opt"] == "GN":
            if not (A.shape[0] == N and rows_close(A, b, A1, b1, 0) and rows_close(A, b, A2, b2, cut)):
                ctx.fail(cd, f"split: the GN system of the whole batch (N={N}) is not the stack of the systems of items [0,{cut}) and [{cut},{N})")
                return
            for i_ in sorted({0, N - 1, N // 3}):
                Ai, bi = system_of(slice_range(case, i_, i_ + 1))
                if not rows_close(A, b, Ai, bi, i_):
                    ctx.fail(cd, f"split: row {i_} of the GN system of the whole batch (N={N}) differs from the system of item {i_} alone "
                                 f"({A[i_].tolist()} vs {Ai[0].tolist()})")
                    return
        else:
            S_, sb = (A1.double() + A2.double()), (b1.double() + b2.double())
            off = ~torch.eye(A.shape[0], dtype=torch.bool)
            sc = A1.double().abs() + A2.double().abs()
            if bool(((A.double() - S_).abs()[off] > 64 * eps * N ** 0.5 * sc[off] + 1e-300).any()) \
                    or bool(((b.double() - sb).abs() > 64 * eps * N ** 0.5 * (b1.double().abs() + b2.double().abs()) + 64 * eps * float(sc.max())).any()):
                ctx.fail(cd, f"split: LM's JᵀJ / JᵀR of the whole batch (N={N}) are not the sums over items [0,{cut}) and [{cut},{N})")
                return
        ctx.count(f"large.split.{case['opt']}.N{N}")
    except Exception as e:
        ctx.fail(cd, f"split: stepping a piece of the batch raises {type(e).__name__}: {str(e)[:160]}")


def run_large(ctx: Ctx, pending):
    rng = random.Random(7_0710 + ctx.seed)
    # a step() costs O(N^2) here (torch's row-by-row Jacobian back-propagates through the whole batch for every row): 2^12+1 rows
    # in quick (0.3 s), 2^14+1 in thorough (5 s each); 2^16+1 rows would take minutes and GBs — the entry points that are
    # linear in N (update_parameter, the correctors) are run at 2^16+1 in run_large_update / run_large_corrector
    big = [(2 ** 12 + 1, "GN", "float64"), (2 ** 12 + 1, "LM", "float32")] if ctx.quick else \
          [(2 ** 12 + 1, "GN", "float64"), (2 ** 12 + 1, "LM", "float32"), (2 ** 14 + 1, "GN", "float32"), (2 ** 14 + 1, "LM", "float64"),
           (2 ** 13, "GN", "float64"), (2 ** 13 - 1, "LM", "float64")]
    cases = []
    for N, opt, dt_ in big:
        cases.append(large_case(rng, N, opt, dt_, shape=([N] if opt == "GN" else ([5, N // 5] if N % 5 == 0 else [1, N]))))
    # (28) sizes on both sides of the switch-overs inside matmul / lstsq / pinv / cholesky kernels, with weights
    sizes = [25, 26, 32, 33, 128, 129, 1024, 1025] if not ctx.quick else [rng.choice([25, 26]), rng.choice([32, 33]), rng.choice([128, 129]),
                                                                          rng.choice([1024, 1025])]
    for N in sizes:
        cases.append(large_case(rng, N, rng.choice(["GN", "LM"]), rng.choice(["float32", "float64"]), weighted=N <= 1100))
    for c in cases:
        check_case(ctx, c, pending)
        N = len(c["leaves"][2]["values"])
        ctx.note_case(("large", c["opt"], N, c["dtype"]), True)
        ctx.count(f"large.step.N{N if N > 2000 else 'small'}")
        if N > 2000 or N in (33, 129, 1025):
            check_split(ctx, c)
    flush(ctx, pending)


def run_large_update(ctx: Ctx, pending):
    """(19)/(20)/(24) `update_parameter` on parameters of 2^14+1 / 2^16+1 items, every item in its own regime (step angle 0,
    eps/2, EXACTLY eps, the next float above, 1e-9, 1e-3, 0.01 … 0.05, ordinary, large; log-scale 0, ±eps exactly, …): whole ==
    stack of pieces bit for bit, first / last / middle item == the item alone, the 192-bit model on a sample incl. the last"""
    P = pp()
    rng = random.Random(7_0711)
    plans = [("SO3", 2 ** 16 + 1, "float64"), ("SE3", 2 ** 14 + 1, "float32"), ("RxSO3", 2 ** 14 + 1, "float64"), ("Sim3", 2 ** 16 + 1, "float32"),
             ("SE3", 2 ** 17 + 37, "float64")]            # (34) beyond 2^17 in quick
    if not ctx.quick:
        plans += [("SE3", 2 ** 16 + 1, "float64"), ("Sim3", 2 ** 14 + 1, "float64"), ("SO3", 2 ** 14, "float32"), ("RxSO3", 2 ** 16 - 1, "float32"),
                  ("SO3", 2 ** 18 + 1, "float32"), ("Sim3", 2 ** 18 + 37, "float64"), ("RxSO3", 2 ** 20 + 1, "float32"), ("SE3", 2 ** 20 + 1, "float64")]
    for g, N, dt_ in plans:
        D_ = U.dt(dt_)
        eps = EPS[dt_]
        gd, ad = U.GDIM[g], U.ADIM[g]
        gen = torch.Generator().manual_seed(N + gd)
        alg = torch.randn(N, ad, generator=gen, dtype=torch.float64) * 0.7
        X = getattr(P, U.ALG[g])(alg).Exp().tensor().to(D_)
        thetas = [0.0, eps / 2, eps, float(torch.nextafter(torch.tensor(eps, dtype=D_), torch.tensor(1.0, dtype=D_))), 1e-9, 1e-6, 1e-3, 0.01, 0.02,
                  0.03, 0.05, 0.3, 2.0, math.pi]
        sigmas = [0.0, eps, -eps, 1e-9, -0.5, 0.5, 2.0]
        step = torch.zeros(N, gd, dtype=torch.float64)
        dirs = torch.nn.functional.normalize(torch.randn(N, 3, generator=gen, dtype=torch.float64), dim=1)
        dirs[::5] = torch.tensor([1.0, 0.0, 0.0], dtype=torch.float64)           # axis-aligned: |phi| is EXACTLY the ladder value (period 5 is
        # coprime to the ladder's 14, so every rung — |phi| == eps and |phi| == 0.05, the two branch thresholds — is met exactly)
        th = torch.tensor([thetas[i_ % len(thetas)] for i_ in range(N)], dtype=torch.float64)
        th[-1] = 0.3; th[0] = 0.03
        psl = U.PHISL[g]
        step[:, psl] = dirs * th.unsqueeze(1)
        if U.TAUSL[g] is not None:
            step[:, U.TAUSL[g]] = torch.randn(N, 3, generator=gen, dtype=torch.float64)
        if U.SIGIDX[g] is not None:
            step[:, U.SIGIDX[g]] = torch.tensor([sigmas[(i_ // 3) % len(sigmas)] for i_ in range(N)], dtype=torch.float64)
        step[:, ad:] = 7.0          # the unused storage slot of the step carries garbage
        step = step.to(D_)
        case = {"kind": "large-update", "group": g, "N": N, "dtype": dt_}

        def upd(Xs, ds):
            prm = P.Parameter(P.LieTensor(Xs.clone(), ltype=U.ltype(g)))
            mdl = nn.Module(); mdl.p = prm
            opt = P.optim.GN(mdl)
            with torch.no_grad():
                opt.update_parameter(params=[prm], step=ds.reshape(-1, 1))
            return raw(prm).clone()
        try:
            whole = upd(X, step)
            if not bool(torch.isfinite(whole).all()):       # (38) finiteness first: NaN != NaN would only show as a "split" mismatch
                j_ = int((~torch.isfinite(whole)).any(1).nonzero()[0])
                ctx.fail(case, f"non-finite: update_parameter on {N} {g} items gives a non-finite item {j_} for the finite step "
                               f"{step[j_].tolist()[:ad]} (|phi| = {float(th[j_]):.17g}, machine eps {eps:.17g})")
                continue
            ok_ = True
            for a_ in sorted({1, N // 2, N - 1, 1 << (N.bit_length() - 1)} | {(N >> k_) << k_ for k_ in (12, 16, 17, 18)}):
                if 0 < a_ < N and not torch.equal(whole, torch.cat([upd(X[:a_], step[:a_]), upd(X[a_:], step[a_:])])):
                    ctx.fail(case, f"split: update_parameter on {N} {g} items is not the stack of the updates of items [0,{a_}) and [{a_},{N})")
                    ok_ = False
                    break
            sample = sorted({0, 1, 2, 6, 7, 13, N // 2, N - 37, N - 2, N - 1} | {i_ for i_ in range(len(thetas) + 2)})
            for i_ in (sample if ok_ else []):
                if not torch.equal(whole[i_:i_ + 1], upd(X[i_:i_ + 1], step[i_:i_ + 1])):
                    ctx.fail(case, f"split: item {i_} of update_parameter on {N} {g} items differs from the update of that item alone "
                                   f"(|phi| = {float(th[i_]):.3e})")
                    ok_ = False
                    break
        except Exception as e:
            ctx.fail(case, f"split: update_parameter on {N} {g} items raises {type(e).__name__}: {str(e)[:160]}")
            continue
        if not bool(torch.isfinite(whole).all()):
            ctx.fail(case, f"update: update_parameter on {N} {g} items gives non-finite entries")
            continue
        # the model on the sample (incl. the last item and the exact ties |phi| == eps)
        idx = torch.tensor(sample)
        fake = Env(); fake.layout = [("G", g, len(sample), gd, ad)]; fake.rg = [True]
        Xb, Ds, got = X[idx], step[idx].reshape(-1), whole[idx]
        ref, _ = indep_update(fake, [Xb], Ds)
        tols = update_tolerances(fake, [Xb], ref, Ds, eps, FLOOR[dt_])[0].reshape(-1)
        lines = [update_line(fake, [Xb], Ds, e_) for e_ in (eps * (1 - 2.0 ** -40), eps * (1 + 2.0 ** -40))]
        box = {"best": None, "n": 0}

        def cb(rep, got=got.double().reshape(-1), tols=tols, box=box, case=case, sample=sample, th=th, gd=gd):
            st_, toks = common.parse_reply(rep)
            box["n"] += 1
            if st_ == "ok" and len(toks) == got.numel():
                want = torch.tensor([fw(t_) for t_ in toks], dtype=torch.float64)
                ratio = (got - want).abs() / (tols + 1e-300)
                r_ = float(ratio.max())
                if box["best"] is None or r_ < box["best"][0]:
                    box["best"] = (r_, int(ratio.argmax()), float((got - want).abs().max()))
            if box["n"] == 2:
                if box["best"] is None or box["best"][0] > 1:
                    j_ = box["best"][1] // gd if box["best"] else -1
                    ctx.disagree("update", case, f"large update ({case['group']}, N={case['N']}): item {sample[j_] if j_ >= 0 else '?'} differs from the model "
                                                 f"(ratio {box['best'][0] if box['best'] else float('inf'):.2e}, |phi| = {float(th[sample[j_]]) if j_ >= 0 else 0:.3e})")
                    # the property's own statement on the real code: Exp(d[:m])·X at round-off level (float64 reference)
                    ctx.fail(case, f"update: item {sample[j_] if j_ >= 0 else '?'} of a {case['N']}-item {case['group']} parameter is not Exp(d[:m])·X to round-off "
                                   f"(error {box['best'][2] if box['best'] else float('nan'):.3e}, |phi| = {float(th[sample[j_]]) if j_ >= 0 else 0:.3e})")
        for ln in lines:
            pending.append((ln, cb))
        # and against the library-independent float64 reference on EVERY item (single-step accuracy, class 24)
        fake_all = Env(); fake_all.layout = [("G", g, N, gd, ad)]; fake_all.rg = [True]
        ref_all, _ = indep_update(fake_all, [X], step.reshape(-1))
        tol_all = update_tolerances(fake_all, [X], ref_all, step.reshape(-1), eps, FLOOR[dt_])[0]
        err = (whole.double() - ref_all[0].double()).abs()
        if not bool((err <= 4 * tol_all).all()):
            j_ = int(torch.nan_to_num(err / (4 * tol_all + 1e-300), nan=float("inf")).amax(1).argmax())
            ctx.fail(case, f"update: item {j_} of a {N}-item {g} parameter is not Exp(d[:m])·X of the float64 reference to round-off "
                           f"(error {float(err[j_].max()):.3e}, |phi| = {float(th[j_]):.3e})")
        ctx.note_case(("large-update", g, N, dt_), True)
        ctx.count(f"large.update.{g}.N{N}")
    flush(ctx, pending)


def run_large_corrector(ctx: Ctx):
    """(19) the configured correctors on 2^16+1 residual items (exact / tiny / inlier / outlier mixed): whole == pieces and
    first / last / middle item == the item alone, up to the rounding of the d-term sums"""
    P = pp()
    import pypose.optim.corrector as C
    gen = torch.Generator().manual_seed(70712)
    trio = (("FastTriggs", {"name": "Huber", "args": [1.0]}), ("Triggs", {"name": "UserQuad", "args": [0.3]}),
            ("FastTriggs", {"name": "Cauchy", "args": [0.5]}))
    # (34) beyond 2^17 in quick; 2^18+1, 2^18+37, 2^20+1 in thorough; cuts at the last multiple of 2^k for several k
    plans = [(2 ** 16 + 1, "float64", c_, k_) for c_, k_ in trio] + [(2 ** 17 + 37, "float64", *trio[0]), (2 ** 17 + 37, "float32", *trio[1])]
    if not ctx.quick:
        plans += [(2 ** 16 + 1, "float32", c_, k_) for c_, k_ in trio]
        plans += [(n_, d_, c_, k_) for n_, d_ in ((2 ** 18 + 1, "float64"), (2 ** 18 + 37, "float32"), (2 ** 20 + 1, "float64")) for c_, k_ in trio]
    for N, dt_, cname, kspec in plans:
        if True:
            D_ = U.dt(dt_)
            eps = EPS[dt_]
            R = torch.randn(N, 2, generator=gen, dtype=torch.float64)
            R[::5] *= 1e-9; R[3::11] = 0.0; R[4::13] *= 30.0
            J = torch.randn(2 * N, 3, generator=gen, dtype=torch.float64)
            R, J = R.to(D_), J.to(D_)
            case = {"kind": "large-corrector", "corrector": cname, "kernel": kspec, "N": N, "dtype": dt_}

            def corr(r_, j_):
                c_ = getattr(C, cname)(build_kernel(kspec))
                with torch.no_grad():
                    a_, b_ = c_(R=r_.clone(), J=j_.clone())
                return raw(a_).clone(), raw(b_).clone()
            try:
                Rw, Jw = corr(R, J)
                if not bool(torch.isfinite(Rw).all()) or not bool(torch.isfinite(Jw).all()):      # (38) finiteness before any comparison
                    j_ = int((~torch.isfinite(Rw)).any(1).nonzero()[0]) if not bool(torch.isfinite(Rw).all()) \
                        else int((~torch.isfinite(Jw)).any(1).nonzero()[0]) // 2
                    ctx.fail(case, f"non-finite: {cname}({kspec['name']}) returns a non-finite corrected residual / Jacobian for the finite "
                                   f"residual item {j_} = {R[j_].tolist()} of {N}")
                    ctx.note_case(("large-corrector", cname, kspec["name"], dt_, N), True)
                    continue
                scR = R.double().abs().amax(1, keepdim=True) + 1e-300
                okc = True
                for k_ in (16, 12, 17, 18, 20):
                    cut = (N >> k_) << k_
                    if not 0 < cut < N:
                        continue
                    R1, J1 = corr(R[:cut], J[:2 * cut]); R2, J2 = corr(R[cut:], J[2 * cut:])
                    okc = okc and R2.shape[0] == N - cut and J2.shape[0] == 2 * (N - cut) \
                        and bool(((Rw.double() - torch.cat([R1, R2]).double()).abs() <= 64 * eps * scR * (1 + Rw.double().abs() / scR)).all()) \
                        and bool(((Jw.double() - torch.cat([J1, J2]).double()).abs() <= 64 * eps * (Jw.double().abs() + J.double().abs())).all())
                if cname == "FastTriggs":      # all items against the documented formula: R·sqrt(rho'), J·sqrt(rho'), rho' at ||r||^2
                    xx = (R.double() ** 2).sum(1, keepdim=True).requires_grad_(True)
                    with torch.enable_grad():
                        rho1, = torch.autograd.grad(build_kernel(kspec)(xx).sum(), xx)
                    sq = rho1.detach().sqrt()
                    okc = okc and bool(((Rw.double() - R.double() * sq).abs() <= 64 * eps * scR).all()) \
                        and bool(((Jw.double() - J.double() * sq.repeat_interleave(2, 0)).abs() <= 64 * eps * J.double().abs()).all())
                for i_ in (0, N - 1, N // 2, 3, 4, N - 2, N - 37 if N > 40 else 1):
                    Ri, Ji = corr(R[i_:i_ + 1], J[2 * i_:2 * i_ + 2])
                    okc = okc and bool(((Rw[i_:i_ + 1].double() - Ri.double()).abs() <= 64 * eps * (Rw[i_:i_ + 1].double().abs() + scR[i_:i_ + 1])).all()) \
                        and bool(((Jw[2 * i_:2 * i_ + 2].double() - Ji.double()).abs() <= 64 * eps * (Ji.double().abs() + J[2 * i_:2 * i_ + 2].double().abs())).all())
                if not okc or not bool(torch.isfinite(Rw).all()) or not bool(torch.isfinite(Jw).all()):
                    ctx.fail(case, f"split: {cname}({kspec['name']}) on {N} residual items is not the stack of its values on the pieces / single items")
            except Exception as e:
                ctx.fail(case, f"split: {cname}({kspec['name']}) on {N} residual items raises {type(e).__name__}: {str(e)[:160]}")
            ctx.note_case(("large-corrector", cname, kspec["name"], dt_, N), True)
            ctx.count(f"large.corrector.N{N}")


def run_defaults(ctx: Ctx):
    """(29) several optimizers constructed with every optional argument OMITTED, used interleaved in one process. Each one is
    compared, step by step and bit for bit, with a twin on a copy of the model that was constructed with the DOCUMENTED
    defaults spelled out explicitly with fresh objects (LM: Cholesky(), TrustRegion(radius=1e6, high=.5, low=1e-3, up=2,
    down=.5, factor=.5, min=1e-6, max=1e16), reject=16, min=1e-6, max=1e32; GN: PINV(); no kernel -> a single Trivial
    corrector; a kernel without corrector -> FastTriggs(kernel)), and its param_group constants with the documented numbers.
    Sharing of stateless default objects is only counted (it is harmless by itself)."""
    P = pp()
    gen = torch.Generator().manual_seed(70729)

    class Mdl(nn.Module):
        def __init__(self, dt, k):
            super().__init__()
            self.c = P.Parameter(P.se3(torch.randn(2, 6, dtype=torch.float64, generator=gen)).Exp().to(dt))
            self.a = nn.Parameter((torch.randn(3, generator=gen, dtype=torch.float64) * (3.0 if k % 2 else 0.3)).to(dt))

        def forward(self, x):
            return self.c.Act(x) * self.a.exp() - 0.5
    doc_pg = {"min": 1e-6, "max": 1e32, "radius": 1e6, "damping": 1e-6, "high": 0.5, "low": 1e-3, "up": 2.0, "down": 0.5, "factor": 0.5}
    objs = []

    def explicit(kind, m_, kern):
        S = P.optim.solver
        kw = {}
        if kern is not None:
            kw = dict(kernel=P.optim.kernel.Huber(kern), corrector=P.optim.corrector.FastTriggs(P.optim.kernel.Huber(kern)))
        if kind == "LM":
            return P.optim.LM(m_, solver=S.Cholesky(), strategy=P.optim.strategy.TrustRegion(radius=1e6, high=.5, low=1e-3, up=2., down=.5,
                              factor=.5, min=1e-6, max=1e16), reject=16, min=1e-6, max=1e32, vectorize=True, **kw)
        return P.optim.GN(m_, solver=S.PINV(), vectorize=True, **kw)

    def fresh(kind, dt, kern):
        m_ = Mdl(dt, len(objs))
        m2 = copy.deepcopy(m_)
        kw = {} if kern is None else {"kernel": P.optim.kernel.Huber(kern)}
        o_ = P.optim.LM(m_, **kw) if kind == "LM" else P.optim.GN(m_, **kw)
        case = {"kind": "defaults", "opt": kind, "dtype": str(dt), "kernel": kern, "built_after": len(objs)}
        pg = o_.param_groups[0]
        bad = []
        if kind == "LM":
            for k_, v_ in doc_pg.items():
                if k_ not in pg or float(pg[k_]) != v_:
                    bad.append(f"{k_}={pg.get(k_)} (documented {v_})")
            if type(o_.solver).__name__ != "Cholesky" or type(o_.strategy).__name__ != "TrustRegion" or o_.reject != 16 or o_.reject_count != 0:
                bad.append(f"solver {type(o_.solver).__name__}, strategy {type(o_.strategy).__name__}, reject {o_.reject}/{o_.reject_count}")
        elif type(o_.solver).__name__ != "PINV":
            bad.append(f"solver {type(o_.solver).__name__}")
        want_c = "Trivial" if kern is None else "FastTriggs"
        if len(o_.corrector) != 1 or type(o_.corrector[0]).__name__ != want_c or o_.weight is not None or hasattr(o_, "loss"):
            bad.append(f"corrector {[type(c_).__name__ for c_ in o_.corrector]}, weight {o_.weight}, loss attr {hasattr(o_, 'loss')}")
        for o2, _, _, _, _ in objs:      # sharing is counted, not judged
            if any(getattr(o_, nm, None) is not None and getattr(o_, nm, None) is getattr(o2, nm, 0) for nm in ("solver", "strategy")) \
                    or o_.corrector[0] is o2.corrector[0] or o_.corrector is o2.corrector:
                ctx.count("defaults.shared-default-object")
            if o_.param_groups[0] is o2.param_groups[0]:
                bad.append("param_groups[0] is the same dict as that of an optimizer constructed earlier")
        if bad:
            ctx.fail(case, f"defaults: {kind}() constructed with its optional arguments omitted (after {len(objs)} other optimizers were built "
                           f"and used) does not start from the documented defaults: {'; '.join(bad)[:400]}")
        objs.append((o_, m_, explicit(kind, m2, kern), m2, case))
        ctx.note_case(("defaults", kind, str(dt), kern, len(objs)), True)
        ctx.count("defaults.constructed")
    x64 = torch.randn(2, 3, generator=gen, dtype=torch.float64)
    order = [("LM", torch.float64, None), ("GN", torch.float64, None), ("LM", torch.float32, None), ("LM", torch.float64, 0.7),
             ("GN", torch.float32, 0.7), ("LM", torch.float64, None), ("GN", torch.float64, None), ("LM", torch.float64, 0.7)]
    dead = set()
    for kind, dt, kern in order:
        fresh(kind, dt, kern)
        # use every optimizer built so far (interleaved): dampings evolve, trials get rejected, losses get cached
        for oi, (o_, m_, t_, m2, case) in enumerate(objs):
            if oi in dead:
                continue
            x = x64.to(next(m_.parameters()).dtype)
            res = []
            for opt_ in (o_, t_):
                try:
                    with contextlib.redirect_stdout(io.StringIO()), warnings.catch_warnings():
                        warnings.simplefilter("ignore")
                        l_ = opt_.step(x)
                    res.append(("ok", float(l_)))
                except Exception as e:
                    res.append(("raise", type(e).__name__))
            pa = [raw(q).detach() for q in m_.parameters()]
            pb = [raw(q).detach() for q in m2.parameters()]
            pga = {k_: v_ for k_, v_ in o_.param_groups[0].items() if k_ != "params"}
            pgb = {k_: v_ for k_, v_ in t_.param_groups[0].items() if k_ != "params"}
            same = res[0][0] == res[1][0] and all(torch.equal(torch.nan_to_num(a_, nan=4321.0), torch.nan_to_num(b_, nan=4321.0)) for a_, b_ in zip(pa, pb)) \
                and (res[0] == res[1] or (res[0][1] != res[0][1] and res[1][1] != res[1][1])) and repr(pga) == repr(pgb)
            if not same:
                dead.add(oi)
                ctx.fail(case, f"defaults: a {case['opt']} constructed with optional arguments omitted behaves differently from one constructed with "
                               f"the documented defaults spelled out (same model copy, same data, step by step): results {res}, "
                               f"param_group {pga} vs {pgb}, max parameter difference "
                               f"{max(float((a_.double() - b_.double()).abs().max()) for a_, b_ in zip(pa, pb)):.3g}")
            elif res[0][0] == "raise" or not all(bool(torch.isfinite(a_).all()) for a_ in pa):
                dead.add(oi)
                ctx.count("defaults.degenerate")
            else:
                ctx.count("defaults.steps-compared")


def run_repeat(ctx: Ctx, pending):
    """(32) the same history twice in one process, with every other kind of operation in between (other optimizers, LieTensor
    operations forward and backward on single items and all-one batches, every dtype): the two runs agree bit for bit"""
    P = pp()
    rng = random.Random(7_0732)
    cases = [make_case(rng, ncalls=2, nbad=1, views=0.0, layouts=0.0, wlayouts=0.0, gradmode=0.0, inject=0.0, fork=0.0, poison=0.0,
                       near_clamp=0.0, tie_clamp=0.0, subclass=0.0, defdtype=0.0, rgedit=0.0, pedit=0.0, bshape=bs_, dtype=dt_)
             for bs_, dt_ in (([], "float64"), ([1], "float32"), ([1, 1], "float64"), ([2], "float32"))]

    def trace(c):
        env = build_env(c)
        out = []
        for ci, call in enumerate(c["calls"]):
            setup_call(env, ci)
            env.sol_log.clear(); env.solver.vfh07_bad = list(call.get("bad") or [])
            with contextlib.redirect_stdout(io.StringIO()), warnings.catch_warnings():
                warnings.simplefilter("ignore")
                try:
                    env.opt.step(env.input, target=env.target, weight=pass_weight(env.wstep, c.get("wstyle", "list")))
                except Exception as e:
                    out.append(("raise", type(e).__name__))
            out += [s_["A"].clone() for s_ in env.sol_log] + [s_["b"].clone() for s_ in env.sol_log] + [raw(p_).clone() for p_ in env.params]
        return out

    def noise():
        for dt in (torch.float32, torch.float64):
            for shp in ((), (1,), (1, 1), (3,)):
                for g in U.GROUPS:
                    a = getattr(P, "randn_" + U.ALG[g])(*shp, dtype=dt).requires_grad_(True)
                    X = a.Exp()
                    Y = getattr(P, "randn_" + g)(*shp, dtype=dt)
                    pts = torch.randn(*shp, 3, dtype=dt)
                    val = (X @ Y).Inv().Act(pts).sum() + (X.Inv() @ Y).Log().tensor().sum() + X.matrix().sum() + Y.Adj(a).tensor().sum() \
                        + Y.AdjT(a).tensor().sum() + X.Retr(a).tensor().sum()
                    val.backward()
                    with torch.no_grad():
                        I = getattr(P, "identity_" + g)(*shp, dtype=dt)
                        I.add_(torch.randn(*shp, U.GDIM[g], dtype=dt))       # in-place update of a freshly made identity
    for c in cases:
        try:
            first = trace(c)
            noise()
            for c2 in cases:
                if c2 is not c:
                    trace(c2)
            second = trace(c)
        except Exception as e:
            ctx.fail(cdesc(c), f"repeat: replaying a history raises {type(e).__name__}: {str(e)[:160]}")
            continue
        same = len(first) == len(second) and all(
            (a_ == b_) if isinstance(a_, tuple) else (a_.shape == b_.shape and torch.equal(torch.nan_to_num(a_, nan=12345.0), torch.nan_to_num(b_, nan=12345.0)))
            for a_, b_ in zip(first, second))
        if not same:
            ctx.fail(cdesc(c), "repeat: the same history (fresh model and optimizer, same data) gives different systems / parameters the second "
                               "time, after other operations ran in the same process")
        ctx.note_case(("repeat", tuple(map(tuple, c["shapes"])), c["dtype"]), True)
        ctx.count("repeat.histories")


def run_square_underdetermined(ctx: Ctx):
    """(round-6 seed C07-6) GN with the DEFAULT solver on SQUARE, rank-deficient problems without an exactly zero column:
    N so3 parameters fitted to one point pair each (3N x 3N, rank 2N), N se3 parameters fitted to two pairs each (6N x 6N,
    rank 5N); 30 (control) … 66 unknowns, both dtypes.  Algebra parameters are updated by addition, so delta = x_new - x_old
    exactly, and the property (`gn_minnorm`: the pseudo-inverse contract) says delta is the MINIMUM-NORM least-squares solution
    of J delta = -R.  Oracle independent of PyPose: Rodrigues / left-Jacobian formulas in plain float64 torch, autograd for J,
    an SVD for the minimum-norm solution."""
    P = pp()

    def hat(v):
        z = torch.zeros_like(v[..., 0])
        return torch.stack([torch.stack([z, -v[..., 2], v[..., 1]], -1), torch.stack([v[..., 2], z, -v[..., 0]], -1),
                            torch.stack([-v[..., 1], v[..., 0], z], -1)], -2)

    def rod(phi):
        th = phi.norm(dim=-1)[..., None, None]
        K = hat(phi)
        I = torch.eye(3, dtype=phi.dtype)
        return I + (th.sin() / th) * K + ((1 - th.cos()) / th ** 2) * (K @ K), I + ((1 - th.cos()) / th ** 2) * K + ((th - th.sin()) / th ** 3) * (K @ K)

    def res_so3(x, Pk, Qk):          # x (N,3); Pk, Qk (1,N,3)
        R_, _ = rod(x)
        return (torch.einsum("nab,knb->kna", R_, Pk) - Qk)

    def res_se3(x, Pk, Qk):          # x (N,6) = [tau, phi]; Pk, Qk (2,N,3)
        R_, Jl = rod(x[..., 3:])
        t = torch.einsum("nab,nb->na", Jl, x[..., :3])
        return torch.einsum("nab,knb->kna", R_, Pk) + t[None] - Qk
    plans = [("so3", 10), ("so3", 11), ("so3", 16), ("so3", 22), ("se3", 5), ("se3", 6), ("se3", 8), ("se3", 11)]
    for alg, N in plans:
        for dt_ in ("float64", "float32"):
            for explicit in ((False, True) if (N in (11, 6) and dt_ == "float64") else (False,)):
                D_ = U.dt(dt_)
                gen = torch.Generator().manual_seed(7_0906 + 100 * N + (1 if alg == "se3" else 0))
                dim, K = (3, 1) if alg == "so3" else (6, 2)
                x0 = (torch.randn(N, dim, generator=gen, dtype=torch.float64) * 0.4).to(D_)
                Pk = torch.randn(K, N, 3, generator=gen, dtype=torch.float64).to(D_)
                Qk = (Pk.double() * 0.9 + 0.3 * torch.randn(K, N, 3, generator=gen, dtype=torch.float64)).to(D_)
                case = {"kind": "square-underdetermined", "algebra": alg, "N": N, "columns": N * dim, "dtype": dt_, "explicit_PINV": explicit,
                        "x0": x0.double().tolist(), "P": Pk.double().tolist(), "Q": Qk.double().tolist()}

                class Mdl(nn.Module):
                    def __init__(self):
                        super().__init__()
                        self.x = P.Parameter(getattr(P, alg)(x0.clone()))

                    def forward(self, pts):
                        return self.x.Exp().Act(pts)
                m_ = Mdl()
                opt = P.optim.GN(m_, solver=P.optim.solver.PINV()) if explicit else P.optim.GN(m_)
                try:
                    with contextlib.redirect_stdout(io.StringIO()), warnings.catch_warnings():
                        warnings.simplefilter("ignore")
                        opt.step(Pk, target=Qk)
                except Exception as e:
                    ctx.fail(case, f"raises: GN (default solver) on a square rank-deficient problem with {N * dim} unknowns raises "
                                   f"{type(e).__name__}: {str(e)[:160]}")
                    continue
                delta = (raw(m_.x).detach().double() - x0.double()).reshape(-1)
                # independent float64 linearisation at x0
                xs = x0.double().clone().requires_grad_(True)
                f_ = (res_so3 if alg == "so3" else res_se3)
                r0 = f_(xs, Pk.double(), Qk.double()).reshape(-1)
                J = torch.autograd.functional.jacobian(lambda z: f_(z, Pk.double(), Qk.double()).reshape(-1), xs).reshape(r0.numel(), -1).detach()
                r0 = r0.detach()
                Uu, S, Vh = torch.linalg.svd(J)
                rank = N * (2 if alg == "so3" else 5)
                gap_ok = bool(S[rank - 1] > 1e-3 * S[0]) and bool(S[rank:].max() < 1e-12 * S[0]) if rank < S.numel() else False
                if not gap_ok or J.shape[0] != J.shape[1]:
                    ctx.count("square.rank-unclear")
                    continue
                ref = Vh[:rank].T @ ((Uu[:, :rank].T @ (-r0)) / S[:rank])
                eps = EPS[dt_]
                cond = float(S[0] / S[rank - 1])
                tol = (2e4 * eps * cond) * (1.0 + float(ref.norm()))
                ctx.note_case(("square", alg, N, dt_, explicit), True)
                ctx.count(f"square.{alg}.cols{N * dim}")
                if not bool(torch.isfinite(delta).all()):
                    ctx.fail(case, f"non-finite: the GN step on a square rank-deficient problem ({N * dim} unknowns) gives non-finite parameters")
                    continue
                nres = float((J.T @ (J @ delta + r0)).norm())
                nlim = 2e4 * eps * float(S[0]) * (float(S[0]) * float(delta.norm()) + float(r0.norm())) + 1e-300
                if not (nres <= nlim) or not (float(delta.norm()) <= float(ref.norm()) * (1 + 1e3 * eps * cond) + tol) \
                        or not bool(((delta - ref).abs() <= tol).all()):
                    ctx.fail(case, f"minnorm: GN with {'PINV()' if explicit else 'the default solver'} on {N} {alg} parameters "
                                   f"({J.shape[0]}x{J.shape[1]} Jacobian of rank {rank}, no zero column): x_new - x_old is not the minimum-norm "
                                   f"least-squares solution of J delta = -R: |delta| = {float(delta.norm()):.3e} vs {float(ref.norm()):.3e}, "
                                   f"|Jᵀ(J delta + R)| = {nres:.3e} (allowed {nlim:.3e}), max |delta - pinv solution| = "
                                   f"{float((delta - ref).abs().max()):.3e} (allowed {tol:.3e})")


def run_ctor_checks(ctx: Ctx):
    """(26) sign conventions that are documented validity checks: non-positive clamps / damping / radius are rejected"""
    P = pp()
    import pypose.optim.strategy as S
    mdl = nn.Linear(2, 1)
    probes = [("LM(min=0)", lambda: P.optim.LM(mdl, min=0.0)), ("LM(min=-1e-6)", lambda: P.optim.LM(mdl, min=-1e-6)),
              ("LM(max=0)", lambda: P.optim.LM(mdl, max=0.0)), ("LM(max=-1)", lambda: P.optim.LM(mdl, max=-1.0)),
              ("Constant(damping=0)", lambda: S.Constant(damping=0.0)), ("Constant(damping=-1)", lambda: S.Constant(damping=-1.0)),
              ("Adaptive(damping=-1e-6)", lambda: S.Adaptive(damping=-1e-6)), ("TrustRegion(radius=0)", lambda: S.TrustRegion(radius=0.0)),
              ("TrustRegion(radius=-2)", lambda: S.TrustRegion(radius=-2.0))]
    for name, f in probes:
        try:
            f()
            ctx.fail({"kind": "ctor", "probe": name}, f"ctor-reject: {name} is accepted although the documented check requires a positive value")
        except AssertionError:
            ctx.count("ctor.rejected")
        except Exception as e:
            ctx.fail({"kind": "ctor", "probe": name}, f"ctor-reject: {name} raises {type(e).__name__} instead of the documented assertion")
        ctx.note_case(("ctor", name), True)


# ----------------------------------------------------------------------------- deterministic corner corpus

def corner_cases(quick=True):
    rng = random.Random(7_0707)
    out = []
    # every documented weight shape on a rank-3 batch, GN and LM, d = 2 (Act result sliced is not available: use E3 / matrix / algebra)
    for opt in ("GN", "LM"):
        for j in range(0, 4):
            out.append(make_case(rng, opt=opt, bshape=[2, 1, 2], ptypes=[["G", "SO3"], ["E", 3]], nres=1, wmode="ctor", wsuffix=j,
                                 dtype="float64", depth=1, ncalls=1, kmode="none", nbad=1, min=1e-6, max=1e32))
        out.append(make_case(rng, opt=opt, bshape=[3], ptypes=[["G", "SE3"]], nres=2, wmode="both", dtype="float64", ncalls=2, kmode="list"))
    # LM: multi-trial damping with a changing damping, clamp regimes
    for (lo, hi) in [(1e-6, 1e32), (50.0, 1e32), (1e-6, 1e-3), (1.0, 0.5), (1e-9, 10.0)]:
        for strat in (("Adaptive", "TrustRegion") if lo != 1e-9 else ("Constant", "Adaptive")):
            out.append(make_case(rng, opt="LM", strategy=strat, min=lo, max=hi, nbad=3, reject=5, ncalls=2, dtype="float64",
                                 damping=rng.choice([1e-9, 1e-2, 1.0, 1e3]), solver=rng.choice(["PINV", "LSTSQ", "Cholesky"])))
    # all group kinds, incl. scale steps, tiny and zero steps
    for g in U.GROUPS:
        for tscale in ((0.0, 1e-6) if g in ("SO3", "RxSO3") else (1e-12, 1.0)):
            out.append(make_case(rng, opt=rng.choice(["GN", "LM"]), ptypes=[["G", g], rng.choice([["A", g], ["E", 3], ["S"]])],
                                 tscale=tscale, target="near", dtype=rng.choice(["float64", "float32"]), nbad=0))
    # two residuals, two correctors
    for _ in range(4):
        out.append(make_case(rng, nres=2, kmode="list", nparams=2))
    for opt in ("GN", "LM"):
        out.append(make_case(rng, opt=opt, nres=2, kmode="list", auto_list=True, nparams=2, dtype="float64", nbad=0))
    # steps far below one ulp of 1 on parameters that are exactly zero / the identity (x + d = d must still be applied)
    for opt in ("GN", "LM"):
        for ts in (1e-18, 1e-15):
            c = make_case(rng, opt=opt, ptypes=[["E", 3], ["A", "SE3"]], nres=2, depth=1, tscale=ts, target="near", dtype="float64",
                          kmode="none", wmode="none", nbad=0, ncalls=1, bshape=[2])
            for lf in c["leaves"]:
                if lf["role"] == "param":
                    lf["values"] = [[0.0] * len(v) for v in lf["values"]]
            # targets were drawn around the old output: redraw them around the output at the zero parameters
            outs = G.out_batch_dims(c)
            c["targets"] = [{"shape": list(o.shape), "values": (o.double() + ts * torch.linspace(-1, 1, o.numel()).reshape(o.shape).double()).reshape(-1).tolist()} for o in outs]
            out.append(c)
    # ---- hardening classes -------------------------------------------------------------------------------------------
    # (1) extreme-but-valid elements and weights (rotation up to pi-1e-3, translations 1e3, scales e^+-12, weights 1e-8..1e8)
    for g in U.GROUPS:
        out.append(make_case(rng, opt=rng.choice(["GN", "LM"]), ptypes=[["G", g], ["A", g]], wide=1.0, wmode="ctor", dtype="float64",
                             nbad=0, ncalls=1, views=0.0, layouts=0.0, wlayouts=0.0))
    # (4) one optimizer, three calls, every per-call argument replaced (inputs incl. their batch shape, targets, weights,
    #     param_groups), (5) the caller overwrites its tensors / edits parameters and the constructor weight in place
    for opt in ("GN", "LM"):
        for wm in ("step", "both", "ctor", "none"):
            out.append(make_case(rng, opt=opt, wmode=wm, ncalls=3, vary=1.0, pedit=1.0, jac_later=0.5, dtype="float64",
                                 nbad=1, views=0.0, layouts=0.0, wlayouts=0.0, keep_shapes=(wm in ("both", "ctor"))))
    # (6) every memory layout of weights; inputs / targets / parameters as views of larger buffers; shared tensors
    for lay in ("mT", "slice", "tbatch", "bslice", "expand"):
        for opt in ("GN", "LM"):
            out.append(make_case(rng, opt=opt, bshape=[2, 3], ptypes=[["G", "SE3"], ["E", 3]], nres=1, depth=1, wmode="step",
                                 wlayout=lay, wsuffix=(1 if lay == "expand" else 2), ncalls=1, dtype="float64", nbad=0, views=1.0,
                                 layouts=1.0, kmode="none"))
    for _ in range(3):
        out.append(make_case(rng, nres=2, alias=1.0, wmode="both", views=1.0, layouts=1.0, wlayouts=0.5, ncalls=2, vary=1.0, nbad=0))
    # (7) batches whose items are in different regimes (exact / tiny / ordinary / far targets per item)
    for g in U.GROUPS:
        out.append(make_case(rng, opt=rng.choice(["GN", "LM"]), bshape=[4], ptypes=[["G", g]], full=True, target="peritem", nbad=0, max_rows=60, max_cols=40,
                             dtype="float64", ncalls=1))
    # ---- hardening pass 2 ------------------------------------------------------------------------------------------
    quiet = dict(views=0.0, layouts=0.0, wlayouts=0.0, gradmode=0.0, inject=0.0, fork=0.0, near_clamp=0.0, dtype="float64")
    # (10) a corrector without a kernel; every solver option; positional construction / call; library defaults
    for opt in ("GN", "LM"):
        c = make_case(rng, opt=opt, kmode="corr_only", nres=2, ncalls=1, nbad=0, **quiet)
        c["ctor_style"] = "pos"; c["calls"][0]["step_style"] = "pos"
        out.append(c)
    for sv in ("LSTSQ_gelsd", "LSTSQ_gelss"):
        out.append(make_case(rng, opt="GN", solver=sv, ncalls=1, **quiet))
    for sv in ("Cholesky_upper", "PINV_herm", "LSTSQ_gelsd"):
        c = make_case(rng, opt="LM", solver=sv, ncalls=1, nbad=1, **quiet)
        c["min"] = c["max"] = c["reject"] = None
        out.append(c)
    # (11) a failing call (user solver / corrector raising, documented weight-count check) followed by ordinary calls
    for opt, inj in (("GN", {"where": "solver", "at": 0}), ("LM", {"where": "solver", "at": 0}), ("LM", {"where": "solver", "at": 1}),
                     ("GN", {"where": "corrector", "at": 0}), ("LM", {"where": "corrector", "at": 1}), ("GN", "count"), ("LM", "count")):
        c = make_case(rng, opt=opt, ncalls=3, nres=2, wmode="step", vary=0.5, pedit=0.0, nbad=2, keep_shapes=True, **quiet)
        if inj == "count":
            c["calls"][1]["weight"] = "step"
            c["calls"][1]["bad_weight_count"] = True
        else:
            c["calls"][1]["raise"] = inj
        out.append(c)
    # (12) grad modes and operands that require grad; (13) tuples, LieTensor targets, pp.Parameter around a plain tensor
    for opt in ("GN", "LM"):
        for gm in ("no_grad", "enable_grad"):
            c = make_case(rng, opt=opt, ncalls=2, nbad=0, wmode="step", **quiet)
            for call in c["calls"]:
                call["grad"] = gm; call["req_grad"] = ["inputs", "targets", "weights"]
            out.append(c)
    for opt in ("GN", "LM"):
        c = make_case(rng, opt=opt, ptypes=[["E", 3], ["G", "SE3"]], nres=2, kmode="list", pp_param=1.0, ncalls=1, nbad=0, **quiet)
        c["ktuple"] = True
        out.append(c)
        c = make_case(rng, opt=opt, ptypes=[["G", "SE3"]], nres=1, kmode="none", target="near", ncalls=1, nbad=0, **quiet)
        out.append(c)
    # (14) a state_dict twin forked in the middle of a history, both continued in turn
    for opt in ("GN", "LM"):
        c = make_case(rng, opt=opt, ncalls=3, vary=1.0, pedit=0.5, nbad=1, **{**quiet, "fork": 1.0})
        out.append(c)
    # (16) batch extents equal to special numbers (3 = torch.cross's default axis, the feature dimensions 4 / 6 / 7, primes)
    for g, b in (("SO3", [3]), ("SO3", [4]), ("SE3", [3, 3]), ("SE3", [7]), ("RxSO3", [5]), ("Sim3", [3]), ("SE3", [6]), ("Sim3", [1, 3])):
        out.append(make_case(rng, opt=rng.choice(["GN", "GN", "LM"]), bshape=b, ptypes=[["G", g]], full=True, nres=1, ncalls=1,
                             nbad=0, max_rows=130, max_cols=70, depth=3, **quiet))
    # (18) clamp bounds a hair below / above actual diagonal entries; steps below / at / above Exp's threshold
    for _ in range(4):
        out.append(make_case(rng, opt="LM", ncalls=1, nbad=2, **{**quiet, "near_clamp": 1.0}))
    for dt_ in ("float64", "float32"):
        for k_ in (0.5, 1.0, 3.0):
            out.append(make_case(rng, opt="GN", ptypes=[["G", "SO3"]], bshape=[3], full=True, nres=1, depth=1, target="near",
                                 tscale=k_ * EPS[dt_], ncalls=1, kmode="none", wmode="none", **{**quiet, "dtype": dt_}))
    # ---- pass 4 (classes 19-28) ---------------------------------------------------------------------------------------
    q4 = {**quiet, "subclass": 0.0, "defdtype": 0.0, "tie_clamp": 0.0, "dup": 0.0, "poison": 0.0, "zero_block": 0.0}
    # (20) clamp bounds exactly equal to diagonal entries (min, max, both, min == max); identical items; a zero weight block
    for k_ in range(6):
        c = make_case(rng, opt="LM", ncalls=1, nbad=2, ptypes=[["G", rng.choice(U.GROUPS)], ["E", 3]], bshape=[3], **{**q4, "tie_clamp": 1.0})
        out.append(c)
    for opt in ("GN", "LM"):
        out.append(make_case(rng, opt=opt, bshape=[3], full=True, ncalls=1, nbad=0, wmode="ctor", wsuffix=1, **{**q4, "dup": 1.0}))
        out.append(make_case(rng, opt=opt, bshape=[2, 2], ncalls=1, nbad=1, wmode="step", wsuffix=2, **{**q4, "zero_block": 1.0}))
    # (21) user subclasses of the optimizers, solvers, strategies, correctors and kernels
    for opt, sv in (("GN", "PINV"), ("GN", "LSTSQ"), ("LM", "Cholesky"), ("LM", "PINV"), ("LM", "default")):
        c = make_case(rng, opt=opt, solver=sv, nres=2, kmode="list", auto_list=True, ncalls=2, nbad=1, **{**q4, "subclass": 1.0})
        out.append(c)
    for km in ("auto", "fast", "triggs"):
        for ks in ({"name": "SubQuad:Huber", "args": [0.3]}, {"name": "SubQuad:Cauchy", "args": [0.2]}):
            out.append(make_case(rng, opt=rng.choice(["GN", "LM"]), kmode=km, kernel_spec=ks, ncalls=1, nbad=0, target="near", tscale=1.0,
                                 **{**q4, "subclass": 1.0}))
    # (23) a throw-away first step under inference_mode / no_grad on the same shapes, then the judged history
    for pm in ("inference", "no_grad"):
        for opt in ("GN", "LM"):
            c = make_case(rng, opt=opt, ncalls=2, nbad=0, kmode="none", **{**q4, "poison": 1.0})
            c["poison"] = pm
            out.append(c)
    # requires_grad toggled after construction and between steps, both directions (round-4 seed: trainable mask cached at construction)
    for opt in ("GN", "LM"):
        for start_frozen in (False, True):
            c = make_case(rng, opt=opt, ptypes=[["G", "SE3"], ["E", 3], ["A", "SO3"]], frozen=[False, start_frozen, False], nres=2,
                          ncalls=3, nbad=1, vary=0.0, pedit=0.0, **{**q4, "rgedit": 0.0})
            c["calls"][0]["rg_edit"] = {"1": start_frozen}            # toggled between construction and the first step
            c["calls"][1]["rg_edit"] = {"1": (not start_frozen), "0": False}
            c["calls"][2]["rg_edit"] = {"0": True, "2": False}
            out.append(c)
    # (25) float32 operands under a float64 process default (and every metadata check that goes with it)
    for opt in ("GN", "LM"):
        for km in ("none", "auto"):
            out.append(make_case(rng, opt=opt, kmode=km, ncalls=2, nbad=1, wmode="step", **{**q4, "dtype": "float32", "defdtype": 1.0}))
    # (26) residuals of one sign (all negative / all positive), all-zero residuals
    for tm in ("above", "below"):
        for opt in ("GN", "LM"):
            out.append(make_case(rng, opt=opt, target=tm, tscale=0.5, ncalls=1, nbad=0, **q4))
    # ---- pass 5 (classes 29-36) ---------------------------------------------------------------------------------------
    q5 = {**q4, "tdtypes": 0.0, "asym": 0.0, "omit": 0.0}
    n5 = len(out)
    # (31) the model hands back a parameter / a view of one / its input / the same tensor twice / a view of another output
    for ai, am in enumerate(("param", "view", "input", "same_out", "view_out")):
        for ki, (km, tg) in enumerate((("none", "near"), ("auto", "none"), ("fast", "near"))):
            for opt in (("GN", "LM")[(ai + ki) % 2],):
                out.append(make_case(rng, opt=opt, alias_model=am, kmode=km, target=tg, tscale=0.5, nres=2 if am == "input" else 1,
                                     kernel_spec={"name": "Cauchy", "args": [0.5]},
                                     ptypes=[["E", 3], ["G", "SE3"]], ncalls=2, nbad=1 if opt == "LM" else 0, **q5))
    # (30) targets of every dtype torch promotes with the parameters' dtype
    for td_ in ("int64", "int32", "int16", "int8", "uint8", "float16", "bfloat16", "float32"):
        for opt, dt_ in ((("GN", "float64"), ("LM", "float32" if td_ != "float32" else "float64"))[len(out) % 2],):
            out.append(make_case(rng, opt=opt, target="near", tscale=1.0, ncalls=1, nbad=0, **{**q5, "dtype": dt_, "tdtypes": 1.0, "tdtype": td_}))
    # (36) nearly equal items, tiny scale factors (diagonal entries between 0 and `min`).  NOT nearly symmetric weights: the
    # property quantifies over symmetric positive definite weights, an asymmetric weight is outside its domain (transposing
    # the blocks, or symmetrising them, is a harmless rewrite there) — the `asym` generator is kept but switched off
    for opt in ("GN", "LM"):
        for ws in (1, 2):
            out.append(make_case(rng, opt=opt, wmode="step", wsuffix=ws, ncalls=1, nbad=1, **{**q5, "dtype": "float64", "asym": 0.0}))
        c = make_case(rng, opt=opt, bshape=[3], full=True, ncalls=1, nbad=0, **{**q5, "dup": 1.0, "dup_near": 1.0, "dtype": "float64"})
        out.append(c)
        out.append(make_case(rng, opt=opt, ptypes=[["S"], ["E", 3], ["G", "SO3"]], nres=2, ncalls=1, nbad=1, **{**q5, "dtype": "float64", "wide": 1.0}))
    # (36, seed C07-5) SPD weights a hair away from the identity / c·I / a diagonal / one common block, every documented shape,
    # constructor and per step, GN and LM: the step still uses the weight that was passed
    q5n = {**q5, "near": 1.0}
    for opt in ("GN", "LM"):
        for wm in ("ctor", "step"):
            for ws in (0, 1, 2):
                out.append(make_case(rng, opt=opt, wmode=wm, wsuffix=ws, bshape=[2, 3] if ws == 2 else [3], full=True, nres=1, ncalls=1, nbad=0,
                                     kmode="none", target="near", tscale=1.0, **{**q5n, "dtype": "float64", "near_base": "I",
                                                                                  "near_rel": (9e-6, 1e-6, 1e-7)[ws]}))
            out.append(make_case(rng, opt=opt, wmode=wm, wsuffix=1, bshape=[3], full=True, nres=2, ncalls=1, nbad=0, kmode="none",
                                 target="near", tscale=1.0, **{**q5n, "dtype": "float32", "near_base": "I", "near_rel": 9.9e-6}))
        for nb_, rel_ in (("cI", 9e-6), ("diag", 1e-6), ("const", 9e-6), ("const", 1e-8), ("I", 1e-3), ("I", 1e-10)):
            out.append(make_case(rng, opt=opt, wmode=rng.choice(["ctor", "step", "both"]), bshape=[3], full=True, ncalls=1, nbad=0,
                                 target="near", tscale=1.0, **{**q5n, "dtype": "float64", "near_base": nb_, "near_rel": rel_}))
    # (29)/(33) optional arguments omitted; `weight` provided as a property of a user subclass
    for opt in ("GN", "LM"):
        out.append(make_case(rng, opt=opt, kmode="none", wmode="none", ncalls=2, nbad=0, **{**q5, "omit": 1.0}))
        out.append(make_case(rng, opt=opt, wmode="ctor", ncalls=2, nbad=1, **{**q5, "subclass": 1.0, "prop_weight": 1.0}))
        out.append(make_case(rng, opt=opt, wmode="both", ncalls=2, nbad=0, **{**q5, "subclass": 1.0, "prop_weight": 1.0}))
    if quick:
        # the finite-difference Jacobian oracle is the expensive part (two forward passes per tangent column): in the quick tier
        # the corpus uses it on the first call of every third history only, and not at all in the pass-5 cases about weights / dtypes /
        # defaults (the Jacobian is still compared with the model's column layout and enters every system check)
        for k_, c in enumerate(out):
            for ci, call in enumerate(c["calls"]):
                call["jac_check"] = bool(call.get("jac_check", True)) and ci == 0 and (k_ < n5 + 15) and (k_ % 3 == 0 or k_ >= n5)
    # frozen parameter (known defect on the current tree)
    out.append(make_case(rng, opt="GN", ptypes=[["E", 3], ["G", "SE3"]], frozen=[True, False], dtype="float64"))
    out.append(make_case(rng, opt="LM", ptypes=[["G", "SO3"], ["A", "SE3"], ["S"]], frozen=[False, True, False], dtype="float64"))
    return out


# ----------------------------------------------------------------------------- entry points

def flush(ctx: Ctx, pending):
    if not pending:
        return
    reps = ctx.driver.run([ln for ln, _ in pending])
    for (ln, cb), rep in zip(pending, reps):
        cb(rep)
    pending.clear()


def run_cases(ctx: Ctx, cases, pending):
    # (17) histories advance in turn, in groups of 1-3 (different optimizers / dtypes / objects interleaved in one process)
    groups, i_, k_ = [], 0, 0
    while i_ < len(cases):
        sz = (2, 3, 1, 2)[k_ % 4]
        groups.append(cases[i_:i_ + sz]); i_ += sz; k_ += 1
    for grp in groups:
        run_interleaved(ctx, grp, pending)
        if len(grp) > 1:
            ctx.count("interleaved.groups")
        if len(pending) > 400:
            flush(ctx, pending)
    for case in cases:
        ctx.note_case(case_signature(case), nontrivial(case))
        ctx.count(f"opt.{case['opt']}.{case['solver']}")
        ctx.count(f"dtype.{case['dtype']}")
        if case["opt"] == "LM":
            ctx.count(f"strategy.{(case['strategy'] or {'name': 'default'})['name']}")
        for lf in case["leaves"]:
            if lf["role"] == "param":
                ctx.count(f"param.{lf['ty'][0]}{'.' + str(lf['ty'][1]) if len(lf['ty']) > 1 else ''}{'' if lf['rg'] else '.frozen'}")
        for r in case["roots"]:
            for o in G.node_ops(r):
                ctx.count(f"op.{o}")
        ctx.count(f"nres.{len(case['roots'])}")
        ctx.count(f"calls.{len(case['calls'])}")
        ctx.sample({"prog": [G.node_str(r) for r in case["roots"]], "opt": case["opt"], "solver": case["solver"], "shapes": case["shapes"],
                    "dtype": case["dtype"], "params": [lf["ty"] for lf in case["leaves"] if lf["role"] == "param"]})
        if len(pending) > 400:
            flush(ctx, pending)


def run(ctx: Ctx):
    torch.set_num_threads(1)        # every operation here is tiny: threads only add contention on a shared box
    rng = ctx.rng
    pending = []
    run_wdiag(ctx, pending, wdiag_configs(rng, ctx.quick))
    flush(ctx, pending)
    run_ctor_checks(ctx)
    run_defaults(ctx)
    run_square_underdetermined(ctx)
    run_repeat(ctx, pending)
    run_large_update(ctx, pending)
    run_large_corrector(ctx)
    run_large(ctx, pending)
    run_cases(ctx, corner_cases(ctx.quick), pending)
    flush(ctx, pending)
    for c in (itemwise_cases(random.Random(7_0708), 10) + itemwise_cases(random.Random(7_0709), 0, kernels=True)
              + itemwise_cases(rng, ctx.pick(10, 300))):
        check_itemwise(ctx, c)
        ctx.note_case(("itemwise",) + case_signature(c), True)
    n = ctx.pick(35, 1400)
    run_cases(ctx, [make_case(rng) for _ in range(n)], pending)
    flush(ctx, pending)


def search(ctx: Ctx):
    """after a broken proof / correspondence: more cases, every call Jacobian-checked"""
    pending = []
    rng = random.Random(ctx.seed + 99)
    for _ in range(300):
        c = make_case(rng)
        for call in c["calls"]:
            call["jac_check"] = True
        check_case(ctx, c, pending)
        pending.clear()
        if ctx.failures:
            return


def replay(ctx: Ctx, case) -> bool:
    c = dict(case["case"])
    n0 = len(ctx.failures)
    pending = []
    if c.get("kind") == "wdiag":
        cfg = {k: v for k, v in c.items() if k != "kind"}
        run_wdiag(ctx, pending, [cfg])
    elif c.get("kind") == "itemwise":
        c.pop("n_frozen", None)
        check_itemwise(ctx, c)
    elif c.get("kind") in ("square-underdetermined", "defaults", "large-update", "large-corrector"):
        # deterministic streams (fixed generators): the stored case names the failing problem, the whole stream is re-run
        {"square-underdetermined": lambda: run_square_underdetermined(ctx), "defaults": lambda: run_defaults(ctx),
         "large-update": lambda: run_large_update(ctx, pending), "large-corrector": lambda: run_large_corrector(ctx)}[c["kind"]]()
    else:
        c.pop("n_frozen", None)
        check_case(ctx, c, pending)
    flush(ctx, pending)
    for f in ctx.failures[n0:]:
        print("  fails:", f["what"])
    for kh in ctx.known_hits:
        print("  known finding:", kh["finding"], kh["what"])
    for d in ctx.disagreements:
        print("  model/implementation disagreement:", d["detail"])
    return len(ctx.failures) == n0 and not ctx.disagreements
