def hello := "world"
