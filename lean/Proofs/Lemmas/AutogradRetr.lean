/-
C04 (pass 3): the curves by which the property *defines* gradients and Jacobians, for every group: the retraction `t ↦ Exp(t·τ)·X`
has left-perturbation tangent `τ`; the chart `Y ↦ Log(Y·Y₀⁻¹)` turns a left-perturbation tangent into an ordinary velocity.
Rest on the zero-vector / identity theorems of `AutogradId*.lean`.
-/
import Proofs.Lemmas.AutogradRegimes
set_option linter.unusedSimpArgs false
set_option linter.unusedVariables false
set_option maxRecDepth 10000
namespace PP.AD
open PP

theorem one_mulVec_adim (g : Grp) (d : DVec ℝ) (hd : d.length = g.adim) : (DMat.one g.adim).mulVec d = d := by
  cases g
  · obtain ⟨a0, a1, a2, rfl⟩ := len3 _ hd
    simp [Grp.adim, DMat.one, DMat.mulVec, DVec.basis, List.range, List.range.loop, ddot_cons]
  · obtain ⟨a0, a1, a2, a3, a4, a5, rfl⟩ := len6 _ hd
    simp [Grp.adim, DMat.one, DMat.mulVec, DVec.basis, List.range, List.range.loop, ddot_cons]
  · obtain ⟨a0, a1, a2, a3, rfl⟩ := len4 _ hd
    simp [Grp.adim, DMat.one, DMat.mulVec, DVec.basis, List.range, List.range.loop, ddot_cons]
  · obtain ⟨a0, a1, a2, a3, a4, a5, a6, rfl⟩ := len7 _ hd
    simp [Grp.adim, DMat.one, DMat.mulVec, DVec.basis, List.range, List.range.loop, ddot_cons]

/-- **`Exp.backward` at the zero vector, every group**: a curve of algebra elements through `0` with velocity `d` is mapped by the
coded `Exp` to a curve through the identity with left-perturbation tangent `d` (`Jl(0) = 1`). -/
theorem exp_tangent_zero (g : Grp) (eps : ℝ) (heps : 0 < eps) (x : ℝ → DVec ℝ) (d : DVec ℝ) (hd : d.length = g.adim)
    (hx : LCurve g.adim x d) (hx0 : x 0 = DVec.zero g.adim) :
    GTangent g (fun t => expF g eps (x t)) d := by
  have hJ : (JlMat g eps (x 0)).mulVec d = d := by
    rw [hx0, JlMat_zero g eps (le_of_lt heps)]; exact one_mulVec_adim g d hd
  unfold GTangent
  cases g
  · obtain ⟨a0, a1, a2, rfl⟩ := len3 _ hd
    have := so3Exp_tangent_zero eps heps x a0 a1 a2 hx (by rw [hx0]; simp [v3, DVec.zero, Grp.adim])
    rw [hJ] at this; exact this
  · obtain ⟨a0, a1, a2, a3, a4, a5, rfl⟩ := len6 _ hd
    have := se3Exp_tangent_zerorot eps heps x a0 a1 a2 a3 a4 a5 hx (by rw [hx0]; simp [v3, DVec.zero, Grp.adim])
    rw [hJ] at this; exact this
  · obtain ⟨a0, a1, a2, a3, rfl⟩ := len4 _ hd
    have := rxso3Exp_tangent_zero eps heps x a0 a1 a2 a3 hx (by rw [hx0]; simp [v3, DVec.zero, Grp.adim])
    rw [hJ] at this; exact this
  · obtain ⟨a0, a1, a2, a3, a4, a5, a6, rfl⟩ := len7 _ hd
    have := sim3Exp_tangent_zero eps heps x a0 a1 a2 a3 a4 a5 a6 hx (by rw [hx0]; simp [v3, DVec.zero, Grp.adim])
      (by rw [hx0]; simp [v3, DVec.zero, Grp.adim]) (by rw [hx0]; simp [DVec.zero, Grp.adim])
    rw [hJ] at this; exact this

theorem nth_smul (t : ℝ) (τ : DVec ℝ) (i : Nat) : nth (DVec.smul t τ) i = t * nth τ i := by
  induction τ generalizing i with
  | nil => simp [DVec.smul]
  | cons a τ ih =>
    cases i with
    | zero => simp [DVec.smul]
    | succ i => simpa [DVec.smul] using ih i

theorem lcurve_ray (n : Nat) (τ : DVec ℝ) : LCurve n (fun t : ℝ => DVec.smul t τ) τ := by
  intro i _
  simp only [nth_smul]
  simpa using (hasDerivAt_id (0:ℝ)).mul_const (nth τ i)

theorem smul_zero_left (τ : DVec ℝ) : DVec.smul (0:ℝ) τ = DVec.zero τ.length := by
  induction τ with
  | nil => simp [DVec.smul, DVec.zero]
  | cons a τ ih => simp [DVec.smul, DVec.zero, List.replicate_succ] at ih ⊢

theorem expF_zero (g : Grp) (eps : ℝ) (heps : 0 < eps) : expF g eps (DVec.zero g.adim) = identG g := by
  have hn : ¬ eps < (⟨0, 0, 0⟩ : Vec3 ℝ).norm := by rw [norm_zero3]; exact not_lt.mpr (le_of_lt heps)
  have hs' : ¬ eps < |(0:ℝ)| := by simp; exact le_of_lt heps
  cases g
  · simp [expF, DVec.zero, Grp.adim, v3, so3Exp_zero eps heps, identG, Quat.toList]
  · simp [expF, se3Exp, tose3, DVec.zero, Grp.adim, v3, so3Exp_zero eps heps, so3Jl_zero eps (le_of_lt heps), identG, SE3.toList,
      Quat.toList, Vec3.toList, Mat3.mulVec, Mat3.one, Vec3.dot, Vec3.e0, Vec3.e1, Vec3.e2]
  · simp [expF, rxso3Exp, torx, DVec.zero, Grp.adim, v3, so3Exp_zero eps heps, identG, RxSO3.toList, Quat.toList]
  · simp only [expF, sim3Exp, rxso3Exp, tosim, DVec.zero, Grp.adim, v3, List.replicate, nth_cons_zero, nth_cons_succ, k_real,
      Nat.cast_zero, rxso3Ws_regime1 eps _ _ hs' hn, so3Exp_zero eps heps]
    simp [identG, Sim3.toList, Quat.toList, Vec3.toList, polyK, Mat3.mulVec, Vec3.dot]

theorem mulVec_dzero {n m : Nat} (M : DMat ℝ) (hs : Shape n m M) : M.mulVec (DVec.zero m) = DVec.zero n := by
  have : ∀ r : DVec ℝ, DVec.dot r (DVec.zero m) = 0 := by
    intro r; rw [ddot_comm]; simp only [DVec.zero, k_real, Nat.cast_zero]; exact ddot_replicate_zero r m
  simp only [DMat.mulVec, this]
  simp only [DVec.zero, k_real, Nat.cast_zero, ← hs.1]
  exact List.map_const'

theorem dadd_dzero (τ : DVec ℝ) : DVec.add τ (DVec.zero τ.length) = τ := by
  induction τ with
  | nil => simp [DVec.add, DVec.zero]
  | cons a τ ih => simp [DVec.add, DVec.zero, List.replicate_succ] at ih ⊢; exact ih

/-- a constant curve has left-perturbation tangent `0` -/
theorem gtangent_const (g : Grp) (X : DVec ℝ) : GTangent g (fun _ : ℝ => X) (DVec.zero g.adim) := by
  intro i hi
  have : nth (liftG g X (DVec.zero g.adim)) i = 0 := by
    cases g <;> simp only [Grp.gdim] at hi <;> interval_cases i <;>
      simp [liftG, liftQ, Quat.toList, Quat.mul, Quat.mk', Vec3.smul, Vec3.add, Vec3.cross, Vec3.toList, v3, DVec.zero, Grp.adim]
  rw [this]; exact hasDerivAt_const _ _

/-- **the true retraction has the tangent `liftG` describes, every group**: `t ↦ Exp(t·τ) @ X` — the curve along which `X.grad`
is defined — passes through `X` with left-perturbation tangent `τ`. -/
theorem retr_tangent (g : Grp) (eps : ℝ) (heps : 0 < eps) (X τ : DVec ℝ) (hτ : τ.length = g.adim) :
    GTangent g (fun t => retrF g eps X (DVec.smul t τ)) τ := by
  have hE := exp_tangent_zero g eps heps (fun t : ℝ => DVec.smul t τ) τ hτ (lcurve_ray _ τ) (by rw [smul_zero_left, hτ])
  have hv : expF g eps ((fun t : ℝ => DVec.smul t τ) 0) = identG g := by
    show expF g eps (DVec.smul 0 τ) = identG g
    rw [smul_zero_left, hτ, expF_zero g eps heps]
  have hY := gtangent_const g X
  have hu : UnitQ g ((fun t => expF g eps (DVec.smul t τ)) 0) := by
    show UnitQ g (expF g eps ((fun t : ℝ => DVec.smul t τ) 0))
    rw [hv]; cases g <;> simp [UnitQ, identG, qt, Quat.normSq]
  have := mul_tangent g (fun t => expF g eps (DVec.smul t τ)) (fun _ => X) τ (DVec.zero g.adim) hτ (by simp [DVec.zero]) hE hY hu
  have e : DVec.add τ ((AdjMat g ((fun t => expF g eps (DVec.smul t τ)) 0)).mulVec (DVec.zero g.adim)) = τ := by
    rw [mulVec_dzero _ (Shape_AdjMat g _), ← hτ, dadd_dzero]
  rw [e] at this
  exact this

/-- **`Log.backward` at the identity element, every group**: a curve through the identity with left-perturbation tangent `τ` is mapped by
the coded `Log` to a curve of algebra elements with velocity `τ` (`Jl_inv(0) = 1`). -/
theorem log_tangent_identity (g : Grp) (eps : ℝ) (heps : 0 < eps) (X : ℝ → DVec ℝ) (τ : DVec ℝ) (hτ : τ.length = g.adim)
    (hX : GTangent g X τ) (h0 : X 0 = identG g) :
    LCurve g.adim (fun t => logF g eps (X t)) τ := by
  have hJ : (JlInvMat g eps (logF g eps (X 0))).mulVec τ = τ := by
    rw [h0, logF_ident g eps (le_of_lt heps), JlInvMat_zero g eps (le_of_lt heps)]; exact one_mulVec_adim g τ hτ
  unfold GTangent at hX
  cases g
  · obtain ⟨a0, a1, a2, rfl⟩ := len3 _ hτ
    have := SO3Log_tangent_identity eps heps X a0 a1 a2 hX (by rw [h0]; simp [identG, qt, Quat.vec]) (by rw [h0]; simp [identG])
    rw [hJ] at this; exact this
  · obtain ⟨a0, a1, a2, a3, a4, a5, rfl⟩ := len6 _ hτ
    have := SE3Log_tangent_identity eps heps X a0 a1 a2 a3 a4 a5 hX (by rw [h0]; simp [identG, qt, Quat.vec]) (by rw [h0]; simp [identG])
    rw [hJ] at this; exact this
  · obtain ⟨a0, a1, a2, a3, rfl⟩ := len4 _ hτ
    have := RxSO3Log_tangent_identity eps heps X a0 a1 a2 a3 hX (by rw [h0]; simp [identG]) (by rw [h0]; simp [identG, qt, Quat.vec])
      (by rw [h0]; simp [identG])
    rw [hJ] at this; exact this
  · obtain ⟨a0, a1, a2, a3, a4, a5, a6, rfl⟩ := len7 _ hτ
    have := Sim3Log_tangent_identity eps heps X a0 a1 a2 a3 a4 a5 a6 hX (by rw [h0]; simp [identG, v3]) (by rw [h0]; simp [identG, qt, Quat.vec])
      (by rw [h0]; simp [identG]) (by rw [h0]; simp [identG])
    rw [hJ] at this; exact this

/-- `X · X⁻¹` is the identity element (unit quaternion, non-zero scale) -/
theorem mulF_invF (g : Grp) (X : DVec ℝ) (hu : UnitQ g X) (hs : ScaleNZ g X) : mulF g X (invF g X) = identG g := by
  cases g
  all_goals
    simp only [UnitQ, ScaleNZ, qt, Quat.normSq, Nat.reduceAdd, zero_add] at hu hs
    simp only [mulF, invF, identG, SE3Mul, SE3Inv, RxSO3Mul, RxSO3Inv, Sim3Mul, Sim3Inv, toSE3, toRx, toSim, qt, v3,
      Quat.toList, Vec3.toList, SE3.toList, RxSO3.toList, Sim3.toList, List.cons_append, List.nil_append,
      nth_cons_zero, nth_cons_succ, Nat.reduceAdd, zero_add]
    lie_unfold
    simp only [nth_cons_zero, nth_cons_succ, Nat.reduceAdd, zero_add, List.cons.injEq, and_true]
  · refine ⟨?_, ?_, ?_, ?_⟩ <;> grind
  · refine ⟨?_, ?_, ?_, ?_, ?_, ?_, ?_⟩ <;> grind
  · refine ⟨?_, ?_, ?_, ?_, ?_⟩ <;> first | grind | (field_simp)
  · refine ⟨?_, ?_, ?_, ?_, ?_, ?_, ?_, ?_⟩ <;> first | grind | (field_simp; grind) | field_simp

/-- **group-valued outputs are read in the chart `Log(Y · Y₀⁻¹)`**: if `Y(t)` has left-perturbation tangent `τ`, its chart coordinates
around `Y₀ = Y(0)` move with velocity `τ` — so the Jacobian of a group-valued program in the property's sense is its forward tangent. -/
theorem chart_tangent (g : Grp) (eps : ℝ) (heps : 0 < eps) (Y : ℝ → DVec ℝ) (τ : DVec ℝ) (hτ : τ.length = g.adim)
    (hY : GTangent g Y τ) (hu : UnitQ g (Y 0)) (hs : ScalePos g (Y 0)) :
    LCurve g.adim (fun t => chartF g eps (Y 0) (Y t)) τ := by
  have hm := mul_tangent g Y (fun _ => invF g (Y 0)) τ (DVec.zero g.adim) hτ (by simp [DVec.zero]) hY (gtangent_const g _) hu
  rw [mulVec_dzero _ (Shape_AdjMat g _), ← hτ, dadd_dzero] at hm
  exact log_tangent_identity g eps heps (fun t => mulF g (Y t) (invF g (Y 0))) τ hτ hm (mulF_invF g (Y 0) hu (scalePos_nz hs))

end PP.AD
