import Pose.Model.Stop
import Pose.Model.Batch
/-!
# Stopping controllers, extended model (pass 3)

More of the code path of `pypose/utils/stepper.py` / `pypose/optim/scheduler.py` than `Pose/Model/Stop.lean`:

* **IEEE special values with the exact comparison semantics of the code** (`XF`): `nan`, `±inf`, `-0.0`.
  `ReduceToBason.step` is then *one formula*, `(last - loss)/loss < decreasing` and `loss < tol` evaluated with
  `XF.sub`, `XF.div`, `XF.lt` — the case split that `Stop.relNoDec1` hard-wires (first step after reset,
  zero loss) becomes a theorem (`Proofs/Lemmas/StopX.lean`).  Finite arithmetic is real arithmetic (rounding,
  overflow and underflow of finite operands are not modelled).
* **Tensor shapes**: a loss is a contiguous row-major tensor `TX` of any shape; `self.last - loss` and `… / loss`
  broadcast exactly like `torch.broadcast_shapes` (the index maps of `Pose/Model/Batch.lean`), `torch.all`
  is over all elements of the broadcast result; a non-broadcastable pair raises (`none`).  `self.last` is the
  0-dim `tensor(inf)` after `reset` and a clone of the previous loss afterwards — of whatever shape that was.
* **Driver loops on numeric losses**: `loopG` threads the *numeric* controller state through
  `while ctl.continual(): loss ← body(); ctl.step(loss)`.
* **Argument defaulting**: `ReduceToBason(steps, patience=5, decreasing=1e-3, tol=1e-5)`, `ICP()` (200 steps),
  `MPC(...)` (10 steps, minus one).
-/
namespace PP.Stop
open PP.Batch (Shape numel broadcastShapes proj unravel ravel)

/-! ## extended floats -/

/-- a float value: finite (`num 0` is `+0.0`), `-0.0`, `+inf`, `-inf`, `nan` -/
inductive XF (α : Type) where
  | num (x : α)
  | nzero
  | pinf
  | ninf
  | nan
deriving Repr, Inhabited

namespace XF
variable {α : Type} [Scalar α]

def isZeroS (x : α) : Bool := !(Scalar.lt x (k 0)) && !(Scalar.lt (k 0) x)

/-- finite value (zeros are 0) -/
def val : XF α → α
  | num x => x
  | _ => k 0

def isNan : XF α → Bool | nan => true | _ => false
def isInf : XF α → Bool | pinf => true | ninf => true | _ => false
def isFin : XF α → Bool | num _ => true | nzero => true | _ => false
/-- `±0.0` -/
def isZero : XF α → Bool | num x => isZeroS x | nzero => true | _ => false
/-- sign bit (of a non-NaN) -/
def neg : XF α → Bool
  | num x => Scalar.lt x (k 0)
  | nzero => true
  | pinf => false
  | ninf => true
  | nan => false

def infOf (negative : Bool) : XF α := if negative then ninf else pinf
def zeroOf (negative : Bool) : XF α := if negative then nzero else num (k 0)

/-- IEEE `a - b` (round to nearest: an exact zero difference is `+0` except `(-0) - (+0) = -0`) -/
def sub (a b : XF α) : XF α :=
  match a, b with
  | nan, _ => nan
  | _, nan => nan
  | pinf, pinf => nan
  | ninf, ninf => nan
  | pinf, _ => pinf
  | ninf, _ => ninf
  | _, pinf => ninf
  | _, ninf => pinf
  | a, b =>
    let r := a.val - b.val
    if isZeroS r then (match a, b with | nzero, num _ => nzero | _, _ => num (k 0)) else num r

/-- IEEE `a / b` -/
def div (a b : XF α) : XF α :=
  if a.isNan || b.isNan then nan
  else if a.isInf then (if b.isInf then nan else infOf (a.neg != b.neg))
  else if b.isInf then zeroOf (a.neg != b.neg)
  else if b.isZero then (if a.isZero then nan else infOf (a.neg != b.neg))
  else if a.isZero then zeroOf (a.neg != b.neg)
  else num (a.val / b.val)

/-- IEEE `a < b` (false whenever a NaN is involved; `-0 = +0`) -/
def lt (a b : XF α) : Bool :=
  match a, b with
  | nan, _ => false
  | _, nan => false
  | pinf, _ => false
  | _, ninf => false
  | ninf, _ => true
  | _, pinf => true
  | a, b => Scalar.lt a.val b.val

end XF

/-! ## tensors and broadcasting -/

/-- contiguous row-major tensor: `data.length = numel shape` -/
structure TX (α : Type) where
  shape : Shape
  data : List (XF α)
deriving Repr

namespace TX
variable {α : Type} [Scalar α]

def elem (t : TX α) (k : Nat) : XF α := t.data.getD k XF.nan

/-- element of operand `t` that torch pairs with the element of flat index `k` of a result of shape `out` -/
def bat (t : TX α) (out : Shape) (k : Nat) : XF α := t.elem (ravel t.shape (proj t.shape (unravel out k)))

/-- element-wise binary op with torch broadcasting; `none` = `torch.broadcast_shapes` raises -/
def bop (f : XF α → XF α → XF α) (a b : TX α) : Option (TX α) :=
  match broadcastShapes a.shape b.shape with
  | none => none
  | some out => some ⟨out, (List.range (numel out)).map fun k => f (a.bat out k) (b.bat out k)⟩

/-- `torch.all(t < thr)` for a python-scalar threshold -/
def allLt (t : TX α) (thr : XF α) : Bool := t.data.all fun x => XF.lt x thr

/-- 0-dim tensor -/
def scalar (x : XF α) : TX α := ⟨[], [x]⟩

end TX

section ext
variable {α : Type} [Scalar α]

/-- one element of `(last - loss)/loss < decreasing` -/
def relNoDec1X (d l x : XF α) : Bool := XF.lt (XF.div (XF.sub l x) x) d

/-- value of `self.last` before step `i` of a run started after `reset` -/
def lastOf (loss : Nat → TX α) : Nat → TX α
  | 0 => TX.scalar XF.pinf
  | i+1 => loss i

/-- `torch.all((self.last - loss)/loss < self.decreasing)`, two broadcasting binary ops as in the code;
`none` = the code raises (shapes of `last` and `loss` do not broadcast) -/
def relNoDecT (d : XF α) (last loss : TX α) : Option Bool :=
  match TX.bop XF.sub last loss with
  | none => none
  | some diff =>
    match TX.bop XF.div diff loss with
    | none => none
    | some ratio => some (ratio.allLt d)

/-- `torch.all(loss < self.tol)` -/
def belowTolT (tol : XF α) (loss : TX α) : Bool := loss.allLt tol

/-- numeric state of a `ReduceToBason` in the extended model -/
structure RtbStX (α : Type) where
  st : St
  last : TX α

/-- `ReduceToBason.__init__` / `reset()`: `last = torch.tensor(inf)` (0-dim) -/
def RtbStX.init : RtbStX α := ⟨St.init, TX.scalar XF.pinf⟩
def rtbResetX (_ : RtbStX α) : RtbStX α := RtbStX.init

/-- observation of one `step(loss)`; `none` = the step raises -/
def rtbObsX (d tol : XF α) (last loss : TX α) : Option Obs :=
  (relNoDecT d last loss).map fun nd => ⟨nd, belowTolT tol loss, false⟩

/-- `ReduceToBason.step(loss)` on tensors of any shape with IEEE special values; `none` = raises -/
def rtbStepX (c : Cfg) (d tol : XF α) (s : RtbStX α) (loss : TX α) : Option (RtbStX α) :=
  (rtbObsX d tol s.last loss).map fun o => ⟨rtbStep c s.st o, loss⟩

/-- `(optimizer.last - optimizer.loss) < decreasing` on 0-dim tensors / python floats with special values -/
def absNoDecX (d last loss : XF α) : Bool := XF.lt (XF.sub last loss) d

def sopObsX (d last loss : XF α) (rejectCount : Option Nat) : Obs :=
  ⟨absNoDecX d last loss, false, match rejectCount with | some n => decide (0 < n) | none => false⟩

/-- `StopOnPlateau.step` with special values in the optimizer's readings -/
def sopStepX (c : Cfg) (d : XF α) (s : St) (last loss : XF α) (rejectCount : Option Nat) : St :=
  sopStep c s (sopObsX d last loss rejectCount)

/-- `StopOnPlateau.step` including its first statement `assert self.optimizer.loss is not None`: a reading is
`none` when `optimizer.step()` has not been called yet (`optimizer.loss is None`); then the call raises
(`none`) before anything is assigned — the scheduler is untouched. -/
def sopStepChecked (c : Cfg) (d : α) (s : St) (o : Option (OptObs α)) : Option St :=
  o.map fun r => sopStepNum c d s r

/-- what the caller holds after a `step` call that may have raised: the old scheduler if it raised -/
def sopStepOrKeep (c : Cfg) (d : α) (s : St) (o : Option (OptObs α)) : St := (sopStepChecked c d s o).getD s

/-- events of a stepper history in the extended model -/
inductive EvX (α : Type) where
  | step (loss : TX α)
  | reset

/-- state after `n` steps on the losses `loss 0 … loss (n-1)`; `none` as soon as one raises -/
def rtbRunX (c : Cfg) (d tol : XF α) (s : RtbStX α) (loss : Nat → TX α) : Nat → Option (RtbStX α)
  | 0 => some s
  | n+1 => (rtbRunX c d tol s loss n).bind fun s' => rtbStepX c d tol s' (loss n)

end ext

/-! ## `scheduler.continual()` is a wrapper object bound to a scheduler

`_Scheduler.__init__` stores `self.continual = self.Continual(self)`; `continual()` calls
`self.optimizer.iscontinual()` on the scheduler the wrapper was *bound to* (its constructor argument), which returns
that scheduler's `_continual`.  Schedulers live in a heap; `bound i` is the scheduler the wrapper stored in
scheduler `i` points to. -/

structure Heap where
  st : Nat → St
  bound : Nat → Nat

/-- `iscontinual()` of scheduler `i` -/
def Heap.iscontinual (h : Heap) (i : Nat) : Bool := (h.st i).cont
/-- `scheduler_i.continual()`: the wrapper stored in `i` asks the scheduler it is bound to -/
def Heap.continual (h : Heap) (i : Nat) : Bool := h.iscontinual (h.bound i)

inductive HeapOp where
  /-- `StopOnPlateau(...)` stored at address `i` -/
  | new (i : Nat)
  /-- `scheduler_i.step(...)` with observation `o` under configuration `c` -/
  | step (i : Nat) (c : Cfg) (o : Obs)
  /-- `copy.copy / copy.deepcopy / pickle` of `src` stored at `dst` (`__setstate__` re-binds the wrapper) -/
  | copy (dst src : Nat)
  /-- `scheduler_dst.load_state_dict(scheduler_src.state_dict())` (the wrapper is not part of the state dict and is
  re-bound) -/
  | load (dst src : Nat)

def setAt {β : Type} (f : Nat → β) (i : Nat) (v : β) : Nat → β := fun j => if j = i then v else f j

def Heap.apply (h : Heap) : HeapOp → Heap
  | .new i => ⟨setAt h.st i St.init, setAt h.bound i i⟩
  | .step i c o => ⟨setAt h.st i (sopStep c (h.st i) o), h.bound⟩
  | .copy dst src => ⟨setAt h.st dst (h.st src), setAt h.bound dst dst⟩
  | .load dst src => ⟨setAt h.st dst (h.st src), setAt h.bound dst dst⟩

/-- the code before the repair D39: `state_dict()` carried the wrapper and `copy.copy` shared it — the wrapper of the
destination stayed bound to whatever the source's wrapper was bound to -/
def Heap.applyOld (h : Heap) : HeapOp → Heap
  | .copy dst src => ⟨setAt h.st dst (h.st src), setAt h.bound dst (h.bound src)⟩
  | .load dst src => ⟨setAt h.st dst (h.st src), setAt h.bound dst (h.bound src)⟩
  | op => h.apply op

/-! ## driver loops threading a numeric controller -/

/-- `while ctl.continual(): x ← body(); ctl.step(x)` for any controller state `σ` (`flag` reads `continual()`);
`inp i` is what the body of the `i`-th iteration produces.  Returns (iterations, final state). -/
def loopG {σ L : Type} (stepN : σ → L → σ) (flag : σ → Bool) (inp : Nat → L) : Nat → Nat → σ → Nat × σ
  | 0, i, s => (i, s)
  | fuel+1, i, s => if flag s then loopG stepN flag inp fuel (i+1) (stepN s (inp i)) else (i, s)

/-- `n` steps of a numeric controller -/
def runG {σ L : Type} (stepN : σ → L → σ) (s : σ) (inp : Nat → L) : Nat → σ
  | 0 => s
  | n+1 => stepN (runG stepN s inp n) (inp n)

section drivers
variable {α : Type} [Scalar α]

/-- `ICP.forward` / `MPC.forward` on the numeric losses the loop body produces (batched `error` / `cost`):
`stepper.reset()`, the loop, one more kernel call.  (controller steps, kernel calls, final numeric state) -/
def forwardNum (c : Cfg) (d tol : α) (s : RtbSt α) (loss : Nat → List α) : Nat × Nat × RtbSt α :=
  let s0 := rtbResetNum s
  let r := loopG (rtbStepNum c d tol) (fun s => s.st.cont) loss (fuelFor c s0.st) 0 s0
  (r.1, r.1 + 1, r.2)

/-- `StopOnPlateau.optimize` on the readings `(last, loss, reject_count)` the optimizer produces -/
def optimizeNum (c : Cfg) (d : α) (s : St) (o : Nat → OptObs α) : Nat × St :=
  loopG (sopStepNum c d) (fun s => s.cont) o (fuelFor c s) 0 s

/-- observation stream of a numeric ReduceToBason run started with `last = last0` -/
def obsOfLosses (d tol : α) (last0 : Option (List α)) (loss : Nat → List α) (i : Nat) : Obs :=
  rtbObs d tol (match i with | 0 => last0 | j+1 => some (loss j)) (loss i)

end drivers

/-! ## argument defaulting -/

/-- `ReduceToBason(steps, patience=5, decreasing=1e-3, tol=1e-5)` with optional arguments possibly omitted -/
structure RtbArgs (α : Type) where
  steps : Int
  patience : Option Int := none
  decreasing : Option α := none
  tol : Option α := none

section defaults
variable {α : Type} [Scalar α]

/-- configuration installed by the constructor -/
def rtbOfArgs (a : RtbArgs α) : Cfg × α × α :=
  (⟨a.steps, a.patience.getD 5⟩, a.decreasing.getD (q 1 1000), a.tol.getD (q 1 100000))

/-- `StopOnPlateau(optimizer, steps, patience=5, decreasing=1e-3)` -/
def sopOfArgs (steps : Int) (patience : Option Int) (decreasing : Option α) : Cfg × α :=
  (⟨steps, patience.getD 5⟩, decreasing.getD (q 1 1000))

/-- `ICP(stepper=None)`: `ReduceToBason(steps=200)` -/
def icpStepper (given : Option (RtbArgs α)) : Cfg × α × α := rtbOfArgs (given.getD { steps := 200 })

/-- `MPC(..., stepper=None)`: `ReduceToBason(steps=10)`, then `max_steps -= 1` -/
def mpcStepper (given : Option (RtbArgs α)) : Cfg × α × α :=
  let r := rtbOfArgs (given.getD { steps := 10 })
  (mpcInit r.1, r.2)

end defaults

end PP.Stop
