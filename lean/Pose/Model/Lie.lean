import Pose.Model.Basic
/-!
# Model of `pypose/lietensor/operation.py` (+ the type-level wrappers of `lietensor.py`)

Item-level (one element, no batch) models, with the *same branch structure* as the code; the dtype's
machine epsilon is the parameter `eps`.  Batching is factored out once (C06).

Layouts (PyPose storage order):
* `SO3   = (qx qy qz qw)`                      `so3   = (φx φy φz)`
* `SE3   = (t ; q)`                            `se3   = (τ ; φ)`
* `RxSO3 = (q ; s)`                            `rxso3 = (φ ; σ)`
* `Sim3  = (t ; q ; s)`                        `sim3  = (τ ; φ ; σ)`
-/

namespace PP

variable {α : Type} [Scalar α]

structure SE3 (α : Type) where
  t : Vec3 α
  q : Quat α
deriving Repr, Inhabited
structure RxSO3 (α : Type) where
  q : Quat α
  s : α
deriving Repr, Inhabited
structure Sim3 (α : Type) where
  t : Vec3 α
  q : Quat α
  s : α
deriving Repr, Inhabited
structure se3 (α : Type) where
  tau : Vec3 α
  phi : Vec3 α
deriving Repr, Inhabited
structure rxso3 (α : Type) where
  phi : Vec3 α
  sigma : α
deriving Repr, Inhabited
structure sim3 (α : Type) where
  tau : Vec3 α
  phi : Vec3 α
  sigma : α
deriving Repr, Inhabited

open Mat3 in
/-- `a·1 + b·K + c·K²` with `K = hat x` -/
def polyK (a b c : α) (x : Vec3 α) : Mat3 α :=
  let K := hat x
  Mat3.add (Mat3.add (Mat3.smul a Mat3.one) (Mat3.smul b K)) (Mat3.smul c (Mat3.mul K K))

/-! ## so3 / SO3 -/

/-- `so3_Exp.forward` -/
def so3Exp (eps : α) (x : Vec3 α) : Quat α :=
  let th := x.norm
  let th2 := th * th
  if Scalar.lt eps th then
    Quat.mk' (x.smul (Scalar.sin (q 1 2 * th) / th)) (Scalar.cos (q 1 2 * th))
  else
    let th4 := th2 * th2
    Quat.mk' (x.smul (q 1 2 - q 1 48 * th2 + q 1 3840 * th4)) (k 1 - q 1 8 * th2 + q 1 384 * th4)

/-- coefficients of `so3_Jl`: `(coef1, coef2)` -/
def so3JlCoef (eps : α) (th : α) : α × α :=
  let th2 := th * th
  if Scalar.lt eps th then ((k 1 - Scalar.cos th) / th2, (th - Scalar.sin th) / (th * th2))
  else (q 1 2 - q 1 24 * th2, q 1 6 - q 1 120 * th2)

/-- `so3_Jl` : `I + coef1 K + coef2 K²` -/
def so3Jl (eps : α) (x : Vec3 α) : Mat3 α :=
  let c := so3JlCoef eps x.norm
  polyK (k 1) c.1 c.2 x

/-- coefficient of `so3_Jl_inv` -/
def so3JlInvCoef (eps : α) (th : α) : α :=
  if Scalar.lt eps th then
    (k 1 - th * Scalar.cos (q 1 2 * th) / (k 2 * Scalar.sin (q 1 2 * th))) / (th * th)
  else q 1 12

/-- `so3_Jl_inv` : `I − K/2 + coef2 K²` -/
def so3JlInv (eps : α) (x : Vec3 α) : Mat3 α :=
  polyK (k 1) (-(q 1 2)) (so3JlInvCoef eps x.norm) x

/-- the scalar `factor` of `SO3_Log.forward` (three regimes) -/
def so3LogFactor (eps : α) (vn w : α) : α :=
  if Scalar.lt eps vn then
    if Scalar.lt eps (sabs w) then k 2 * Scalar.atan (vn / w) / vn
    else spm w * Scalar.pi / vn
  else k 2 * (k 1 / w - vn * vn / (k 3 * (w * w * w)))

/-- `SO3_Log.forward` -/
def SO3Log (eps : α) (p : Quat α) : Vec3 α :=
  p.vec.smul (so3LogFactor eps p.vec.norm p.w)

/-- `SO3_Adj` = `SO3_Matrix` : `2w(w·1 + hat v) − 1 + 2 v vᵀ` -/
def SO3Mat (p : Quat α) : Mat3 α :=
  let v := p.vec
  Mat3.add (Mat3.sub (Mat3.smul (k 2 * p.w) (Mat3.add (Mat3.smul p.w Mat3.one) (Mat3.hat v))) Mat3.one)
    (Mat3.smul (k 2) (Mat3.outer v v))

/-- `so3Type.Jr` -/
def so3Jr (eps : α) (x : Vec3 α) : Mat3 α :=
  let th := x.norm
  if Scalar.lt eps th then
    polyK (k 1) (-((k 1 - Scalar.cos th) / (th * th))) ((th - Scalar.sin th) / (th * th * th)) x
  else Mat3.one

/-! ## se3 / SE3 -/

/-- `se3_Exp.forward` -/
def se3Exp (eps : α) (x : se3 α) : SE3 α :=
  ⟨(so3Jl eps x.phi).mulVec x.tau, so3Exp eps x.phi⟩

/-- `SE3_Log.forward` -/
def SE3Log (eps : α) (X : SE3 α) : se3 α :=
  let phi := SO3Log eps X.q
  ⟨(so3JlInv eps phi).mulVec X.t, phi⟩

def SE3Mul (X Y : SE3 α) : SE3 α := ⟨X.t.add (X.q.act Y.t), X.q.mul Y.q⟩
def SE3Inv (X : SE3 α) : SE3 α := let qi := X.q.conj; ⟨(qi.act X.t).neg, qi⟩
def SE3Act (X : SE3 α) (p : Vec3 α) : Vec3 α := X.t.add (X.q.act p)

/-! ## rxso3 / RxSO3 -/

def rxso3Exp (eps : α) (x : rxso3 α) : RxSO3 α := ⟨so3Exp eps x.phi, Scalar.exp x.sigma⟩
def RxSO3Log (eps : α) (X : RxSO3 α) : rxso3 α := ⟨SO3Log eps X.q, Scalar.log X.s⟩
def RxSO3Mul (X Y : RxSO3 α) : RxSO3 α := ⟨X.q.mul Y.q, X.s * Y.s⟩
def RxSO3Inv (X : RxSO3 α) : RxSO3 α := ⟨X.q.conj, k 1 / X.s⟩
def RxSO3Act (X : RxSO3 α) (p : Vec3 α) : Vec3 α := (X.q.act p).smul X.s

/-- coefficients `(A, B, C)` of `rxso3_Ws` (four regimes).  `em1` models `torch.expm1(sigma)`, which over
the reals is `e^σ − 1`; `bm1` is the code's cancellation-free `s·cos θ − 1 = em1·cos θ − 2 sin²(θ/2)`. -/
def rxso3WsCoef (eps : α) (th sigma : α) : α × α × α :=
  let sl := Scalar.lt eps (sabs sigma)
  let tl := Scalar.lt eps th
  let scale := Scalar.exp sigma
  let em1 := scale - k 1
  let s2 := sigma * sigma
  let t2 := th * th
  let C := if sl then em1 / sigma else k 1
  if !sl && !tl then (q 1 2, q 1 6, C)
  else if !sl && tl then ((k 1 - Scalar.cos th) * (k 1 / t2), (th - Scalar.sin th) / (t2 * th), C)
  else if sl && !tl then
    ((sigma * scale - em1) / s2,
     (q 1 2 * s2 * scale + em1 - sigma * scale) / (s2 * sigma), C)
  else
    let a := scale * Scalar.sin th
    let sh := Scalar.sin (q 1 2 * th)
    let bm1 := em1 * Scalar.cos th - k 2 * (sh * sh)
    let c := t2 + s2
    ((a * sigma - bm1 * th) / (th * c),
     (C - (bm1 * sigma + a * th) / c) * (k 1 / t2), C)

/-- `rxso3_Ws` : `A K + B K² + C·1` -/
def rxso3Ws (eps : α) (x : rxso3 α) : Mat3 α :=
  let c := rxso3WsCoef eps x.phi.norm x.sigma
  polyK c.2.2 c.1 c.2.1 x.phi

/-! ## sim3 / Sim3 -/

def sim3Exp (eps : α) (x : sim3 α) : Sim3 α :=
  let r := rxso3Exp eps ⟨x.phi, x.sigma⟩
  ⟨(rxso3Ws eps ⟨x.phi, x.sigma⟩).mulVec x.tau, r.q, r.s⟩

/-- `Sim3_Log.forward` (the code calls `torch.inverse`; modelled by the adjugate formula). -/
def Sim3Log (eps : α) (X : Sim3 α) : sim3 α :=
  let ps := RxSO3Log eps ⟨X.q, X.s⟩
  ⟨(rxso3Ws eps ps).inv.mulVec X.t, ps.phi, ps.sigma⟩

def Sim3Mul (X Y : Sim3 α) : Sim3 α :=
  ⟨X.t.add ((X.q.act Y.t).smul X.s), X.q.mul Y.q, X.s * Y.s⟩
def Sim3Inv (X : Sim3 α) : Sim3 α :=
  let qi := X.q.conj; let si := k 1 / X.s
  ⟨((qi.act X.t).smul si).neg, qi, si⟩
def Sim3Act (X : Sim3 α) (p : Vec3 α) : Vec3 α := X.t.add ((X.q.act p).smul X.s)

/-! ## homogeneous action (`*_Act4`) : `p = (p3 ; w)` -/

def SO3Act4 (X : Quat α) (p : Vec3 α) (w : α) : Vec3 α × α := (X.act p, w)
def SE3Act4 (X : SE3 α) (p : Vec3 α) (w : α) : Vec3 α × α := ((X.q.act p).add (X.t.smul w), w)
def RxSO3Act4 (X : RxSO3 α) (p : Vec3 α) (w : α) : Vec3 α × α := ((X.q.act p).smul X.s, w)
def Sim3Act4 (X : Sim3 α) (p : Vec3 α) (w : α) : Vec3 α × α :=
  (((X.q.act p).smul X.s).add (X.t.smul w), w)

/-! ## identities -/
def SO3one : Quat α := Quat.one
def SE3one : SE3 α := ⟨Vec3.zero, Quat.one⟩
def RxSO3one : RxSO3 α := ⟨Quat.one, k 1⟩
def Sim3one : Sim3 α := ⟨Vec3.zero, Quat.one, k 1⟩

/-! ## matrices (`LieType.matrix`: columns are the images of the basis vectors under `Act`) -/

/-- `SO3Type.matrix` : 3×3 whose columns are `Act X eᵢ` -/
def SO3matrix (X : Quat α) : Mat3 α := Mat3.ofCols (X.act Vec3.e0) (X.act Vec3.e1) (X.act Vec3.e2)

/-- generic 4×4: columns `Act4 X eᵢ` (dense, row-major) -/
def matrix4 (act4 : Vec3 α → α → Vec3 α × α) : DMat α :=
  let c0 := act4 Vec3.e0 (k 0); let c1 := act4 Vec3.e1 (k 0)
  let c2 := act4 Vec3.e2 (k 0); let c3 := act4 Vec3.zero (k 1)
  [[c0.1.x, c1.1.x, c2.1.x, c3.1.x],
   [c0.1.y, c1.1.y, c2.1.y, c3.1.y],
   [c0.1.z, c1.1.z, c2.1.z, c3.1.z],
   [c0.2,   c1.2,   c2.2,   c3.2]]

def SE3matrix (X : SE3 α) : DMat α := matrix4 (SE3Act4 X)
def Sim3matrix (X : Sim3 α) : DMat α := matrix4 (Sim3Act4 X)
def RxSO3matrix (X : RxSO3 α) : DMat α := matrix4 (RxSO3Act4 X)

/-! ## Adjoint matrices and `ad` -/

def SE3Adj (X : SE3 α) : DMat α :=
  let R := SO3Mat X.q
  DMat.block R.toRows ((Mat3.hat X.t).mul R).toRows (DMat.zero 3 3) R.toRows

def RxSO3Adj (X : RxSO3 α) : DMat α :=
  DMat.block (SO3Mat X.q).toRows (DMat.zero 3 1) (DMat.zero 1 3) [[k 1]]

def Sim3Adj (X : Sim3 α) : DMat α :=
  let R := SO3Mat X.q
  let sR := Mat3.smul X.s R
  let tR := (Mat3.hat X.t).mul R
  let nt := X.t.neg
  [ sR.r0.toList ++ tR.r0.toList ++ [nt.x],
    sR.r1.toList ++ tR.r1.toList ++ [nt.y],
    sR.r2.toList ++ tR.r2.toList ++ [nt.z],
    DVec.zero 3 ++ R.r0.toList ++ [k 0],
    DVec.zero 3 ++ R.r1.toList ++ [k 0],
    DVec.zero 3 ++ R.r2.toList ++ [k 0],
    DVec.zero 6 ++ [k 1] ]

def se3ad (x : se3 α) : DMat α :=
  let P := (Mat3.hat x.phi).toRows
  DMat.block P (Mat3.hat x.tau).toRows (DMat.zero 3 3) P

def rxso3ad (x : rxso3 α) : DMat α :=
  DMat.block (Mat3.hat x.phi).toRows (DMat.zero 3 1) (DMat.zero 1 3) [[k 0]]

def sim3ad (x : sim3 α) : DMat α :=
  let P := Mat3.hat x.phi
  let PS := Mat3.add P (Mat3.smul x.sigma Mat3.one)
  let T := Mat3.hat x.tau
  let nt := x.tau.neg
  [ PS.r0.toList ++ T.r0.toList ++ [nt.x],
    PS.r1.toList ++ T.r1.toList ++ [nt.y],
    PS.r2.toList ++ T.r2.toList ++ [nt.z],
    DVec.zero 3 ++ P.r0.toList ++ [k 0],
    DVec.zero 3 ++ P.r1.toList ++ [k 0],
    DVec.zero 3 ++ P.r2.toList ++ [k 0],
    DVec.zero 7 ]

/-! ## flattening to / from PyPose storage order -/
def se3.toList (x : se3 α) : List α := x.tau.toList ++ x.phi.toList
def rxso3.toList (x : rxso3 α) : List α := x.phi.toList ++ [x.sigma]
def sim3.toList (x : sim3 α) : List α := x.tau.toList ++ x.phi.toList ++ [x.sigma]
def SE3.toList (X : SE3 α) : List α := X.t.toList ++ X.q.toList
def RxSO3.toList (X : RxSO3 α) : List α := X.q.toList ++ [X.s]
def Sim3.toList (X : Sim3 α) : List α := X.t.toList ++ X.q.toList ++ [X.s]

/-! ## Adj / AdjT forward (`*_AdjXa`, `*_AdjTXa`) -/
def SO3AdjXa (X : Quat α) (a : Vec3 α) : Vec3 α := (SO3Mat X).mulVec a
def SO3AdjTXa (X : Quat α) (a : Vec3 α) : Vec3 α := (SO3Mat X.conj).mulVec a
def SE3AdjXa (X : SE3 α) (a : se3 α) : DVec α := (SE3Adj X).mulVec a.toList
def SE3AdjTXa (X : SE3 α) (a : se3 α) : DVec α := (SE3Adj (SE3Inv X)).mulVec a.toList
def RxSO3AdjXa (X : RxSO3 α) (a : rxso3 α) : DVec α := (RxSO3Adj X).mulVec a.toList
def RxSO3AdjTXa (X : RxSO3 α) (a : rxso3 α) : DVec α := (RxSO3Adj (RxSO3Inv X)).mulVec a.toList
def Sim3AdjXa (X : Sim3 α) (a : sim3 α) : DVec α := (Sim3Adj X).mulVec a.toList
def Sim3AdjTXa (X : Sim3 α) (a : sim3 α) : DVec α := (Sim3Adj (Sim3Inv X)).mulVec a.toList

/-! ## left Jacobians of the bigger groups -/

/-- `calcQ` (series branch below θ = 0.05, closed form above; `eps` is unused but kept for a uniform signature) -/
def calcQ (_eps : α) (x : se3 α) : Mat3 α :=
  let T := Mat3.hat x.tau
  let P := Mat3.hat x.phi
  let th := x.phi.norm
  let th2 := th * th
  let th4 := th2 * th2
  let (c1, c2, c3) :=
    if Scalar.lt (q 5 100) th then   -- the code switches to the series below θ = 0.05 (not at eps)
      ((th - Scalar.sin th) / (th2 * th),
       (th2 + k 2 * Scalar.cos th - k 2) / (k 2 * th4),
       (k 2 * th - k 3 * Scalar.sin th + th * Scalar.cos th) / (k 2 * th4 * th))
    else (q 1 6 - q 1 120 * th2 + q 1 5040 * th4, q 1 24 - q 1 720 * th2 + q 1 40320 * th4,
          q 1 120 - q 1 2520 * th2 + q 1 120960 * th4)
  let PT := P.mul T; let TP := T.mul P; let PTP := PT.mul P
  let PPT := P.mul PT; let TPP := TP.mul P
  let PTPP := PTP.mul P; let PPTP := P.mul PTP
  Mat3.add (Mat3.add (Mat3.add (Mat3.smul (q 1 2) T)
    (Mat3.smul c1 (Mat3.add (Mat3.add PT TP) PTP)))
    (Mat3.smul c2 (Mat3.sub (Mat3.add PPT TPP) (Mat3.smul (k 3) PTP))))
    (Mat3.smul c3 (Mat3.add PTPP PPTP))

def se3Jl (eps : α) (x : se3 α) : DMat α :=
  let J := (so3Jl eps x.phi).toRows
  DMat.block J (calcQ eps x).toRows (DMat.zero 3 3) J

def se3JlInv (eps : α) (x : se3 α) : DMat α :=
  let Ji := so3JlInv eps x.phi
  let Q := calcQ eps x
  DMat.block Ji.toRows ((Ji.mul Q).mul Ji).neg.toRows (DMat.zero 3 3) Ji.toRows

def rxso3Jl (eps : α) (x : rxso3 α) : DMat α :=
  DMat.block (so3Jl eps x.phi).toRows (DMat.zero 3 1) (DMat.zero 1 3) [[k 1]]
def rxso3JlInv (eps : α) (x : rxso3 α) : DMat α :=
  DMat.block (so3JlInv eps x.phi).toRows (DMat.zero 3 1) (DMat.zero 1 3) [[k 1]]

/-- `sim3_Jl` : six-term truncation `Σ_{n≤5} adⁿ/(n+1)!` -/
def sim3Jl (x : sim3 α) : DMat α :=
  let Xi := sim3ad x
  let Xi2 := Xi.mul Xi
  let Xi4 := Xi2.mul Xi2
  let I := DMat.one 7
  DMat.add (DMat.add (DMat.add (DMat.add (DMat.add I (DMat.smul (q 1 2) Xi)) (DMat.smul (q 1 6) Xi2))
    (DMat.smul (q 1 24) (Xi.mul Xi2))) (DMat.smul (q 1 120) Xi4)) (DMat.smul (q 1 720) (Xi.mul Xi4))

/-- `sim3_Jl_inv` : Bernoulli truncation `1 − ad/2 + ad²/12 − ad⁴/720` -/
def sim3JlInv (x : sim3 α) : DMat α :=
  let Xi := sim3ad x
  let Xi2 := Xi.mul Xi
  let Xi4 := Xi2.mul Xi2
  let I := DMat.one 7
  DMat.sub (DMat.add (DMat.sub I (DMat.smul (q 1 2) Xi)) (DMat.smul (q 1 12) Xi2)) (DMat.smul (q 1 720) Xi4)

/-! ## Jinvp, Retr -/
def SO3Jinvp (eps : α) (X : Quat α) (p : Vec3 α) : Vec3 α := (so3JlInv eps (SO3Log eps X)).mulVec p
def SE3Jinvp (eps : α) (X : SE3 α) (p : se3 α) : DVec α := (se3JlInv eps (SE3Log eps X)).mulVec p.toList
def RxSO3Jinvp (eps : α) (X : RxSO3 α) (p : rxso3 α) : DVec α :=
  (rxso3JlInv eps (RxSO3Log eps X)).mulVec p.toList
def Sim3Jinvp (eps : α) (X : Sim3 α) (p : sim3 α) : DVec α := (sim3JlInv (Sim3Log eps X)).mulVec p.toList

def SO3Retr (eps : α) (X : Quat α) (a : Vec3 α) : Quat α := (so3Exp eps a).mul X
def SE3Retr (eps : α) (X : SE3 α) (a : se3 α) : SE3 α := SE3Mul (se3Exp eps a) X
def RxSO3Retr (eps : α) (X : RxSO3 α) (a : rxso3 α) : RxSO3 α := RxSO3Mul (rxso3Exp eps a) X
def Sim3Retr (eps : α) (X : Sim3 α) (a : sim3 α) : Sim3 α := Sim3Mul (sim3Exp eps a) X

end PP
