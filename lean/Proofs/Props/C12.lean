import Proofs.Lemmas.Scan
import Proofs.Lemmas.ScanMem
import Proofs.Lemmas.ScanApprox
import Proofs.Lemmas.ScanRound
/-!
# C12 — cumulative products equal the sequential left/right fold, for every length

Property theorems only (helpers are in `Proofs/Lemmas/Scan.lean`). Core Lean, no Mathlib.
-/
namespace PP.Scan
variable {α : Type} (op : α → α → α)

/-- **Right order.** For every length `L`, every `j < L` and every associative (not necessarily
commutative) `op`: position `j` of `cumops` holds `x₀ ∘ x₁ ∘ … ∘ x_j`. -/
theorem cumops_spec (hassoc : ∀ a b c : α, op (op a b) c = op a (op b c))
    (L : Nat) (v : Nat → α) (j : Nat) (hj : j < L) :
    cumops op L v j = seg op v 0 j := by
  unfold cumops strides
  apply fold_strides op hassoc L v L 1 v (by omega)
  · have := Nat.lt_two_pow_self (n := L); omega
  · intro j _; unfold W; simp [seg]
  · exact hj

/-- `seg` of the flipped operation is the left-ordered fold. -/
theorem seg_flip (v : Nat → α) (j : Nat) : seg (fun a b => op b a) v 0 j = segLeft op v j := by
  induction j with
  | zero => simp [seg, segLeft]
  | succ n ih => simp only [seg, segLeft, ih]; simp

/-- **Left order** (`cumprod`/`cummul` with `left=True`): position `j` holds `x_j ∘ … ∘ x₁ ∘ x₀`. -/
theorem cumopsLeft_spec (hassoc : ∀ a b c : α, op (op a b) c = op a (op b c))
    (L : Nat) (v : Nat → α) (j : Nat) (hj : j < L) :
    cumopsLeft op L v j = segLeft op v j := by
  unfold cumopsLeft
  rw [cumops_spec (fun a b => op b a) (by intro a b c; exact (hassoc c b a).symm) L v j hj]
  exact seg_flip op v j

/-- The schedule: every stride is `< L` and positive, so every `index_select(index - i)` is in range. -/
theorem strides_lt (L : Nat) : ∀ i ∈ strides L, 1 ≤ i ∧ i < L := by
  unfold strides
  have : ∀ (fuel p : Nat), 1 ≤ p → ∀ i ∈ stridesFrom L fuel p, 1 ≤ i ∧ i < L := by
    intro fuel
    induction fuel with
    | zero => intro p _ i hi; simp [stridesFrom] at hi
    | succ f ih =>
      intro p hp i hi
      unfold stridesFrom at hi
      by_cases h : p < L
      · simp only [h, if_true, List.mem_cons] at hi
        rcases hi with rfl | hi
        · exact ⟨hp, h⟩
        · exact ih (2*p) (by omega) i hi
      · simp [h] at hi
  exact this L 1 (by omega)

/-- Length 1 (and 0): no rounds, the tensor is returned as is. -/
theorem cumops_len_one (v : Nat → α) : cumops op 1 v = v := by
  unfold cumops strides stridesFrom; simp

/-- Length 0: nothing happens either (torch: an empty `arange`, no round). -/
theorem cumops_len_zero (v : Nat → α) : cumops op 0 v = v := by
  unfold cumops strides stridesFrom; simp

/-- Positions outside the scanned range are never touched by the whole scan. -/
theorem cumops_outside (L : Nat) (v : Nat → α) (j : Nat) (hj : L ≤ j) : cumops op L v j = v j := by
  unfold cumops
  generalize strides L = l
  induction l generalizing v with
  | nil => rfl
  | cons i l ih => simp only [List.foldl_cons]; rw [ih, step_outside op L i v j hj]

/-! ### the public wrappers -/

/-- **`cummul` / `cumprod` (and their in-place and LieTensor-method forms)**: with `left=True` (the default)
position `j` holds `x_j ∘ … ∘ x₀`, with `left=False` it holds `x₀ ∘ … ∘ x_j`, where `∘` is `*` for `cummul`
and `@` for `cumprod` — for every length, any associative `*` / `@`. -/
theorem wrapper_spec (mul mm : α → α → α)
    (hmul : ∀ a b c : α, mul (mul a b) c = mul a (mul b c)) (hmm : ∀ a b c : α, mm (mm a b) c = mm a (mm b c))
    (api : Api) (left : Option Bool) (L : Nat) (v : Nat → α) (j : Nat) (hj : j < L) :
    wrapper mul mm api left L v j =
      match api, resolveLeft left with
      | .cummul, true => segLeft mul v j
      | .cummul, false => seg mul v 0 j
      | .cumprod, true => segLeft mm v j
      | .cumprod, false => seg mm v 0 j := by
  unfold wrapper
  cases api <;> cases h : resolveLeft left <;> simp only [wrapperOp]
  · exact cumops_spec mul hmul L v j hj
  · exact cumopsLeft_spec mul hmul L v j hj
  · exact cumops_spec mm hmm L v j hj
  · exact cumopsLeft_spec mm hmm L v j hj

/-- omitting `left` is `left=True` -/
theorem wrapper_default_left (mul mm : α → α → α) (api : Api) (L : Nat) (v : Nat → α) :
    wrapper mul mm api none L v = wrapper mul mm api (some true) L v := rfl

/-- The executable array variant run by the driver computes `cumops`. -/
theorem cumopsArr_eq [Inhabited α] (xs : Array α) (j : Nat) (hj : j < xs.size) :
    (cumopsArr op xs).getD j default = cumops op xs.size (fun j => xs.getD j default) j := by
  unfold cumopsArr cumops
  generalize hL : xs.size = L at hj
  have key : ∀ (l : List Nat) (a : Array α) (w : Nat → α), a.size = L → (∀ j, j < L → a.getD j default = w j) →
      ∀ j, j < L → (l.foldl (fun a i => stepArr op L i a) a).getD j default
        = l.foldl (fun w i => step op L i w) w j := by
    intro l
    induction l with
    | nil => intro a w _ h j hj; simpa using h j hj
    | cons i l ih =>
      intro a w hs h j hj
      simp only [List.foldl_cons]
      apply ih _ _ (by simp [stepArr]) _ j hj
      intro j hj
      unfold stepArr step
      rw [ofFn_getD _ _ j hj]
      by_cases hij : i ≤ j
      · simp only [hij, hj, and_self, if_true]
        rw [h j hj, h (j - i) (by omega)]
      · simp only [hij, false_and, if_false]
        exact h j hj
  exact key (strides L) xs _ hL (fun j _ => rfl) j hj

/-- what the driver runs for a wrapper call is the wrapper model -/
theorem runApi_eq [Inhabited α] (mul mm : α → α → α) (api : Api) (left : Option Bool) (xs : List α) (j : Nat)
    (hj : j < xs.length) :
    (runApi mul mm api left xs).getD j default = wrapper mul mm api left xs.length (fun j => xs.getD j default) j := by
  unfold runApi wrapper
  have h := cumopsArr_eq (wrapperOp mul mm api (resolveLeft left)) xs.toArray j (by simpa using hj)
  simp only [List.size_toArray] at h
  have e : (fun j => xs.toArray.getD j default) = (fun j => xs.getD j default) := by
    funext k; simp [List.getD_eq_getElem?_getD, Array.getD_eq_getD_getElem?]
  rw [e] at h
  rw [← h]
  simp [List.getD_eq_getElem?_getD, Array.getD_eq_getD_getElem?]

/-- Scanning along `dim` of a `(outer, L, inner)` tensor: every fibre is the ordered fold of its own
items — for every shape. -/
theorem cumopsDim_spec [Inhabited α] (hassoc : ∀ a b c : α, op (op a b) c = op a (op b c))
    (outer L inner : Nat) (v : Nat → α) (o j i : Nat) (hj : j < L) (hi : i < inner) :
    cumopsDim op outer L inner v ((o * L + j) * inner + i)
      = seg op (fun j' => v ((o * L + j') * inner + i)) 0 j := by
  unfold cumopsDim
  have hin : 0 < inner := by omega
  have e1 : ((o * L + j) * inner + i) % inner = i := by
    rw [Nat.add_comm, Nat.add_mul_mod_self_right]; exact Nat.mod_eq_of_lt hi
  have e2 : ((o * L + j) * inner + i) / inner = o * L + j := by
    rw [Nat.add_comm, Nat.add_mul_div_right _ _ hin, Nat.div_eq_of_lt hi]; omega
  have e3 : (o * L + j) % L = j := by
    rw [Nat.add_comm, Nat.add_mul_mod_self_right]; exact Nat.mod_eq_of_lt hj
  have e4 : ((o * L + j) * inner + i) / (inner * L) = o := by
    rw [← Nat.div_div_eq_div_mul, e2, Nat.add_comm, Nat.add_mul_div_right _ _ (by omega), Nat.div_eq_of_lt hj]
    omega
  simp only [e1, e2, e3, e4]
  exact cumops_spec op hassoc L _ j hj

/-! ### non-vacuity: a concrete non-commutative associative operation (list append), L = 5 -/
example : (List.range 5).map (cumops (α := List Nat) (· ++ ·) 5 (fun j => [j])) =
    [[0], [0,1], [0,1,2], [0,1,2,3], [0,1,2,3,4]] := by decide
example : (List.range 5).map (cumopsLeft (α := List Nat) (· ++ ·) 5 (fun j => [j])) =
    [[0], [1,0], [2,1,0], [3,2,1,0], [4,3,2,1,0]] := by decide
example : strides 5 = [1, 2, 4] ∧ strides 8 = [1, 2, 4] ∧ strides 9 = [1, 2, 4, 8] ∧ strides 1 = [] := by decide

/-! ### operations that are only approximately associative (floating-point group products)

The property says "exactly" for exact monoids; for the four Lie group types the product is computed in floating point
and is associative only up to round-off. What the doubling schedule of `cumops_` then guarantees is a theorem too:
in any pseudo-metric `d` in which the rounded product is `Λ`-Lipschitz in each argument and associative up to `ε`
(`ApproxAssoc`: `d (a∘c) (b∘c) ≤ Λ·d a b + δ`, same on the other side, `d ((a∘b)∘c) (a∘(b∘c)) ≤ ε`; the additive `δ` is the
rounding of the product itself), every position of the scan stays within the computable bound `scanErr Λ ε δ L` of the
sequential fold; for `Λ = 1` the bound is at most `rounds · 2L · (ε+δ)` with `2^rounds < 2L`. The hypotheses are
about the rounded product of the dtype (measured by the harness on the scanned data, not proved of torch). -/

/-- **Scan of an ε-associative, Λ-Lipschitz operation** stays within `scanErr Λ ε L` of the ordered fold,
for every length and every position. -/
theorem cumops_approx {d : α → α → ℝ} {lam eps delta : ℝ} (H : ApproxAssoc op d lam eps delta)
    (L : Nat) (v : Nat → α) (j : Nat) (hj : j < L) :
    d (cumops op L v j) (seg op v 0 j) ≤ scanErr lam eps delta L := by
  unfold cumops strides scanErr
  apply fold_strides_approx H L v L 1 v 0 (by omega)
  · have := Nat.lt_two_pow_self (n := L); omega
  · exact le_refl 0
  · intro j _; unfold W; simp [seg, H.d_self]
  · exact hj

/-- closed form for a non-expansive operation: at most `rounds · L · ε` -/
theorem cumops_approx_nonexpansive {d : α → α → ℝ} {eps delta : ℝ} (H : ApproxAssoc op d 1 eps delta)
    (L : Nat) (v : Nat → α) (j : Nat) (hj : j < L) :
    d (cumops op L v j) (seg op v 0 j) ≤ (strides L).length * (2 * L * (eps + delta)) := by
  have h := cumops_approx op H L v j hj
  have hb := errFrom_one_le eps delta H.eps_nonneg H.delta_nonneg L L 1 0 (le_refl 1) (by omega) (le_refl 0)
  unfold scanErr at h
  unfold strides
  simp only [Nat.cast_one, one_mul, mul_zero, zero_add, mul_one] at hb
  exact le_trans h hb

/-- number of rounds of the schedule: `2^rounds < 2L`, i.e. `rounds ≤ ⌊log₂ L⌋ + 1` -/
theorem strides_length (L : Nat) (hL : 1 < L) : 2 ^ (strides L).length < 2 * L := by
  have := stridesFrom_length L L 1 (le_refl 1) hL
  unfold strides; omega

/-- with `ε = 0` the bound is `0`: the approximate theorem contains the exact one (up to `d`) -/
theorem scanErr_zero (lam : ℝ) (L : Nat) : scanErr lam 0 0 L = 0 := by
  have hre : ∀ m, reassoc lam 0 m = 0 := by
    intro m; induction m with
    | zero => rfl
    | succ m ih => simp [reassoc, ih]
  have : ∀ fuel p, errFrom lam 0 0 L fuel p 0 = 0 := by
    intro fuel
    induction fuel with
    | zero => intro p; rfl
    | succ fuel ih =>
      intro p
      unfold errFrom
      by_cases h : p < L
      · simp only [h, if_true]
        have : roundErr lam 0 0 p 0 = 0 := by unfold roundErr; simp [hre]
        rw [this]; exact ih (2*p)
      · simp [h]
  exact this L 1

/-- non-vacuity: ANY operation (here integer subtraction, which is not associative) with the discrete metric is
`1`-Lipschitz and `1`-associative — the hypotheses do not smuggle in associativity -/
example : ApproxAssoc (fun a b : Int => a - b) (fun a b => if a = b then 0 else 1) 1 1 0 where
  d_self := by intro a; simp
  d_symm := by intro a b; by_cases h : a = b <;> simp [h, eq_comm]
  d_tri := by
    intro a b c
    by_cases h1 : a = b <;> by_cases h2 : b = c <;> by_cases h3 : a = c <;> simp_all <;> norm_num
  d_nonneg := by intro a b; by_cases h : a = b <;> simp [h]
  one_le := le_refl 1
  eps_nonneg := by norm_num
  delta_nonneg := le_refl 0
  lipL := by intro a b c; by_cases h : a = b <;> simp [h]
  lipR := by intro a b c; by_cases h : a = b <;> simp [h]
  assoc := by intro a b c; split <;> norm_num

/-- the bound is a number one can compute: length 9 (strides 1, 2, 4, 8), `Λ = 1`, `ε = 1` gives `17 = 2·(2·(2·0+0+1)+3)+7` … ) -/
example : scanErr 1 1 0 9 = 17 := by
  simp [scanErr, errFrom, roundErr, reassoc]; norm_num


end PP.Scan


/-! ## Storage level: in-place variants overwrite exactly their view, out-of-place ones leave the
input storage untouched (model `Pose/Model/ScanMem.lean`) -/
namespace PP.ScanMem
open PP.Scan
variable {α : Type} (op : α → α → α)

/-- **In place, any view.** After `cumops_` on a non-overlapping view (any base, any strides —
transposed, stepped, a window of a larger buffer), element `j` of every fibre `f` holds the ordered
product of that fibre's first `j+1` *original* elements. Every length, every number of fibres. -/
theorem scanMem_spec (hassoc : ∀ a b c : α, op (op a b) c = op a (op b c))
    (w : View) (hw : w.NonOverlap) (m : Nat → α) (f j : Nat) (hf : f < w.F) (hj : j < w.L) :
    scanMem op w m (w.addr f j) = seg op (fun j' => m (w.addr f j')) 0 j := by
  unfold scanMem
  rw [foldl_stepMem_read op w hw _ m f j hf hj]
  exact cumops_spec op hassoc w.L _ j hj

/-- left order through a view -/
theorem scanMem_spec_left (hassoc : ∀ a b c : α, op (op a b) c = op a (op b c))
    (w : View) (hw : w.NonOverlap) (m : Nat → α) (f j : Nat) (hf : f < w.F) (hj : j < w.L) :
    scanMem (fun a b => op b a) w m (w.addr f j) = segLeft op (fun j' => m (w.addr f j')) j := by
  rw [scanMem_spec (fun a b => op b a) (by intro a b c; exact (hassoc c b a).symm) w hw m f j hf hj]
  exact seg_flip op _ j

/-- **Frame.** Storage that is not an element of the view is never written — the rest of the buffer
a view was cut from, and every other tensor, keeps its contents. -/
theorem scanMem_frame (w : View) (m : Nat → α) (a : Nat)
    (ha : ∀ f j, f < w.F → j < w.L → w.addr f j ≠ a) : scanMem op w m a = m a := by
  unfold scanMem
  exact foldl_stepMem_frame op w _ a ha m

/-- **Out of place leaves the input untouched**: every address allocated before the call (`< top`)
keeps its contents — whatever the view, overlapping (expanded) ones included. -/
theorem scanOut_input_untouched (w : View) (top : Nat) (m : Nat → α) (a : Nat) (ha : a < top) :
    scanOut op w top m a = m a := by
  unfold scanOut
  rw [scanMem_frame, copyTo_below w top m a ha]
  intro f j _ _
  simp only [cloneView]
  omega

/-- **Out of place returns the fold** in fresh storage (laid out fibre-major in the model; torch's clone keeps the input's dimension order — same values per logical element). No non-overlap requirement on
the input view: reading an expanded tensor is legal. -/
theorem scanOut_spec (hassoc : ∀ a b c : α, op (op a b) c = op a (op b c))
    (w : View) (top : Nat) (m : Nat → α) (f j : Nat) (hf : f < w.F) (hj : j < w.L) :
    scanOut op w top m (top + f * w.L + j) = seg op (fun j' => m (w.addr f j')) 0 j := by
  unfold scanOut
  have h := scanMem_spec op hassoc (cloneView w top) (clone_nonOverlap w top) (copyTo w top m) f j hf hj
  simp only [cloneView] at h ⊢
  rw [h]
  apply seg_congr
  intro k hk
  simp only [Nat.zero_add]
  exact copyTo_clone w top m f k hf (by omega)

/-- **In place and out of place agree**: reading the view after `cumops_` gives the tensor `cumops`
returns. -/
theorem inplace_eq_outofplace (hassoc : ∀ a b c : α, op (op a b) c = op a (op b c))
    (w : View) (hw : w.NonOverlap) (top : Nat) (m : Nat → α) (f j : Nat) (hf : f < w.F) (hj : j < w.L) :
    scanMem op w m (w.addr f j) = scanOut op w top m (top + f * w.L + j) := by
  rw [scanMem_spec op hassoc w hw m f j hf hj, scanOut_spec op hassoc w top m f j hf hj]

/-- the executable overlap test decides `NonOverlap` -/
theorem nonOverlapB_iff (w : View) : w.nonOverlapB = true ↔ w.NonOverlap := by
  unfold View.nonOverlapB View.NonOverlap
  simp only [List.all_eq_true, Bool.or_eq_true, bne_iff_ne, ne_eq, beq_iff_eq]
  constructor
  · intro h f j f' j' hf hj hf' hj' he
    have := h (f, j) ((mem_pairs w f j).2 ⟨hf, hj⟩) (f', j') ((mem_pairs w f' j').2 ⟨hf', hj'⟩)
    rcases this with h1 | h1
    · exact absurd he h1
    · simpa using h1
  · rintro h ⟨f, j⟩ hp ⟨f', j'⟩ hq
    rw [mem_pairs] at hp hq
    by_cases he : w.addr f j = w.addr f' j'
    · right
      obtain ⟨rfl, rfl⟩ := h f j f' j' hp.1 hp.2 hq.1 hq.2 he
      rfl
    · left; exact he

/-- the inverse-address table used by the executable variant is `find` -/
theorem invTable_eq_find (w : View) (n a : Nat) (ha : a < n) :
    (invTable w n).getD a none = w.find a := by
  unfold invTable View.find
  generalize w.pairs = l
  induction l with
  | nil => simp [ha]
  | cons p l ih =>
    simp only [List.foldr_cons, List.find?_cons]
    by_cases hp : w.addr p.1 p.2 = a
    · subst hp
      have hs := invTable_fold_size w n l
      simp [Array.getD_eq_getD_getElem?, hs, ha]
    · have : (w.addr p.1 p.2 == a) = false := by simpa using hp
      rw [this]
      rw [← ih]
      simp [Array.getD_eq_getD_getElem?, Array.getElem?_setIfInBounds_ne hp]

/-- **The input view itself is untouched by the out-of-place call** when it lies in already-allocated storage
(below `top`) — the reading of "leaves the input untouched" for the tensor the caller passed. -/
theorem scanOut_input_view_untouched (w : View) (top : Nat) (m : Nat → α)
    (hw : ∀ f j, f < w.F → j < w.L → w.addr f j < top) (f j : Nat) (hf : f < w.F) (hj : j < w.L) :
    scanOut op w top m (w.addr f j) = m (w.addr f j) :=
  scanOut_input_untouched op w top m _ (hw f j hf hj)

/-- **Error branch.** The in-place call is refused exactly for views in which two elements share an address
(torch raises); otherwise it is `scanMem`. -/
theorem scanMemChecked_none_iff (w : View) (m : Nat → α) :
    scanMemChecked op w m = none ↔ ¬ w.NonOverlap := by
  unfold scanMemChecked
  rw [← nonOverlapB_iff]
  by_cases h : w.nonOverlapB = true <;> simp [h]

theorem scanMemChecked_some (w : View) (m : Nat → α) (hw : w.NonOverlap) :
    scanMemChecked op w m = some (scanMem op w m) := by
  unfold scanMemChecked
  rw [(nonOverlapB_iff w).2 hw]; rfl

/-- The executable finite-buffer variant run by the driver computes `scanMem` (for views that lie
inside the buffer). -/
theorem scanBuf_eq [Inhabited α] (w : View) (buf : Array α)
    (hin : ∀ f j, f < w.F → j < w.L → w.addr f j < buf.size) (a : Nat) :
    (scanBuf op w buf).getD a default = scanMem op w (fun a => buf.getD a default) a := by
  unfold scanBuf scanMem
  generalize hn : buf.size = n at hin
  have key : ∀ (l : List Nat) (b : Array α) (m : Nat → α), b.size = n → (∀ a, m a = b.getD a default) →
      ∀ a, (l.foldl (fun b i => stepBuf op w (invTable w n) i b) b).getD a default
        = l.foldl (fun m i => stepMem op w i m) m a := by
    intro l
    induction l with
    | nil => intro b m _ h a; simpa using (h a).symm
    | cons i l ih =>
      intro b m hs h a
      simp only [List.foldl_cons]
      apply ih _ _ (by simp [stepBuf, hs])
      intro a
      unfold stepMem stepBuf
      by_cases ha : a < n
      · rw [ofFn_getD _ _ a (by omega)]
        simp only []
        rw [invTable_eq_find w n a ha]
        cases hfd : w.find a with
        | none => simp [h a]
        | some p =>
          obtain ⟨f, j⟩ := p
          simp only []
          by_cases hij : i ≤ j
          · simp only [hij, if_true, h]
          · simp only [hij, if_false, h]
      · have hnone : w.find a = none := by
          apply find_none
          intro f j hf hj he
          have := hin f j hf hj
          omega
        rw [hnone]
        simp only []
        rw [h a]
        simp [Array.getD_eq_getD_getElem?, hs, ha]
  exact key (strides w.L) buf _ hn (fun _ => rfl) a

/-- The executable out-of-place variant computes `scanOut` with the clone placed right after the
existing storage. -/
theorem scanOutBuf_eq [Inhabited α] (w : View) (buf : Array α) (a : Nat) :
    (scanOutBuf op w buf).getD a default = scanOut op w buf.size (fun a => buf.getD a default) a := by
  unfold scanOutBuf scanOut
  have hL : ∀ f j, f < w.F → j < w.L → f * w.L + j < w.F * w.L := by
    intro f j hf hj
    calc f * w.L + j < f * w.L + w.L := by omega
      _ = (f + 1) * w.L := by rw [Nat.add_mul, Nat.one_mul]
      _ ≤ w.F * w.L := Nat.mul_le_mul_right _ hf
  rw [scanBuf_eq]
  · congr 1
    funext a
    by_cases h1 : a < buf.size
    · rw [copyTo_below w buf.size _ a h1]
      simp [Array.getD_eq_getD_getElem?, Array.getElem?_append, h1]
    · by_cases h2 : a < buf.size + w.F * w.L
      · have hLpos : 0 < w.L := by
          rcases Nat.eq_zero_or_pos w.L with h0 | h0
          · rw [h0] at h2; omega
          · exact h0
        have hf : (a - buf.size) / w.L < w.F := by
          rw [Nat.div_lt_iff_lt_mul hLpos]; omega
        have hj : (a - buf.size) % w.L < w.L := Nat.mod_lt _ hLpos
        have ha : a = (cloneView w buf.size).addr ((a - buf.size) / w.L) ((a - buf.size) % w.L) := by
          simp only [cloneView]
          have := Nat.div_add_mod' (a - buf.size) w.L
          omega
        have hc := copyTo_clone w buf.size (fun a => buf.getD a default) _ _ hf hj
        rw [← ha] at hc
        rw [hc, Array.getD_eq_getD_getElem?, Array.getElem?_append_right (by omega)]
        simp [Array.getD_eq_getD_getElem?, show a - buf.size < w.F * w.L by omega]
      · have : copyTo w buf.size (fun a => buf.getD a default) a = buf.getD a default := by
          unfold copyTo
          rw [find_none]
          intro f j hf hj
          simp only [cloneView]
          have := hL f j hf hj
          omega
        rw [this]
        simp [Array.getD_eq_getD_getElem?, Array.getElem?_append, h1, h2, show ¬ a - buf.size < w.F * w.L by omega]
  · intro f j hf hj
    simp only [cloneView, Array.size_append, Array.size_ofFn] at hf hj ⊢
    have := hL f j hf hj
    omega

/-! ### non-vacuity: a transposed 2×3 window (fibres along the slow axis) of a 10-cell buffer,
non-commutative operation (list append) -/
def exView : View := ⟨3, 2, fun f j => 1 + f + 4 * j⟩
example : exView.nonOverlapB = true := by decide
example : (List.range 10).map (scanMem (α := List Nat) (· ++ ·) exView (fun a => [a])) =
    [[0], [1], [2], [3], [4], [1,5], [2,6], [3,7], [8], [9]] := by decide
example : (scanBuf (α := List Nat) (· ++ ·) exView ((List.range 10).map fun a => [a]).toArray).toList =
    [[0], [1], [2], [3], [4], [1,5], [2,6], [3,7], [8], [9]] := by decide

end PP.ScanMem

/-! ### the rounded scan against the EXACT ordered product (pass 10)

`cumops_approx` needs the rounded product to be `ε`-associative and Lipschitz up to `δ`. Where do those come from? From two facts
about the exact product — it is associative and an isometry in each argument (`ExactIso`; products of unit quaternions in the
chordal metric: `unitQuat_exactIso`) — and ONE fact about the arithmetic: the computed product is within `u` of the exact one
(`d (fl x) x ≤ u`). `approxAssoc_of_rounding` derives `ApproxAssoc 1 (4u) (2u)`, and the scan of the ROUNDED product is then
compared with the EXACT ordered product, which is what the property's clause is about. -/
namespace PP.Scan
open PP

/-- **The rounded scan against the exact ordered product**, every length, every position: within
`rounds · 2L · 6u + j·u`, `rounds = (strides L).length` (`2^rounds < 2L`). -/
theorem cumops_rounded_vs_exact {α : Type} {op : α → α → α} {d : α → α → ℝ} (H : ExactIso op d) (fl : α → α) (u : ℝ) (hu : 0 ≤ u)
    (hfl : ∀ x, d (fl x) x ≤ u) (L : Nat) (v : Nat → α) (j : Nat) (hj : j < L) :
    d (cumops (rounded fl op) L v j) (seg op v 0 j) ≤ (strides L).length * (2 * L * (4 * u + 2 * u)) + j * u := by
  have h1 := cumops_approx_nonexpansive (rounded fl op) (approxAssoc_of_rounding H fl u hu hfl) L v j hj
  have h2 := seg_rounded_vs_exact H fl u hfl v 0 j
  have t := H.d_tri (cumops (rounded fl op) L v j) (seg (rounded fl op) v 0 j) (seg op v 0 j)
  linarith

/-- the same for unit quaternions (`cumprod` / `cummul` on SO3): any computed product that returns a unit quaternion within
`u` of the exact Hamilton product -/
theorem cumops_unitQuat_rounded (fl : UQ → UQ) (u : ℝ) (hu : 0 ≤ u) (hfl : ∀ x, UQ.dist (fl x) x ≤ u)
    (L : Nat) (v : Nat → UQ) (j : Nat) (hj : j < L) :
    UQ.dist (cumops (rounded fl UQ.mul) L v j) (seg UQ.mul v 0 j) ≤ (strides L).length * (2 * L * (4 * u + 2 * u)) + j * u :=
  cumops_rounded_vs_exact unitQuat_exactIso fl u hu hfl L v j hj

/-- what "associative up to round-off" means for the computed SO3 product (the hypothesis C12 makes of `ops`, and the law C03
measures): the two bracketings of a rounded triple product differ by at most `4u` -/
theorem unitQuat_rounded_assoc (fl : UQ → UQ) (u : ℝ) (hu : 0 ≤ u) (hfl : ∀ x, UQ.dist (fl x) x ≤ u) (a b c : UQ) :
    UQ.dist (rounded fl UQ.mul (rounded fl UQ.mul a b) c) (rounded fl UQ.mul a (rounded fl UQ.mul b c)) ≤ 4 * u :=
  (approxAssoc_of_rounding unitQuat_exactIso fl u hu hfl).assoc a b c

/-- non-vacuity: a rounding map that is NOT the identity — every product is perturbed by the fixed unit quaternion
`r₀ = (0.6, 0, 0, 0.8)`; its error is `u = d(r₀, 1)` by the isometry -/
noncomputable def r0 : UQ := ⟨⟨0.6, 0, 0, 0.8⟩, by unfold SO3.Valid; lie_unfold; norm_num⟩
noncomputable def uqOne : UQ := ⟨SO3one, SO3_valid_one⟩
example (L : Nat) (v : Nat → UQ) (j : Nat) (hj : j < L) :
    UQ.dist (cumops (rounded (fun x => UQ.mul x r0) UQ.mul) L v j) (seg UQ.mul v 0 j)
      ≤ (strides L).length * (2 * L * (4 * UQ.dist r0 uqOne + 2 * UQ.dist r0 uqOne)) + j * UQ.dist r0 uqOne := by
  refine cumops_unitQuat_rounded _ _ (Real.sqrt_nonneg _) ?_ L v j hj
  intro x
  have h := unitQuat_exactIso.isoR r0 uqOne x
  have e : UQ.mul x uqOne = x := Subtype.ext (SO3_mul_one x.1)
  rw [e] at h
  exact le_of_eq h

end PP.Scan
