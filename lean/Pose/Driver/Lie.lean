import Pose.Wire
import Pose.Model.Lie
/-!
# Driver ops for the Lie model (shared by C01–C05, C07, C16, C19 drivers)

Request: `<type>.<op> <eps> <numbers…>`; all numbers in PyPose storage order; reply: numbers
(matrices row-major).  `eps` is the dtype's machine epsilon as used by the code's branch tests —
the harness may send `eps·(1±2⁻⁴⁸)` to evaluate the neighbouring branch at a threshold.
-/
namespace PP.Driver
open PP Wire

abbrev B := BigF

def v3 (l : List B) (o : Nat := 0) : Vec3 B := ⟨l.getD o default, l.getD (o+1) default, l.getD (o+2) default⟩
def qt (l : List B) (o : Nat := 0) : Quat B :=
  ⟨l.getD o default, l.getD (o+1) default, l.getD (o+2) default, l.getD (o+3) default⟩
def toSE3 (l : List B) (o : Nat := 0) : SE3 B := ⟨v3 l o, qt l (o+3)⟩
def toRx (l : List B) (o : Nat := 0) : RxSO3 B := ⟨qt l o, l.getD (o+4) default⟩
def toSim (l : List B) (o : Nat := 0) : Sim3 B := ⟨v3 l o, qt l (o+3), l.getD (o+7) default⟩
def tose3 (l : List B) (o : Nat := 0) : se3 B := ⟨v3 l o, v3 l (o+3)⟩
def torx (l : List B) (o : Nat := 0) : rxso3 B := ⟨v3 l o, l.getD (o+3) default⟩
def tosim (l : List B) (o : Nat := 0) : sim3 B := ⟨v3 l o, v3 l (o+3), l.getD (o+6) default⟩

/-- `eps :: args` with exactly `n` args -/
def withEps (n : Nat) (f : B → List B → List B) : Handler := numeric fun xs =>
  match xs with
  | eps :: rest => if rest.length == n then .ok (f eps rest) else .error s!"arity:{rest.length}≠{n}"
  | [] => .error "arity"

def pair (p : Vec3 B × B) : List B := p.1.toList ++ [p.2]

def opsLie : List (String × Handler) := [
  -- identity constants of the model (`<type>.one <eps>`): what `identity_*` / `identity_like` must return
  ("SO3.one", withEps 0 fun _ _ => (SO3one : Quat B).toList),
  ("SE3.one", withEps 0 fun _ _ => (SE3one : SE3 B).toList),
  ("RxSO3.one", withEps 0 fun _ _ => (RxSO3one : RxSO3 B).toList),
  ("Sim3.one", withEps 0 fun _ _ => (Sim3one : Sim3 B).toList),
  -- Exp
  ("so3.Exp", withEps 3 fun e l => (so3Exp e (v3 l)).toList),
  ("se3.Exp", withEps 6 fun e l => (se3Exp e (tose3 l)).toList),
  ("rxso3.Exp", withEps 4 fun e l => (rxso3Exp e (torx l)).toList),
  ("sim3.Exp", withEps 7 fun e l => (sim3Exp e (tosim l)).toList),
  -- Log
  ("SO3.Log", withEps 4 fun e l => (SO3Log e (qt l)).toList),
  ("SE3.Log", withEps 7 fun e l => (SE3Log e (toSE3 l)).toList),
  ("RxSO3.Log", withEps 5 fun e l => (RxSO3Log e (toRx l)).toList),
  ("Sim3.Log", withEps 8 fun e l => (Sim3Log e (toSim l)).toList),
  -- Mul
  ("SO3.Mul", withEps 8 fun _ l => ((qt l).mul (qt l 4)).toList),
  ("SE3.Mul", withEps 14 fun _ l => (SE3Mul (toSE3 l) (toSE3 l 7)).toList),
  ("RxSO3.Mul", withEps 10 fun _ l => (RxSO3Mul (toRx l) (toRx l 5)).toList),
  ("Sim3.Mul", withEps 16 fun _ l => (Sim3Mul (toSim l) (toSim l 8)).toList),
  -- Inv
  ("SO3.Inv", withEps 4 fun _ l => (qt l).conj.toList),
  ("SE3.Inv", withEps 7 fun _ l => (SE3Inv (toSE3 l)).toList),
  ("RxSO3.Inv", withEps 5 fun _ l => (RxSO3Inv (toRx l)).toList),
  ("Sim3.Inv", withEps 8 fun _ l => (Sim3Inv (toSim l)).toList),
  -- Act (3-vectors)
  ("SO3.Act", withEps 7 fun _ l => ((qt l).act (v3 l 4)).toList),
  ("SE3.Act", withEps 10 fun _ l => (SE3Act (toSE3 l) (v3 l 7)).toList),
  ("RxSO3.Act", withEps 8 fun _ l => (RxSO3Act (toRx l) (v3 l 5)).toList),
  ("Sim3.Act", withEps 11 fun _ l => (Sim3Act (toSim l) (v3 l 8)).toList),
  -- Act4 (homogeneous)
  ("SO3.Act4", withEps 8 fun _ l => pair (SO3Act4 (qt l) (v3 l 4) (l.getD 7 default))),
  ("SE3.Act4", withEps 11 fun _ l => pair (SE3Act4 (toSE3 l) (v3 l 7) (l.getD 10 default))),
  ("RxSO3.Act4", withEps 9 fun _ l => pair (RxSO3Act4 (toRx l) (v3 l 5) (l.getD 8 default))),
  ("Sim3.Act4", withEps 12 fun _ l => pair (Sim3Act4 (toSim l) (v3 l 8) (l.getD 11 default))),
  -- matrix
  ("SO3.matrix", withEps 4 fun _ l => (SO3matrix (qt l)).toList),
  ("SE3.matrix", withEps 7 fun _ l => (SE3matrix (toSE3 l)).flat),
  ("RxSO3.matrix", withEps 5 fun _ l => (RxSO3matrix (toRx l)).flat),
  ("Sim3.matrix", withEps 8 fun _ l => (Sim3matrix (toSim l)).flat),
  ("so3.matrix", withEps 3 fun e l => (SO3matrix (so3Exp e (v3 l))).toList),
  ("se3.matrix", withEps 6 fun e l => (SE3matrix (se3Exp e (tose3 l))).flat),
  ("rxso3.matrix", withEps 4 fun e l => (RxSO3matrix (rxso3Exp e (torx l))).flat),
  ("sim3.matrix", withEps 7 fun e l => (Sim3matrix (sim3Exp e (tosim l))).flat),
  -- Adj / AdjT
  ("SO3.Adj", withEps 7 fun _ l => (SO3AdjXa (qt l) (v3 l 4)).toList),
  ("SE3.Adj", withEps 13 fun _ l => SE3AdjXa (toSE3 l) (tose3 l 7)),
  ("RxSO3.Adj", withEps 9 fun _ l => RxSO3AdjXa (toRx l) (torx l 5)),
  ("Sim3.Adj", withEps 15 fun _ l => Sim3AdjXa (toSim l) (tosim l 8)),
  ("SO3.AdjT", withEps 7 fun _ l => (SO3AdjTXa (qt l) (v3 l 4)).toList),
  ("SE3.AdjT", withEps 13 fun _ l => SE3AdjTXa (toSE3 l) (tose3 l 7)),
  ("RxSO3.AdjT", withEps 9 fun _ l => RxSO3AdjTXa (toRx l) (torx l 5)),
  ("Sim3.AdjT", withEps 15 fun _ l => Sim3AdjTXa (toSim l) (tosim l 8)),
  -- Jinvp
  ("SO3.Jinvp", withEps 7 fun e l => (SO3Jinvp e (qt l) (v3 l 4)).toList),
  ("SE3.Jinvp", withEps 13 fun e l => SE3Jinvp e (toSE3 l) (tose3 l 7)),
  ("RxSO3.Jinvp", withEps 9 fun e l => RxSO3Jinvp e (toRx l) (torx l 5)),
  ("Sim3.Jinvp", withEps 15 fun e l => Sim3Jinvp e (toSim l) (tosim l 8)),
  -- Retr = Exp(a)·X
  ("SO3.Retr", withEps 7 fun e l => (SO3Retr e (qt l) (v3 l 4)).toList),
  ("SE3.Retr", withEps 13 fun e l => (SE3Retr e (toSE3 l) (tose3 l 7)).toList),
  ("RxSO3.Retr", withEps 9 fun e l => (RxSO3Retr e (toRx l) (torx l 5)).toList),
  ("Sim3.Retr", withEps 15 fun e l => (Sim3Retr e (toSim l) (tosim l 8)).toList),
  -- Jacobian helper matrices
  ("so3.Jr", withEps 3 fun e l => (so3Jr e (v3 l)).toList),
  ("so3.Jl", withEps 3 fun e l => (so3Jl e (v3 l)).toList),
  ("so3.JlInv", withEps 3 fun e l => (so3JlInv e (v3 l)).toList),
  ("se3.Jl", withEps 6 fun e l => (se3Jl e (tose3 l)).flat),
  ("se3.JlInv", withEps 6 fun e l => (se3JlInv e (tose3 l)).flat),
  ("rxso3.Jl", withEps 4 fun e l => (rxso3Jl e (torx l)).flat),
  ("rxso3.JlInv", withEps 4 fun e l => (rxso3JlInv e (torx l)).flat),
  ("sim3.Jl", withEps 7 fun _ l => (sim3Jl (tosim l)).flat),
  ("sim3.JlInv", withEps 7 fun _ l => (sim3JlInv (tosim l)).flat),
  ("rxso3.Ws", withEps 4 fun e l => (rxso3Ws e (torx l)).toList),
  ("SE3.AdjMat", withEps 7 fun _ l => (SE3Adj (toSE3 l)).flat),
  ("Sim3.AdjMat", withEps 8 fun _ l => (Sim3Adj (toSim l)).flat),
  ("RxSO3.AdjMat", withEps 5 fun _ l => (RxSO3Adj (toRx l)).flat),
  ("SO3.AdjMat", withEps 4 fun _ l => (SO3Mat (qt l)).toList),
  ("se3.ad", withEps 6 fun _ l => (se3ad (tose3 l)).flat),
  ("sim3.ad", withEps 7 fun _ l => (sim3ad (tosim l)).flat),
  ("rxso3.ad", withEps 4 fun _ l => (rxso3ad (torx l)).flat)
]

end PP.Driver
