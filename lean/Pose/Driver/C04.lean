import Pose.Wire
import Pose.Driver.Lie
import Pose.Model.Autograd
import Pose.Model.AutogradBatch
/-!
# Driver ops for C04 (autograd through LieTensor ops)

Request grammar (all numbers are exact `m:e` tokens):

    c04.eval <eps> <PROG> <ENV>
    c04.grad <eps> <PROG> <ENV> <VEC>                      -- model backprop, cotangent VEC
    c04.jabs <eps> <PROG> <ENV> <VEC>                      -- per-leaf Σ_i |c_i||J_ij| (scale of the round-off of c @ J)
    c04.fd   <eps> <PROG> <ENV> <VEC> <outkind> <leaf>      -- true left-perturbation gradient of leaf by central
                                                             differences of the model's forward pass (192 bit)
    PROG  := <ntok> tok…      tok := L<i> | U:<Exp|Log|Inv|Matrix>:<g> | B:<Mul|Act|Act4|Adj|AdjT|Jinvp>:<g>   (prefix order)
    ENV   := <nleaf> { <kind> <len> num… }      kind := SO3|SE3|RxSO3|Sim3 (group leaf) | V (algebra / Euclidean leaf)
    VEC   := <len> num…
    outkind := SO3|SE3|RxSO3|Sim3|V
    c04.bcall <eps> <PROG> <BENV> <ncot> VEC…               -- the batched / broadcasting layer (`AutogradBatch.lean`)
    BENV  := <nleaf> { <kind> <rank> d… <nitems> VEC… }     batch shape and the items (row-major) of every leaf

`c04.grad` replies with the concatenated leaf gradients (storage length each), then the per-leaf sums of
|contribution| (same layout) and the largest cotangent entry met in the sweep (conditioning information).
`c04.bcall` replies `<rank> d…` (output batch shape), the outputs of all batch items, then `.grad` of every item of every leaf
(`err shape` if the batch shapes do not broadcast — the code raises).
`c04.fd` replies with the `adim` (group leaf) or `len` (vector leaf) numbers
`d/dt <c, chart(out(t))>` at `t = 0` for the perturbation `Exp(t e_j) @ X` resp. `x + t e_j`.
-/
namespace PP.Driver
open PP Wire PP.AD

def grpOf (s : String) : Except String Grp :=
  match s with
  | "SO3" => .ok .SO3 | "SE3" => .ok .SE3 | "RxSO3" => .ok .RxSO3 | "Sim3" => .ok .Sim3
  | _ => .error s!"bad-group:{s}"

def op1Of (s : String) : Except String Op1 :=
  match s with
  | "Exp" => .ok .Exp | "Log" => .ok .Log | "Inv" => .ok .Inv | "Matrix" => .ok .Matrix
  | _ => .error s!"bad-op1:{s}"

def op2Of (s : String) : Except String Op2 :=
  match s with
  | "Mul" => .ok .Mul | "Act" => .ok .Act | "Act4" => .ok .Act4 | "Adj" => .ok .Adj
  | "AdjT" => .ok .AdjT | "Jinvp" => .ok .Jinvp
  | _ => .error s!"bad-op2:{s}"

/-- parse one program in prefix order; returns the rest of the tokens -/
def parseProg : Nat → List String → Except String (Prog × List String)
  | 0, _ => .error "prog-fuel"
  | _, [] => .error "prog-eof"
  | fuel + 1, t :: rest =>
    if t.startsWith "L" then
      match (t.drop 1).toString.toNat? with
      | some i => .ok (.leaf i, rest)
      | none => .error s!"bad-leaf:{t}"
    else
      match t.splitOn ":" with
      | ["U", o, g] => do
        let o ← op1Of o; let g ← grpOf g
        let (p, r) ← parseProg fuel rest
        return (.un o g p, r)
      | ["B", o, g] => do
        let o ← op2Of o; let g ← grpOf g
        let (p, r) ← parseProg fuel rest
        let (q, r) ← parseProg fuel r
        return (.bin o g p q, r)
      | _ => .error s!"bad-tok:{t}"

def parseProgN (ts : List String) : Except String (Prog × List String) :=
  match ts with
  | n :: rest => do
    let n ← nat n
    let (ptoks, r) ← Wire.take n rest
    let (p, left) ← parseProg (n + 1) ptoks
    if left.isEmpty then return (p, r) else throw "prog-trailing"
  | [] => .error "arity"

def parseVec (ts : List String) : Except String (List B × List String) :=
  match ts with
  | n :: rest => do
    let n ← nat n
    let (xs, r) ← Wire.take n rest
    let xs ← nums xs
    return (xs, r)
  | [] => .error "arity"

def parseLeaves : Nat → List String → Except String (List (String × List B) × List String)
  | 0, ts => .ok ([], ts)
  | n + 1, kind :: ts => do
    let (v, r) ← parseVec ts
    let (vs, r) ← parseLeaves n r
    return ((kind, v) :: vs, r)
  | _, [] => .error "arity"

def parseEnv (ts : List String) : Except String (List (String × List B) × List String) :=
  match ts with
  | n :: rest => do let n ← nat n; parseLeaves n rest
  | [] => .error "arity"

/-! ### stand-in for PyTorch's autograd of the built-in ops inside `*_Jl_inv` (contract parameter `dJ`) -/

def two : B := BigF.ofNat 2
def hStep (e : Int) : B := ⟨1, e⟩

/-- `eps'` that forces the branch taken at the base point (masks are constants for autograd) -/
def forcedEps (g : Grp) (eps : B) (phi : List B) : B :=
  let th := match g with
    | .SO3 | .RxSO3 => (AD.v3 phi 0).norm
    | .SE3 | .Sim3 => (AD.v3 phi 3).norm
  if Scalar.lt eps th then BigF.neg BigF.one else ⟨1, 600⟩

def bump (x : List B) (j : Nat) (d : B) : List B :=
  (List.range x.length).map (fun i => if i == j then AD.nth x i + d else AD.nth x i)

/-- central-difference Jacobian of `φ ↦ Jl_inv(φ)·p` with step `h` -/
def dJh (g : Grp) (eps : B) (phi p : List B) (h : B) : DMat B :=
  let e' := forcedEps g eps phi
  let cols := (List.range g.adim).map fun j =>
    let fp := jlInvP g e' (bump phi j h) p
    let fm := jlInvP g e' (bump phi j (BigF.neg h)) p
    DVec.smul (BigF.div BigF.one (two * h)) (DVec.sub fp fm)
  DMat.transpose cols

def maxAbs (xs : List B) : B := xs.foldl (fun m x => if BigF.lt m (BigF.abs x) then BigF.abs x else m) BigF.zero

/-- consistency of the stand-in (Richardson): `|D_h − D_2h| ≤ 2⁻⁶⁰ (1 + max|D|)` -/
def dJok (g : Grp) (eps : B) (phi p : List B) : Bool :=
  let a := (dJh g eps phi p (hStep (-64))).flat
  let b := (dJh g eps phi p (hStep (-63))).flat
  let d := maxAbs (DVec.sub a b)
  BigF.le d (hStep (-60) * (BigF.one + maxAbs a))

def dJpure : DJ B := fun g eps phi p => dJh g eps phi p (hStep (-64))

/-- check the contract at every `Jinvp` node of a program -/
def checkDJ (eps : B) (env : List (List B)) : Prog → Bool
  | .leaf _ => true
  | .un _ _ p => checkDJ eps env p
  | .bin o g p q =>
    checkDJ eps env p && checkDJ eps env q &&
      (match o with
       | .Jinvp => dJok g eps (logF g eps (eval eps env p)) (eval eps env q)
       | _ => true)

/-! ### finite-difference oracle

The oracle differentiates the *mathematical* program.  The forward passes of `Lie.lean` are used as they are,
except `rxso3_Ws`: its small-`σ` regimes use constants (`C = 1`, `A = 1/2`, …) whose values are right to `eps` but
whose `σ`-derivative is not the derivative of the true `W(σ, φ) = Σ (σ1+K)ⁿ/(n+1)!`.  The reference `W` below sums that
series exactly in the basis `{1, K, K²}` (`K³ = −θ²K`). -/

def wsRefCoef (th2 sigma : B) (nterms : Nat) : B × B × B := Id.run do
  -- Mⁿ = a·1 + b·K + c·K²,  M = σ1 + K;   W = Σ_{n≥0} Mⁿ/(n+1)!
  let mut a : B := BigF.one
  let mut b : B := BigF.zero
  let mut c : B := BigF.zero
  let mut f : B := BigF.one      -- 1/(n+1)!
  let mut sa : B := BigF.zero
  let mut sb : B := BigF.zero
  let mut sc : B := BigF.zero
  for n in List.range nterms do
    f := BigF.div f (BigF.ofNat (n + 1))
    sa := sa + f * a
    sb := sb + f * b
    sc := sc + f * c
    let a' := sigma * a
    let b' := sigma * b + a - th2 * c
    let c' := sigma * c + b
    a := a'; b := b'; c := c'
  return (sa, sb, sc)

def wsRef (x : rxso3 B) : Mat3 B :=
  let th2 := x.phi.normSq
  let mag := (BigF.abs x.sigma + x.phi.norm)
  let n := 40 + 14 * (BigF.floorInt mag).toNat
  let co := wsRefCoef th2 x.sigma n
  polyK co.1 co.2.1 co.2.2 x.phi

def sim3ExpRef (eps : B) (x : sim3 B) : Sim3 B :=
  let r := rxso3Exp eps ⟨x.phi, x.sigma⟩
  ⟨(wsRef ⟨x.phi, x.sigma⟩).mulVec x.tau, r.q, r.s⟩

def Sim3LogRef (eps : B) (X : Sim3 B) : sim3 B :=
  let ps := RxSO3Log eps ⟨X.q, X.s⟩
  ⟨(wsRef ps).inv.mulVec X.t, ps.phi, ps.sigma⟩

def fwd1R (o : Op1) (g : Grp) (eps : B) (x : List B) : List B :=
  match o, g with
  | .Exp, .Sim3 => (sim3ExpRef eps (AD.tosim x)).toList
  | .Log, .Sim3 => (Sim3LogRef eps (AD.toSim x)).toList
  | _, _ => fwd1 o g eps x

def fwd2R (o : Op2) (g : Grp) (eps : B) (x y : List B) : List B :=
  match o, g with
  | .Jinvp, .Sim3 => jlInvP g eps (Sim3LogRef eps (AD.toSim x)).toList y
  | _, _ => fwd2 o g eps x y

def evalR (eps : B) (env : List (List B)) : Prog → List B
  | .leaf i => env.getD i []
  | .un o g p => fwd1R o g eps (evalR eps env p)
  | .bin o g p q => fwd2R o g eps (evalR eps env p) (evalR eps env q)

def retrR (g : Grp) (eps : B) (X tau : List B) : List B := mulF g (fwd1R .Exp g eps tau) X
def chartR (g : Grp) (eps : B) (Y0 Y : List B) : List B := fwd1R .Log g eps (mulF g Y (invF g Y0))

def pertLeaf (eps : B) (kind : String) (x : List B) (j : Nat) (t : B) : List B :=
  match grpOf kind with
  | .ok g => retrR g eps x ((List.range g.adim).map fun i => if i == j then t else BigF.zero)
  | .error _ => bump x j t

def setNth (env : List (List B)) (i : Nat) (v : List B) : List (List B) :=
  (List.range env.length).map fun n => if n == i then v else env.getD n []

/-- project the quaternion block of a stored group element onto the unit sphere (inputs are unit only to 1 ulp; without
this the conj-based inverse in the chart would turn `(‖q‖²−1)·‖t‖` into a spurious first-order term) -/
def normG (g : Grp) (Y : List B) : List B :=
  let o := match g with | .SO3 | .RxSO3 => 0 | .SE3 | .Sim3 => 3
  let q := AD.qt Y o
  let n := BigF.sqrt q.normSq
  (List.range Y.length).map fun i => if o ≤ i && i < o + 4 then BigF.div (AD.nth Y i) n else AD.nth Y i

/-- `<c, chart(out)>` -/
def pairing (eps : B) (outkind : String) (c y0 y : List B) : B :=
  match grpOf outkind with
  | .ok g => DVec.dot (headN g.adim c) (chartR g eps (normG g y0) (normG g y))
  | .error _ => DVec.dot c y

/-- central difference with step `2^e` and its Richardson error estimate `4·|D_h − D_2h|` -/
def fdEst (F : B → B) (e : Int) : B × B :=
  let h := hStep e
  let h2 := hStep (e + 1)
  let fp := F h
  let fm := F (BigF.neg h)
  let d1 := BigF.div (fp - fm) (two * h)
  let d2 := BigF.div (F h2 - F (BigF.neg h2)) (two * h2)
  -- Richardson estimate + resolution of the 192-bit arithmetic (a derivative below |F|·2⁻¹⁸⁰/h cannot be seen at all)
  (d1, BigF.ofNat 4 * BigF.abs (d1 - d2) + BigF.div (hStep (-180) * (BigF.abs fp + BigF.abs fm)) (two * h))

/-- plain central difference with step `2^e` and the resolution of the arithmetic at that step -/
def fdPlain (F : B → B) (e : Int) : B × B :=
  let h := hStep e
  let fp := F h
  let fm := F (BigF.neg h)
  (BigF.div (fp - fm) (two * h), BigF.div (hStep (-180) * (BigF.abs fp + BigF.abs fm)) (two * h))

/-- Reply: the `n` derivatives followed by `n` error bars.  An entry whose plain difference quotient (step 2⁻⁴⁰) agrees
with the model's reverse sweep to 2⁻⁴⁶ relative is returned with that tiny difference as its error bar; every other entry
gets the best of the Richardson-estimated quotients at steps 2⁻⁴⁰, 2⁻³⁰, 2⁻⁶⁰, 2⁻⁸⁰ with its own estimate (the harness adds
the bar to its tolerance and skips entries whose bar is not small) — the reverse sweep never enters a returned value. -/
def fdLeaf (eps : B) (p : Prog) (kinds : List String) (env : List (List B)) (c : List B) (outkind : String)
    (leaf : Nat) : Except String (List B) := do
  -- the oracle is evaluated on the manifold: group leaves (unit only to 1 ulp in floating point) are projected onto exactly
  -- unit quaternions first, otherwise the conj-based inverses inside the program turn (‖q‖²−1)·‖t‖/s into spurious terms
  let env := (List.range env.length).map fun i =>
    match grpOf (kinds.getD i "V") with
    | .ok g => normG g (env.getD i [])
    | .error _ => env.getD i []
  let kind := kinds.getD leaf "V"
  let x := env.getD leaf []
  let n := match grpOf kind with | .ok g => g.adim | .error _ => x.length
  let y0 := evalR eps env p
  let F := fun (j : Nat) (t : B) => pairing eps outkind c y0 (evalR eps (setNth env leaf (pertLeaf eps kind x j t)) p)
  let bp := grad x.length leaf (backprop dJpure eps env p c)
  let mut out : List B := []
  let mut bars : List B := []
  for j in List.range n do
    let (d0, res0) := fdPlain (F j) (-40)
    let b := AD.nth bp j
    if BigF.le (BigF.abs (d0 - b)) (hStep (-46) * (BigF.abs d0 + BigF.abs b) + hStep (-140)) then
      out := out ++ [d0]
      bars := bars ++ [BigF.abs (d0 - b) + res0]
    else
      let mut best := fdEst (F j) (-40)
      if !(BigF.le best.2 (hStep (-34) * BigF.abs best.1 + hStep (-140))) then
        for e in [(-30 : Int), -60, -80] do
          let cand := fdEst (F j) e
          if BigF.lt cand.2 best.2 then best := cand
      out := out ++ [best.1]
      bars := bars ++ [best.2]
  return out ++ bars

/-- largest |entry| of any cotangent flowing through the reverse sweep (condition information only) -/
def cotMax (dJ : DJ B) (eps : B) (env : List (List B)) : Prog → List B → B
  | .leaf _, go => maxAbs go
  | .un o g p, go =>
    let x := eval eps env p
    let m := cotMax dJ eps env p (bwd1 o g eps x (fwd1 o g eps x) go)
    let a := maxAbs go
    if BigF.lt m a then a else m
  | .bin o g p q, go =>
    let x := eval eps env p
    let y := eval eps env q
    let r := bwd2 dJ o g eps x y (fwd2 o g eps x y) go
    let m1 := cotMax dJ eps env p r.1
    let m2 := cotMax dJ eps env q r.2
    let a := maxAbs go
    let m := if BigF.lt m1 m2 then m2 else m1
    if BigF.lt m a then a else m


/-! ### the batched layer -/

def parseVecs : Nat → List String → Except String (List (List B) × List String)
  | 0, ts => .ok ([], ts)
  | n + 1, ts => do
    let (v, r) ← parseVec ts
    let (vs, r) ← parseVecs n r
    return (v :: vs, r)

def parseBLeaves : Nat → List String → Except String (List (String × List Nat × List (List B)) × List String)
  | 0, ts => .ok ([], ts)
  | n + 1, kind :: rk :: ts => do
    let rk ← nat rk
    let (ds, r) ← Wire.take rk ts
    let ds ← nats ds
    match r with
    | ni :: r =>
      let ni ← nat ni
      let (vs, r) ← parseVecs ni r
      let (rest, r) ← parseBLeaves n r
      return ((kind, ds, vs) :: rest, r)
    | [] => throw "arity"
  | _, _ => .error "arity"

def opsC04 : List (String × Handler) := [
  ("c04.eval", fun ts => do
    match ts with
    | e :: rest =>
      let eps ← num e
      let (p, r) ← parseProgN rest
      let (lv, r) ← parseEnv r
      if !r.isEmpty then throw "trailing"
      return fmt (eval eps (lv.map (·.2)) p)
    | [] => throw "arity"),
  ("c04.grad", fun ts => do
    match ts with
    | e :: rest =>
      let eps ← num e
      let (p, r) ← parseProgN rest
      let (lv, r) ← parseEnv r
      let (c, r) ← parseVec r
      if !r.isEmpty then throw "trailing"
      let env := lv.map (·.2)
      if !(checkDJ eps env p) then throw "contract:dJ"
      let cs := backprop dJpure eps env p c
      let gs := (List.range env.length).map fun i => grad (env.getD i []).length i cs
      -- conditioning information for the tolerance: per-leaf sums of |contribution| and the largest cotangent met
      let csAbs := cs.map fun c => (c.1, c.2.map BigF.abs)
      let as := (List.range env.length).map fun i => grad (env.getD i []).length i csAbs
      let cm := cotMax dJpure eps env p c
      return fmt (gs.flatten ++ as.flatten ++ [cm])
    | [] => throw "arity"),
  -- c04.jabs <eps> PROG ENV VEC : per-leaf Σ_i |c_i|·|J_ij| (J = Jacobian of the whole program as the model's reverse sweep
  -- gives it, one sweep per output slot) — the natural scale of the round-off of `c @ J`, free of cancellation between
  -- the terms of the product
  ("c04.jabs", fun ts => do
    match ts with
    | e :: rest =>
      let eps ← num e
      let (p, r) ← parseProgN rest
      let (lv, r) ← parseEnv r
      let (c, r) ← parseVec r
      if !r.isEmpty then throw "trailing"
      let env := lv.map (·.2)
      let n := c.length
      let mut acc : List (List B) := env.map fun x => x.map fun _ => BigF.zero
      for i in List.range n do
        let ci := BigF.abs (AD.nth c i)
        if !(BigF.isZero ci) then
          let cot := (List.range n).map fun j => if j == i then BigF.one else BigF.zero
          let cs := backprop dJpure eps env p cot
          let gs := (List.range env.length).map fun l => grad (env.getD l []).length l cs
          acc := List.zipWith (fun a g => List.zipWith (fun x y => x + ci * BigF.abs y) a g) acc gs
      return fmt acc.flatten
    | [] => throw "arity"),
  ("c04.bcall", fun ts => do
    match ts with
    | e :: rest =>
      let eps ← num e
      let (p, r) ← parseProgN rest
      match r with
      | nl :: r =>
        let nl ← nat nl
        let (lv, r) ← parseBLeaves nl r
        match r with
        | nc :: r =>
          let nc ← nat nc
          let (cots, r) ← parseVecs nc r
          if !r.isEmpty then throw "trailing"
          let lshapes := lv.map (·.2.1)
          let vals := lv.map (·.2.2)
          if (List.zip lshapes vals).any (fun sv => numel sv.1 != sv.2.length) then throw "items"
          match progShape lshapes p with
          | none => throw "shape"
          | some bs =>
            if cots.length != numel bs then throw "cots"
            if (List.range (numel bs)).any (fun k => !(checkDJ eps (envAt bs lshapes vals k) p)) then throw "contract:dJ"
            match bcall dJpure eps p lshapes vals cots with
            | none => throw "shape"
            | some (bs, outs, gs) =>
              return fmt ((BigF.ofNat bs.length :: bs.map BigF.ofNat) ++ outs.flatten ++ (gs.map List.flatten).flatten)
        | [] => throw "arity"
      | [] => throw "arity"
    | [] => throw "arity"),
  ("c04.fd", fun ts => do
    match ts with
    | e :: rest =>
      let eps ← num e
      let (p, r) ← parseProgN rest
      let (lv, r) ← parseEnv r
      let (c, r) ← parseVec r
      match r with
      | [outkind, leaf] =>
        let leaf ← nat leaf
        let out ← fdLeaf eps p (lv.map (·.1)) (lv.map (·.2)) c outkind leaf
        return fmt out
      | _ => throw "arity"
    | [] => throw "arity")
]

end PP.Driver
