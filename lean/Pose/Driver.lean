import Pose.Driver.Core
/-! Registry of all driver ops (one `opsCxx` list per property module). -/
namespace PP.Driver
def allOps : List (String × Handler) := opsCore

def dispatch (line : String) : String :=
  match (line.trimAscii.toString.splitOn " ").filter (· ≠ "") with
  | [] => "err empty"
  | op :: args =>
    match allOps.lookup op with
    | none => s!"err unknown-op:{op}"
    | some h => match h args with
      | .ok s => if s.isEmpty then "ok" else "ok " ++ s
      | .error e => "err " ++ e
end PP.Driver
