"""Helpers of the C18 check: structured cloud generators, exact (integer) geometry, RNG observation.

Everything is derived from a `random.Random` handed in by the caller (seeded from `ctx.rng`), so a case is
reproduced exactly from its `data_seed`.

Exact geometry: every finite float is a dyadic rational, so a cloud `X` is written `Z * 2**-s` with an integer
array `Z` (int64 when it fits, Python ints otherwise).  Squared Euclidean distances, L1 and L-inf distances are
then integers in units of `2**-2s` / `2**-s`: ranking and threshold decisions of the brute-force definitions
are made without any rounding.
"""
from __future__ import annotations

import contextlib
import math
import random
from fractions import Fraction

import numpy as np
import torch

DT = {"float32": torch.float32, "float64": torch.float64, "int64": torch.int64, "int32": torch.int32,
      "int16": torch.int16, "int8": torch.int8, "uint8": torch.uint8, "bool": torch.bool,
      "float16": torch.float16, "bfloat16": torch.bfloat16, "complex64": torch.complex64}
FLOAT_BITS = {"float32": 24, "float64": 53, "float16": 11, "bfloat16": 8}


def is_int_like(dtype: str) -> bool:
    return dtype.startswith(("int", "uint")) or dtype in ("bool", "complex64")
EPS = {"float64": 2.0 ** -52, "float32": 2.0 ** -23, "int64": 2.0 ** -23, "int32": 2.0 ** -23, "int16": 2.0 ** -23, "int8": 2.0 ** -23,
       "uint8": 2.0 ** -23, "bool": 2.0 ** -23, "complex64": 2.0 ** -23, "float16": 2.0 ** -10, "bfloat16": 2.0 ** -7}   # int / float32 voxel tensor -> float32
TINY = {"float64": 2.0 ** -1022, "float32": 2.0 ** -126, "int64": 2.0 ** -126, "int32": 2.0 ** -126, "float16": 2.0 ** -14, "bfloat16": 2.0 ** -126}

KINDS = ["lattice", "blobs", "uniform", "gauss", "line", "dupes"]
EXTRA_KINDS = ["grid", "neartie"]     # organised clouds (every tie there is), near-coincident pairs (class 36)


# --------------------------------------------------------------------------- generators

def _round_to(dtype: str, rows):
    """values representable in `dtype`, returned as a float64 tensor"""
    t = torch.tensor(rows, dtype=torch.float64)
    if dtype in ("float32", "float16", "bfloat16"):
        t = t.to(DT[dtype]).to(torch.float64)
    return t


def gen_cloud(r: random.Random, N: int, pdim: int, extra: int, kind: str, dtype: str) -> torch.Tensor:
    """(N, pdim+extra) float64 tensor whose entries are exactly representable in `dtype`.
    Outliers / cluster members are shuffled to arbitrary positions."""
    s = r.choice([0, 0, 0, 1, 3, 8, -3, 10, 20, -6])  # power-of-two scale 2**-s
    sc = 2.0 ** -s
    rows = []
    if kind == "lattice":
        g = r.choice([2, 3, 4, 6, 9, 12])
        seen = set()
        while len(rows) < N:
            p = tuple(r.randrange(g) for _ in range(pdim))
            if p in seen and len(seen) < g ** pdim and r.random() < 0.9:
                continue
            seen.add(p)
            rows.append([c * sc for c in p])
    elif kind == "line":
        step = r.choice([1, 2, 3, 5])
        ax = r.randrange(pdim)
        off = [r.randrange(-8, 8) for _ in range(pdim)]
        for i in range(N):
            p = list(off)
            p[ax] += i * step
            rows.append([c * sc for c in p])
    elif kind == "dupes":
        base = [[r.randrange(-6, 6) * sc for _ in range(pdim)] for _ in range(max(1, N // 3))]
        rows = [list(r.choice(base)) for _ in range(N)]
    elif kind == "blobs":
        nc = r.randint(1, 4)
        cen = [[r.randrange(-900, 900) for _ in range(pdim)] for _ in range(nc)]
        spread = r.choice([2, 4, 16, 60])
        n_out = 0 if N < 3 else r.choice([0, 1, 1, 2, 3, max(1, N // 10)])
        for i in range(N - n_out):
            c = r.choice(cen)
            rows.append([(c[j] + r.randrange(-spread, spread + 1)) * sc for j in range(pdim)])
        for i in range(n_out):
            rows.append([r.choice([-1, 1]) * r.randrange(5000, 30000) * sc for _ in range(pdim)])
    elif kind == "uniform":
        m = r.choice([50, 1000, 1 << 20])
        rows = [[r.randrange(-m, m) * sc for _ in range(pdim)] for _ in range(N)]
    elif kind == "grid":
        import itertools as _it
        g = 1
        while g ** pdim < N:
            g += 1
        cells = list(_it.product(range(g), repeat=pdim))[:N]
        n_out = 0 if N < 8 else r.choice([0, 1, 2])
        rows = [[c * sc for c in p] for p in cells]
        for i in r.sample(range(N), n_out):
            rows[i] = [(c + r.choice([-1, 1]) * 50 * g) * sc for c in cells[i]]      # outliers anywhere in the array
    elif kind == "neartie":
        # pairs of points whose distances from any third point differ by ~2^-q relative: far outside round-off,
        # far inside any 'helpful' tolerance (1e-5, 1e-8, sqrt(eps))
        q = r.choice([12, 16] if dtype != "float64" else [20, 30, 36])
        base = [[r.uniform(1.0, 64.0) * r.choice([-1, 1]) for _ in range(pdim)] for _ in range((N + 1) // 2)]
        for b_ in base:
            rows.append(list(b_))
            rows.append([c * (1 + 2.0 ** -q) for c in b_])
        rows = rows[:N]
    elif kind == "gauss":
        sig = r.choice([1e-3, 1.0, 1.0, 30.0, 1e4])
        ctr = [r.gauss(0, sig) * r.choice([0, 1, 10]) for _ in range(pdim)]
        rows = [[ctr[j] + r.gauss(0, sig) for j in range(pdim)] for _ in range(N)]
    else:
        raise ValueError(kind)
    r.shuffle(rows)
    # feature channels (intensity, colour, ...): arbitrary values, some of them a running tag
    for i, row in enumerate(rows):
        for e in range(extra):
            row.append(float(i + 1) if e == 0 and kind != "gauss" else r.choice([r.gauss(0, 5), float(r.randrange(-50, 50))]))
    return _round_to(dtype, rows).reshape(N, pdim + extra)


def pick_N(r: random.Random, hi: int) -> int:
    c = r.random()
    if c < 0.30:
        return r.randint(1, 6)
    if c < 0.62:
        return r.randint(7, 24)
    if c < 0.90:
        return r.randint(25, min(hi, 70))
    return r.randint(min(hi, 71), hi)


# --------------------------------------------------------------------------- exact geometry

def exact_ints(x: torch.Tensor):
    """x (float64 tensor, any shape) -> (Z, s) with x == Z * 2**-s exactly; Z int64 ndarray if it fits in 2**28,
    object ndarray of Python ints otherwise."""
    flat = x.reshape(-1).tolist()
    s = 0
    for v in flat:
        if v != 0.0:
            d = Fraction(v).denominator
            s = max(s, d.bit_length() - 1)
    zs = [int(Fraction(v) * (1 << s)) for v in flat]
    big = max((abs(z) for z in zs), default=0)
    # strip common factors of two to keep numbers small
    while s > 0 and all(z % 2 == 0 for z in zs):
        zs = [z // 2 for z in zs]
        s -= 1
        big //= 2
    if big < (1 << 28):
        Z = np.array(zs, dtype=np.int64).reshape(tuple(x.shape))
    else:
        Z = np.empty(len(zs), dtype=object)
        Z[:] = zs
        Z = Z.reshape(tuple(x.shape))
    return Z, s


def pair_keys(Za, Zb, ord_):
    """exact pairwise keys (N1, N2): ord 2 -> sum of squares, 1 -> sum of abs, inf -> max abs (integers)"""
    diff = Za[:, None, :] - Zb[None, :, :]
    if diff.shape[-1] == 0:
        return np.zeros(diff.shape[:2], dtype=Za.dtype if Za.dtype != object else object)
    if ord_ == 2:
        return (diff * diff).sum(-1)
    if ord_ == 1:
        return np.abs(diff).sum(-1)
    return np.abs(diff).max(-1)


def keys_to_dist(K, s: int, ord_) -> np.ndarray:
    """float64 distances from exact keys (error <= 1 ulp)"""
    if K.dtype == object:
        if ord_ == 2:
            f = np.vectorize(lambda v: math.sqrt(Fraction(int(v), 1 << (2 * s))) if s >= 0 else math.sqrt(int(v) * (1 << (-2 * s))), otypes=[float])
        else:
            f = np.vectorize(lambda v: float(Fraction(int(v), 1 << s)) if s >= 0 else float(int(v) * (1 << -s)), otypes=[float])
        return f(K) if K.size else np.zeros(K.shape)
    if ord_ == 2:
        return np.sqrt(K.astype(np.float64)) * 2.0 ** -s
    return K.astype(np.float64) * 2.0 ** -s


def radius_key(radius: float, s: int, ord_) -> int:
    """largest integer key T with  key <= T  <=>  distance <= radius   (radius >= 0, exact)"""
    if math.isinf(radius):
        return (1 << 4000) if radius > 0 else -1
    fr = Fraction(radius)
    if fr < 0:
        return -1
    if ord_ == 2:
        return math.floor(fr * fr * (Fraction(4) ** s))
    return math.floor(fr * (Fraction(2) ** s))


def float_exact(Z, s: int, dtype: str, ord_) -> bool:
    """True when every intermediate of the float distance computation on this cloud is exact in `dtype`
    (so ties and threshold hits are decided identically by the float code and by exact arithmetic)."""
    if Z.dtype == object or Z.size == 0:
        return False
    bits = FLOAT_BITS.get(dtype, 53)
    span = int(Z.max()) - int(Z.min())
    D = Z.shape[-1]
    if max(abs(int(Z.max())), abs(int(Z.min()))) >= (1 << (bits - 2)):
        return False
    if ord_ == 2:
        return D * span * span < (1 << (bits - 1)) and span < 2048
    return D * span < (1 << (bits - 1))


# --------------------------------------------------------------------------- RNG observation

@contextlib.contextmanager
def observe_rng(mode: str, script=None):
    """Patch `torch.randperm` / `torch.randint` for the duration of one implementation call.
    mode 'real'  : call the real generator, record what it returned
         'lo'/'hi': randint returns low / high-1 (extremes of its contract), randperm identity / reversed
         'script' : values taken from `script` = {"perm": [list, ...], "ints": [int, ...]} in call order
    Yields a log: list of (name, args, values)."""
    log = []
    o_perm, o_int = torch.randperm, torch.randint
    script = script or {}
    it_perm = iter(script.get("perm", []))
    it_int = iter(script.get("ints", []))

    def randperm(n, *a, **kw):
        if mode == "real":
            out = o_perm(n, *a, **kw)
        elif mode == "lo":
            out = torch.arange(n)
        elif mode == "hi":
            out = torch.arange(n - 1, -1, -1)
        else:
            nxt = next(it_perm, None)
            out = torch.tensor(nxt, dtype=torch.int64) if nxt is not None and len(nxt) == n else o_perm(n)
        log.append(("randperm", n, out.tolist()))
        return out

    def randint(*a, **kw):
        low = kw.pop("low", None)
        high = kw.pop("high", None)
        size = kw.pop("size", None)
        a = list(a)
        if low is None and high is None:
            if len(a) >= 3 or (len(a) == 2 and size is not None):
                low, high = a[0], a[1]
                a = a[2:]
            else:
                low, high = 0, a[0]
                a = a[1:]
        elif high is None:
            high = a.pop(0)
        elif low is None:
            low = 0
        if size is None:
            size = a.pop(0)
        if mode == "real":
            out = o_int(low, high, size)
        elif mode == "lo":
            out = torch.full(tuple(size), low, dtype=torch.int64)
        elif mode == "hi":
            out = torch.full(tuple(size), high - 1, dtype=torch.int64)
        else:
            v = next(it_int, 0)
            out = torch.full(tuple(size), low + (v % max(1, high - low)), dtype=torch.int64)
        log.append(("randint", (low, high), out.flatten().tolist()))
        return out

    torch.randperm, torch.randint = randperm, randint
    try:
        yield log
    finally:
        torch.randperm, torch.randint = o_perm, o_int


# --------------------------------------------------------------------------- misc

def rows_equal(a: torch.Tensor, b: torch.Tensor) -> bool:
    return a.shape == b.shape and bool(torch.equal(a, b))


def ord_arg(o):
    return float("inf") if o == "inf" else o


def ord_tok(o) -> str:
    return "inf" if o == "inf" else str(o)
