import Proofs.Lemmas.Autograd
import Proofs.Lemmas.So3Exp
import Mathlib.Analysis.SpecialFunctions.Sqrt
import Mathlib.Analysis.SpecialFunctions.Trigonometric.Deriv
/-!
# C04 — `so3_Exp.backward` multiplies by the true derivative of `so3_Exp`

`so3Exp_tangent`: on the closed-form branch (`eps < ‖x‖`) a curve `x(t)` with velocity `d` is mapped by `so3_Exp` to a
curve of quaternions whose velocity is the left-perturbation velocity with tangent `so3_Jl(x)·d` — i.e. `so3_Jl` *is* the
left Jacobian of the exponential map, not merely a matrix satisfying some identities.
`so3Exp_tangent_zero`: the same at the zero vector (Taylor branch; `so3_Jl(0) = 1`, no division anywhere).
-/
set_option maxRecDepth 10000
set_option linter.unusedSimpArgs false
set_option linter.unusedVariables false
namespace PP.AD
open PP

/-- the closed-form branch of `so3_Exp` as a function of the three coordinates -/
theorem so3Exp_closed (eps : ℝ) (x : Vec3 ℝ) (h : eps < x.norm) :
    so3Exp eps x = Quat.mk' (x.smul (Real.sin (1/2 * x.norm) / x.norm)) (Real.cos (1/2 * x.norm)) := by
  unfold so3Exp
  simp only [lt_real, h, decide_true, if_true, sin_real, cos_real, q_real, Nat.cast_one, Nat.cast_ofNat]

/-- **`so3_Exp.backward` is exact on the closed-form branch**: if `x(t)` moves with velocity `d`, then
`so3Exp(x(t))` moves with the left-perturbation velocity of tangent `so3_Jl(x(0))·d`. -/
theorem so3Exp_tangent (eps : ℝ) (heps : 0 ≤ eps) (x : ℝ → DVec ℝ) (d0 d1 d2 : ℝ)
    (hx : LCurve 3 x [d0, d1, d2]) (hth : eps < (v3 (x 0)).norm) :
    LCurve 4 (fun t => expF .SO3 eps (x t))
      (liftG .SO3 (expF .SO3 eps (x 0)) ((JlMat .SO3 eps (x 0)).mulVec [d0, d1, d2])) := by
  have h0 := hx 0 (by norm_num); have h1 := hx 1 (by norm_num); have h2 := hx 2 (by norm_num)
  simp only [nth_cons_zero, nth_cons_succ] at h0 h1 h2
  set a := nth (x 0) 0 with ha
  set b := nth (x 0) 1 with hb
  set c := nth (x 0) 2 with hc
  -- squared norm and norm along the curve
  have hN : HasDerivAt (fun t => nth (x t) 0 * nth (x t) 0 + nth (x t) 1 * nth (x t) 1 + nth (x t) 2 * nth (x t) 2)
      (2 * (a * d0 + b * d1 + c * d2)) 0 := by
    have := ((h0.mul h0).add (h1.mul h1)).add (h2.mul h2)
    refine this.congr_deriv ?_
    simp only [← ha, ← hb, ← hc]; ring
  have hpos : 0 < (v3 (x 0)).norm := lt_of_le_of_lt heps hth
  have hnorm : (v3 (x 0)).norm = Real.sqrt (a * a + b * b + c * c) := by
    simp [Vec3.norm, Vec3.normSq, v3, ha, hb, hc]
  set θ := Real.sqrt (a * a + b * b + c * c) with hθ
  have hθpos : 0 < θ := by rw [← hnorm]; exact hpos
  have hNpos : a * a + b * b + c * c ≠ 0 := by
    intro h; rw [hθ, h, Real.sqrt_zero] at hθpos; exact lt_irrefl _ hθpos
  have hθ2 : θ * θ = a * a + b * b + c * c := Real.mul_self_sqrt (by nlinarith [mul_self_nonneg a, mul_self_nonneg b, mul_self_nonneg c])
  have hT : HasDerivAt (fun t => Real.sqrt (nth (x t) 0 * nth (x t) 0 + nth (x t) 1 * nth (x t) 1 + nth (x t) 2 * nth (x t) 2))
      ((a * d0 + b * d1 + c * d2) / θ) 0 := by
    have := hN.sqrt (by simpa [← ha, ← hb, ← hc] using hNpos)
    refine this.congr_deriv ?_
    simp only [← ha, ← hb, ← hc, ← hθ]; field_simp
  -- eventually the closed-form branch is taken
  have hcont : ContinuousAt (fun t => Real.sqrt (nth (x t) 0 * nth (x t) 0 + nth (x t) 1 * nth (x t) 1 + nth (x t) 2 * nth (x t) 2)) 0 :=
    hT.continuousAt
  have hev : ∀ᶠ t in nhds (0:ℝ), eps < (v3 (x t)).norm := by
    have : ∀ᶠ t in nhds (0:ℝ), eps < Real.sqrt (nth (x t) 0 * nth (x t) 0 + nth (x t) 1 * nth (x t) 1 + nth (x t) 2 * nth (x t) 2) := by
      apply hcont.eventually (lt_mem_nhds _)
      simpa [← ha, ← hb, ← hc, ← hθ, ← hnorm] using hth
    filter_upwards [this] with t ht
    simpa [Vec3.norm, Vec3.normSq, v3] using ht
  -- half-angle functions
  set dθ := (a * d0 + b * d1 + c * d2) / θ with hdθ
  have hS : HasDerivAt (fun t => Real.sin (1/2 * Real.sqrt (nth (x t) 0 * nth (x t) 0 + nth (x t) 1 * nth (x t) 1 + nth (x t) 2 * nth (x t) 2)))
      (Real.cos (1/2 * θ) * (1/2 * dθ)) 0 := by
    have := (hT.const_mul (1/2 : ℝ)).sin
    simpa [← ha, ← hb, ← hc, ← hθ] using this
  have hC : HasDerivAt (fun t => Real.cos (1/2 * Real.sqrt (nth (x t) 0 * nth (x t) 0 + nth (x t) 1 * nth (x t) 1 + nth (x t) 2 * nth (x t) 2)))
      (-Real.sin (1/2 * θ) * (1/2 * dθ)) 0 := by
    have := (hT.const_mul (1/2 : ℝ)).cos
    simpa [← ha, ← hb, ← hc, ← hθ] using this
  have hF : HasDerivAt (fun t => Real.sin (1/2 * Real.sqrt (nth (x t) 0 * nth (x t) 0 + nth (x t) 1 * nth (x t) 1 + nth (x t) 2 * nth (x t) 2))
        / Real.sqrt (nth (x t) 0 * nth (x t) 0 + nth (x t) 1 * nth (x t) 1 + nth (x t) 2 * nth (x t) 2))
      ((Real.cos (1/2 * θ) * (1/2 * dθ) * θ - Real.sin (1/2 * θ) * dθ) / θ ^ 2) 0 := by
    have := hS.fun_div hT (by simpa [← ha, ← hb, ← hc, ← hθ] using ne_of_gt hθpos)
    simpa [← ha, ← hb, ← hc, ← hθ] using this
  -- trigonometric relations
  have hsc := Real.sin_sq_add_cos_sq (1/2 * θ)
  have hsin : Real.sin θ = 2 * Real.sin (1/2 * θ) * Real.cos (1/2 * θ) := by
    have := Real.sin_two_mul (1/2 * θ); rwa [show 2 * (1/2 * θ) = θ by ring] at this
  have hcos : Real.cos θ = 1 - 2 * Real.sin (1/2 * θ) ^ 2 := by
    have := Real.cos_two_mul (1/2 * θ); rw [show 2 * (1/2 * θ) = θ by ring] at this
    rw [this]; linarith [hsc]
  -- the four components on the closed-form branch
  have hnormt : ∀ t, (v3 (x t)).norm = Real.sqrt (nth (x t) 0 * nth (x t) 0 + nth (x t) 1 * nth (x t) 1 + nth (x t) 2 * nth (x t) 2) := by
    intro t; simp [Vec3.norm, Vec3.normSq, v3]
  have hval : expF .SO3 eps (x 0) = [Real.sin (1/2 * θ) / θ * a, Real.sin (1/2 * θ) / θ * b, Real.sin (1/2 * θ) / θ * c, Real.cos (1/2 * θ)] := by
    simp only [expF, so3Exp_closed eps _ hth, hnorm]
    simp [Quat.mk', Vec3.smul, Quat.toList, v3, ← ha, ← hb, ← hc]
  intro i hi
  interval_cases i
  · refine HasDerivAt.congr_of_eventuallyEq (f := fun t => Real.sin (1/2 * Real.sqrt (nth (x t) 0 * nth (x t) 0 + nth (x t) 1 * nth (x t) 1 + nth (x t) 2 * nth (x t) 2))
        / Real.sqrt (nth (x t) 0 * nth (x t) 0 + nth (x t) 1 * nth (x t) 1 + nth (x t) 2 * nth (x t) 2) * nth (x t) 0) ?_ ?_
    · refine (hF.mul h0).congr_deriv ?_
      rw [hval]
      try simp only [← ha, ← hb, ← hc, ← hθ]
      fwd_unfold; lie_unfold
      simp only [JlMat, so3Jl, so3JlCoef, lt_real, hth, decide_true, if_true, polyK, Mat3.toRows, Vec3.toList, DMat.mulVec,
        DVec.dot, DVec.sum, List.map, List.zipWith, List.foldl, nth_cons_zero, nth_cons_succ, hnorm, sin_real, cos_real,
        v3, ← ha, ← hb, ← hc, ← hθ]
      have hn' : ({ x := a, y := b, z := c } : Vec3 ℝ).norm = θ := by
        rw [← hnorm]; simp [v3, ha, hb, hc]
      have hth' : eps < θ := by rw [← hnorm]; exact hth
      simp only [hn', hth', decide_true, if_true]
      lie_unfold
      rw [hsin, hcos, hdθ]
      have hθne : θ ≠ 0 := ne_of_gt hθpos
      field_simp
      have hsc' := Real.sin_sq_add_cos_sq (θ / 2)
      have hθ2' : θ ^ 2 = a ^ 2 + b ^ 2 + c ^ 2 := by rw [pow_two, hθ2]; ring
      clear hsc hsin hcos hF hS hC hT hN hcont hev hval hnormt hx h0 h1 h2 hth hnorm hn' hdθ
      grind
    · filter_upwards [hev] with t ht
      simp only [expF, so3Exp_closed eps _ ht, hnormt t]
      simp [Quat.mk', Vec3.smul, Quat.toList, v3]
  · refine HasDerivAt.congr_of_eventuallyEq (f := fun t => Real.sin (1/2 * Real.sqrt (nth (x t) 0 * nth (x t) 0 + nth (x t) 1 * nth (x t) 1 + nth (x t) 2 * nth (x t) 2))
        / Real.sqrt (nth (x t) 0 * nth (x t) 0 + nth (x t) 1 * nth (x t) 1 + nth (x t) 2 * nth (x t) 2) * nth (x t) 1) ?_ ?_
    · refine (hF.mul h1).congr_deriv ?_
      rw [hval]
      try simp only [← ha, ← hb, ← hc, ← hθ]
      fwd_unfold; lie_unfold
      simp only [JlMat, so3Jl, so3JlCoef, lt_real, hth, decide_true, if_true, polyK, Mat3.toRows, Vec3.toList, DMat.mulVec,
        DVec.dot, DVec.sum, List.map, List.zipWith, List.foldl, nth_cons_zero, nth_cons_succ, hnorm, sin_real, cos_real,
        v3, ← ha, ← hb, ← hc, ← hθ]
      have hn' : ({ x := a, y := b, z := c } : Vec3 ℝ).norm = θ := by
        rw [← hnorm]; simp [v3, ha, hb, hc]
      have hth' : eps < θ := by rw [← hnorm]; exact hth
      simp only [hn', hth', decide_true, if_true]
      lie_unfold
      rw [hsin, hcos, hdθ]
      have hθne : θ ≠ 0 := ne_of_gt hθpos
      field_simp
      have hsc' := Real.sin_sq_add_cos_sq (θ / 2)
      have hθ2' : θ ^ 2 = a ^ 2 + b ^ 2 + c ^ 2 := by rw [pow_two, hθ2]; ring
      clear hsc hsin hcos hF hS hC hT hN hcont hev hval hnormt hx h0 h1 h2 hth hnorm hn' hdθ
      grind
    · filter_upwards [hev] with t ht
      simp only [expF, so3Exp_closed eps _ ht, hnormt t]
      simp [Quat.mk', Vec3.smul, Quat.toList, v3]
  · refine HasDerivAt.congr_of_eventuallyEq (f := fun t => Real.sin (1/2 * Real.sqrt (nth (x t) 0 * nth (x t) 0 + nth (x t) 1 * nth (x t) 1 + nth (x t) 2 * nth (x t) 2))
        / Real.sqrt (nth (x t) 0 * nth (x t) 0 + nth (x t) 1 * nth (x t) 1 + nth (x t) 2 * nth (x t) 2) * nth (x t) 2) ?_ ?_
    · refine (hF.mul h2).congr_deriv ?_
      rw [hval]
      try simp only [← ha, ← hb, ← hc, ← hθ]
      fwd_unfold; lie_unfold
      simp only [JlMat, so3Jl, so3JlCoef, lt_real, hth, decide_true, if_true, polyK, Mat3.toRows, Vec3.toList, DMat.mulVec,
        DVec.dot, DVec.sum, List.map, List.zipWith, List.foldl, nth_cons_zero, nth_cons_succ, hnorm, sin_real, cos_real,
        v3, ← ha, ← hb, ← hc, ← hθ]
      have hn' : ({ x := a, y := b, z := c } : Vec3 ℝ).norm = θ := by
        rw [← hnorm]; simp [v3, ha, hb, hc]
      have hth' : eps < θ := by rw [← hnorm]; exact hth
      simp only [hn', hth', decide_true, if_true]
      lie_unfold
      rw [hsin, hcos, hdθ]
      have hθne : θ ≠ 0 := ne_of_gt hθpos
      field_simp
      have hsc' := Real.sin_sq_add_cos_sq (θ / 2)
      have hθ2' : θ ^ 2 = a ^ 2 + b ^ 2 + c ^ 2 := by rw [pow_two, hθ2]; ring
      clear hsc hsin hcos hF hS hC hT hN hcont hev hval hnormt hx h0 h1 h2 hth hnorm hn' hdθ
      grind
    · filter_upwards [hev] with t ht
      simp only [expF, so3Exp_closed eps _ ht, hnormt t]
      simp [Quat.mk', Vec3.smul, Quat.toList, v3]
  · refine HasDerivAt.congr_of_eventuallyEq (f := fun t => Real.cos (1/2 * Real.sqrt (nth (x t) 0 * nth (x t) 0 + nth (x t) 1 * nth (x t) 1 + nth (x t) 2 * nth (x t) 2))) ?_ ?_
    · refine hC.congr_deriv ?_
      rw [hval]
      try simp only [← ha, ← hb, ← hc, ← hθ]
      fwd_unfold; lie_unfold
      simp only [JlMat, so3Jl, so3JlCoef, lt_real, hth, decide_true, if_true, polyK, Mat3.toRows, Vec3.toList, DMat.mulVec,
        DVec.dot, DVec.sum, List.map, List.zipWith, List.foldl, nth_cons_zero, nth_cons_succ, hnorm, sin_real, cos_real,
        v3, ← ha, ← hb, ← hc, ← hθ]
      have hn' : ({ x := a, y := b, z := c } : Vec3 ℝ).norm = θ := by
        rw [← hnorm]; simp [v3, ha, hb, hc]
      have hth' : eps < θ := by rw [← hnorm]; exact hth
      simp only [hn', hth', decide_true, if_true]
      lie_unfold
      rw [hsin, hcos, hdθ]
      have hθne : θ ≠ 0 := ne_of_gt hθpos
      field_simp
      have hsc' := Real.sin_sq_add_cos_sq (θ / 2)
      have hθ2' : θ ^ 2 = a ^ 2 + b ^ 2 + c ^ 2 := by rw [pow_two, hθ2]; ring
      clear hsc hsin hcos hF hS hC hT hN hcont hev hval hnormt hx h0 h1 h2 hth hnorm hn' hdθ
      grind
    · filter_upwards [hev] with t ht
      simp only [expF, so3Exp_closed eps _ ht, hnormt t]
      simp [Quat.mk', Vec3.smul, Quat.toList, v3]
/-- the Taylor branch of `so3_Exp` is a polynomial in the coordinates -/
theorem so3Exp_taylor (eps : ℝ) (x : Vec3 ℝ) (h : ¬ eps < x.norm) :
    so3Exp eps x = Quat.mk' (x.smul (1/2 - 1/48 * x.normSq + 1/3840 * (x.normSq * x.normSq)))
      (1 - 1/8 * x.normSq + 1/384 * (x.normSq * x.normSq)) := by
  unfold so3Exp
  simp only [lt_real, h, decide_false, q_real, k_real, Nat.cast_one, Nat.cast_ofNat, Bool.false_eq_true, if_false,
    Vec3.norm_sq]

/-- **`so3_Exp.backward` at the zero vector** (identity element of the group): no NaN, and the gradient is exact.
A curve through `0` with velocity `d` is mapped to a curve through the identity with tangent `so3_Jl(0)·d = d`. -/
theorem so3Exp_tangent_zero (eps : ℝ) (heps : 0 < eps) (x : ℝ → DVec ℝ) (d0 d1 d2 : ℝ)
    (hx : LCurve 3 x [d0, d1, d2]) (hz : v3 (x 0) = ⟨0, 0, 0⟩) :
    LCurve 4 (fun t => expF .SO3 eps (x t))
      (liftG .SO3 (expF .SO3 eps (x 0)) ((JlMat .SO3 eps (x 0)).mulVec [d0, d1, d2])) := by
  have h0 := hx 0 (by norm_num); have h1 := hx 1 (by norm_num); have h2 := hx 2 (by norm_num)
  simp only [nth_cons_zero, nth_cons_succ] at h0 h1 h2
  have z0 : nth (x 0) 0 = 0 := by have := congrArg Vec3.x hz; simpa [v3] using this
  have z1 : nth (x 0) 1 = 0 := by have := congrArg Vec3.y hz; simpa [v3] using this
  have z2 : nth (x 0) 2 = 0 := by have := congrArg Vec3.z hz; simpa [v3] using this
  have e0 := h0.differentiableAt; have e1 := h1.differentiableAt; have e2 := h2.differentiableAt
  -- the norm is continuous and vanishes at 0: eventually the Taylor branch is taken
  have hNc : ContinuousAt (fun t => Real.sqrt (nth (x t) 0 * nth (x t) 0 + nth (x t) 1 * nth (x t) 1 + nth (x t) 2 * nth (x t) 2)) 0 := by
    have c0 := h0.continuousAt; have c1 := h1.continuousAt; have c2 := h2.continuousAt
    exact (((c0.mul c0).add (c1.mul c1)).add (c2.mul c2)).sqrt
  have hev : ∀ᶠ t in nhds (0:ℝ), ¬ eps < (v3 (x t)).norm := by
    have : ∀ᶠ t in nhds (0:ℝ), Real.sqrt (nth (x t) 0 * nth (x t) 0 + nth (x t) 1 * nth (x t) 1 + nth (x t) 2 * nth (x t) 2) < eps := by
      apply hNc.eventually (gt_mem_nhds _)
      simp [z0, z1, z2, heps]
    filter_upwards [this] with t ht
    have : (v3 (x t)).norm = Real.sqrt (nth (x t) 0 * nth (x t) 0 + nth (x t) 1 * nth (x t) 1 + nth (x t) 2 * nth (x t) 2) := by
      simp [Vec3.norm, Vec3.normSq, v3]
    rw [this]; exact not_lt.mpr (le_of_lt ht)
  have hnz0 : ¬ eps < (v3 (x 0)).norm := by
    rw [hz]; simp [Vec3.norm, Vec3.normSq]; exact le_of_lt heps
  have hnz := hnz0
  have hval : expF .SO3 eps (x 0) = [0, 0, 0, 1] := by
    rw [hz] at hnz
    simp only [expF, hz, so3Exp_taylor eps _ hnz]
    simp [Quat.mk', Vec3.smul, Quat.toList, Vec3.normSq]
  have key : ∀ i, i < 4 → HasDerivAt (fun t => nth ((Quat.mk' ((v3 (x t)).smul (1/2 - 1/48 * (v3 (x t)).normSq + 1/3840 * ((v3 (x t)).normSq * (v3 (x t)).normSq)))
        (1 - 1/8 * (v3 (x t)).normSq + 1/384 * ((v3 (x t)).normSq * (v3 (x t)).normSq))).toList) i)
      (nth (liftG .SO3 (expF .SO3 eps (x 0)) ((JlMat .SO3 eps (x 0)).mulVec [d0, d1, d2])) i) 0 := by
    intro i hi
    interval_cases i
    all_goals
      simp only [Quat.mk', Vec3.smul, Vec3.normSq, Quat.toList, v3, nth_cons_zero, nth_cons_succ]
      refine HasDerivAt.congr_deriv (DifferentiableAt.hasDerivAt (by fun_prop)) ?_
      simp (disch := fun_prop) only [deriv_fun_add, deriv_fun_sub, deriv_fun_mul, deriv_const, deriv_const_mul_field,
        h0.deriv, h1.deriv, h2.deriv]
      rw [hval]
      simp only [JlMat, so3Jl, so3JlCoef, lt_real, hnz0, decide_false, polyK, Bool.false_eq_true, if_false, hz]
      fwd_unfold
      lie_unfold
      simp [z0, z1, z2, Vec3.norm, Vec3.normSq]
      try ring
  intro i hi
  refine (key i hi).congr_of_eventuallyEq ?_
  filter_upwards [hev] with t ht
  simp only [expF, so3Exp_taylor eps _ ht]
/-- `so3_Jl(x) · so3_Jl_inv(x) = 1` on the closed-form branch (needs `sin(θ/2) ≠ 0`, i.e. `θ` not a multiple of `2π`) -/
theorem so3Jl_mul_so3JlInv (eps : ℝ) (x : Vec3 ℝ) (h : eps < x.norm) (h0 : 0 ≤ eps) (hs : Real.sin (1/2 * x.norm) ≠ 0) :
    (so3Jl eps x).mul (so3JlInv eps x) = Mat3.one := by
  have hpos : 0 < x.norm := lt_of_le_of_lt h0 h
  have hne : x.norm ≠ 0 := ne_of_gt hpos
  set θ := x.norm with hθ
  have hθ2 : θ * θ = x.x * x.x + x.y * x.y + x.z * x.z := Vec3.norm_sq x
  have hsc := Real.sin_sq_add_cos_sq (1/2 * θ)
  have hsin : Real.sin θ = 2 * Real.sin (1/2 * θ) * Real.cos (1/2 * θ) := by
    have := Real.sin_two_mul (1/2 * θ); rwa [show 2 * (1/2 * θ) = θ by ring] at this
  have hcos : Real.cos θ = 1 - 2 * Real.sin (1/2 * θ) ^ 2 := by
    have := Real.cos_two_mul (1/2 * θ); rw [show 2 * (1/2 * θ) = θ by ring] at this
    rw [this]; linarith [hsc]
  unfold so3Jl so3JlInv so3JlCoef so3JlInvCoef polyK
  simp only [← hθ, lt_real, h, decide_true, if_true, sin_real, cos_real]
  ext <;> lie_unfold <;> rw [hsin, hcos] <;> field_simp <;>
    (have hθ2' : θ ^ 2 = x.x ^ 2 + x.y ^ 2 + x.z ^ 2 := by rw [pow_two, hθ2]; ring
     have hsc' : Real.sin (θ / 2) ^ 2 + Real.cos (θ / 2) ^ 2 = 1 := Real.sin_sq_add_cos_sq (θ / 2)
     grind)
end PP.AD
