#!/venv/bin/python
"""Entry point of every registered check.

    check.py --property Cxx --tier quick|thorough        run the check, write evidence/Cxx.json
    check.py --property Cxx --replay replays/….json      re-run one recorded case on the current tree
    check.py selftest                                    BigF arithmetic against mpmath

exit 0: property held on everything explored (KNOWN-FINDING lines allowed)
exit 1: `VIOLATION property=Cxx replay=<path>` (… ` no-failing-input-found` when only a proof
        obligation / the correspondence broke and no concrete failing input was found)
exit 2: infrastructure problem (tool crash, time-out, contract stand-in failure) — never a verdict
"""
from __future__ import annotations

import argparse
import importlib
import json
import os
import sys
import time
import traceback
from pathlib import Path

VERIF = Path(__file__).resolve().parent
sys.path.insert(0, str(VERIF))
os.environ.setdefault("PYPOSE_VERIF", "1")
os.environ.setdefault("OMP_NUM_THREADS", "1")   # one intra-op thread: with several threads torch is ~30x slower on small ops when the box is busy
os.environ.setdefault("MKL_NUM_THREADS", "1")

from harness import common  # noqa: E402
from harness.common import Ctx, InfraError, write_json  # noqa: E402

BASE_TRUSTED = [
    "Lean 4.33 kernel; axioms propext, Classical.choice, Quot.sound only (audited per theorem with #print axioms)",
    "Mathlib v4.33 as compiled on this image (single modules imported by Proofs/*)",
    "hand-written Lean model (lean/Pose/Model/*) tied to /repo only by this run's correspondence check (sampling)",
    "BigF 192-bit software float (lean/Pose/BigF.lean): executable instance of the same polymorphic definitions the theorems are about",
    "Python harness (harness/*.py, check.py), torch/LAPACK kernels treated as contracts",
]


def setup_repo_path():
    repo = str(common.REPO)
    if repo not in sys.path:
        sys.path.insert(0, repo)


def replay_path(prop: str, seed: int, n: int) -> Path:
    return VERIF / "replays" / f"{prop}_seed{seed}_{n}.json"


def main() -> int:
    ap = argparse.ArgumentParser()
    ap.add_argument("cmd", nargs="?")
    ap.add_argument("--property")
    ap.add_argument("--tier", default=os.environ.get("VERIF_TIER", "quick"))
    ap.add_argument("--replay")
    ap.add_argument("--no-lean", action="store_true", help="(development only) skip build/audit")
    a = ap.parse_args()
    if a.cmd == "selftest":
        from harness import selftest
        return selftest.main()
    prop = a.property
    seed = int(os.environ.get("VERIF_SEED", "0"))
    tier = a.tier if a.tier in ("quick", "thorough") else "quick"
    setup_repo_path()
    t0 = time.time()
    try:
        mod = importlib.import_module(f"harness.{prop.lower()}")
    except ModuleNotFoundError as e:
        print(f"no harness for {prop}: {e}", file=sys.stderr)
        return common.EXIT_INFRA
    ctx = Ctx(prop, tier, seed)

    if a.replay:
        case = json.loads(Path(a.replay).read_text())
        try:
            if case.get("case", {}).get("stream") == "persistent":
                # shared persistent-object probe (util_lie.persistent_probe): deterministic, re-run the corpus part
                mod.run(ctx)
                stale = [f for f in ctx.failures if f["what"].startswith("stale")]
                for f in stale[:5]:
                    print("  fails:", f["what"])
                ok = not stale
            else:
                ok = mod.replay(ctx, case)
        except InfraError as e:
            print(f"infrastructure error: {e}", file=sys.stderr)
            return common.EXIT_INFRA
        print("replay:", "property holds on this case" if ok else "property FAILS on this case")
        return common.EXIT_OK if ok else common.EXIT_VIOLATION

    # 1-2. proof obligations: build + axiom audit
    try:
        if a.no_lean:
            aud = {"ok": True, "obligations": 0, "discharged": 0, "axioms": {}, "failures": [], "checker_cmd": "skipped", "theorems": []}
        else:
            aud = common.audit(prop, thorough=(tier == "thorough"))
    except Exception as e:  # tool crash
        print(f"infrastructure error in lean audit: {e}", file=sys.stderr)
        return common.EXIT_INFRA
    if not aud["ok"] and not common.driver_bin(prop).exists():
        print("infrastructure error: driver not built and build failed:\n" + "\n".join(aud["failures"]), file=sys.stderr)
        return common.EXIT_INFRA

    # 3. correspondence (+ the property's own oracles on the real code)
    try:
        mod.run(ctx)
    except InfraError as e:
        print(f"infrastructure error: {e}", file=sys.stderr)
        return common.EXIT_INFRA
    except Exception as e:
        tb = traceback.format_exc()
        if "/pypose/" in tb:
            ctx.disagree("implementation-crash", {"exception": repr(e)}, tb[-1500:])
        elif any(m in tb for m in ("non-finite on the wire", "cannot convert NaN to integer ratio", "cannot convert Infinity to integer ratio",
                                   "cannot convert float NaN to integer", "cannot convert float infinity to integer")):
            # a NaN/inf computed by the implementation was about to be handed to the model: the correspondence
            # no longer checks (the harnesses send finite values only on a tree where the property holds)
            ctx.disagree("non-finite-implementation-value", {"exception": repr(e)}, tb[-1500:])
        else:
            print("infrastructure error (harness bug):\n" + tb, file=sys.stderr)
            return common.EXIT_INFRA

    # 4. only if something broke: search for a concrete failing input on the real code
    broken = (not aud["ok"]) or bool(ctx.disagreements)
    if broken and not ctx.failures and hasattr(mod, "search"):
        try:
            mod.search(ctx)
        except InfraError as e:
            print(f"infrastructure error: {e}", file=sys.stderr)
            return common.EXIT_INFRA
        except Exception:
            ctx.notes.append("search crashed: " + traceback.format_exc()[-800:])

    lines, rc, nrep = [], common.EXIT_OK, 0
    for kh in ctx.known_hits[:1] + [k for i, k in enumerate(ctx.known_hits[1:]) if k["finding"] not in {x["finding"] for x in ctx.known_hits[:i + 1]}]:
        lines.append(f"KNOWN-FINDING: property={prop} {kh['finding']}: {kh['what']}")
    if ctx.failures:
        rc = common.EXIT_VIOLATION
        seen = set()
        for f in ctx.failures:
            key = f["what"].split(":")[0]
            if key in seen or nrep >= 5:
                continue
            seen.add(key)
            rp = replay_path(prop, seed, nrep)
            write_json(rp, {"property": prop, "kind": "failing-input", "what": f["what"], "case": f["case"],
                            "seed": seed, "tier": tier})
            lines.append(f"VIOLATION property={prop} replay={rp.relative_to(VERIF)}")
            nrep += 1
    elif broken:
        rc = common.EXIT_VIOLATION
        rp = replay_path(prop, seed, 0)
        write_json(rp, {"property": prop, "kind": "no-failing-input-found",
                        "unchecked_theorems_or_build": aud["failures"],
                        "broken_correspondence": ctx.disagreements[:10],
                        "seed": seed, "tier": tier})
        lines.append(f"VIOLATION property={prop} replay={rp.relative_to(VERIF)} no-failing-input-found")

    # 5. evidence
    meta = getattr(mod, "META", {})
    cov = {
        "obligations": aud["obligations"], "discharged": aud["discharged"],
        "checker_cmd": aud["checker_cmd"],
        "trusted_base": BASE_TRUSTED + meta.get("trusted", []),
        "theorems": aud.get("theorems", []),
        "axioms_used": sorted({x for v in aud["axioms"].values() for x in v}),
        "proof_failures": aud["failures"],
        "evaluations": ctx.evaluations,
        "distinct_nontrivial": len(ctx.sigs),
        "rule": meta.get("rule", ""),
        "samples": ctx.samples,
        "input_distribution": dict(sorted(ctx.hist.items())),
        "model_driver_lines": ctx.driver.lines,
        "disagreements": len(ctx.disagreements),
        "known_findings_hit": sorted({k["finding"] for k in ctx.known_hits}),
        "known_findings_cases": len(ctx.known_hits),
        "partial": meta.get("partial", []),
        "notes": ctx.notes,
    }
    if "leanchecker" in aud:
        cov["leanchecker"] = aud["leanchecker"]
    ev = {"property_id": prop, "tier": tier, "seed": seed, "level": "proof", "coverage": cov,
          "assumptions": meta.get("assumptions", []), "wall_s": round(time.time() - t0, 2),
          "violations": len(ctx.failures) + (1 if (broken and not ctx.failures) else 0)}
    if not a.no_lean:   # development runs without the proof audit never overwrite the evidence record
        write_json(VERIF / "evidence" / f"{prop}.json", ev)
    for ln in lines:
        print(ln)
    print(f"{prop} {tier} seed={seed}: obligations {aud['discharged']}/{aud['obligations']}, "
          f"{ctx.evaluations} cases ({len(ctx.sigs)} distinct non-trivial), "
          f"{len(ctx.disagreements)} disagreements, {len(ctx.failures)} failures, "
          f"{len(ctx.known_hits)} known-finding cases, {time.time() - t0:.1f}s")
    if aud["failures"]:
        print("proof/audit problems:", *aud["failures"], sep="\n  ")
    for d in ctx.disagreements[:5]:
        print("disagreement:", d["stream"], d["detail"][:300])
    return rc


if __name__ == "__main__":
    sys.exit(main())
