import Pose.Wire
import Pose.Model.Align
import Pose.Model.Pnp
/-!
# Driver ops for C17 (svdtf / svdstf / ICP)

The SVD kernel is a contract parameter of the model; here it is instantiated by a one-sided Jacobi
iteration over `BigF` whose output is **re-checked against the contract on every call**
(`U Uᵀ = 1`, `Vh Vhᵀ = 1`, `U diag(S) Vh = M`, `S` sorted, non-negative): a violation is the reply
`err contract:…` (infrastructure error in the harness, never a verdict).
`det` is the 3×3 formula, the nearest neighbour is `Align.nnFirst` (first minimiser; its contract —
it attains the minimum — is re-checked too, and the margin to the runner-up is reported so that the harness
can tell a genuine disagreement from a near-tie).
-/
namespace PP.Driver
open PP Wire Align

namespace C17

abbrev B := BigF

instance : Inhabited (Vec3 B) := ⟨Vec3.zero⟩

def v3 (l : List B) (o : Nat := 0) : Vec3 B := ⟨l.getD o default, l.getD (o+1) default, l.getD (o+2) default⟩
def qt (l : List B) (o : Nat := 0) : Quat B :=
  ⟨l.getD o default, l.getD (o+1) default, l.getD (o+2) default, l.getD (o+3) default⟩

def two (n : Int) : B := ⟨1, n⟩

/-! ## Jacobi SVD stand-in -/

/-- rotate columns `p`,`q` of a matrix given by its three columns -/
def rotCols (c s : B) (a b : Vec3 B) : Vec3 B × Vec3 B :=
  ((a.smul c).sub (b.smul s), (a.smul s).add (b.smul c))

structure JState where
  a0 : Vec3 B
  a1 : Vec3 B
  a2 : Vec3 B
  v0 : Vec3 B
  v1 : Vec3 B
  v2 : Vec3 B
  moved : Bool

def getA (s : JState) (i : Nat) : Vec3 B := match i with | 0 => s.a0 | 1 => s.a1 | _ => s.a2
def getV (s : JState) (i : Nat) : Vec3 B := match i with | 0 => s.v0 | 1 => s.v1 | _ => s.v2
def setAV (s : JState) (i : Nat) (a v : Vec3 B) : JState :=
  match i with
  | 0 => { s with a0 := a, v0 := v }
  | 1 => { s with a1 := a, v1 := v }
  | _ => { s with a2 := a, v2 := v }

/-- one Hestenes rotation making columns `p`,`q` of `A` orthogonal -/
def jrot (s : JState) (p q : Nat) : JState :=
  let ap := getA s p; let aq := getA s q
  let al := ap.dot ap; let be := aq.dot aq; let ga := ap.dot aq
  -- already orthogonal to 2^-185 relative?
  if BigF.le (ga * ga) (two (-370) * (al * be)) then s else
  let ze := (be - al) / (two 1 * ga)
  let sgn : B := if BigF.isNeg ze then BigF.neg BigF.one else BigF.one
  let t := sgn / (BigF.abs ze + BigF.sqrt (BigF.one + ze * ze))
  let c := BigF.one / BigF.sqrt (BigF.one + t * t)
  let sn := c * t
  let (ap', aq') := rotCols c sn ap aq
  let (vp', vq') := rotCols c sn (getV s p) (getV s q)
  { (setAV (setAV s p ap' vp') q aq' vq') with moved := true }

def jsweeps : Nat → JState → JState
  | 0, s => s
  | n + 1, s =>
    let s1 := jrot (jrot (jrot { s with moved := false } 0 1) 0 2) 1 2
    if s1.moved then jsweeps n s1 else s1

def swapIf (s : JState) (i j : Nat) : JState :=
  let ai := getA s i; let aj := getA s j
  if BigF.lt (ai.dot ai) (aj.dot aj) then
    let vi := getV s i; let vj := getV s j
    setAV (setAV s i aj vj) j ai vi
  else s

def normalize (v : Vec3 B) : Vec3 B := v.smul (BigF.one / v.norm)

/-- some unit vector orthogonal to the unit vector `u` -/
def anyOrth (u : Vec3 B) : Vec3 B :=
  let ax := BigF.abs u.x; let ay := BigF.abs u.y; let az := BigF.abs u.z
  let e : Vec3 B := if BigF.le ax ay && BigF.le ax az then Vec3.e0 else if BigF.le ay az then Vec3.e1 else Vec3.e2
  normalize (e.sub (u.smul (e.dot u)))

/-- Jacobi SVD of a 3×3 matrix: `M = U diag(S) Vh` -/
def jacobiSVD (M : Mat3 B) : SVD3 B :=
  let s0 : JState := ⟨M.c0, M.c1, M.c2, Vec3.e0, Vec3.e1, Vec3.e2, false⟩
  let s := jsweeps 60 s0
  let s := swapIf (swapIf (swapIf s 0 1) 1 2) 0 1
  let n0 := s.a0.norm; let n1 := s.a1.norm; let n2 := s.a2.norm
  let thr := two (-120) * n0
  let V := Mat3.ofCols s.v0 s.v1 s.v2
  if BigF.isZero n0 then ⟨Mat3.one, ⟨n0, n1, n2⟩, V.transpose⟩ else
  let u0 := s.a0.smul (BigF.one / n0)
  let u1 := if BigF.le n1 thr then anyOrth u0 else s.a1.smul (BigF.one / n1)
  let u2c := Vec3.cross u0 u1
  let u2 := if BigF.le n2 thr then u2c else s.a2.smul (BigF.one / n2)
  ⟨Mat3.ofCols u0 u1 u2, ⟨n0, n1, n2⟩, V.transpose⟩

def maxAbs (xs : List B) : B := xs.foldl (fun m x => if BigF.lt m (BigF.abs x) then BigF.abs x else m) BigF.zero

/-- the SVD contract, numerically: returns `none` if satisfied to `2^-100` (relative to `‖M‖∞`) -/
def svdContract (M : Mat3 B) (d : SVD3 B) : Option String :=
  let tol := two (-100)
  let eU := maxAbs ((d.U.mul d.U.transpose).sub Mat3.one).toList
  let eV := maxAbs ((d.Vh.mul d.Vh.transpose).sub Mat3.one).toList
  let rec_ := ((d.U.mul (diag3 d.S)).mul d.Vh).sub M
  let eM := maxAbs rec_.toList
  let nM := maxAbs M.toList
  if BigF.lt tol eU then some "contract:U-not-orthogonal"
  else if BigF.lt tol eV then some "contract:V-not-orthogonal"
  else if BigF.lt (tol * nM) eM then some "contract:USVh-ne-M"
  else if BigF.lt d.S.x d.S.y || BigF.lt d.S.y d.S.z || BigF.isNeg d.S.z then some "contract:S-not-sorted"
  else none

def points (xs : List B) (n : Nat) (o : Nat) : Cloud B := (List.range n).map fun i => v3 xs (o + 3 * i)

def mkPairs (xs : List B) (n : Nat) (o : Nat) : Pairs B := (points xs n o).zip (points xs n (o + 3 * n))

def detB (M : Mat3 B) : B := M.det

def atolB : B := BigF.ofNat 1 / BigF.ofNat 100000

/-- the SVD the model will ask for in `svdtf` (for the contract check) -/
def svdtfM (ps : Pairs B) : Mat3 B := crossCov (centered ps)
def svdstfH (ps : Pairs B) : Mat3 B := Mat3.smul (k 1 / k ps.length) (crossCov (centered ps))

/-! ## nearest neighbour contract -/

/-- squared margin between the best and the best *different* target point, relative to the squared extent -/
def nnMargin (tgt : Cloud B) (p : Vec3 B) : B :=
  let j := nnFirst tgt p
  let best := tgt.getD j Vec3.zero
  let d0 := (best.sub p).normSq
  tgt.foldl (fun m q => if BigF.isZero (q.sub best).normSq then m else
    let g := (q.sub p).normSq - d0
    if BigF.lt g m then g else m) (BigF.ofNat 1000000 * (BigF.one + d0))

def nnOk (tgt : Cloud B) (p : Vec3 B) : Bool :=
  let j := nnFirst tgt p
  j < tgt.length && tgt.all fun q => BigF.le ((tgt.getD j Vec3.zero).sub p).normSq (q.sub p).normSq

structure IcpTrace where
  cur : Cloud B
  errs : List B      -- mean NN distance before each pass (oldest first)
  sscd : List B      -- sum of squared NN distances before each pass, then after the last
  margin : B
  ok : Bool
  svdBad : Bool
  cond : B          -- min over the alignment problems of (s₂ + det·s₃)/s₁ : uniqueness margin of the optimum

def svdBad (ps : Pairs B) : Bool := (svdContract (svdtfM ps) (jacobiSVD (svdtfM ps))).isSome

/-- `(s₂ + det(U Vh)·s₃)/s₁` of the alignment problem (0 if `s₁ = 0`) -/
def alignCond (ps : Pairs B) : B :=
  let d := jacobiSVD (svdtfM ps)
  if BigF.isZero d.S.x then BigF.zero else (d.S.y + detB (d.U.mul d.Vh) * d.S.z) / d.S.x

def minB (a b : B) : B := if BigF.lt b a then b else a

def icpTrace (align : Pairs B → SE3 B) (tgt : Cloud B) : Nat → IcpTrace → IcpTrace
  | 0, t => { t with sscd := t.sscd ++ [sscd nnFirst tgt t.cur] }
  | n + 1, t =>
    let m := t.cur.foldl (fun m p => let g := nnMargin tgt p; if BigF.lt g m then g else m) t.margin
    let ok := t.ok && t.cur.all (nnOk tgt)
    let e := icpError nnFirst tgt t.cur
    let s := sscd nnFirst tgt t.cur
    let bad := t.svdBad || svdBad (matchNN nnFirst tgt t.cur)
    let c := minB t.cond (alignCond (matchNN nnFirst tgt t.cur))
    icpTrace align tgt n ⟨icpStep align nnFirst tgt t.cur, t.errs ++ [e], t.sscd ++ [s], m, ok, bad, c⟩

end C17

open C17 in
def opsC17 : List (String × Handler) := [
  -- c17.svd  m00 … m22            → U(9) S(3) Vh(9)      (the stand-in alone, contract-checked)
  ("c17.svd", numeric fun xs =>
      let M : Mat3 B := ⟨v3 xs 0, v3 xs 3, v3 xs 6⟩
      let d := jacobiSVD M
      match svdContract M d with
      | some e => .error e
      | none => .ok (d.U.toList ++ d.S.toList ++ d.Vh.toList)),
  -- c17.svdtf N  src(3N) tgt(3N)  → t(3) q(4) R(9) S(3) det(U Vh)(1) cost(1)
  ("c17.svdtf", fun ts => do
      match ts with
      | n :: rest =>
        let n ← nat n
        let xs ← nums rest
        if xs.length != 6 * n then throw "arity"
        let ps := mkPairs xs n 0
        let M := svdtfM ps
        let d := jacobiSVD M
        match svdContract M d with
        | some e => throw e
        | none =>
          let svd := fun (_ : Mat3 B) => d
          let Rt := svdtfMat svd detB ps
          let X := svdtf svd detB atolB ps
          let c := cost (SE3Act X) ps
          return fmt (X.toList ++ Rt.1.toList ++ d.S.toList ++ [detB (d.U.mul d.Vh), c])
      | _ => throw "arity"),
  -- c17.svdstf withScale N src tgt → t(3) q(4) s(1) R(9) S(3) det(1) cost(1) scaleRaw(1) | err <ConvErr>
  ("c17.svdstf", fun ts => do
      match ts with
      | ws :: n :: rest =>
        let ws ← nat ws
        let n ← nat n
        let xs ← nums rest
        if xs.length != 6 * n then throw "arity"
        let ps := mkPairs xs n 0
        let H := svdstfH ps
        let d := jacobiSVD H
        match svdContract H d with
        | some e => throw e
        | none =>
          let svd := fun (_ : Mat3 B) => d
          let r := svdstfMat svd detB (ws == 1) ps
          match svdstf svd detB atolB atolB (ws == 1) ps with
          | .error e => throw ("raise:" ++ e.name)
          | .ok X =>
            let c := cost (Sim3Act X) ps
            return fmt (X.toList ++ r.2.1.toList ++ d.S.toList ++ [detB (d.U.mul d.Vh), c, r.1])
      | _ => throw "arity"),
  -- c17.cost7 N t(3) q(4) src tgt  → cost(1) R(9) normSq(1)     (exact cost of a given SE3 element)
  ("c17.cost7", fun ts => do
      match ts with
      | n :: rest =>
        let n ← nat n
        let xs ← nums rest
        if xs.length != 7 + 6 * n then throw "arity"
        let X : SE3 B := ⟨v3 xs 0, qt xs 3⟩
        let ps := mkPairs xs n 7
        return fmt ([cost (SE3Act X) ps] ++ (SO3matrix X.q).toList ++ [X.q.normSq])
      | _ => throw "arity"),
  -- c17.cost8 N t(3) q(4) s(1) src tgt → cost(1) R(9) normSq(1)
  ("c17.cost8", fun ts => do
      match ts with
      | n :: rest =>
        let n ← nat n
        let xs ← nums rest
        if xs.length != 8 + 6 * n then throw "arity"
        let X : Sim3 B := ⟨v3 xs 0, qt xs 3, xs.getD 7 default⟩
        let ps := mkPairs xs n 8
        return fmt ([cost (Sim3Act X) ps] ++ (SO3matrix X.q).toList ++ [X.q.normSq])
      | _ => throw "arity"),
  -- c17.epnp_scale N bases(12) alpha(4N) points(3N) → bases'(12) scalep(3N) scale(1) minAbsZ(1)   (EPnP._compute_scale)
  ("c17.epnp_scale", fun ts => do
      match ts with
      | n :: rest =>
        let n ← nat n
        let xs ← nums rest
        if xs.length != 12 + 7 * n then throw "arity"
        let c : Pnp.Ctrl B := ⟨v3 xs 0, v3 xs 3, v3 xs 6, v3 xs 9⟩
        let alpha : List (Pnp.W4 B) := (List.range n).map fun i =>
          ⟨xs.getD (12 + 4 * i) default, xs.getD (13 + 4 * i) default, xs.getD (14 + 4 * i) default, xs.getD (15 + 4 * i) default⟩
        let pts := points xs n (12 + 4 * n)
        let r := Pnp.computeScale c alpha pts
        -- the sign decision `any(z < 0)`: report how close the decisive coordinates are to the threshold
        let unsigned := alpha.map (Pnp.combine · r.1)
        let minz := unsigned.foldl (fun m p => if BigF.lt (BigF.abs p.z) m then BigF.abs p.z else m) (BigF.ofNat 1000000000)
        return fmt (r.1.toList ++ (r.2.1.flatMap Vec3.toList) ++ [r.2.2, minz])
      | _ => throw "arity"),
  -- c17.icp passes hasInit Ns Nt [t q] src(3Ns) tgt(3Nt)
  --   → t(3) q(4) margin(1) cond(1) errs(passes) sscd(passes+1) sscdResult(1)
  ("c17.icp", fun ts => do
      match ts with
      | passes :: hi :: ns :: nt :: rest =>
        let passes ← nat passes
        let hi ← nat hi
        let ns ← nat ns
        let nt ← nat nt
        let xs ← nums rest
        let o := if hi == 1 then 7 else 0
        if xs.length != o + 3 * ns + 3 * nt then throw "arity"
        let init : Option (SE3 B) := if hi == 1 then some ⟨v3 xs 0, qt xs 3⟩ else none
        let src := points xs ns o
        let tgt := points xs nt (o + 3 * ns)
        -- the aligner: model svdtf with the contract-checked stand-in; a contract failure poisons the run
        let align : Pairs B → SE3 B := fun ps => svdtf jacobiSVD detB atolB ps
        let t0 : IcpTrace := ⟨icpStart init src, [], [], BigF.ofNat 1000000, true, false, BigF.ofNat 2⟩
        let tr := icpTrace align tgt passes t0
        if !tr.ok then throw "contract:nn-not-argmin"
        -- re-check the SVD contract on every alignment problem of the run
        if tr.svdBad || svdBad (src.zip tr.cur) then throw "contract:svd"
        let X := align (src.zip tr.cur)
        let X' := icp align nnFirst init passes src tgt
        if (X.toList.zip X'.toList).any (fun p => !(BigF.isZero (p.1 - p.2))) then throw "contract:icp-trace"
        let res := sscd nnFirst tgt (src.map (SE3Act X))
        let c := minB tr.cond (alignCond (src.zip tr.cur))
        return fmt (X.toList ++ [tr.margin, c] ++ tr.errs ++ tr.sscd ++ [res])
      | _ => throw "arity")
]

end PP.Driver
