import Pose.Scalar
/-!
# Model of `pypose/optim/kernel.py`

Every kernel is an element-wise map guarded by one whole-tensor assertion
`assert torch.all(input >= 0)`.  For each kernel the model has

* `xV`  — the value computed by `forward` on one element (same formula, same order of operations);
* `xD1`, `xD2` — the closed forms of `ρ'` and `ρ''` (what autograd returns for `forward`; proved to be the
  derivatives of `xV` / `xD1` in `Proofs/Props/C09.lean`);
* `x`   — the guarded element-wise version (`none` = the assertion fires).

`delta2 = delta**2` is modelled as `δ * δ`.  `poly` is the family of *user-defined* kernels the
correspondence check uses (`ρ(x) = c₁x + c₂x² + c₃x³`, no assertion); `Trivial` is `poly 1 0 0`.
-/
namespace PP.Kernel
variable {α : Type} [Scalar α]

/-- `input >= 0` on one element -/
def ok (x : α) : Bool := Scalar.le (k 0) x

/-- element-wise guard -/
def guarded (f : α → α) (x : α) : Option α := if ok x then some (f x) else none

/-! ### Huber -/
def huberV (δ x : α) : α :=
  if Scalar.lt (Scalar.sqrt x) δ then x else k 2 * δ * Scalar.sqrt x - δ * δ
def huberD1 (δ x : α) : α :=
  if Scalar.lt (Scalar.sqrt x) δ then k 1 else δ / Scalar.sqrt x
def huberD2 (δ x : α) : α :=
  if Scalar.lt (Scalar.sqrt x) δ then k 0 else -(δ / (k 2 * (x * Scalar.sqrt x)))
def huber (δ : α) : α → Option α := guarded (huberV δ)

/-! ### PseudoHuber -/
def pseudoHuberV (δ x : α) : α := k 2 * (δ * δ) * (Scalar.sqrt (x / (δ * δ) + k 1) - k 1)
def pseudoHuberD1 (δ x : α) : α := k 1 / Scalar.sqrt (x / (δ * δ) + k 1)
def pseudoHuberD2 (δ x : α) : α :=
  -(k 1 / (k 2 * (δ * δ) * ((x / (δ * δ) + k 1) * Scalar.sqrt (x / (δ * δ) + k 1))))
def pseudoHuber (δ : α) : α → Option α := guarded (pseudoHuberV δ)

/-! ### Cauchy -/
def cauchyV (δ x : α) : α := (δ * δ) * Scalar.log (x / (δ * δ) + k 1)
def cauchyD1 (δ x : α) : α := k 1 / (x / (δ * δ) + k 1)
def cauchyD2 (δ x : α) : α := -(k 1 / ((δ * δ) * ((x / (δ * δ) + k 1) * (x / (δ * δ) + k 1))))
def cauchy (δ : α) : α → Option α := guarded (cauchyV δ)

/-! ### SoftLOne -/
def softLOneV (δ x : α) : α := k 2 * (δ * Scalar.sqrt (k 1 / (δ * δ) + x) - k 1)
def softLOneD1 (δ x : α) : α := δ / Scalar.sqrt (k 1 / (δ * δ) + x)
def softLOneD2 (δ x : α) : α :=
  -(δ / (k 2 * ((k 1 / (δ * δ) + x) * Scalar.sqrt (k 1 / (δ * δ) + x))))
def softLOne (δ : α) : α → Option α := guarded (softLOneV δ)

/-! ### Arctan -/
def arctanV (δ x : α) : α := (δ * δ) * Scalar.atan (x / (δ * δ))
def arctanD1 (δ x : α) : α := k 1 / (k 1 + (x / (δ * δ)) * (x / (δ * δ)))
def arctanD2 (δ x : α) : α :=
  -(k 2 * (x / (δ * δ)) /
    ((δ * δ) * ((k 1 + (x / (δ * δ)) * (x / (δ * δ))) * (k 1 + (x / (δ * δ)) * (x / (δ * δ))))))
def arctan (δ : α) : α → Option α := guarded (arctanV δ)

/-! ### Tolerant -/
def tolerantV (a b x : α) : α :=
  b * Scalar.log (k 1 + Scalar.exp ((x - a) / b)) - b * Scalar.log (k 1 + Scalar.exp ((-a) / b))
def tolerantD1 (a b x : α) : α :=
  Scalar.exp ((x - a) / b) / (k 1 + Scalar.exp ((x - a) / b))
def tolerantD2 (a b x : α) : α :=
  Scalar.exp ((x - a) / b) /
    (b * ((k 1 + Scalar.exp ((x - a) / b)) * (k 1 + Scalar.exp ((x - a) / b))))
def tolerant (a b : α) : α → Option α := guarded (tolerantV a b)

/-! ### Tolerant as the code computes it: `b * softplus((x-a)/b, threshold=50) - offset`

`torch.nn.functional.softplus(z, beta=1, threshold=50)` is `z` if `z > 50` else `log1p(exp z)`; its backward is `1` resp.
`exp z / (exp z + 1)`, its double backward `0` resp. the derivative of that quotient. `tolerantV/D1/D2` above are the
*documented* closed form; `Proofs/Props/C09.lean` proves that the two coincide on the property's domain `a/|b| ≤ 50`,
`x ≥ 0` (the branch is never taken there) and bounds the difference by `|b|·e⁻⁵⁰` outside. -/
def softplus50 (z : α) : α := if Scalar.lt (k 50) z then z else Scalar.log (k 1 + Scalar.exp z)
def softplus50D1 (z : α) : α := if Scalar.lt (k 50) z then k 1 else Scalar.exp z / (k 1 + Scalar.exp z)
def softplus50D2 (z : α) : α :=
  if Scalar.lt (k 50) z then k 0 else Scalar.exp z / ((k 1 + Scalar.exp z) * (k 1 + Scalar.exp z))
def tolerantC (a b x : α) : α :=
  b * softplus50 ((x - a) / b) - b * Scalar.log (k 1 + Scalar.exp ((-a) / b))
def tolerantCD1 (a b x : α) : α := softplus50D1 ((x - a) / b)
def tolerantCD2 (a b x : α) : α := softplus50D2 ((x - a) / b) / b
def tolerantCode (a b : α) : α → Option α := guarded (tolerantC a b)

/-! ### Scale -/
def scaleV (δ x : α) : α := δ * x
def scaleD1 (δ _x : α) : α := δ
def scaleD2 (_δ _x : α) : α := k 0
def scale (δ : α) : α → Option α := guarded (scaleV δ)

/-! ### user-defined polynomial kernels (no assertion) -/
def polyV (c1 c2 c3 x : α) : α := c1 * x + c2 * (x * x) + c3 * (x * x * x)
def polyD1 (c1 c2 c3 x : α) : α := c1 + k 2 * c2 * x + k 3 * c3 * (x * x)
def polyD2 (_c1 c2 c3 x : α) : α := k 2 * c2 + k 6 * c3 * x

/-! ### a kernel chosen at run time (used by the driver and by the corrector model) -/
inductive Kind
  | huber | pseudoHuber | cauchy | softLOne | arctan | tolerant | scale | poly
deriving DecidableEq, Repr

structure Spec (α : Type) where
  kind : Kind
  p1 : α
  p2 : α
  p3 : α

namespace Spec
def val (s : Spec α) (x : α) : α :=
  match s.kind with
  | .huber => huberV s.p1 x
  | .pseudoHuber => pseudoHuberV s.p1 x
  | .cauchy => cauchyV s.p1 x
  | .softLOne => softLOneV s.p1 x
  | .arctan => arctanV s.p1 x
  | .tolerant => tolerantC s.p1 s.p2 x
  | .scale => scaleV s.p1 x
  | .poly => polyV s.p1 s.p2 s.p3 x
def d1 (s : Spec α) (x : α) : α :=
  match s.kind with
  | .huber => huberD1 s.p1 x
  | .pseudoHuber => pseudoHuberD1 s.p1 x
  | .cauchy => cauchyD1 s.p1 x
  | .softLOne => softLOneD1 s.p1 x
  | .arctan => arctanD1 s.p1 x
  | .tolerant => tolerantCD1 s.p1 s.p2 x
  | .scale => scaleD1 s.p1 x
  | .poly => polyD1 s.p1 s.p2 s.p3 x
def d2 (s : Spec α) (x : α) : α :=
  match s.kind with
  | .huber => huberD2 s.p1 x
  | .pseudoHuber => pseudoHuberD2 s.p1 x
  | .cauchy => cauchyD2 s.p1 x
  | .softLOne => softLOneD2 s.p1 x
  | .arctan => arctanD2 s.p1 x
  | .tolerant => tolerantCD2 s.p1 s.p2 x
  | .scale => scaleD2 s.p1 x
  | .poly => polyD2 s.p1 s.p2 s.p3 x
/-- does `forward` assert `input >= 0`? (all seven built-in kernels do; the user family does not) -/
def asserts (s : Spec α) : Bool :=
  match s.kind with
  | .poly => false
  | _ => true
end Spec

/-- the constructor's assertions: `delta > 0` (Huber, PseudoHuber, Cauchy, SoftLOne), none for Arctan, `a > 0 ∧ b < 0`
(Tolerant), `0 < delta ≤ 1` (Scale); the user family has no constructor check. `false` = `AssertionError`. -/
def Spec.ctorOk (s : Spec α) : Bool :=
  match s.kind with
  | .huber | .pseudoHuber | .cauchy | .softLOne => Scalar.lt (k 0) s.p1
  | .arctan => true
  | .tolerant => Scalar.lt (k 0) s.p1 && Scalar.lt s.p2 (k 0)
  | .scale => Scalar.lt (k 0) s.p1 && Scalar.le s.p1 (k 1)
  | .poly => true

/-- `kernel(input)` on a whole tensor (flattened): one assertion over *all* elements, then the
element-wise map. `none` = `AssertionError`. -/
def onTensor (s : Spec α) (xs : List α) : Option (List α) :=
  if s.asserts && !(xs.all ok) then none else some (xs.map s.val)

/-- `Kernel(params)(input)`: construction, then the call; `none` = one of the two assertions fires -/
def Spec.construct (s : Spec α) (xs : List α) : Option (List α) :=
  if s.ctorOk then onTensor s xs else none

end PP.Kernel
