/-!
# `Scalar` — the one abstraction the whole model is polymorphic in

Every modelled function is written once over `[Scalar α]`.

* `α = ℝ`   (noncomputable instance in `Proofs/Real.lean`): what the theorems are about.
* `α = BigF` (192-bit software float, `Pose/BigF.lean`): what the correspondence check executes
  next to the real PyTorch code.

No Mathlib import anywhere under `Pose/` — the driver must link as a plain `lean_exe`.

There is deliberately **no** global `OfNat α` instance (it makes `simp` loop against Mathlib's
numerals at `α = ℝ`); numerals are written `k n` and rationals `q a b`.
-/

namespace PP

class Scalar (α : Type) extends Add α, Sub α, Mul α, Neg α, Div α where
  ofNat : Nat → α
  sqrt : α → α
  sin : α → α
  cos : α → α
  /-- principal arctangent, range (-π/2, π/2) -/
  atan : α → α
  /-- `atan2 y x`, range (-π, π] -/
  atan2 : α → α → α
  exp : α → α
  log : α → α
  pi : α
  lt : α → α → Bool
  le : α → α → Bool

variable {α : Type} [Scalar α]

/-- natural-number literal -/
def k (n : Nat) : α := Scalar.ofNat n
/-- rational literal `a / b` -/
def q (a b : Nat) : α := k a / k b

def sabs (x : α) : α := if Scalar.lt x (k 0) then -x else x
def smax (x y : α) : α := if Scalar.lt x y then y else x
def smin (x y : α) : α := if Scalar.lt y x then y else x
/-- clamp to `[lo, hi]` -/
def sclamp (lo hi x : α) : α := smin hi (smax lo x)
/-- sign with `sign 0 = 0` (torch.sign) -/
def ssign (x : α) : α := if Scalar.lt (k 0) x then k 1 else if Scalar.lt x (k 0) then -(k 1) else k 0
/-- `pm`: sign with `pm 0 = +1` (pypose.basics.ops.pm) -/
def spm (x : α) : α := if Scalar.lt x (k 0) then -(k 1) else k 1

def sq (x : α) : α := x * x

end PP
