import Pose.Scalar
import Pose.Model.Basic
/-!
# The linear system of one `LevenbergMarquardt.step` trial (dense branch), as far as C08 needs it

`LM.step` builds `J_T = J.T` (no weight), `A = J_T @ J`, clamps the diagonal of `A` to `[min, max]`, multiplies it by
`1 + damping` (`A.diagonal().add_(A.diagonal() * pg['damping'])`) and asks the solver for `D` with `A D = -J_T @ R`.
The matrix it hands over is `JᵀJ + diag Λ` with `Λ_j = clamp(A_jj)·(1 + damping) − A_jj`; `Λ_j > 0` whenever
`A_jj ≤ max`, `min > 0` and `damping > 0` (the construction itself is property C07).

Only what the step-quality denominator needs is modelled: `Jᵀu` for a matrix given by its rows, and the predicate
"`D` solves the damped normal equations".
-/
namespace PP.LMLoop
variable {α : Type} [Scalar α]

/-- `Jᵀ u = Σ_i u_i · row_i` for a matrix given by its rows, all of width `n` (`J_T @ u` in `LM.step`) -/
def tmulVec (n : Nat) : DMat α → DVec α → DVec α
  | r :: J, ui :: u => DVec.add (DVec.smul ui r) (tmulVec n J u)
  | _, _ => DVec.zero n

/-- `(JᵀJ + diag Λ) D = −JᵀR`, written without forming the matrix: `Jᵀ(J D) + Λ ⊙ D = −(Jᵀ R)` -/
def SolvesDamped (J : DMat α) (lam D R : DVec α) : Prop :=
  DVec.add (tmulVec D.length J (DMat.mulVec J D)) (List.zipWith (· * ·) lam D) = DVec.neg (tmulVec D.length J R)

/-- `Dᵀ Λ D = Σ_j Λ_j D_j²` -/
def wsq (lam D : DVec α) : α := DVec.sum (List.zipWith (fun l d => l * d * d) lam D)

end PP.LMLoop
