#!/bin/bash
# Round 6: run the checks of <prop...> on the two harmless rewrites and the breaking change delivered in /tmp/r6_<id>/
# usage: tools/r6test.sh <id> <scratch worktree> <prop> [more props]     (expects H1, H2 -> exit 0 ; S -> VIOLATION)
id=$1; wt=$2; shift 2
H=$(git -C /repo rev-parse HEAD)
cd "$(dirname "$0")/.."
for k in H1 H2 S; do
  d=/tmp/r6_$id/$k
  [ -f $d/patch.diff ] || { echo "$id $k: no patch"; continue; }
  git -C $wt checkout -q -- . ; git -C $wt checkout -q --detach $H
  if ! git -C $wt apply $d/patch.diff 2>/tmp/apply.err; then echo "$id $k: APPLY FAILED $(head -2 /tmp/apply.err)"; continue; fi
  if [ $k = S ]; then PYTHONPATH=$wt /venv/bin/python $d/demo.py >/dev/null 2>&1; echo "$id S: demo patched rc=$?"; fi
  for p in "$@"; do
    out=$(PYPOSE_REPO=$wt timeout 1800 /venv/bin/python check.py --property $p --tier quick --no-lean 2>&1); rc=$?
    echo "$id $k $p: rc=$rc $(echo "$out" | grep -c VIOLATION) viol | $(echo "$out" | grep "$p quick" | tail -1)"
    [ $rc -ne 0 ] && echo "$out" | grep -E "VIOLATION|disagreement:" | head -3 && python3 - <<PY
import json,glob
for f in sorted(glob.glob('/verif/replays/${p}_seed0_*.json'))[:2]:
    d=json.load(open(f)); print('   ', f.split('/')[-1], '|', str(d.get('what', d.get('kind')))[:260])
PY
  done
  git -C $wt checkout -q -- .
done
