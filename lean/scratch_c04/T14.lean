import Proofs.Lemmas.Autograd
import Proofs.Lemmas.So3Exp
import Mathlib.Analysis.SpecialFunctions.Sqrt
set_option maxRecDepth 10000
set_option linter.unusedSimpArgs false
namespace PP.AD
open PP

/-- the Taylor branch of `so3_Exp` is a polynomial in the coordinates -/
theorem so3Exp_taylor (eps : ℝ) (x : Vec3 ℝ) (h : ¬ eps < x.norm) :
    so3Exp eps x = Quat.mk' (x.smul (1/2 - 1/48 * x.normSq + 1/3840 * (x.normSq * x.normSq)))
      (1 - 1/8 * x.normSq + 1/384 * (x.normSq * x.normSq)) := by
  unfold so3Exp
  simp only [lt_real, h, decide_false, q_real, k_real, Nat.cast_one, Nat.cast_ofNat, Bool.false_eq_true, if_false,
    Vec3.norm_sq]

/-- **`so3_Exp.backward` at the zero vector** (identity element of the group): no NaN, and the gradient is exact.
A curve through `0` with velocity `d` is mapped to a curve through the identity with tangent `so3_Jl(0)·d = d`. -/
theorem so3Exp_tangent_zero (eps : ℝ) (heps : 0 < eps) (x : ℝ → DVec ℝ) (d0 d1 d2 : ℝ)
    (hx : LCurve 3 x [d0, d1, d2]) (hz : v3 (x 0) = ⟨0, 0, 0⟩) :
    LCurve 4 (fun t => expF .SO3 eps (x t))
      (liftG .SO3 (expF .SO3 eps (x 0)) ((JlMat .SO3 eps (x 0)).mulVec [d0, d1, d2])) := by
  have h0 := hx 0 (by norm_num); have h1 := hx 1 (by norm_num); have h2 := hx 2 (by norm_num)
  simp only [nth_cons_zero, nth_cons_succ] at h0 h1 h2
  have z0 : nth (x 0) 0 = 0 := by have := congrArg Vec3.x hz; simpa [v3] using this
  have z1 : nth (x 0) 1 = 0 := by have := congrArg Vec3.y hz; simpa [v3] using this
  have z2 : nth (x 0) 2 = 0 := by have := congrArg Vec3.z hz; simpa [v3] using this
  have e0 := h0.differentiableAt; have e1 := h1.differentiableAt; have e2 := h2.differentiableAt
  -- the norm is continuous and vanishes at 0: eventually the Taylor branch is taken
  have hNc : ContinuousAt (fun t => Real.sqrt (nth (x t) 0 * nth (x t) 0 + nth (x t) 1 * nth (x t) 1 + nth (x t) 2 * nth (x t) 2)) 0 := by
    have c0 := h0.continuousAt; have c1 := h1.continuousAt; have c2 := h2.continuousAt
    exact (((c0.mul c0).add (c1.mul c1)).add (c2.mul c2)).sqrt
  have hev : ∀ᶠ t in nhds (0:ℝ), ¬ eps < (v3 (x t)).norm := by
    have : ∀ᶠ t in nhds (0:ℝ), Real.sqrt (nth (x t) 0 * nth (x t) 0 + nth (x t) 1 * nth (x t) 1 + nth (x t) 2 * nth (x t) 2) < eps := by
      apply hNc.eventually (gt_mem_nhds _)
      simp [z0, z1, z2, heps]
    filter_upwards [this] with t ht
    have : (v3 (x t)).norm = Real.sqrt (nth (x t) 0 * nth (x t) 0 + nth (x t) 1 * nth (x t) 1 + nth (x t) 2 * nth (x t) 2) := by
      simp [Vec3.norm, Vec3.normSq, v3]
    rw [this]; exact not_lt.mpr (le_of_lt ht)
  have hnz0 : ¬ eps < (v3 (x 0)).norm := by
    rw [hz]; simp [Vec3.norm, Vec3.normSq]; exact le_of_lt heps
  have hnz := hnz0
  have hval : expF .SO3 eps (x 0) = [0, 0, 0, 1] := by
    rw [hz] at hnz
    simp only [expF, hz, so3Exp_taylor eps _ hnz]
    simp [Quat.mk', Vec3.smul, Quat.toList, Vec3.normSq]
  have key : ∀ i, i < 4 → HasDerivAt (fun t => nth ((Quat.mk' ((v3 (x t)).smul (1/2 - 1/48 * (v3 (x t)).normSq + 1/3840 * ((v3 (x t)).normSq * (v3 (x t)).normSq)))
        (1 - 1/8 * (v3 (x t)).normSq + 1/384 * ((v3 (x t)).normSq * (v3 (x t)).normSq))).toList) i)
      (nth (liftG .SO3 (expF .SO3 eps (x 0)) ((JlMat .SO3 eps (x 0)).mulVec [d0, d1, d2])) i) 0 := by
    intro i hi
    interval_cases i
    all_goals
      simp only [Quat.mk', Vec3.smul, Vec3.normSq, Quat.toList, v3, nth_cons_zero, nth_cons_succ]
      refine HasDerivAt.congr_deriv (DifferentiableAt.hasDerivAt (by fun_prop)) ?_
      simp (disch := fun_prop) only [deriv_fun_add, deriv_fun_sub, deriv_fun_mul, deriv_const, deriv_const_mul_field,
        h0.deriv, h1.deriv, h2.deriv]
      rw [hval]
      simp only [JlMat, so3Jl, so3JlCoef, lt_real, hnz0, decide_false, polyK, Bool.false_eq_true, if_false, hz]
      fwd_unfold
      lie_unfold
      simp [z0, z1, z2, Vec3.norm, Vec3.normSq]
      try ring
  intro i hi
  refine (key i hi).congr_of_eventuallyEq ?_
  filter_upwards [hev] with t ht
  simp only [expF, so3Exp_taylor eps _ ht]
end PP.AD
