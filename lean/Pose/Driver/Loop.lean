import Pose.Wire
/-! The line-protocol loop shared by every per-property driver executable. -/
namespace PP.Driver

def dispatch (ops : List (String × Handler)) (line : String) : String :=
  match (line.trimAscii.toString.splitOn " ").filter (· ≠ "") with
  | [] => "err empty"
  | op :: args =>
    match ops.lookup op with
    | none => s!"err unknown-op:{op}"
    | some h => match h args with
      | .ok s => if s.isEmpty then "ok" else "ok " ++ s
      | .error e => "err " ++ e

partial def loop (ops : List (String × Handler)) (h : IO.FS.Stream) (out : IO.FS.Stream) : IO Unit := do
  let line ← h.getLine
  if line.isEmpty then return ()
  out.putStrLn (dispatch ops line)
  out.flush   -- interactive use: a caller may thread state through consecutive replies
  loop ops h out

def mainLoop (ops : List (String × Handler)) : IO Unit := do
  let out ← IO.getStdout
  loop ops (← IO.getStdin) out
  out.flush

end PP.Driver
