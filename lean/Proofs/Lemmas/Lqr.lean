import Pose.Model.Lqr
import Proofs.Real
import Mathlib.Data.Matrix.Mul
import Mathlib.Algebra.BigOperators.Fin
import Mathlib.Tactic.Linarith
import Mathlib.Tactic.Abel
import Mathlib.Tactic.Ring
import Mathlib.LinearAlgebra.Matrix.NonsingularInverse
import Mathlib.LinearAlgebra.Matrix.DotProduct
/-!
# Helper lemmas for C14 (LQR / MPC)

Part 1: bridge from the stored `Vector` model at `α = ℝ` to Mathlib's `Fin n → ℝ` / `Matrix`.
Part 2: block algebra on `Fin (ns + nc)`.
Part 3: the algebra of one backward stage (gains ⇒ stationarity, costate), convexity of a stage cost.
-/
open PP PP.Lqr Matrix

namespace PP.Lqr

/-! ## Part 1 — bridge -/

/-- a stored vector as a function -/
def toFn {n : Nat} (v : Vec ℝ n) : Fin n → ℝ := fun i => v[i]
/-- a stored matrix as a Mathlib matrix -/
def toM {m n : Nat} (M : Mat ℝ m n) : Matrix (Fin m) (Fin n) ℝ := Matrix.of fun i j => M[i][j]

theorem toFn_inj {n : Nat} {x y : Vec ℝ n} (h : toFn x = toFn y) : x = y := by
  apply Vector.ext
  intro i hi
  exact congrFun h ⟨i, hi⟩

theorem toM_inj {m n : Nat} {M N : Mat ℝ m n} (h : toM M = toM N) : M = N := by
  apply Vector.ext
  intro i hi
  apply Vector.ext
  intro j hj
  have := congrFun (congrFun h ⟨i, hi⟩) ⟨j, hj⟩
  simpa [toM] using this

@[simp] theorem toFn_vec {n : Nat} (f : Fin n → ℝ) : toFn (vec f) = f := by
  funext i; simp [toFn, vec]

@[simp] theorem toM_mat {m n : Nat} (f : Fin m → Fin n → ℝ) : toM (mat f) = Matrix.of f := by
  ext i j; simp [toM, mat]

theorem toM_apply {m n : Nat} (M : Mat ℝ m n) (i : Fin m) (j : Fin n) : toM M i j = M[i][j] := rfl
theorem toFn_apply {n : Nat} (v : Vec ℝ n) (i : Fin n) : toFn v i = v[i] := rfl
theorem toFn_row {m n : Nat} (M : Mat ℝ m n) (i : Fin m) : toFn M[i] = toM M i := rfl

theorem sumFin_eq {n : Nat} (f : Fin n → ℝ) : sumFin f = ∑ i, f i := by
  unfold sumFin
  induction n with
  | zero => simp [Fin.foldl_zero]
  | succ n ih =>
    rw [Fin.foldl_succ_last, Fin.sum_univ_castSucc]
    congr 1
    exact ih (fun i => f i.castSucc)

@[simp] theorem dot_eq {n : Nat} (x y : Vec ℝ n) : dot x y = toFn x ⬝ᵥ toFn y := by
  unfold dot; rw [sumFin_eq]; rfl

@[simp] theorem toFn_vzero {n : Nat} : toFn (vzero : Vec ℝ n) = 0 := by
  unfold vzero; rw [toFn_vec]; funext i; simp
@[simp] theorem toFn_vadd {n : Nat} (x y : Vec ℝ n) : toFn (vadd x y) = toFn x + toFn y := by
  unfold vadd; rw [toFn_vec]; rfl
@[simp] theorem toFn_vsub {n : Nat} (x y : Vec ℝ n) : toFn (vsub x y) = toFn x - toFn y := by
  unfold vsub; rw [toFn_vec]; rfl
@[simp] theorem toFn_vneg {n : Nat} (x : Vec ℝ n) : toFn (vneg x) = - toFn x := by
  unfold vneg; rw [toFn_vec]; rfl
@[simp] theorem toM_madd {m n : Nat} (M N : Mat ℝ m n) : toM (madd M N) = toM M + toM N := by
  unfold madd; rw [toM_mat]; rfl
@[simp] theorem toM_mneg {m n : Nat} (M : Mat ℝ m n) : toM (mneg M) = - toM M := by
  unfold mneg; rw [toM_mat]; rfl
@[simp] theorem toM_tr {m n : Nat} (M : Mat ℝ m n) : toM (tr M) = (toM M)ᵀ := by
  unfold tr; rw [toM_mat]; rfl
@[simp] theorem toFn_mulVec {m n : Nat} (M : Mat ℝ m n) (x : Vec ℝ n) : toFn (mulVec M x) = toM M *ᵥ toFn x := by
  unfold Lqr.mulVec; rw [toFn_vec]; funext i; rw [dot_eq]; rfl
@[simp] theorem toM_mmul {m n l : Nat} (M : Mat ℝ m n) (N : Mat ℝ n l) : toM (mmul M N) = toM M * toM N := by
  unfold mmul; rw [toM_mat]; ext i j; simp only [Matrix.of_apply, sumFin_eq, Matrix.mul_apply]; rfl


/-! ## Part 2 — blocks on `Fin (m + n)` -/

section blocks
variable {m n r : Nat}

def vL (v : Fin (m + n) → ℝ) : Fin m → ℝ := fun i => v (Fin.castAdd n i)
def vR (v : Fin (m + n) → ℝ) : Fin n → ℝ := fun j => v (Fin.natAdd m j)
def app (a : Fin m → ℝ) (b : Fin n → ℝ) : Fin (m + n) → ℝ := fun i => Fin.addCases (motive := fun _ => ℝ) a b i
def bXX (M : Matrix (Fin (m + n)) (Fin (m + n)) ℝ) : Matrix (Fin m) (Fin m) ℝ := Matrix.of fun i j => M (Fin.castAdd n i) (Fin.castAdd n j)
def bXU (M : Matrix (Fin (m + n)) (Fin (m + n)) ℝ) : Matrix (Fin m) (Fin n) ℝ := Matrix.of fun i j => M (Fin.castAdd n i) (Fin.natAdd m j)
def bUX (M : Matrix (Fin (m + n)) (Fin (m + n)) ℝ) : Matrix (Fin n) (Fin m) ℝ := Matrix.of fun i j => M (Fin.natAdd m i) (Fin.castAdd n j)
def bUU (M : Matrix (Fin (m + n)) (Fin (m + n)) ℝ) : Matrix (Fin n) (Fin n) ℝ := Matrix.of fun i j => M (Fin.natAdd m i) (Fin.natAdd m j)
def cat (A : Matrix (Fin r) (Fin m) ℝ) (B : Matrix (Fin r) (Fin n) ℝ) : Matrix (Fin r) (Fin (m + n)) ℝ :=
  Matrix.of fun i => app (A i) (B i)

@[simp] theorem vL_app (a : Fin m → ℝ) (b : Fin n → ℝ) : vL (app a b) = a := by
  funext i; simp [vL, app]
@[simp] theorem vR_app (a : Fin m → ℝ) (b : Fin n → ℝ) : vR (app a b) = b := by
  funext i; simp [vR, app]
theorem app_vL_vR (v : Fin (m + n) → ℝ) : app (vL v) (vR v) = v := by
  funext i
  refine Fin.addCases (fun a => ?_) (fun b => ?_) i <;> simp [app, vL, vR]
theorem vL_add (v w : Fin (m + n) → ℝ) : vL (v + w) = vL v + vL w := rfl
theorem vR_add (v w : Fin (m + n) → ℝ) : vR (v + w) = vR v + vR w := rfl
theorem vL_sub (v w : Fin (m + n) → ℝ) : vL (v - w) = vL v - vL w := rfl
theorem vR_sub (v w : Fin (m + n) → ℝ) : vR (v - w) = vR v - vR w := rfl
theorem app_sub (a a' : Fin m → ℝ) (b b' : Fin n → ℝ) : app a b - app a' b' = app (a - a') (b - b') := by
  funext i
  refine Fin.addCases (fun a => ?_) (fun b => ?_) i <;> simp [app]
theorem app_add (a a' : Fin m → ℝ) (b b' : Fin n → ℝ) : app a b + app a' b' = app (a + a') (b + b') := by
  funext i
  refine Fin.addCases (fun a => ?_) (fun b => ?_) i <;> simp [app]

theorem dot_split (v w : Fin (m + n) → ℝ) : v ⬝ᵥ w = vL v ⬝ᵥ vL w + vR v ⬝ᵥ vR w := by
  simp only [dotProduct, Fin.sum_univ_add]; rfl

theorem vL_mulVec (M : Matrix (Fin (m + n)) (Fin (m + n)) ℝ) (v : Fin (m + n) → ℝ) :
    vL (M *ᵥ v) = bXX M *ᵥ vL v + bXU M *ᵥ vR v := by
  funext i
  simp only [vL, Matrix.mulVec, dotProduct, Fin.sum_univ_add, Pi.add_apply]; rfl

theorem vR_mulVec (M : Matrix (Fin (m + n)) (Fin (m + n)) ℝ) (v : Fin (m + n) → ℝ) :
    vR (M *ᵥ v) = bUX M *ᵥ vL v + bUU M *ᵥ vR v := by
  funext i
  simp only [vR, Matrix.mulVec, dotProduct, Fin.sum_univ_add, Pi.add_apply]; rfl

theorem cat_mulVec (A : Matrix (Fin r) (Fin m) ℝ) (B : Matrix (Fin r) (Fin n) ℝ) (v : Fin (m + n) → ℝ) :
    cat A B *ᵥ v = A *ᵥ vL v + B *ᵥ vR v := by
  funext i
  simp only [cat, Matrix.mulVec, dotProduct, Fin.sum_univ_add, Pi.add_apply, Matrix.of_apply, app,
    Fin.addCases_left, Fin.addCases_right]; rfl

@[simp] theorem toFn_append (x : Vec ℝ m) (u : Vec ℝ n) : toFn (append x u) = app (toFn x) (toFn u) := by
  unfold append; rw [toFn_vec]; rfl
@[simp] theorem toFn_takeL (v : Vec ℝ (m + n)) : toFn (takeL v) = vL (toFn v) := by
  unfold takeL; rw [toFn_vec]; rfl
@[simp] theorem toFn_takeR (v : Vec ℝ (m + n)) : toFn (takeR v) = vR (toFn v) := by
  unfold takeR; rw [toFn_vec]; rfl
@[simp] theorem toM_blkXX (M : Mat ℝ (m + n) (m + n)) : toM (blkXX M) = bXX (toM M) := by
  unfold blkXX; rw [toM_mat]; rfl
@[simp] theorem toM_blkXU (M : Mat ℝ (m + n) (m + n)) : toM (blkXU M) = bXU (toM M) := by
  unfold blkXU; rw [toM_mat]; rfl
@[simp] theorem toM_blkUX (M : Mat ℝ (m + n) (m + n)) : toM (blkUX M) = bUX (toM M) := by
  unfold blkUX; rw [toM_mat]; rfl
@[simp] theorem toM_blkUU (M : Mat ℝ (m + n) (m + n)) : toM (blkUU M) = bUU (toM M) := by
  unfold blkUU; rw [toM_mat]; rfl
@[simp] theorem toM_catCols (A : Mat ℝ r m) (B : Mat ℝ r n) : toM (catCols A B) = cat (toM A) (toM B) := by
  ext i j
  simp only [toM_apply, catCols, cat, Matrix.of_apply]
  show (vec fun i => append A[i] B[i])[i][j] = _
  have : (vec fun i => append A[i] B[i])[i] = append A[i] B[i] := by simp [vec]
  rw [this]
  have h2 := congrFun (toFn_append A[i] B[i]) j
  rw [toFn_row, toFn_row] at h2
  exact h2

end blocks

/-! ## Part 3 — algebra of one stage -/

section stage
variable {ns nc : Nat}

def IsSym {n : Nat} (M : Matrix (Fin n) (Fin n) ℝ) : Prop := Mᵀ = M
def IsPSD {n : Nat} (M : Matrix (Fin n) (Fin n) ℝ) : Prop := ∀ x : Fin n → ℝ, 0 ≤ x ⬝ᵥ M *ᵥ x
def IsPD {n : Nat} (M : Matrix (Fin n) (Fin n) ℝ) : Prop := ∀ x : Fin n → ℝ, x ≠ 0 → 0 < x ⬝ᵥ M *ᵥ x

theorem IsPD.psd {n : Nat} {M : Matrix (Fin n) (Fin n) ℝ} (h : IsPD M) : IsPSD M := by
  intro x
  by_cases hx : x = 0
  · subst hx; simp
  · exact le_of_lt (h x hx)

/-- `(Fᵀ y)·d = y·(F d)` -/
theorem tr_dot {a b : Nat} (F : Matrix (Fin a) (Fin b) ℝ) (y : Fin a → ℝ) (d : Fin b → ℝ) :
    (Fᵀ *ᵥ y) ⬝ᵥ d = y ⬝ᵥ (F *ᵥ d) := by
  rw [Matrix.mulVec_transpose, ← Matrix.dotProduct_mulVec]

theorem sym_dot {n : Nat} {Q : Matrix (Fin n) (Fin n) ℝ} (hQ : IsSym Q) (x y : Fin n → ℝ) :
    x ⬝ᵥ Q *ᵥ y = y ⬝ᵥ Q *ᵥ x := by
  rw [Matrix.dotProduct_mulVec, ← Matrix.mulVec_transpose, hQ, dotProduct_comm]

/-- the quadratic stage cost is convex: exact second-order expansion around `τ` -/
theorem stage_expand {n : Nat} {Q : Matrix (Fin n) (Fin n) ℝ} (hQ : IsSym Q) (p τ τ' : Fin n → ℝ) :
    ((1:ℝ)/2 * (τ' ⬝ᵥ Q *ᵥ τ') + τ' ⬝ᵥ p) - ((1:ℝ)/2 * (τ ⬝ᵥ Q *ᵥ τ) + τ ⬝ᵥ p)
      = (Q *ᵥ τ + p) ⬝ᵥ (τ' - τ) + (1:ℝ)/2 * ((τ' - τ) ⬝ᵥ Q *ᵥ (τ' - τ)) := by
  have e : τ' = τ + (τ' - τ) := by abel
  generalize τ' - τ = d at e
  subst e
  have h1 := sym_dot hQ d τ
  simp only [Matrix.mulVec_add, dotProduct_add, add_dotProduct]
  rw [dotProduct_comm (Q *ᵥ τ) d, dotProduct_comm p d, h1]
  ring

/-- (I3) the Riccati-augmented linear form is the stage gradient plus the pulled-back costate -/
theorem aug_grad (Q : Matrix (Fin (ns + nc)) (Fin (ns + nc)) ℝ) (F : Matrix (Fin ns) (Fin (ns + nc)) ℝ)
    (Vp : Matrix (Fin ns) (Fin ns) ℝ) (vp : Fin ns → ℝ) (p τb δ : Fin (ns + nc) → ℝ) :
    (Q + Fᵀ * Vp * F) *ᵥ δ + ((Q *ᵥ τb + p) + Fᵀ *ᵥ vp)
      = (Q *ᵥ (τb + δ) + p) + Fᵀ *ᵥ (Vp *ᵥ (F *ᵥ δ) + vp) := by
  simp only [Matrix.add_mulVec, Matrix.mulVec_add, ← Matrix.mulVec_mulVec]
  abel

/-- (I1) the gains make the input block of the augmented gradient vanish -/
theorem gain_stationary (Qt : Matrix (Fin (ns + nc)) (Fin (ns + nc)) ℝ) (qt : Fin (ns + nc) → ℝ)
    (SM : Matrix (Fin nc) (Fin ns) ℝ) (sv : Fin nc → ℝ)
    (hM : bUU Qt * SM = bUX Qt) (hv : bUU Qt *ᵥ sv = vR qt) (δx : Fin ns → ℝ) :
    bUX Qt *ᵥ δx + bUU Qt *ᵥ ((-SM) *ᵥ δx + (-sv)) + vR qt = 0 := by
  rw [Matrix.mulVec_add, Matrix.neg_mulVec, Matrix.mulVec_neg, Matrix.mulVec_neg, Matrix.mulVec_mulVec, hM, hv]
  abel

/-- (I2) `V δx + v` is the state block of the augmented gradient (given (I1)) -/
theorem value_costate (Qt : Matrix (Fin (ns + nc)) (Fin (ns + nc)) ℝ) (qt : Fin (ns + nc) → ℝ)
    (K : Matrix (Fin nc) (Fin ns) ℝ) (k : Fin nc → ℝ) (δx : Fin ns → ℝ)
    (h0 : bUX Qt *ᵥ δx + bUU Qt *ᵥ (K *ᵥ δx + k) + vR qt = 0) :
    (bXX Qt + bXU Qt * K + Kᵀ * bUX Qt + Kᵀ * bUU Qt * K) *ᵥ δx
        + (vL qt + bXU Qt *ᵥ k + Kᵀ *ᵥ vR qt + (Kᵀ * bUU Qt) *ᵥ k)
      = bXX Qt *ᵥ δx + bXU Qt *ᵥ (K *ᵥ δx + k) + vL qt := by
  have h1 : Kᵀ *ᵥ (bUX Qt *ᵥ δx + bUU Qt *ᵥ (K *ᵥ δx + k) + vR qt) = 0 := by rw [h0, Matrix.mulVec_zero]
  simp only [Matrix.add_mulVec, Matrix.mulVec_add, ← Matrix.mulVec_mulVec] at h1 ⊢
  have : ∀ a b c d e f g h : Fin ns → ℝ, e + f + g + h = 0 → a + b + e + f + (c + d + g + h) = a + (b + d) + c := by
    intro a b c d e f g h hh
    have : a + b + e + f + (c + d + g + h) = a + (b + d) + c + (e + f + g + h) := by abel
    rw [this, hh, add_zero]
  apply this
  rw [← h1]; abel

/-- quadratic form of the augmented cost matrix -/
theorem qf_aug (Q : Matrix (Fin (ns + nc)) (Fin (ns + nc)) ℝ) (F : Matrix (Fin ns) (Fin (ns + nc)) ℝ)
    (Vp : Matrix (Fin ns) (Fin ns) ℝ) (τ : Fin (ns + nc) → ℝ) :
    τ ⬝ᵥ (Q + Fᵀ * Vp * F) *ᵥ τ = τ ⬝ᵥ Q *ᵥ τ + (F *ᵥ τ) ⬝ᵥ Vp *ᵥ (F *ᵥ τ) := by
  rw [Matrix.add_mulVec, dotProduct_add, ← Matrix.mulVec_mulVec, ← Matrix.mulVec_mulVec, dotProduct_comm τ (Fᵀ *ᵥ _),
    tr_dot, dotProduct_comm (Vp *ᵥ _) (F *ᵥ τ)]

theorem sym_aug {Q : Matrix (Fin (ns + nc)) (Fin (ns + nc)) ℝ} (F : Matrix (Fin ns) (Fin (ns + nc)) ℝ)
    {Vp : Matrix (Fin ns) (Fin ns) ℝ} (hQ : IsSym Q) (hV : IsSym Vp) : IsSym (Q + Fᵀ * Vp * F) := by
  unfold IsSym at *
  rw [Matrix.transpose_add, Matrix.transpose_mul, Matrix.transpose_mul, Matrix.transpose_transpose, hQ, hV,
    Matrix.mul_assoc]

theorem psd_aug {Q : Matrix (Fin (ns + nc)) (Fin (ns + nc)) ℝ} (F : Matrix (Fin ns) (Fin (ns + nc)) ℝ)
    {Vp : Matrix (Fin ns) (Fin ns) ℝ} (hQ : IsPSD Q) (hV : IsPSD Vp) : IsPSD (Q + Fᵀ * Vp * F) := by
  intro τ; rw [qf_aug]; exact add_nonneg (hQ τ) (hV _)

theorem sym_blocks {M : Matrix (Fin (ns + nc)) (Fin (ns + nc)) ℝ} (h : IsSym M) :
    (bXX M)ᵀ = bXX M ∧ (bXU M)ᵀ = bUX M ∧ (bUX M)ᵀ = bXU M ∧ (bUU M)ᵀ = bUU M := by
  have e : ∀ i j, M j i = M i j := fun i j => by
    have := congrFun (congrFun h i) j; simpa [Matrix.transpose_apply] using this
  refine ⟨?_, ?_, ?_, ?_⟩ <;> ext i j <;> simp [bXX, bXU, bUX, bUU, Matrix.transpose_apply, e]

/-- `V` is symmetric when `Qt` is -/
theorem sym_value {Qt : Matrix (Fin (ns + nc)) (Fin (ns + nc)) ℝ} (h : IsSym Qt) (K : Matrix (Fin nc) (Fin ns) ℝ) :
    IsSym (bXX Qt + bXU Qt * K + Kᵀ * bUX Qt + Kᵀ * bUU Qt * K) := by
  obtain ⟨h1, h2, h3, h4⟩ := sym_blocks h
  unfold IsSym
  simp only [Matrix.transpose_add, Matrix.transpose_mul, Matrix.transpose_transpose, h1, h2, h3, h4, Matrix.mul_assoc]
  abel

/-- quadratic form of `V`: the augmented cost along the feedback direction `(x, K x)` -/
theorem qf_value (Qt : Matrix (Fin (ns + nc)) (Fin (ns + nc)) ℝ) (K : Matrix (Fin nc) (Fin ns) ℝ) (x : Fin ns → ℝ) :
    x ⬝ᵥ (bXX Qt + bXU Qt * K + Kᵀ * bUX Qt + Kᵀ * bUU Qt * K) *ᵥ x
      = (app x (K *ᵥ x)) ⬝ᵥ Qt *ᵥ (app x (K *ᵥ x)) := by
  rw [dot_split, vL_mulVec, vR_mulVec, vL_app, vR_app]
  simp only [Matrix.add_mulVec, dotProduct_add, ← Matrix.mulVec_mulVec]
  rw [dotProduct_comm x (Kᵀ *ᵥ _), tr_dot, dotProduct_comm x (Kᵀ *ᵥ _), tr_dot,
    dotProduct_comm (bUX Qt *ᵥ x) (K *ᵥ x), dotProduct_comm (bUU Qt *ᵥ (K *ᵥ x)) (K *ᵥ x)]
  ring

theorem psd_value {Qt : Matrix (Fin (ns + nc)) (Fin (ns + nc)) ℝ} (h : IsPSD Qt) (K : Matrix (Fin nc) (Fin ns) ℝ) :
    IsPSD (bXX Qt + bXU Qt * K + Kᵀ * bUX Qt + Kᵀ * bUU Qt * K) := by
  intro x; rw [qf_value]; exact h _

theorem app_zero_ne {u : Fin nc → ℝ} (hu : u ≠ 0) : app (0 : Fin ns → ℝ) u ≠ 0 := by
  intro h
  apply hu
  have := congrArg (vR (m := ns) (n := nc)) h
  rw [vR_app] at this
  rw [this]; rfl

/-- the input block of a PD matrix plus a PSD pull-back is PD: `Quu` can be Cholesky-factorised -/
theorem pd_uu {Q : Matrix (Fin (ns + nc)) (Fin (ns + nc)) ℝ} (F : Matrix (Fin ns) (Fin (ns + nc)) ℝ)
    {Vp : Matrix (Fin ns) (Fin ns) ℝ} (hQ : IsPD Q) (hV : IsPSD Vp) : IsPD (bUU (Q + Fᵀ * Vp * F)) := by
  intro u hu
  have key : u ⬝ᵥ bUU (Q + Fᵀ * Vp * F) *ᵥ u = (app (0 : Fin ns → ℝ) u) ⬝ᵥ (Q + Fᵀ * Vp * F) *ᵥ (app 0 u) := by
    rw [dot_split, vR_mulVec, vL_app, vR_app]; simp
  rw [key, qf_aug]
  have := hQ _ (app_zero_ne (ns := ns) hu)
  have := hV (F *ᵥ app 0 u)
  linarith

theorem pd_uu_terminal {Q : Matrix (Fin (ns + nc)) (Fin (ns + nc)) ℝ} (hQ : IsPD Q) : IsPD (bUU Q) := by
  intro u hu
  have key : u ⬝ᵥ bUU Q *ᵥ u = (app (0 : Fin ns → ℝ) u) ⬝ᵥ Q *ᵥ (app 0 u) := by
    rw [dot_split, vR_mulVec, vL_app, vR_app]; simp
  rw [key]; exact hQ _ (app_zero_ne (ns := ns) hu)

/-- quadratic form of `M` on `(0, u)` = quadratic form of its input block on `u` -/
theorem qf_zero_app (M : Matrix (Fin (ns + nc)) (Fin (ns + nc)) ℝ) (u : Fin nc → ℝ) :
    (app (0 : Fin ns → ℝ) u) ⬝ᵥ M *ᵥ (app 0 u) = u ⬝ᵥ bUU M *ᵥ u := by
  rw [dot_split, vR_mulVec, vL_app, vR_app]; simp

/-- **the exact guard of the code**: the stage cost matrix is symmetric, positive SEMI-definite, and its input
block (`R_t`) is positive definite — what makes every `Quu` Cholesky-factorisable and the minimiser unique.
(Weaker than `Q_t ≻ 0`: e.g. no state cost at all.) -/
def CostOK (Q : Matrix (Fin (ns + nc)) (Fin (ns + nc)) ℝ) : Prop := IsSym Q ∧ IsPSD Q ∧ IsPD (bUU Q)

theorem CostOK.of_pd {Q : Matrix (Fin (ns + nc)) (Fin (ns + nc)) ℝ} (hs : IsSym Q) (hp : IsPD Q) : CostOK Q :=
  ⟨hs, hp.psd, pd_uu_terminal hp⟩

/-- input block of (PSD with PD input block) + PSD pull-back is PD -/
theorem pd_uu_of_costOK {Q : Matrix (Fin (ns + nc)) (Fin (ns + nc)) ℝ} (F : Matrix (Fin ns) (Fin (ns + nc)) ℝ)
    {Vp : Matrix (Fin ns) (Fin ns) ℝ} (hQ : CostOK Q) (hV : IsPSD Vp) : IsPD (bUU (Q + Fᵀ * Vp * F)) := by
  intro u hu
  rw [← qf_zero_app, qf_aug, qf_zero_app]
  have := hQ.2.2 u hu
  have := hV (F *ᵥ app 0 u)
  linarith

end stage

/-! ## Part 4 — the model's backward stage in Mathlib terms -/

section model
variable {ns nc : Nat}

/-- contract of `cholesky` + `cholesky_solve`: solves exactly when the matrix is symmetric positive definite -/
def SolverOK (sol : Solver ℝ ns nc) : Prop :=
  ∀ M : Mat ℝ nc nc, IsSym (toM M) → IsPD (toM M) →
    (∀ Y : Mat ℝ nc ns, toM M * toM (sol.solveM M Y) = toM Y) ∧
    (∀ y : Vec ℝ nc, toM M *ᵥ toFn (sol.solveV M y) = toFn y)

/-- `V` of the next stage (`0` at the terminal stage) -/
def Vp : Option (Val ℝ ns) → Matrix (Fin ns) (Fin ns) ℝ
  | none => 0
  | some w => toM w.V
def vp : Option (Val ℝ ns) → Fin ns → ℝ
  | none => 0
  | some w => toFn w.v

def ValOK (o : Option (Val ℝ ns)) : Prop := IsSym (Vp o) ∧ IsPSD (Vp o)

theorem ValOK_none : ValOK (none : Option (Val ℝ ns)) := by
  constructor
  · simp [IsSym, Vp]
  · intro x; simp [Vp]

variable (sol : Solver ℝ ns nc) (S : Sys ℝ ns nc) (P : Prob ℝ ns nc) (dt : Nat)
  (xbar : Nat → Vec ℝ ns) (ubar : Nat → Vec ℝ nc)

/-- `F = [A B]` read by iteration `t` of the backward loop -/
def Fmat (t : Nat) : Matrix (Fin ns) (Fin (ns + nc)) ℝ :=
  cat (toM (S.A (t * dt) (xbar t) (ubar t))) (toM (S.B (t * dt) (xbar t) (ubar t)))

/-- nominal `τ̄_t = (x̄_t, ū_t)` -/
def taub (t : Nat) : Fin (ns + nc) → ℝ := app (toFn (xbar t)) (toFn (ubar t))

theorem stageQ_fst (t : Nat) (nxt : Option (Val ℝ ns)) :
    toM (stageQ S P dt xbar ubar t nxt).1
      = toM (P.Q t) + (Fmat S dt xbar ubar t)ᵀ * Vp nxt * Fmat S dt xbar ubar t := by
  cases nxt with
  | none => simp [stageQ, Vp]
  | some w => simp [stageQ, Vp, Fmat]

theorem stageQ_snd (t : Nat) (nxt : Option (Val ℝ ns)) :
    toFn (stageQ S P dt xbar ubar t nxt).2
      = (toM (P.Q t) *ᵥ taub xbar ubar t + toFn (P.p t)) + (Fmat S dt xbar ubar t)ᵀ *ᵥ vp nxt := by
  cases nxt with
  | none => simp [stageQ, pbar, vp, taub]
  | some w => simp [stageQ, pbar, vp, Fmat, taub]

theorem stage_K (t : Nat) (nxt : Option (Val ℝ ns)) :
    toM (stage sol S P dt xbar ubar t nxt).1.K
      = - toM (sol.solveM (blkUU (stageQ S P dt xbar ubar t nxt).1) (blkUX (stageQ S P dt xbar ubar t nxt).1)) := by
  simp [stage]

theorem stage_k (t : Nat) (nxt : Option (Val ℝ ns)) :
    toFn (stage sol S P dt xbar ubar t nxt).1.k
      = - toFn (sol.solveV (blkUU (stageQ S P dt xbar ubar t nxt).1) (takeR (stageQ S P dt xbar ubar t nxt).2)) := by
  simp [stage]

theorem stage_V (t : Nat) (nxt : Option (Val ℝ ns)) :
    toM (stage sol S P dt xbar ubar t nxt).2.V
      = (let Qt := toM (stageQ S P dt xbar ubar t nxt).1
         let K := toM (stage sol S P dt xbar ubar t nxt).1.K
         bXX Qt + bXU Qt * K + Kᵀ * bUX Qt + Kᵀ * bUU Qt * K) := by
  simp [stage]

theorem stage_v (t : Nat) (nxt : Option (Val ℝ ns)) :
    toFn (stage sol S P dt xbar ubar t nxt).2.v
      = (let Qt := toM (stageQ S P dt xbar ubar t nxt).1
         let qt := toFn (stageQ S P dt xbar ubar t nxt).2
         let K := toM (stage sol S P dt xbar ubar t nxt).1.K
         let k := toFn (stage sol S P dt xbar ubar t nxt).1.k
         vL qt + bXU Qt *ᵥ k + Kᵀ *ᵥ vR qt + (Kᵀ * bUU Qt) *ᵥ k) := by
  simp [stage]

/-- everything the optimality induction needs to know about one backward iteration -/
theorem stage_ok (hsol : SolverOK sol) (t : Nat) (nxt : Option (Val ℝ ns))
    (hQ : CostOK (toM (P.Q t))) (hn : ValOK nxt) :
    let Qt := toM (stageQ S P dt xbar ubar t nxt).1
    let qt := toFn (stageQ S P dt xbar ubar t nxt).2
    let K := toM (stage sol S P dt xbar ubar t nxt).1.K
    let k := toFn (stage sol S P dt xbar ubar t nxt).1.k
    let V := toM (stage sol S P dt xbar ubar t nxt).2.V
    let v := toFn (stage sol S P dt xbar ubar t nxt).2.v
    (∀ δx : Fin ns → ℝ, vR (Qt *ᵥ app δx (K *ᵥ δx + k) + qt) = 0) ∧
    (∀ δx : Fin ns → ℝ, vL (Qt *ᵥ app δx (K *ᵥ δx + k) + qt) = V *ᵥ δx + v) ∧
    ValOK (some (stage sol S P dt xbar ubar t nxt).2) := by
  intro Qt qt K k V v
  have hQt : Qt = toM (P.Q t) + (Fmat S dt xbar ubar t)ᵀ * Vp nxt * Fmat S dt xbar ubar t := stageQ_fst S P dt xbar ubar t nxt
  have hsym : IsSym Qt := by rw [hQt]; exact sym_aug _ hQ.1 hn.1
  have hpsd : IsPSD Qt := by rw [hQt]; exact psd_aug _ hQ.2.1 hn.2
  have hpd : IsPD (bUU Qt) := by rw [hQt]; exact pd_uu_of_costOK _ hQ hn.2
  have hsb := sym_blocks hsym
  have hc := hsol (blkUU (stageQ S P dt xbar ubar t nxt).1) (by rw [toM_blkUU]; exact hsb.2.2.2) (by rw [toM_blkUU]; exact hpd)
  have hM := hc.1 (blkUX (stageQ S P dt xbar ubar t nxt).1)
  have hv := hc.2 (takeR (stageQ S P dt xbar ubar t nxt).2)
  rw [toM_blkUU, toM_blkUX] at hM
  rw [toM_blkUU, toFn_takeR] at hv
  have hK : K = - toM (sol.solveM (blkUU (stageQ S P dt xbar ubar t nxt).1) (blkUX (stageQ S P dt xbar ubar t nxt).1)) :=
    stage_K sol S P dt xbar ubar t nxt
  have hk : k = - toFn (sol.solveV (blkUU (stageQ S P dt xbar ubar t nxt).1) (takeR (stageQ S P dt xbar ubar t nxt).2)) :=
    stage_k sol S P dt xbar ubar t nxt
  have hV : V = bXX Qt + bXU Qt * K + Kᵀ * bUX Qt + Kᵀ * bUU Qt * K := stage_V sol S P dt xbar ubar t nxt
  have hvv : v = vL qt + bXU Qt *ᵥ k + Kᵀ *ᵥ vR qt + (Kᵀ * bUU Qt) *ᵥ k := stage_v sol S P dt xbar ubar t nxt
  have h0 : ∀ δx : Fin ns → ℝ, bUX Qt *ᵥ δx + bUU Qt *ᵥ (K *ᵥ δx + k) + vR qt = 0 := by
    intro δx; rw [hK, hk]; exact gain_stationary Qt qt _ _ hM hv δx
  refine ⟨?_, ?_, ?_⟩
  · intro δx
    rw [vR_add, vR_mulVec, vL_app, vR_app]; exact h0 δx
  · intro δx
    rw [vL_add, vL_mulVec, vL_app, vR_app, hV, hvv]
    exact (value_costate Qt qt K k δx (h0 δx)).symm
  · constructor
    · show IsSym V
      rw [hV]; exact sym_value hsym K
    · show IsPSD V
      rw [hV]; exact psd_value hpsd K

/-- what the solver is handed at one stage, and what comes back -/
def GainOK (g : Gain ℝ ns nc) : Prop :=
  IsSym (toM g.Quu) ∧ IsPD (toM g.Quu) ∧ toM g.Quu * toM g.K = - toM g.Qux ∧ toM g.Quu *ᵥ toFn g.k = - toFn g.qu

/-- one backward iteration (ANY system): the matrix handed to `cholesky` is symmetric positive definite, the
returned gains solve `Quu K = -Qux`, `Quu k = -qu`, and the new `V` is again symmetric PSD -/
theorem stage_gain_ok (hsol : SolverOK sol) (t : Nat) (nxt : Option (Val ℝ ns))
    (hQ : CostOK (toM (P.Q t))) (hn : ValOK nxt) :
    GainOK (stage sol S P dt xbar ubar t nxt).1 ∧ ValOK (some (stage sol S P dt xbar ubar t nxt).2) := by
  refine ⟨?_, (stage_ok sol S P dt xbar ubar hsol t nxt hQ hn).2.2⟩
  have hQt : toM (stageQ S P dt xbar ubar t nxt).1 = toM (P.Q t) + (Fmat S dt xbar ubar t)ᵀ * Vp nxt * Fmat S dt xbar ubar t :=
    stageQ_fst S P dt xbar ubar t nxt
  have hsym : IsSym (toM (stageQ S P dt xbar ubar t nxt).1) := by rw [hQt]; exact sym_aug _ hQ.1 hn.1
  have hpd : IsPD (bUU (toM (stageQ S P dt xbar ubar t nxt).1)) := by rw [hQt]; exact pd_uu_of_costOK _ hQ hn.2
  have hsb := sym_blocks hsym
  have e1 : toM (stage sol S P dt xbar ubar t nxt).1.Quu = bUU (toM (stageQ S P dt xbar ubar t nxt).1) := by simp [stage]
  have e2 : toM (stage sol S P dt xbar ubar t nxt).1.Qux = bUX (toM (stageQ S P dt xbar ubar t nxt).1) := by simp [stage]
  have e3 : toFn (stage sol S P dt xbar ubar t nxt).1.qu = vR (toFn (stageQ S P dt xbar ubar t nxt).2) := by simp [stage]
  have hc := hsol (blkUU (stageQ S P dt xbar ubar t nxt).1) (by rw [toM_blkUU]; exact hsb.2.2.2) (by rw [toM_blkUU]; exact hpd)
  have hM := hc.1 (blkUX (stageQ S P dt xbar ubar t nxt).1)
  have hv := hc.2 (takeR (stageQ S P dt xbar ubar t nxt).2)
  rw [toM_blkUU, toM_blkUX] at hM
  rw [toM_blkUU, toFn_takeR] at hv
  refine ⟨by rw [e1]; exact hsb.2.2.2, by rw [e1]; exact hpd, ?_, ?_⟩
  · rw [e1, e2, stage_K, Matrix.mul_neg, hM]
  · rw [e1, e3, stage_k, Matrix.mulVec_neg, hv]

/-- the whole backward loop (ANY system, any nominal): every `Quu` is symmetric positive definite — `cholesky` is never
called outside its domain — and every stored gain solves its stage system -/
theorem bwFrom_gains_ok (hsol : SolverOK sol) (n : Nat) : ∀ t,
    (∀ s, t ≤ s → s < t + n → CostOK (toM (P.Q s))) →
    ValOK (bwFrom sol S P dt xbar ubar t n).1 ∧ ∀ g ∈ (bwFrom sol S P dt xbar ubar t n).2, GainOK g := by
  induction n with
  | zero => intro t _; exact ⟨ValOK_none, by intro g hg; simp [bwFrom] at hg⟩
  | succ n ih =>
    intro t hQ
    obtain ⟨hv, hg⟩ := ih (t+1) (fun s a b => hQ s (by omega) (by omega))
    have h := stage_gain_ok sol S P dt xbar ubar hsol t (bwFrom sol S P dt xbar ubar (t+1) n).1 (hQ t (le_refl _) (by omega)) hv
    have e : bwFrom sol S P dt xbar ubar t (n+1)
        = (some (stage sol S P dt xbar ubar t (bwFrom sol S P dt xbar ubar (t+1) n).1).2,
           (stage sol S P dt xbar ubar t (bwFrom sol S P dt xbar ubar (t+1) n).1).1 :: (bwFrom sol S P dt xbar ubar (t+1) n).2) := rfl
    rw [e]
    refine ⟨h.2, ?_⟩
    intro g hgm
    rcases List.mem_cons.mp hgm with rfl | h2
    · exact h.1
    · exact hg g h2

end model

/-! ## Part 5 — cost side: the optimality identity -/

section cost
variable {ns nc : Nat}
variable (sol : Solver ℝ ns nc) (S : Sys ℝ ns nc) (P : Prob ℝ ns nc) (dt : Nat)
  (xbar : Nat → Vec ℝ ns) (ubar : Nat → Vec ℝ nc)

theorem stageCost_eq (t : Nat) (x : Vec ℝ ns) (u : Vec ℝ nc) :
    stageCost P t x u
      = (1:ℝ)/2 * (app (toFn x) (toFn u) ⬝ᵥ toM (P.Q t) *ᵥ app (toFn x) (toFn u)) + app (toFn x) (toFn u) ⬝ᵥ toFn (P.p t) := by
  simp [stageCost]

theorem ctrl_eq (g : Gain ℝ ns nc) (t : Nat) (x : Vec ℝ ns) :
    toFn (ctrl xbar ubar g t x) = toM g.K *ᵥ (toFn x - toFn (xbar t)) + toFn g.k + toFn (ubar t) := by
  simp [ctrl]

theorem linear_f (A : Nat → Mat ℝ ns ns) (B : Nat → Mat ℝ ns nc) (c : Nat → Vec ℝ ns) (t : Nat) (x : Vec ℝ ns) (u : Vec ℝ nc) :
    toFn ((Sys.linear A B c).f t x u) = toM (A t) *ᵥ toFn x + toM (B t) *ᵥ toFn u + toFn (c t) := by
  simp [Sys.linear]

theorem fwFrom_cons (clk t : Nat) (x : Vec ℝ ns) (g : Gain ℝ ns nc) (gs : List (Gain ℝ ns nc)) :
    fwFrom S P xbar ubar clk t x (g :: gs)
      = (S.f clk x (ctrl xbar ubar g t x) :: (fwFrom S P xbar ubar (clk+1) (t+1) (S.f clk x (ctrl xbar ubar g t x)) gs).1,
         ctrl xbar ubar g t x :: (fwFrom S P xbar ubar (clk+1) (t+1) (S.f clk x (ctrl xbar ubar g t x)) gs).2.1,
         stageCost P t x (ctrl xbar ubar g t x) + (fwFrom S P xbar ubar (clk+1) (t+1) (S.f clk x (ctrl xbar ubar g t x)) gs).2.2) := rfl

theorem simulate_cons (t : Nat) (x : Vec ℝ ns) (u : Vec ℝ nc) (us : List (Vec ℝ nc)) :
    simulate S P t x (u :: us)
      = (S.f t x u :: (simulate S P (t+1) (S.f t x u) us).1, stageCost P t x u + (simulate S P (t+1) (S.f t x u) us).2) := rfl

theorem bwFrom_succ (t n : Nat) :
    bwFrom sol S P dt xbar ubar t (n+1)
      = (some (stage sol S P dt xbar ubar t (bwFrom sol S P dt xbar ubar (t+1) n).1).2,
         (stage sol S P dt xbar ubar t (bwFrom sol S P dt xbar ubar (t+1) n).1).1 :: (bwFrom sol S P dt xbar ubar (t+1) n).2) := rfl

theorem bwFrom_length (t n : Nat) : (bwFrom sol S P dt xbar ubar t n).2.length = n := by
  induction n generalizing t with
  | zero => rfl
  | succ n ih => rw [bwFrom_succ]; simp [ih]

/-- the forward loop with clock = step index produces exactly the simulated trajectory of its own inputs:
states obey the transition, the accumulated cost is the sum of the stage costs (any system, any gains) -/
theorem fwFrom_sim (gs : List (Gain ℝ ns nc)) : ∀ (t : Nat) (x : Vec ℝ ns),
    simulate S P t x (fwFrom S P xbar ubar t t x gs).2.1
      = ((fwFrom S P xbar ubar t t x gs).1, (fwFrom S P xbar ubar t t x gs).2.2) := by
  induction gs with
  | nil => intro t x; rfl
  | cons g gs ih =>
    intro t x
    rw [fwFrom_cons]
    simp only [simulate_cons]
    rw [ih (t+1)]

/-- `Σ ½ dτᵀ Q dτ` between two simulated trajectories -/
noncomputable def gap : Nat → Vec ℝ ns → List (Vec ℝ nc) → Vec ℝ ns → List (Vec ℝ nc) → ℝ
  | t, x, u :: us, x', u' :: us' =>
    (1:ℝ)/2 * (app (toFn x' - toFn x) (toFn u' - toFn u) ⬝ᵥ toM (P.Q t) *ᵥ app (toFn x' - toFn x) (toFn u' - toFn u))
      + gap (t+1) (S.f t x u) us (S.f t x' u') us'
  | _, _, _, _, _ => 0

/-- costate `λ_t(x) = V_t (x - x̄_t) + v_t` -/
noncomputable def lam (o : Option (Val ℝ ns)) (t : Nat) (x : Vec ℝ ns) : Fin ns → ℝ :=
  Vp o *ᵥ (toFn x - toFn (xbar t)) + vp o

theorem bwFrom_zero (t : Nat) : bwFrom sol S P dt xbar ubar t 0 = (none, []) := rfl

/-- **The optimality identity** (any dimensions, any horizon, time-varying): for a linear system whose
nominal trajectory satisfies the dynamics, the cost of ANY input sequence from ANY start `x'` exceeds the cost
of the LQR policy from `x` by exactly `λ_t(x)·(x'-x) + Σ ½ dτᵀ Q dτ`. -/
theorem opt_identity (hsol : SolverOK sol) (A : Nat → Mat ℝ ns ns) (B : Nat → Mat ℝ ns nc) (c : Nat → Vec ℝ ns)
    (n : Nat) : ∀ (t : Nat),
    (∀ s, t ≤ s → s < t + n → CostOK (toM (P.Q s))) →
    (∀ s, t ≤ s → s + 1 < t + n → A (s * dt) = A s ∧ B (s * dt) = B s) →
    (∀ s, t ≤ s → s + 1 < t + n → xbar (s+1) = (Sys.linear A B c).f s (xbar s) (ubar s)) →
    ValOK (bwFrom sol (Sys.linear A B c) P dt xbar ubar t n).1 ∧
    ∀ (x x' : Vec ℝ ns) (us' : List (Vec ℝ nc)), us'.length = n →
      (simulate (Sys.linear A B c) P t x' us').2
        - (fwFrom (Sys.linear A B c) P xbar ubar t t x (bwFrom sol (Sys.linear A B c) P dt xbar ubar t n).2).2.2
      = lam xbar (bwFrom sol (Sys.linear A B c) P dt xbar ubar t n).1 t x ⬝ᵥ (toFn x' - toFn x)
        + gap (Sys.linear A B c) P t x
            (fwFrom (Sys.linear A B c) P xbar ubar t t x (bwFrom sol (Sys.linear A B c) P dt xbar ubar t n).2).2.1 x' us' := by
  induction n with
  | zero =>
    intro t _ _ _
    refine ⟨ValOK_none, ?_⟩
    intro x x' us' hl
    have : us' = [] := List.eq_nil_of_length_eq_zero hl
    subst this
    simp [bwFrom_zero, fwFrom, simulate, gap, lam, Vp, vp]
  | succ n ih =>
    intro t hQ hlin hnom
    obtain ⟨hval, hid⟩ := ih (t+1) (fun s h1 h2 => hQ s (by omega) (by omega)) (fun s h1 h2 => hlin s (by omega) (by omega))
      (fun s h1 h2 => hnom s (by omega) (by omega))
    set S := Sys.linear A B c with hS
    set r := bwFrom sol S P dt xbar ubar (t+1) n with hr
    have hQt0 := hQ t (le_refl _) (by omega)
    have hQs := hQt0.1
    obtain ⟨hR, hL, hvalw⟩ := stage_ok sol S P dt xbar ubar hsol t r.1 hQt0 hval
    rw [bwFrom_succ]
    refine ⟨hvalw, ?_⟩
    intro x x' us' hl
    match us', hl with
    | u' :: us'', hl =>
    have hl' : us''.length = n := by simpa using hl
    simp only [fwFrom_cons, simulate_cons, gap]
    set g := (stage sol S P dt xbar ubar t r.1).1 with hg
    set w := (stage sol S P dt xbar ubar t r.1).2 with hw
    set u := ctrl xbar ubar g t x with hu
    have IH := hid (S.f t x u) (S.f t x' u') us'' hl'
    -- names
    set Q := toM (P.Q t) with hQdef
    set F := Fmat S dt xbar ubar t with hF
    set δx : Fin ns → ℝ := toFn x - toFn (xbar t) with hδx
    set K := toM g.K with hK
    set k := toFn g.k with hk
    have hδu : toFn u - toFn (ubar t) = K *ᵥ δx + k := by
      rw [hu, ctrl_eq]; abel
    set δτ : Fin (ns + nc) → ℝ := app δx (K *ᵥ δx + k) with hδτ
    have hτ : app (toFn x) (toFn u) = taub xbar ubar t + δτ := by
      rw [hδτ, taub, app_add, ← hδu, hδx]; congr 1 <;> abel
    set Qt := toM (stageQ S P dt xbar ubar t r.1).1 with hQt
    set qt := toFn (stageQ S P dt xbar ubar t r.1).2 with hqt
    set G := Qt *ᵥ δτ + qt with hG
    have hGR : vR G = 0 := hR δx
    have hGL : vL G = lam xbar (some w) t x := by
      rw [hG, hδτ, hL δx]; rfl
    have hGeq : G = (Q *ᵥ app (toFn x) (toFn u) + toFn (P.p t)) + Fᵀ *ᵥ (Vp r.1 *ᵥ (F *ᵥ δτ) + vp r.1) := by
      rw [hG, hQt, hqt, stageQ_fst, stageQ_snd, hτ]
      exact aug_grad Q F (Vp r.1) (vp r.1) (toFn (P.p t)) (taub xbar ubar t) δτ
    -- the direction
    set dx : Fin ns → ℝ := toFn x' - toFn x with hdx
    set du : Fin nc → ℝ := toFn u' - toFn u with hdu
    have hd : app (toFn x') (toFn u') - app (toFn x) (toFn u) = app dx du := app_sub _ _ _ _
    -- the pulled-back costate term; the terminal stage never reads A, B (so `hlin` is not needed there)
    have e3 : G ⬝ᵥ app dx du = (Q *ᵥ app (toFn x) (toFn u) + toFn (P.p t)) ⬝ᵥ app dx du
        + lam xbar r.1 (t+1) (S.f t x u) ⬝ᵥ (toFn (S.f t x' u') - toFn (S.f t x u)) := by
      cases hro : r.1 with
      | none =>
        rw [hro] at hGeq
        rw [hGeq]
        simp [Vp, vp, lam]
      | some w0 =>
        rw [hro] at hGeq
        have hn1 : 1 ≤ n := by
          rcases n with _ | n
          · rw [hr, bwFrom_zero] at hro; cases hro
          · omega
        have hFA : F = cat (toM (A t)) (toM (B t)) := by
          rw [hF, Fmat, hS]
          simp only [Sys.linear]
          rw [(hlin t (le_refl _) (by omega)).1, (hlin t (le_refl _) (by omega)).2]
        have hFd : F *ᵥ app dx du = toFn (S.f t x' u') - toFn (S.f t x u) := by
          rw [hFA, cat_mulVec, vL_app, vR_app, hS, linear_f, linear_f, hdx, hdu, Matrix.mulVec_sub, Matrix.mulVec_sub]
          abel
        have hlamp : Vp (some w0) *ᵥ (F *ᵥ δτ) + vp (some w0) = lam xbar (some w0) (t+1) (S.f t x u) := by
          unfold lam
          have hx1 := hnom t (le_refl _) (by omega)
          congr 2
          rw [hx1, hFA, hδτ, cat_mulVec, vL_app, vR_app, ← hδu, hδx, linear_f, linear_f, Matrix.mulVec_sub, Matrix.mulVec_sub]
          abel
        rw [hGeq, add_dotProduct, tr_dot, hFd, hlamp]
    -- scalar bookkeeping
    have e1 := stage_expand hQs (toFn (P.p t)) (app (toFn x) (toFn u)) (app (toFn x') (toFn u'))
    rw [hd] at e1
    have e2 : G ⬝ᵥ app dx du = lam xbar (some w) t x ⬝ᵥ dx := by
      rw [dot_split, hGR, hGL, vL_app, vR_app]; simp
    rw [stageCost_eq, stageCost_eq]
    linarith

theorem gap_nonneg : ∀ (us us' : List (Vec ℝ nc)) (t : Nat) (x x' : Vec ℝ ns),
    (∀ s, t ≤ s → s < t + us.length → IsPSD (toM (P.Q s))) → 0 ≤ gap S P t x us x' us' := by
  intro us
  induction us with
  | nil => intro us' t x x' _; simp [gap]
  | cons u us ih =>
    intro us' t x x' h
    cases us' with
    | nil => simp [gap]
    | cons u' us' =>
      simp only [gap]
      have h1 := h t (le_refl _) (by simp)
      have h2 := ih us' (t+1) (S.f t x u) (S.f t x' u') (fun s a b => h s (by omega) (by simp only [List.length_cons]; omega))
      have := h1 (app (toFn x' - toFn x) (toFn u' - toFn u))
      linarith

/-- strict convexity in the inputs: two input lists of the same length from the same start with zero gap are equal
(needs only `Q_t ⪰ 0` with positive definite input block) -/
theorem gap_eq_zero : ∀ (us us' : List (Vec ℝ nc)) (t : Nat) (x : Vec ℝ ns),
    us'.length = us.length →
    (∀ s, t ≤ s → s < t + us.length → CostOK (toM (P.Q s))) → gap S P t x us x us' = 0 → us' = us := by
  intro us
  induction us with
  | nil => intro us' t x hl _ _; exact List.eq_nil_of_length_eq_zero hl
  | cons u us ih =>
    intro us' t x hl h h0
    cases us' with
    | nil => simp at hl
    | cons u' us' =>
      simp only [gap] at h0
      have hc := h t (le_refl _) (by simp)
      have hps : ∀ s, t + 1 ≤ s → s < t + 1 + us.length → IsPSD (toM (P.Q s)) :=
        fun s a b => (h s (by omega) (by simp only [List.length_cons]; omega)).2.1
      have h2 := gap_nonneg S P us us' (t+1) (S.f t x u) (S.f t x u') hps
      have h1 := hc.2.1 (app (toFn x - toFn x) (toFn u' - toFn u))
      have hz : app (toFn x - toFn x) (toFn u' - toFn u) ⬝ᵥ toM (P.Q t) *ᵥ app (toFn x - toFn x) (toFn u' - toFn u) = 0 := by
        linarith
      have hd : toFn u' - toFn u = 0 := by
        by_contra hne
        have := hc.2.2 _ hne
        rw [sub_self, qf_zero_app] at hz
        linarith
      have hu : u' = u := toFn_inj (sub_eq_zero.mp hd)
      subst hu
      have hg : gap S P (t+1) (S.f t x u') us (S.f t x u') us' = 0 := by
        rw [hz] at h0; linarith
      have := ih us' (t+1) (S.f t x u') (by simpa using hl)
        (fun s a b => h s (by omega) (by simp only [List.length_cons]; omega)) hg
      rw [this]

/-! ### the nominal roll-out (`runsys`) -/

theorem nth_cons_succ {n : Nat} (a : Vec ℝ n) (l : List (Vec ℝ n)) (j : Nat) : nth (a :: l) (j+1) = nth l j := by
  simp [nth]

theorem nth_cons_zero {n : Nat} (a : Vec ℝ n) (l : List (Vec ℝ n)) : nth (a :: l) 0 = a := by
  simp [nth]

theorem rollFrom_length (clk i n : Nat) (x : Vec ℝ ns) : (rollFrom S ubar clk i n x).length = n := by
  induction n generalizing clk i x with
  | zero => rfl
  | succ n ih => simp [rollFrom, ih]

theorem rollFrom_zero (clk i n : Nat) (x : Vec ℝ ns) : nth (rollFrom S ubar clk i (n+1) x) 0 = x := by
  simp [rollFrom, nth]

/-- `x_traj[j+1] = system(x_traj[j], u_traj[j])` with the clock at `clk + j` and the nominal input read at the LOOP index -/
theorem rollFrom_step (n : Nat) : ∀ (clk i : Nat) (x : Vec ℝ ns) (j : Nat), j + 1 < n →
    nth (rollFrom S ubar clk i n x) (j+1) = S.f (clk + j) (nth (rollFrom S ubar clk i n x) j) (ubar (i + j)) := by
  induction n with
  | zero => intro clk i x j h; omega
  | succ n ih =>
    intro clk i x j h
    cases j with
    | zero =>
      cases n with
      | zero => omega
      | succ n => simp [rollFrom, nth]
    | succ j =>
      have := ih (clk+1) (i+1) (S.f clk x (ubar i)) j (by omega)
      simp only [rollFrom, nth_cons_succ] at this ⊢
      rw [this]
      have e : clk + 1 + j = clk + (j + 1) := by omega
      have e2 : i + 1 + j = i + (j + 1) := by omega
      rw [e, e2]

end cost

/-! ## Part 6 — the cost along a line through the optimum (stationarity) and affine roll-outs -/

section line
variable {ns nc : Nat}
variable (A : Nat → Mat ℝ ns ns) (B : Nat → Mat ℝ ns nc) (c : Nat → Vec ℝ ns) (P : Prob ℝ ns nc)

theorem app_smul {m n : Nat} (e : ℝ) (a : Fin m → ℝ) (b : Fin n → ℝ) : app (e • a) (e • b) = e • app a b := by
  funext i
  refine Fin.addCases (fun a => ?_) (fun b => ?_) i <;> simp [app]

/-- state differences of two roll-outs of a linear system: `d⁺ = A_t d + B_t du` (no dependence on the base
trajectory: the roll-out is an affine function of the inputs) -/
def dprop : Nat → (Fin ns → ℝ) → List (Fin nc → ℝ) → List (Fin ns → ℝ)
  | _, _, [] => []
  | t, dx, du :: dus => (toM (A t) *ᵥ dx + toM (B t) *ᵥ du) :: dprop (t+1) (toM (A t) *ᵥ dx + toM (B t) *ᵥ du) dus

/-- the second-order term as a function of the differences alone -/
noncomputable def gapLin : Nat → (Fin ns → ℝ) → List (Fin nc → ℝ) → ℝ
  | _, _, [] => 0
  | t, dx, du :: dus =>
    (1:ℝ)/2 * (app dx du ⬝ᵥ toM (P.Q t) *ᵥ app dx du) + gapLin (t+1) (toM (A t) *ᵥ dx + toM (B t) *ᵥ du) dus

/-- differences of two input lists -/
def udiff : List (Vec ℝ nc) → List (Vec ℝ nc) → List (Fin nc → ℝ)
  | u' :: us', u :: us => (toFn u' - toFn u) :: udiff us' us
  | _, _ => []

theorem linear_f_sub (t : Nat) (x x' : Vec ℝ ns) (u u' : Vec ℝ nc) :
    toFn ((Sys.linear A B c).f t x' u') - toFn ((Sys.linear A B c).f t x u)
      = toM (A t) *ᵥ (toFn x' - toFn x) + toM (B t) *ᵥ (toFn u' - toFn u) := by
  rw [linear_f, linear_f, Matrix.mulVec_sub, Matrix.mulVec_sub]; abel

theorem gap_eq_gapLin : ∀ (us us' : List (Vec ℝ nc)) (t : Nat) (x x' : Vec ℝ ns), us'.length = us.length →
    gap (Sys.linear A B c) P t x us x' us' = gapLin A B P t (toFn x' - toFn x) (udiff us' us) := by
  intro us
  induction us with
  | nil => intro us' t x x' hl; have := List.eq_nil_of_length_eq_zero hl; subst this; simp [gap, gapLin, udiff]
  | cons u us ih =>
    intro us' t x x' hl
    cases us' with
    | nil => simp at hl
    | cons u' us' =>
      simp only [gap, udiff, gapLin]
      rw [ih us' (t+1) _ _ (by simpa using hl), linear_f_sub]

/-- roll-outs are affine in (start, inputs): the state differences are `dprop` of the differences -/
theorem simulate_diff : ∀ (us us' : List (Vec ℝ nc)) (t : Nat) (x x' : Vec ℝ ns), us'.length = us.length →
    List.zipWith (fun a b => toFn a - toFn b) (simulate (Sys.linear A B c) P t x' us').1 (simulate (Sys.linear A B c) P t x us).1
      = dprop A B t (toFn x' - toFn x) (udiff us' us) := by
  intro us
  induction us with
  | nil => intro us' t x x' hl; have := List.eq_nil_of_length_eq_zero hl; subst this; simp [simulate, dprop, udiff]
  | cons u us ih =>
    intro us' t x x' hl
    cases us' with
    | nil => simp at hl
    | cons u' us' =>
      simp only [simulate_cons, udiff, dprop, List.zipWith_cons_cons]
      rw [ih us' (t+1) _ _ (by simpa using hl), linear_f_sub]

theorem gapLin_smul (e : ℝ) : ∀ (dus : List (Fin nc → ℝ)) (t : Nat) (dx : Fin ns → ℝ),
    gapLin A B P t (e • dx) (dus.map fun d => e • d) = e ^ 2 * gapLin A B P t dx dus := by
  intro dus
  induction dus with
  | nil => intro t dx; simp [gapLin]
  | cons du dus ih =>
    intro t dx
    simp only [List.map_cons, gapLin]
    have h1 : toM (A t) *ᵥ (e • dx) + toM (B t) *ᵥ (e • du) = e • (toM (A t) *ᵥ dx + toM (B t) *ᵥ du) := by
      rw [Matrix.mulVec_smul, Matrix.mulVec_smul, smul_add]
    rw [h1, ih, app_smul, Matrix.mulVec_smul, smul_dotProduct, dotProduct_smul]
    simp only [smul_eq_mul]
    ring

/-- inputs moved by `ε` along the direction list `ds` -/
noncomputable def perturb (us : List (Vec ℝ nc)) (ds : List (Fin nc → ℝ)) (e : ℝ) : List (Vec ℝ nc) :=
  List.zipWith (fun u d => vec (toFn u + e • d)) us ds

theorem perturb_length (us : List (Vec ℝ nc)) (ds : List (Fin nc → ℝ)) (e : ℝ) (h : ds.length = us.length) :
    (perturb us ds e).length = us.length := by
  simp [perturb, h]

theorem udiff_perturb (e : ℝ) : ∀ (us : List (Vec ℝ nc)) (ds : List (Fin nc → ℝ)), ds.length = us.length →
    udiff (perturb us ds e) us = ds.map fun d => e • d := by
  intro us
  induction us with
  | nil => intro ds h; have := List.eq_nil_of_length_eq_zero h; subst this; simp [perturb, udiff]
  | cons u us ih =>
    intro ds h
    cases ds with
    | nil => simp at h
    | cons d ds =>
      have := ih ds (by simpa using h)
      simp only [perturb, List.zipWith_cons_cons, udiff, List.map_cons] at this ⊢
      rw [this, toFn_vec]
      congr 1
      abel

end line

section misc
variable {ns nc : Nat}

theorem fwFrom_length (S : Sys ℝ ns nc) (P : Prob ℝ ns nc) (xbar : Nat → Vec ℝ ns) (ubar : Nat → Vec ℝ nc)
    (gs : List (Gain ℝ ns nc)) : ∀ (clk t : Nat) (x : Vec ℝ ns), (fwFrom S P xbar ubar clk t x gs).2.1.length = gs.length := by
  induction gs with
  | nil => intro clk t x; rfl
  | cons g gs ih => intro clk t x; rw [fwFrom_cons]; simp [ih]

/-- the solves of a history, each computed on a fresh system -/
noncomputable def freshSolves (sol : Solver ℝ ns nc) (S : Sys ℝ ns nc) : List (Op ℝ ns nc) → List (Out ℝ ns nc)
  | [] => []
  | .solve P dt x0 ubar :: rest => lqr sol S P dt x0 ubar :: freshSolves sol S rest
  | .setClock _ :: rest => freshSolves sol S rest
  | .forward _ :: rest => freshSolves sol S rest
  | .failed _ :: rest => freshSolves sol S rest

/-! ### the solver contract is satisfiable in every dimension (non-vacuity of `SolverOK`) -/

theorem pd_isUnit_det {n : Nat} {M : Matrix (Fin n) (Fin n) ℝ} (h : IsPD M) : IsUnit M.det := by
  rw [← Matrix.isUnit_iff_isUnit_det, ← Matrix.mulVec_injective_iff_isUnit]
  intro x y hxy
  by_contra hne
  have hd : x - y ≠ 0 := sub_ne_zero.mpr hne
  have h0 : M *ᵥ (x - y) = 0 := by
    rw [Matrix.mulVec_sub]; exact sub_eq_zero.mpr hxy
  have := h _ hd
  rw [h0] at this
  simp at this

/-- exact solve through the matrix inverse -/
noncomputable def invSolver (ns nc : Nat) : Solver ℝ ns nc where
  solveM := fun M Y => mat fun i j => ((toM M)⁻¹ * toM Y) i j
  solveV := fun M y => vec fun i => ((toM M)⁻¹ *ᵥ toFn y) i
  accepts := fun _ => true

theorem invSolver_ok (ns nc : Nat) : SolverOK (invSolver ns nc) := by
  intro M _ hpd
  have hu := pd_isUnit_det hpd
  constructor
  · intro Y
    simp only [invSolver, toM_mat]
    show toM M * ((toM M)⁻¹ * toM Y) = toM Y
    rw [← Matrix.mul_assoc, Matrix.mul_nonsing_inv _ hu, Matrix.one_mul]
  · intro y
    simp only [invSolver, toFn_vec]
    show toM M *ᵥ ((toM M)⁻¹ *ᵥ toFn y) = toFn y
    rw [Matrix.mulVec_mulVec, Matrix.mul_nonsing_inv _ hu, Matrix.one_mulVec]

/-- the stored identity matrix -/
def idMat (n : Nat) : Mat ℝ n n := mat fun i j => if i = j then 1 else 0

theorem toM_idMat (n : Nat) : toM (idMat n) = 1 := by
  unfold idMat; rw [toM_mat]; ext i j; simp [Matrix.one_apply]

theorem idMat_sym_pd (n : Nat) : IsSym (toM (idMat n)) ∧ IsPD (toM (idMat n)) := by
  rw [toM_idMat]
  constructor
  · simp [IsSym]
  · intro x hx
    rw [Matrix.one_mulVec]
    have h0 : 0 ≤ x ⬝ᵥ x := by
      simp only [dotProduct]; exact Finset.sum_nonneg fun i _ => mul_self_nonneg (x i)
    have h1 : x ⬝ᵥ x ≠ 0 := fun h => hx (dotProduct_self_eq_zero.mp h)
    exact lt_of_le_of_ne h0 (Ne.symm h1)

end misc

/-! ## Part 7 — the MPC loop: iterates and best-so-far -/

section mpcloop
variable {ns nc : Nat}
variable (sol : Solver ℝ ns nc) (S : Sys ℝ ns nc) (P : Prob ℝ ns nc) (dt : Nat) (x0 : Vec ℝ ns)
  (uinit : Option (List (Vec ℝ nc)))

/-- the `i`-th inner solve of the loop: linearised around the inputs of the previous one -/
noncomputable def iterate : Nat → Out ℝ ns nc
  | 0 => lqr sol S P dt x0 (nomOf uinit)
  | i+1 => lqr sol S P dt x0 (nomOf (some (iterate i).u))

/-- the `u` handed to the `n`-th inner solve -/
noncomputable def uAt : Nat → Option (List (Vec ℝ nc))
  | 0 => uinit
  | n+1 => some (iterate sol S P dt x0 uinit n).u

/-- `best` after `n` iterations -/
noncomputable def bestOf : Nat → Best ℝ ns nc
  | 0 => ⟨uinit, none⟩
  | n+1 =>
    let o := iterate sol S P dt x0 uinit n
    let better := match (bestOf n).cost with
      | none => true
      | some c => Scalar.lt o.cost c
    if better then ⟨some o.u, some o.cost⟩ else bestOf n

theorem iterate_eq (n : Nat) : lqr sol S P dt x0 (nomOf (uAt sol S P dt x0 uinit n)) = iterate sol S P dt x0 uinit n := by
  cases n <;> rfl

/-- the loop, started after `n` iterations in the state the code would be in, ends with `best` = the
running strict minimum over the iterations it performed -/
theorem mpcLoop_best (fuel : Nat) : ∀ (st : Stepper ℝ) (n : Nat),
    (mpcLoop sol S P dt x0 fuel st (uAt sol S P dt x0 uinit n) (bestOf sol S P dt x0 uinit n) n).1
      = bestOf sol S P dt x0 uinit (mpcLoop sol S P dt x0 fuel st (uAt sol S P dt x0 uinit n) (bestOf sol S P dt x0 uinit n) n).2.2
    ∧ n ≤ (mpcLoop sol S P dt x0 fuel st (uAt sol S P dt x0 uinit n) (bestOf sol S P dt x0 uinit n) n).2.2 := by
  induction fuel with
  | zero => intro st n; simp [mpcLoop]
  | succ fuel ih =>
    intro st n
    by_cases hc : st.continual = true
    · have e : mpcLoop sol S P dt x0 (fuel+1) st (uAt sol S P dt x0 uinit n) (bestOf sol S P dt x0 uinit n) n
          = mpcLoop sol S P dt x0 fuel (st.step (iterate sol S P dt x0 uinit n).cost) (uAt sol S P dt x0 uinit (n+1))
              (bestOf sol S P dt x0 uinit (n+1)) (n+1) := by
        rw [mpcLoop]
        simp only [hc, if_true]
        rw [iterate_eq]
        simp only [bestOf, uAt]
        generalize bestOf sol S P dt x0 uinit n = b
        rcases b with ⟨bu, bc⟩
        cases bc <;> rfl
      rw [e]
      have := ih (st.step (iterate sol S P dt x0 uinit n).cost) (n+1)
      exact ⟨this.1, by omega⟩
    · have e : mpcLoop sol S P dt x0 (fuel+1) st (uAt sol S P dt x0 uinit n) (bestOf sol S P dt x0 uinit n) n
          = (bestOf sol S P dt x0 uinit n, st, n) := by
        rw [mpcLoop]; simp [hc]
      rw [e]; simp

/-- the running minimum: after at least one iteration `best` holds the inputs and cost of an iteration whose
cost is minimal among all performed iterations -/
theorem bestOf_min (n : Nat) : ∃ j, j < n + 1 ∧
    bestOf sol S P dt x0 uinit (n+1) = ⟨some (iterate sol S P dt x0 uinit j).u, some (iterate sol S P dt x0 uinit j).cost⟩ ∧
    ∀ i, i < n + 1 → (iterate sol S P dt x0 uinit j).cost ≤ (iterate sol S P dt x0 uinit i).cost := by
  induction n with
  | zero =>
    refine ⟨0, by omega, ?_, ?_⟩
    · simp [bestOf]
    · intro i hi; have : i = 0 := by omega
      subst this; exact le_refl _
  | succ n ih =>
    obtain ⟨j, hj, hb, hmin⟩ := ih
    by_cases hlt : (iterate sol S P dt x0 uinit (n+1)).cost < (iterate sol S P dt x0 uinit j).cost
    · refine ⟨n+1, by omega, ?_, ?_⟩
      · rw [bestOf, hb]; simp [hlt]
      · intro i hi
        by_cases h : i = n + 1
        · subst h; exact le_refl _
        · exact le_trans (le_of_lt hlt) (hmin i (by omega))
    · refine ⟨j, by omega, ?_, ?_⟩
      · rw [bestOf, hb]; simp [hlt]
      · intro i hi
        by_cases h : i = n + 1
        · subst h; exact not_lt.mp hlt
        · exact hmin i (by omega)

theorem mpcLoop_succ_true (fuel : Nat) (st : Stepper ℝ) (n : Nat) (hc : st.continual = true) :
    mpcLoop sol S P dt x0 (fuel+1) st (uAt sol S P dt x0 uinit n) (bestOf sol S P dt x0 uinit n) n
      = mpcLoop sol S P dt x0 fuel (st.step (iterate sol S P dt x0 uinit n).cost) (uAt sol S P dt x0 uinit (n+1))
          (bestOf sol S P dt x0 uinit (n+1)) (n+1) := by
  rw [mpcLoop]
  simp only [hc, if_true]
  rw [iterate_eq]
  simp only [bestOf, uAt]
  generalize bestOf sol S P dt x0 uinit n = b
  rcases b with ⟨bu, bc⟩
  cases bc <;> rfl

/-- after `stepper.reset()` the loop body runs at least once -/
theorem mpcLoop_ge_one (fuel : Nat) (st : Stepper ℝ) :
    1 ≤ (mpcLoop sol S P dt x0 (fuel+1) st.reset uinit ⟨uinit, none⟩ 0).2.2 := by
  have h := mpcLoop_succ_true sol S P dt x0 uinit fuel st.reset 0 (by simp [Stepper.reset])
  simp only [uAt, bestOf] at h
  rw [h]
  exact (mpcLoop_best sol S P dt x0 uinit fuel _ 1).2

theorem step_maxSteps (st : Stepper ℝ) (c : ℝ) : (st.step c).maxSteps = st.maxSteps := rfl
theorem step_steps (st : Stepper ℝ) (c : ℝ) : (st.step c).steps = st.steps + 1 := rfl

theorem step_continual (st : Stepper ℝ) (c : ℝ) (h : (st.step c).continual = true) :
    ¬ (st.maxSteps ≤ ((st.steps + 1 : Nat) : Int)) := by
  intro hle
  unfold Stepper.step at h
  simp only [hle, if_true] at h
  split at h <;> simp at h

/-- `ReduceToBason` stops the loop after `max(max_steps, 1)` iterations: more fuel changes nothing -/
theorem mpcLoop_fuel (fuel : Nat) : ∀ (k : Nat) (st : Stepper ℝ) (u : Option (List (Vec ℝ nc))) (best : Best ℝ ns nc) (n : Nat),
    (st.continual = true → (st.steps : Int) < max st.maxSteps 1 ∧ max st.maxSteps 1 - st.steps ≤ fuel) →
    mpcLoop sol S P dt x0 fuel st u best n = mpcLoop sol S P dt x0 (fuel + k) st u best n := by
  induction fuel with
  | zero =>
    intro k st u best n h
    have hc : ¬ st.continual = true := by
      intro hc; obtain ⟨h1, h2⟩ := h hc; omega
    cases k with
    | zero => rfl
    | succ k => rw [Nat.zero_add, mpcLoop, mpcLoop]; simp [hc]
  | succ fuel ih =>
    intro k st u best n h
    have e : fuel + 1 + k = (fuel + k) + 1 := by omega
    rw [e, mpcLoop, mpcLoop]
    by_cases hc : st.continual = true
    · simp only [hc, if_true]
      obtain ⟨h1, h2⟩ := h hc
      apply ih
      intro hc'
      have := step_continual st _ hc'
      rw [step_maxSteps, step_steps]
      push_cast at this ⊢
      constructor
      · have : st.maxSteps ≤ max st.maxSteps 1 := le_max_left _ _
        omega
      · omega
    · simp [hc]

/-- the loop performs at most `max(max_steps, 1) - steps` further iterations -/
theorem mpcLoop_count (fuel : Nat) : ∀ (st : Stepper ℝ) (u : Option (List (Vec ℝ nc))) (best : Best ℝ ns nc) (n : Nat),
    (st.continual = true → (st.steps : Int) < max st.maxSteps 1) →
    ((mpcLoop sol S P dt x0 fuel st u best n).2.2 : Int)
      ≤ n + (if st.continual then max st.maxSteps 1 - st.steps else 0) := by
  induction fuel with
  | zero =>
    intro st u best n h
    simp only [mpcLoop]
    split
    · rename_i hc; have := h hc; omega
    · omega
  | succ fuel ih =>
    intro st u best n h
    rw [mpcLoop]
    by_cases hc : st.continual = true
    · simp only [hc, if_true]
      have h0 := h hc
      set st' := st.step (lqr sol S P dt x0 (nomOf u)).cost with hst'
      have hinv : st'.continual = true → (st'.steps : Int) < max st'.maxSteps 1 := by
        intro hc'
        have := step_continual st _ hc'
        rw [hst', step_maxSteps, step_steps]
        have : st.maxSteps ≤ max st.maxSteps 1 := le_max_left _ _
        push_cast at *
        omega
      refine le_trans (ih st' _ _ (n+1) hinv) ?_
      by_cases hc' : st'.continual = true
      · simp only [hc', if_true]
        rw [hst', step_maxSteps, step_steps]
        push_cast
        omega
      · simp only [hc']
        push_cast
        omega
    · simp only [hc]
      simp

end mpcloop

/-! ## Part 8 — re-using one MPC / stepper object: no state leaks from call to call -/

section reuse
variable {ns nc : Nat}

/-- the constructor arguments of a stepper (everything `reset()` does not overwrite) -/
def SameParams (a b : Stepper ℝ) : Prop :=
  a.maxSteps = b.maxSteps ∧ a.patience = b.patience ∧ a.decreasing = b.decreasing ∧ a.tol = b.tol

theorem SameParams.refl (a : Stepper ℝ) : SameParams a a := ⟨rfl, rfl, rfl, rfl⟩
theorem SameParams.trans {a b c : Stepper ℝ} (h1 : SameParams a b) (h2 : SameParams b c) : SameParams a c :=
  ⟨h1.1.trans h2.1, h1.2.1.trans h2.2.1, h1.2.2.1.trans h2.2.2.1, h1.2.2.2.trans h2.2.2.2⟩

theorem reset_eq_of_sameParams {a b : Stepper ℝ} (h : SameParams a b) : a.reset = b.reset := by
  obtain ⟨h1, h2, h3, h4⟩ := h
  cases a; cases b
  simp only [Stepper.reset] at *
  simp_all

theorem step_sameParams (a : Stepper ℝ) (c : ℝ) : SameParams (a.step c) a := ⟨rfl, rfl, rfl, rfl⟩
theorem reset_sameParams (a : Stepper ℝ) : SameParams a.reset a := ⟨rfl, rfl, rfl, rfl⟩

theorem mpcLoop_sameParams (sol : Solver ℝ ns nc) (S : Sys ℝ ns nc) (P : Prob ℝ ns nc) (dt : Nat) (x0 : Vec ℝ ns) (fuel : Nat) :
    ∀ (st : Stepper ℝ) (u : Option (List (Vec ℝ nc))) (best : Best ℝ ns nc) (n : Nat),
      SameParams (mpcLoop sol S P dt x0 fuel st u best n).2.1 st := by
  induction fuel with
  | zero => intro st u best n; exact SameParams.refl _
  | succ fuel ih =>
    intro st u best n
    rw [mpcLoop]
    by_cases hc : st.continual = true
    · simp only [hc, if_true]
      exact (ih _ _ _ _).trans (step_sameParams _ _)
    · simp only [hc]
      exact SameParams.refl _

/-- one `MPC.forward` call: problem, start, initial inputs, iteration budget -/
structure MpcCall (ns nc : Nat) where
  P : Prob ℝ ns nc
  dt : Nat
  x0 : Vec ℝ ns
  uinit : Option (List (Vec ℝ nc))
  fuel : Nat

/-- several calls threading ONE stepper object (what re-using an `MPC` object does) -/
noncomputable def mpcSeq (sol : Solver ℝ ns nc) (S : Sys ℝ ns nc) : List (MpcCall ns nc) → Stepper ℝ → List (Out ℝ ns nc × Nat)
  | [], _ => []
  | c :: rest, st =>
    let r := mpc sol S c.P c.dt c.x0 c.fuel st c.uinit
    (r.1, r.2.2) :: mpcSeq sol S rest r.2.1

theorem bwFrom_dt (sol : Solver ℝ ns nc) (S : Sys ℝ ns nc) (P : Prob ℝ ns nc) (dt dt' : Nat)
    (xbar : Nat → Vec ℝ ns) (ubar : Nat → Vec ℝ nc)
    (hA : ∀ t t' x u, S.A t x u = S.A t' x u) (hB : ∀ t t' x u, S.B t x u = S.B t' x u) (n : Nat) :
    ∀ t, bwFrom sol S P dt xbar ubar t n = bwFrom sol S P dt' xbar ubar t n := by
  induction n with
  | zero => intro t; rfl
  | succ n ih =>
    intro t
    rw [bwFrom_succ, bwFrom_succ, ih (t+1)]
    have hs : ∀ nxt, stage sol S P dt xbar ubar t nxt = stage sol S P dt' xbar ubar t nxt := by
      intro nxt
      have hq : stageQ S P dt xbar ubar t nxt = stageQ S P dt' xbar ubar t nxt := by
        cases nxt with
        | none => rfl
        | some w => simp only [stageQ]; rw [hA (t * dt) (t * dt'), hB (t * dt) (t * dt')]
      simp only [stage, hq]
    rw [hs]

/-! ### glue of the constructors: tiled arguments, `c1 is None`, `MPC.__init__` -/

theorem ofArgs_T (T : Nat) (Q : PerStep (Mat ℝ (ns + nc) (ns + nc))) (p : PerStep (Vec ℝ (ns + nc))) :
    (Prob.ofArgs (ns := ns) (nc := nc) T Q p).T = T := rfl

theorem linearOpt_some (A : Nat → Mat ℝ ns ns) (B : Nat → Mat ℝ ns nc) (c : Nat → Vec ℝ ns) :
    Sys.linearOpt A B (some c) = Sys.linear A B c := rfl

theorem vadd_vzero {n : Nat} (z : Vec ℝ n) : vadd z vzero = z := by
  apply toFn_inj; simp

theorem linearOpt_none (A : Nat → Mat ℝ ns ns) (B : Nat → Mat ℝ ns nc) :
    Sys.linearOpt A B none = Sys.linear A B (fun _ => vzero) := by
  unfold Sys.linearOpt Sys.linear
  simp only [vadd_vzero]

/-- every spelling of the system is a `Sys.linear` -/
theorem linearOpt_eq (A : Nat → Mat ℝ ns ns) (B : Nat → Mat ℝ ns nc) (c1 : Option (Nat → Vec ℝ ns)) :
    Sys.linearOpt A B c1 = Sys.linear A B (c1.getD fun _ => vzero) := by
  cases c1 with
  | none => exact linearOpt_none A B
  | some c => rfl

/-- "no state cost, unit input cost": `diag(0, …, 0, 1, …, 1)` — inside `CostOK`, not positive definite -/
def rMat (ns nc : Nat) : Mat ℝ (ns + nc) (ns + nc) := mat fun i j => if i = j ∧ ns ≤ i.val then 1 else 0

theorem rMat_blocks (ns nc : Nat) :
    bXX (toM (rMat ns nc)) = 0 ∧ bXU (toM (rMat ns nc)) = 0 ∧ bUX (toM (rMat ns nc)) = 0 ∧ bUU (toM (rMat ns nc)) = 1 := by
  unfold rMat
  rw [toM_mat]
  refine ⟨?_, ?_, ?_, ?_⟩
  · ext i j
    simp [bXX]
  · ext i j
    simp [bXU]
  · ext i j
    have : Fin.natAdd ns i ≠ Fin.castAdd nc j := by
      intro h; have := congrArg Fin.val h; simp at this; omega
    simp [bUX, this]
  · ext i j
    simp only [bUU, Matrix.of_apply, Matrix.one_apply]
    by_cases h : i = j
    · subst h; simp
    · have : Fin.natAdd ns i ≠ Fin.natAdd ns j := by
        intro h2; apply h; have := congrArg Fin.val h2; simp at this; exact Fin.ext this
      simp [h, this]

theorem rMat_qf (ns nc : Nat) (x : Fin (ns + nc) → ℝ) : x ⬝ᵥ toM (rMat ns nc) *ᵥ x = vR x ⬝ᵥ vR x := by
  obtain ⟨h1, h2, h3, h4⟩ := rMat_blocks ns nc
  rw [dot_split, vL_mulVec, vR_mulVec, h1, h2, h3, h4]
  simp

theorem rMat_costOK (ns nc : Nat) : CostOK (toM (rMat ns nc)) := by
  refine ⟨?_, ?_, ?_⟩
  · unfold IsSym rMat
    rw [toM_mat]
    ext i j
    simp only [Matrix.transpose_apply, Matrix.of_apply]
    by_cases h : i = j
    · subst h; rfl
    · have h' : ¬ j = i := fun e => h e.symm
      simp [h, h']
  · intro x
    rw [rMat_qf]
    simp only [dotProduct]
    exact Finset.sum_nonneg fun i _ => mul_self_nonneg _
  · rw [(rMat_blocks ns nc).2.2.2]
    intro u hu
    rw [Matrix.one_mulVec]
    have h0 : 0 ≤ u ⬝ᵥ u := by
      simp only [dotProduct]; exact Finset.sum_nonneg fun i _ => mul_self_nonneg (u i)
    have h1 : u ⬝ᵥ u ≠ 0 := fun h => hu (dotProduct_self_eq_zero.mp h)
    exact lt_of_le_of_ne h0 (Ne.symm h1)

theorem rMat_not_pd (ns nc : Nat) (h : 0 < ns) : ¬ IsPD (toM (rMat ns nc)) := by
  intro hpd
  have hne : app (fun _ : Fin ns => (1:ℝ)) (0 : Fin nc → ℝ) ≠ 0 := by
    intro e
    have := congrFun (congrArg (vL (m := ns) (n := nc)) e) ⟨0, h⟩
    rw [vL_app] at this
    simp [vL] at this
  have := hpd _ hne
  rw [rMat_qf, vR_app] at this
  simp at this

/-! ### tails of the backward / forward pass (principle of optimality) -/

theorem bwFrom_drop (sol : Solver ℝ ns nc) (S : Sys ℝ ns nc) (P : Prob ℝ ns nc) (dt : Nat)
    (xbar : Nat → Vec ℝ ns) (ubar : Nat → Vec ℝ nc) (j : Nat) : ∀ (s n : Nat), j ≤ n →
    (bwFrom sol S P dt xbar ubar s n).2.drop j = (bwFrom sol S P dt xbar ubar (s + j) (n - j)).2 := by
  induction j with
  | zero => intro s n _; simp
  | succ j ih =>
    intro s n h
    obtain ⟨m, rfl⟩ : ∃ m, n = m + 1 := ⟨n - 1, by omega⟩
    rw [bwFrom_succ]
    simp only [List.drop_succ_cons]
    rw [ih (s+1) m (by omega)]
    have e1 : s + 1 + j = s + (j + 1) := by omega
    have e2 : m + 1 - (j + 1) = m - j := by omega
    rw [e1, e2]

/-- the forward loop restarted at step `j` from the state it reached there produces the remaining inputs -/
theorem fwFrom_drop (S : Sys ℝ ns nc) (P : Prob ℝ ns nc) (xbar : Nat → Vec ℝ ns) (ubar : Nat → Vec ℝ nc) (j : Nat) :
    ∀ (t : Nat) (x : Vec ℝ ns) (gs : List (Gain ℝ ns nc)), j ≤ gs.length →
    (fwFrom S P xbar ubar t t x gs).2.1.drop j
      = (fwFrom S P xbar ubar (t + j) (t + j) (nth (x :: (fwFrom S P xbar ubar t t x gs).1) j) (gs.drop j)).2.1 := by
  induction j with
  | zero => intro t x gs _; simp [nth]
  | succ j ih =>
    intro t x gs h
    cases gs with
    | nil => simp at h
    | cons g gs =>
      rw [fwFrom_cons]
      simp only [List.drop_succ_cons, nth_cons_succ]
      rw [ih (t+1) _ gs (by simpa using h)]
      have e : t + 1 + j = t + (j + 1) := by omega
      rw [e]

end reuse

/-! ## Part 9 — auxiliary statements and statements that are TRUE BY CONSTRUCTION of the model

Moved out of `Props/C14.lean` after the independent audit: they are correct but carry little evidence about the code.

* `clock_independent`, `history_independent`, `failed_call_harmless`, `copies_independent`: the model's only state between
  calls is the `Nat` clock, `resetClock _ = 0`, `Op.failed` is DEFINED as "changes only the clock"; the driver never executes
  `lqrCall` / `runHistory`. That the real objects carry nothing else from call to call — `LQR.x_traj` / `LQR.u_traj`
  (overwritten at lqr.py:316-323), `System.state` / `System.input`, `NLS._ref_*`, none of which exists in the model — is decided
  by the harness' HISTORY stream (solves interleaved with clock writes, forward calls, other problems, failing calls, copies, in-place
  updates on the same objects, each compared with the reference and the first solve), not by these statements.
* `rollout_affine`, `quadratic_stationary_global`, `mpcInit_spec`, `mpc_is_lqr`: bookkeeping used by the property theorems. -/

section byConstruction
variable {ns nc : Nat}

/-- the difference of two roll-outs of a linear time-varying system depends only on the differences of the
starts and of the inputs (`dprop`: `d⁺ = A_t d + B_t du`), for any horizon and dimensions -/
theorem rollout_affine (A : Nat → Mat ℝ ns ns) (B : Nat → Mat ℝ ns nc) (c : Nat → Vec ℝ ns) (P : Prob ℝ ns nc)
    (us us' : List (Vec ℝ nc)) (t : Nat) (x x' : Vec ℝ ns) (hl : us'.length = us.length) :
    List.zipWith (fun a b => toFn a - toFn b) (simulate (Sys.linear A B c) P t x' us').1 (simulate (Sys.linear A B c) P t x us).1
      = dprop A B t (toFn x' - toFn x) (udiff us' us) :=
  simulate_diff A B c P us us' t x x' hl


theorem quadratic_stationary_global {n : Nat} (H : Matrix (Fin n) (Fin n) ℝ) (g u u' : Fin n → ℝ)
    (hs : IsSym H) (hp : IsPSD H) (hst : H *ᵥ u + g = 0) :
    (1:ℝ)/2 * (u ⬝ᵥ H *ᵥ u) + u ⬝ᵥ g ≤ (1:ℝ)/2 * (u' ⬝ᵥ H *ᵥ u') + u' ⬝ᵥ g := by
  have e := stage_expand hs g u u'
  rw [hst] at e
  have := hp (u' - u)
  simp only [zero_dotProduct] at e
  linarith


/-- whatever the clock when the solve is entered, the result is that of a fresh system and the clock is
left at `T` (both passes are preceded by `system.reset()`) -/
theorem clock_independent (sol : Solver ℝ ns nc) (S : Sys ℝ ns nc) (P : Prob ℝ ns nc) (dt : Nat) (x0 : Vec ℝ ns)
    (ubar : Nat → Vec ℝ nc) (clk : Nat) :
    lqrCall sol S P dt x0 ubar clk = (lqr sol S P dt x0 ubar, P.T) := by
  simp [lqrCall, lqr, resetClock]


/-- **any history**: solves interleaved with arbitrary clock writes and forward calls on one system object
return what they would return on a fresh object, whatever the initial clock -/
theorem history_independent (sol : Solver ℝ ns nc) (S : Sys ℝ ns nc) (ops : List (Op ℝ ns nc)) :
    ∀ clk : Nat, (runHistory sol S ops clk).1 = freshSolves sol S ops := by
  induction ops with
  | nil => intro clk; rfl
  | cons op ops ih =>
    intro clk
    cases op with
    | solve P dt x0 ubar =>
      simp only [runHistory, freshSolves, clock_independent]
      rw [ih]
    | setClock v => simp only [runHistory, freshSolves]; rw [ih]
    | forward n => simp only [runHistory, freshSolves]; rw [ih]
    | failed c => simp only [runHistory, freshSolves]; rw [ih]


/-- **error paths are atomic for the property**: a call that raised and was caught (wherever it left the clock)
changes no later result — the history with the failed call returns what the history without it returns -/
theorem failed_call_harmless (sol : Solver ℝ ns nc) (S : Sys ℝ ns nc) (pre post : List (Op ℝ ns nc)) (c clk : Nat) :
    (runHistory sol S (pre ++ .failed c :: post) clk).1 = (runHistory sol S (pre ++ post) clk).1 := by
  rw [history_independent, history_independent]
  induction pre with
  | nil => rfl
  | cons op pre ih => cases op <;> simp only [List.cons_append, freshSolves, ih]


/-- **copies follow their own law**: an object and its copy (own clock each) used interleaved in any order —
each returns, solve by solve, what it would return if the other did not exist -/
theorem copies_independent (sol : Solver ℝ ns nc) (S : Sys ℝ ns nc) (ops : List (Bool × Op ℝ ns nc)) :
    ∀ c1 c2 : Nat, runTwo sol S ops c1 c2
      = (freshSolves sol S ((ops.filter fun o => o.1).map Prod.snd), freshSolves sol S ((ops.filter fun o => !o.1).map Prod.snd)) := by
  induction ops with
  | nil => intro c1 c2; rfl
  | cons o rest ih =>
    intro c1 c2
    obtain ⟨b, op⟩ := o
    cases b
    · simp only [runTwo, ih, List.filter_cons, Bool.false_eq_true, if_false, Bool.not_false, if_true, List.map_cons]
      have h := history_independent sol S [op] c2
      rw [h]
      cases op <;> simp [freshSolves]
    · simp only [runTwo, ih, List.filter_cons, if_true, Bool.not_true, Bool.false_eq_true, if_false, List.map_cons]
      have h := history_independent sol S [op] c1
      rw [h]
      cases op <;> simp [freshSolves]


/-- the value returned by `MPC.forward` is one LQR solve around the best inputs of the loop -/
theorem mpc_is_lqr (sol : Solver ℝ ns nc) (S : Sys ℝ ns nc) (P : Prob ℝ ns nc) (dt : Nat) (x0 : Vec ℝ ns)
    (fuel : Nat) (st : Stepper ℝ) (uinit : Option (List (Vec ℝ nc))) :
    (mpc sol S P dt x0 fuel st uinit).1
      = lqr sol S P dt x0 (nomOf (mpcLoop sol S P dt x0 fuel st.reset uinit ⟨uinit, none⟩ 0).1.u) := rfl


/-- `MPC.__init__`: with `stepper=None` the object holds `ReduceToBason(steps=10, patience=5, decreasing=1e-3, tol=1e-5)`
with one step of its budget taken off; a given stepper keeps its parameters and loses one step -/
theorem mpcInit_spec (st : Stepper ℝ) :
    (mpcInit (none : Option (Stepper ℝ))).maxSteps = 9 ∧ (mpcInit (none : Option (Stepper ℝ))).patience = 5 ∧
    (mpcInit (none : Option (Stepper ℝ))).decreasing = 1 / 1000 ∧ (mpcInit (none : Option (Stepper ℝ))).tol = 1 / 100000 ∧
    (mpcInit (some st)).maxSteps = st.maxSteps - 1 ∧ (mpcInit (some st)).patience = st.patience ∧
    (mpcInit (some st)).decreasing = st.decreasing ∧ (mpcInit (some st)).tol = st.tol := by
  refine ⟨by simp [mpcInit, Stepper.default, Stepper.new], by simp [mpcInit, Stepper.default, Stepper.new], ?_, ?_, rfl, rfl, rfl, rfl⟩
  · simp [mpcInit, Stepper.default, Stepper.new]
  · simp [mpcInit, Stepper.default, Stepper.new]


end byConstruction

/-! ## Part 10 — the scope of `hlin`, and the error branches of `LQR.forward` -/

section scope
variable {ns nc : Nat}

/-- Cholesky's acceptance contract: it does not raise on symmetric positive definite matrices -/
def AcceptsOK (sol : Solver ℝ ns nc) : Prop := ∀ M : Mat ℝ nc nc, IsSym (toM M) → IsPD (toM M) → sol.accepts M = true

theorem invSolver_accepts (ns nc : Nat) : AcceptsOK (invSolver ns nc) := fun _ _ _ => rfl

end scope

/-! ## Part 11 — `V_t`, `v_t` ARE the value function: second-order expansion of the optimal cost-to-go -/

section valuefn
variable {ns nc : Nat}
variable (sol : Solver ℝ ns nc) (P : Prob ℝ ns nc) (dt : Nat) (xbar : Nat → Vec ℝ ns) (ubar : Nat → Vec ℝ nc)

/-- the difference of the policy's inputs at two states is `K_t (x' - x)` -/
theorem ctrl_sub (g : Gain ℝ ns nc) (t : Nat) (x x' : Vec ℝ ns) :
    toFn (ctrl xbar ubar g t x') - toFn (ctrl xbar ubar g t x) = toM g.K *ᵥ (toFn x' - toFn x) := by
  rw [ctrl_eq, ctrl_eq, Matrix.mulVec_sub, Matrix.mulVec_sub, Matrix.mulVec_sub]
  abel

/-- the second-order term between the policy roll-outs from two states is `½ (x'-x)ᵀ V_t (x'-x)` -/
theorem gap_policy (A : Nat → Mat ℝ ns ns) (B : Nat → Mat ℝ ns nc) (c : Nat → Vec ℝ ns) (n : Nat) : ∀ (t : Nat),
    (∀ s, t ≤ s → s + 1 < t + n → A (s * dt) = A s ∧ B (s * dt) = B s) →
    ∀ (x x' : Vec ℝ ns),
      gap (Sys.linear A B c) P t x
          (fwFrom (Sys.linear A B c) P xbar ubar t t x (bwFrom sol (Sys.linear A B c) P dt xbar ubar t n).2).2.1 x'
          (fwFrom (Sys.linear A B c) P xbar ubar t t x' (bwFrom sol (Sys.linear A B c) P dt xbar ubar t n).2).2.1
        = (1:ℝ)/2 * ((toFn x' - toFn x) ⬝ᵥ Vp (bwFrom sol (Sys.linear A B c) P dt xbar ubar t n).1 *ᵥ (toFn x' - toFn x)) := by
  induction n with
  | zero => intro t _ x x'; simp [bwFrom_zero, fwFrom, gap, Vp]
  | succ n ih =>
    intro t hlin x x'
    have IH := ih (t+1) (fun s h1 h2 => hlin s (by omega) (by omega))
    set S := Sys.linear A B c with hS
    set r := bwFrom sol S P dt xbar ubar (t+1) n with hr
    rw [bwFrom_succ]
    simp only [fwFrom_cons, gap]
    set g := (stage sol S P dt xbar ubar t r.1).1 with hg
    set u := ctrl xbar ubar g t x with hu
    set u' := ctrl xbar ubar g t x' with hu'
    rw [IH (S.f t x u) (S.f t x' u')]
    set dx : Fin ns → ℝ := toFn x' - toFn x with hdx
    have hdu : toFn u' - toFn u = toM g.K *ᵥ dx := ctrl_sub xbar ubar g t x x'
    rw [hdu]
    set K := toM g.K with hK
    set F := Fmat S dt xbar ubar t with hF
    -- the next-state difference is F (dx, K dx) when a value function follows; otherwise it is multiplied by V = 0
    have hnext : (toFn (S.f t x' u') - toFn (S.f t x u)) ⬝ᵥ Vp r.1 *ᵥ (toFn (S.f t x' u') - toFn (S.f t x u))
        = (F *ᵥ app dx (K *ᵥ dx)) ⬝ᵥ Vp r.1 *ᵥ (F *ᵥ app dx (K *ᵥ dx)) := by
      cases hro : r.1 with
      | none => simp [Vp]
      | some w0 =>
        have hn1 : 1 ≤ n := by
          rcases n with _ | n
          · rw [hr, bwFrom_zero] at hro; cases hro
          · omega
        have hFA : F = cat (toM (A t)) (toM (B t)) := by
          rw [hF, Fmat, hS]
          simp only [Sys.linear]
          rw [(hlin t (le_refl _) (by omega)).1, (hlin t (le_refl _) (by omega)).2]
        have hFd : F *ᵥ app dx (K *ᵥ dx) = toFn (S.f t x' u') - toFn (S.f t x u) := by
          rw [hFA, cat_mulVec, vL_app, vR_app, hS, linear_f, linear_f, ← hdu, hdx, Matrix.mulVec_sub, Matrix.mulVec_sub]
          abel
        rw [hFd]
    rw [hnext]
    have hQt : toM (stageQ S P dt xbar ubar t r.1).1 = toM (P.Q t) + Fᵀ * Vp r.1 * F := stageQ_fst S P dt xbar ubar t r.1
    have hV : Vp (some (stage sol S P dt xbar ubar t r.1).2)
        = bXX (toM (stageQ S P dt xbar ubar t r.1).1) + bXU (toM (stageQ S P dt xbar ubar t r.1).1) * K
          + Kᵀ * bUX (toM (stageQ S P dt xbar ubar t r.1).1) + Kᵀ * bUU (toM (stageQ S P dt xbar ubar t r.1).1) * K :=
      stage_V sol S P dt xbar ubar t r.1
    rw [hV, qf_value, hQt, qf_aug]
    ring

/-- **the backward recursion computes the value function**: with `J*_t(x)` the cost of the LQR policy from state `x` at step
`t` (which is the optimal cost-to-go, `opt_identity`), for all states `x, x'`
`J*_t(x') - J*_t(x) = λ_t(x)·(x'-x) + ½ (x'-x)ᵀ V_t (x'-x)` with `λ_t(x) = V_t (x - x̄_t) + v_t` —
`V_t` is the Hessian and `V_t (x - x̄_t) + v_t` the gradient of the optimal cost-to-go. -/
theorem value_function (hsol : SolverOK sol) (A : Nat → Mat ℝ ns ns) (B : Nat → Mat ℝ ns nc) (c : Nat → Vec ℝ ns)
    (n t : Nat)
    (hQ : ∀ s, t ≤ s → s < t + n → CostOK (toM (P.Q s)))
    (hlin : ∀ s, t ≤ s → s + 1 < t + n → A (s * dt) = A s ∧ B (s * dt) = B s)
    (hnom : ∀ s, t ≤ s → s + 1 < t + n → xbar (s+1) = (Sys.linear A B c).f s (xbar s) (ubar s))
    (x x' : Vec ℝ ns) :
    (fwFrom (Sys.linear A B c) P xbar ubar t t x' (bwFrom sol (Sys.linear A B c) P dt xbar ubar t n).2).2.2
      - (fwFrom (Sys.linear A B c) P xbar ubar t t x (bwFrom sol (Sys.linear A B c) P dt xbar ubar t n).2).2.2
    = lam xbar (bwFrom sol (Sys.linear A B c) P dt xbar ubar t n).1 t x ⬝ᵥ (toFn x' - toFn x)
      + (1:ℝ)/2 * ((toFn x' - toFn x) ⬝ᵥ Vp (bwFrom sol (Sys.linear A B c) P dt xbar ubar t n).1 *ᵥ (toFn x' - toFn x)) := by
  obtain ⟨_, hid⟩ := opt_identity sol P dt xbar ubar hsol A B c n t hQ hlin hnom
  have hlen : (fwFrom (Sys.linear A B c) P xbar ubar t t x' (bwFrom sol (Sys.linear A B c) P dt xbar ubar t n).2).2.1.length = n := by
    rw [fwFrom_length, bwFrom_length]
  have h1 := hid x x' _ hlen
  rw [fwFrom_sim] at h1
  rw [h1, gap_policy sol P dt xbar ubar A B c n t hlin x x']

end valuefn

/-! ## Part 12 — `K_t`, `V_t` (and the matrices handed to Cholesky) belong to the PROBLEM, not to the nominal or the start -/

section gainsindep
variable {ns nc : Nat}
variable (sol : Solver ℝ ns nc) (A : Nat → Mat ℝ ns ns) (B : Nat → Mat ℝ ns nc) (c : Nat → Vec ℝ ns) (P : Prob ℝ ns nc) (dt : Nat)

/-- `Qt` of one backward iteration depends on the next value function only through `V` and not on the nominal -/
theorem stageQ_fst_indep (xbar xbar' : Nat → Vec ℝ ns) (ubar ubar' : Nat → Vec ℝ nc) (t : Nat) (nxt nxt' : Option (Val ℝ ns))
    (h : nxt.map (·.V) = nxt'.map (·.V)) :
    (stageQ (Sys.linear A B c) P dt xbar ubar t nxt).1 = (stageQ (Sys.linear A B c) P dt xbar' ubar' t nxt').1 := by
  cases nxt with
  | none =>
    cases nxt' with
    | none => rfl
    | some w' => simp at h
  | some w =>
    cases nxt' with
    | none => simp at h
    | some w' =>
      have hV : w.V = w'.V := by simpa using h
      simp only [stageQ, Sys.linear, hV]

/-- gain matrix, `Quu`, `Qux` and the new `V` of one backward iteration: independent of the nominal -/
theorem stage_KV_indep (xbar xbar' : Nat → Vec ℝ ns) (ubar ubar' : Nat → Vec ℝ nc) (t : Nat) (nxt nxt' : Option (Val ℝ ns))
    (h : nxt.map (·.V) = nxt'.map (·.V)) :
    (stage sol (Sys.linear A B c) P dt xbar ubar t nxt).1.K = (stage sol (Sys.linear A B c) P dt xbar' ubar' t nxt').1.K ∧
    (stage sol (Sys.linear A B c) P dt xbar ubar t nxt).1.Quu = (stage sol (Sys.linear A B c) P dt xbar' ubar' t nxt').1.Quu ∧
    (stage sol (Sys.linear A B c) P dt xbar ubar t nxt).1.Qux = (stage sol (Sys.linear A B c) P dt xbar' ubar' t nxt').1.Qux ∧
    (stage sol (Sys.linear A B c) P dt xbar ubar t nxt).2.V = (stage sol (Sys.linear A B c) P dt xbar' ubar' t nxt').2.V := by
  have hq := stageQ_fst_indep A B c P dt xbar xbar' ubar ubar' t nxt nxt' h
  simp only [stage, hq, and_self]

/-- the whole backward loop: the lists of `K_t`, `Quu_t`, `Qux_t` and the final `V` do not depend on the nominal trajectory
(neither on `u_traj` nor, through the roll-out, on `x_init`) -/
theorem bwFrom_KV_indep (xbar xbar' : Nat → Vec ℝ ns) (ubar ubar' : Nat → Vec ℝ nc) (n : Nat) : ∀ t,
    (bwFrom sol (Sys.linear A B c) P dt xbar ubar t n).1.map (·.V) = (bwFrom sol (Sys.linear A B c) P dt xbar' ubar' t n).1.map (·.V) ∧
    (bwFrom sol (Sys.linear A B c) P dt xbar ubar t n).2.map (fun g => (g.K, g.Quu, g.Qux))
      = (bwFrom sol (Sys.linear A B c) P dt xbar' ubar' t n).2.map (fun g => (g.K, g.Quu, g.Qux)) := by
  induction n with
  | zero => intro t; exact ⟨rfl, rfl⟩
  | succ n ih =>
    intro t
    obtain ⟨hV, hG⟩ := ih (t+1)
    obtain ⟨h1, h2, h3, h4⟩ := stage_KV_indep sol A B c P dt xbar xbar' ubar ubar' t _ _ hV
    rw [bwFrom_succ, bwFrom_succ]
    refine ⟨?_, ?_⟩
    · simp only [Option.map_some]; rw [h4]
    · simp only [List.map_cons]; rw [h1, h2, h3, hG]

end gainsindep

section feedback
variable {ns nc : Nat}

/-- the `j`-th input of the forward loop is the feedback law of the `j`-th gain at the `j`-th state -/
theorem fwFrom_input (S : Sys ℝ ns nc) (P : Prob ℝ ns nc) (xbar : Nat → Vec ℝ ns) (ubar : Nat → Vec ℝ nc) (g0 : Gain ℝ ns nc) (j : Nat) :
    ∀ (t : Nat) (x : Vec ℝ ns) (gs : List (Gain ℝ ns nc)), j < gs.length →
    nth (fwFrom S P xbar ubar t t x gs).2.1 j
      = ctrl xbar ubar (gs.getD j g0) (t + j) (nth (x :: (fwFrom S P xbar ubar t t x gs).1) j) := by
  induction j with
  | zero =>
    intro t x gs h
    cases gs with
    | nil => simp at h
    | cons g gs => rw [fwFrom_cons]; simp [nth]
  | succ j ih =>
    intro t x gs h
    cases gs with
    | nil => simp at h
    | cons g gs =>
      rw [fwFrom_cons]
      have := ih (t+1) (S.f t x (ctrl xbar ubar g t x)) gs (by simpa using h)
      simp only [nth_cons_succ, List.getD_cons_succ] at this ⊢
      rw [this]
      have e : t + 1 + j = t + (j + 1) := by omega
      rw [e]

end feedback

/-! ## Part 13 — the gain matrices depend only on `(A_t, B_t, Q_t)`: not on `p_t`, `c1_t`, the nominal or the start -/

section gainsABQ
variable {ns nc : Nat}
variable (sol : Solver ℝ ns nc) (A : Nat → Mat ℝ ns ns) (B : Nat → Mat ℝ ns nc) (dt : Nat)

theorem stageQ_fst_ABQ (c c' : Nat → Vec ℝ ns) (P P' : Prob ℝ ns nc) (hQ : P.Q = P'.Q)
    (xbar xbar' : Nat → Vec ℝ ns) (ubar ubar' : Nat → Vec ℝ nc) (t : Nat) (nxt nxt' : Option (Val ℝ ns))
    (h : nxt.map (·.V) = nxt'.map (·.V)) :
    (stageQ (Sys.linear A B c) P dt xbar ubar t nxt).1 = (stageQ (Sys.linear A B c') P' dt xbar' ubar' t nxt').1 := by
  cases nxt with
  | none =>
    cases nxt' with
    | none => simp only [stageQ, hQ]
    | some w' => simp at h
  | some w =>
    cases nxt' with
    | none => simp at h
    | some w' =>
      have hV : w.V = w'.V := by simpa using h
      simp only [stageQ, Sys.linear, hV, hQ]

theorem stage_KV_ABQ (c c' : Nat → Vec ℝ ns) (P P' : Prob ℝ ns nc) (hQ : P.Q = P'.Q)
    (xbar xbar' : Nat → Vec ℝ ns) (ubar ubar' : Nat → Vec ℝ nc) (t : Nat) (nxt nxt' : Option (Val ℝ ns))
    (h : nxt.map (·.V) = nxt'.map (·.V)) :
    (stage sol (Sys.linear A B c) P dt xbar ubar t nxt).1.K = (stage sol (Sys.linear A B c') P' dt xbar' ubar' t nxt').1.K ∧
    (stage sol (Sys.linear A B c) P dt xbar ubar t nxt).1.Quu = (stage sol (Sys.linear A B c') P' dt xbar' ubar' t nxt').1.Quu ∧
    (stage sol (Sys.linear A B c) P dt xbar ubar t nxt).1.Qux = (stage sol (Sys.linear A B c') P' dt xbar' ubar' t nxt').1.Qux ∧
    (stage sol (Sys.linear A B c) P dt xbar ubar t nxt).2.V = (stage sol (Sys.linear A B c') P' dt xbar' ubar' t nxt').2.V := by
  have hq := stageQ_fst_ABQ A B dt c c' P P' hQ xbar xbar' ubar ubar' t nxt nxt' h
  simp only [stage, hq, and_self]

theorem bwFrom_KV_ABQ (c c' : Nat → Vec ℝ ns) (P P' : Prob ℝ ns nc) (hQ : P.Q = P'.Q)
    (xbar xbar' : Nat → Vec ℝ ns) (ubar ubar' : Nat → Vec ℝ nc) (n : Nat) : ∀ t,
    (bwFrom sol (Sys.linear A B c) P dt xbar ubar t n).1.map (·.V) = (bwFrom sol (Sys.linear A B c') P' dt xbar' ubar' t n).1.map (·.V) ∧
    (bwFrom sol (Sys.linear A B c) P dt xbar ubar t n).2.map (fun g => (g.K, g.Quu, g.Qux))
      = (bwFrom sol (Sys.linear A B c') P' dt xbar' ubar' t n).2.map (fun g => (g.K, g.Quu, g.Qux)) := by
  induction n with
  | zero => intro t; exact ⟨rfl, rfl⟩
  | succ n ih =>
    intro t
    obtain ⟨hV, hG⟩ := ih (t+1)
    obtain ⟨h1, h2, h3, h4⟩ := stage_KV_ABQ sol A B dt c c' P P' hQ xbar xbar' ubar ubar' t _ _ hV
    rw [bwFrom_succ, bwFrom_succ]
    refine ⟨?_, ?_⟩
    · simp only [Option.map_some]; rw [h4]
    · simp only [List.map_cons]; rw [h1, h2, h3, hG]

end gainsABQ

end PP.Lqr
