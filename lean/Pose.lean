import Pose.Scalar
import Pose.BigF
import Pose.Wire
import Pose.Model.Basic
import Pose.Model.Lie
import Pose.Driver.Loop
import Pose.Driver.Core
