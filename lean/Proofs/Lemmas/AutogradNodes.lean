/-
C04 (pass 3): local correctness of `Exp` / `Log` nodes in the form needed by `TransSpec`, for the regimes proved in
`AutogradId*.lean` and `AutogradLogSE3.lean` (zero vector, identity element, `SE3_Log` closed form).
-/
import Proofs.Lemmas.AutogradSemantic
import Proofs.Lemmas.AutogradIdRot
import Proofs.Lemmas.AutogradIdSE3
import Proofs.Lemmas.AutogradIdSim3
import Proofs.Lemmas.AutogradLogSE3
set_option linter.unusedSimpArgs false
set_option linter.unusedVariables false
namespace PP.AD
open PP

/-- generic `Exp` node: a local derivative statement for the curve of the argument gives `NodeOK` -/
theorem exp_nodeOK_of (dJ : DJ ℝ) (eps : ℝ) (lt : List Ty) (env : ℝ → List (DVec ℝ)) (tan : List (DVec ℝ)) (g : Grp)
    (p : Prog) (hp : NodeOK dJ eps lt env tan p)
    (hloc : ∀ d : DVec ℝ, d.length = g.adim → LCurve g.adim (fun s => eval eps (env s) p) d →
      LCurve g.gdim (fun s => expF g eps (eval eps (env s) p))
        (liftG g (expF g eps (eval eps (env 0) p)) ((JlMat g eps (eval eps (env 0) p)).mulVec d)))
    (hu : UnitQ g (expF g eps (eval eps (env 0) p))) (hsc : ScalePos g (expF g eps (eval eps (env 0) p))) :
    NodeOK dJ eps lt env tan (.un .Exp g p) := by
  intro ty hty
  simp only [tyOf] at hty
  cases hpt : tyOf lt p with
  | none => simp [hpt] at hty
  | some t =>
    simp only [hpt, Option.bind_some, ty1] at hty
    split at hty <;> simp at hty
    rename_i ht; subst ht; subst hty
    obtain ⟨hL, hl, hτ⟩ := curveOK_V.mp (hp _ hpt)
    refine curveOK_G.mpr ⟨?_, hu, hsc, ?_⟩
    · exact hloc _ hτ hL
    · simp only [tangent, jvp1, length_mulVec _ (Shape_JlMat g eps _)]

/-- generic `Log` node -/
theorem log_nodeOK_of (dJ : DJ ℝ) (eps : ℝ) (lt : List Ty) (env : ℝ → List (DVec ℝ)) (tan : List (DVec ℝ)) (g : Grp)
    (p : Prog) (hp : NodeOK dJ eps lt env tan p)
    (hloc : ∀ τ : DVec ℝ, τ.length = g.adim → GTangent g (fun s => eval eps (env s) p) τ → UnitQ g (eval eps (env 0) p) →
      ScalePos g (eval eps (env 0) p) →
      LCurve g.adim (fun s => logF g eps (eval eps (env s) p))
        ((JlInvMat g eps (logF g eps (eval eps (env 0) p))).mulVec τ)) :
    NodeOK dJ eps lt env tan (.un .Log g p) := by
  intro ty hty
  simp only [tyOf] at hty
  cases hpt : tyOf lt p with
  | none => simp [hpt] at hty
  | some t =>
    simp only [hpt, Option.bind_some, ty1] at hty
    split at hty <;> simp at hty
    rename_i ht; subst ht; subst hty
    obtain ⟨hX, hu, hs, hτ⟩ := curveOK_G.mp (hp _ hpt)
    refine curveOK_V.mpr ⟨?_, ?_, ?_⟩
    · exact hloc _ hτ hX hu hs
    · intro t; simp only [eval, fwd1]; exact length_logF g eps _
    · simp only [tangent, jvp1, length_mulVec _ (Shape_JlInvMat g eps _)]

theorem so3Exp_zero (eps : ℝ) (heps : 0 < eps) : so3Exp eps ⟨0, 0, 0⟩ = ⟨0, 0, 0, 1⟩ := by
  have hn : ¬ eps < (⟨0, 0, 0⟩ : Vec3 ℝ).norm := by rw [norm_zero3]; exact not_lt.mpr (le_of_lt heps)
  rw [so3Exp_taylor eps _ hn]; simp [Quat.mk', Vec3.smul, Vec3.normSq]

/-- `so3` `Exp` node at the zero vector -/
theorem so3_Exp_zero_nodeOK (dJ : DJ ℝ) (eps : ℝ) (heps : 0 < eps) (lt : List Ty) (env : ℝ → List (DVec ℝ)) (tan : List (DVec ℝ))
    (p : Prog) (hp : NodeOK dJ eps lt env tan p) (hz : v3 (eval eps (env 0) p) = ⟨0, 0, 0⟩) :
    NodeOK dJ eps lt env tan (.un .Exp .SO3 p) := by
  refine exp_nodeOK_of dJ eps lt env tan .SO3 p hp ?_ ?_ trivial
  · intro d hd hL
    obtain ⟨d0, d1, d2, rfl⟩ := len3 _ hd
    exact so3Exp_tangent_zero eps heps _ d0 d1 d2 hL hz
  · show (qt (expF .SO3 eps (eval eps (env 0) p))).normSq = 1
    simp only [expF, hz, so3Exp_zero eps heps]
    simp [qt, Quat.toList, Quat.normSq]

/-- `se3` `Exp` node at rotation part zero (any translation part) -/
theorem se3_Exp_zero_nodeOK (dJ : DJ ℝ) (eps : ℝ) (heps : 0 < eps) (lt : List Ty) (env : ℝ → List (DVec ℝ)) (tan : List (DVec ℝ))
    (p : Prog) (hp : NodeOK dJ eps lt env tan p) (hz : v3 (eval eps (env 0) p) 3 = ⟨0, 0, 0⟩) :
    NodeOK dJ eps lt env tan (.un .Exp .SE3 p) := by
  refine exp_nodeOK_of dJ eps lt env tan .SE3 p hp ?_ ?_ trivial
  · intro d hd hL
    obtain ⟨d0, d1, d2, d3, d4, d5, rfl⟩ := len6 _ hd
    exact se3Exp_tangent_zerorot eps heps _ d0 d1 d2 d3 d4 d5 hL hz
  · show (qt (expF .SE3 eps (eval eps (env 0) p)) 3).normSq = 1
    simp only [expF, se3Exp, tose3, hz, so3Exp_zero eps heps]
    simp [qt, SE3.toList, Vec3.toList, Quat.toList, Quat.normSq]

/-- `rxso3` `Exp` node at rotation part zero (any log-scale) -/
theorem rxso3_Exp_zero_nodeOK (dJ : DJ ℝ) (eps : ℝ) (heps : 0 < eps) (lt : List Ty) (env : ℝ → List (DVec ℝ)) (tan : List (DVec ℝ))
    (p : Prog) (hp : NodeOK dJ eps lt env tan p) (hz : v3 (eval eps (env 0) p) = ⟨0, 0, 0⟩) :
    NodeOK dJ eps lt env tan (.un .Exp .RxSO3 p) := by
  refine exp_nodeOK_of dJ eps lt env tan .RxSO3 p hp ?_ ?_ ?_
  · intro d hd hL
    obtain ⟨d0, d1, d2, d3, rfl⟩ := len4 _ hd
    exact rxso3Exp_tangent_zero eps heps _ d0 d1 d2 d3 hL hz
  · show (qt (expF .RxSO3 eps (eval eps (env 0) p))).normSq = 1
    simp only [expF, rxso3Exp, torx, hz, so3Exp_zero eps heps]
    simp [qt, RxSO3.toList, Quat.toList, Quat.normSq]
  · show 0 < nth (expF .RxSO3 eps (eval eps (env 0) p)) 4
    simp [expF, rxso3Exp, RxSO3.toList, torx, Quat.toList, Real.exp_pos]

/-- `sim3` `Exp` node at the zero vector -/
theorem sim3_Exp_zero_nodeOK (dJ : DJ ℝ) (eps : ℝ) (heps : 0 < eps) (lt : List Ty) (env : ℝ → List (DVec ℝ)) (tan : List (DVec ℝ))
    (p : Prog) (hp : NodeOK dJ eps lt env tan p) (hzt : v3 (eval eps (env 0) p) = ⟨0, 0, 0⟩)
    (hzp : v3 (eval eps (env 0) p) 3 = ⟨0, 0, 0⟩) (hzs : nth (eval eps (env 0) p) 6 = 0) :
    NodeOK dJ eps lt env tan (.un .Exp .Sim3 p) := by
  refine exp_nodeOK_of dJ eps lt env tan .Sim3 p hp ?_ ?_ ?_
  · intro d hd hL
    obtain ⟨d0, d1, d2, d3, d4, d5, d6, rfl⟩ := len7 _ hd
    exact sim3Exp_tangent_zero eps heps _ d0 d1 d2 d3 d4 d5 d6 hL hzt hzp hzs
  · show (qt (expF .Sim3 eps (eval eps (env 0) p)) 3).normSq = 1
    simp only [expF, sim3Exp, rxso3Exp, tosim, hzp, so3Exp_zero eps heps]
    simp [qt, Sim3.toList, Vec3.toList, Quat.toList, Quat.normSq]
  · show 0 < nth (expF .Sim3 eps (eval eps (env 0) p)) 7
    simp [expF, sim3Exp, rxso3Exp, Sim3.toList, tosim, Quat.toList, Vec3.toList, Real.exp_pos]

theorem w_sq_of_unit (q : Quat ℝ) (hu : q.normSq = 1) (hv : q.vec = ⟨0, 0, 0⟩) : q.w * q.w = 1 := by
  have hx : q.x = 0 := by have := congrArg Vec3.x hv; simpa [Quat.vec] using this
  have hy : q.y = 0 := by have := congrArg Vec3.y hv; simpa [Quat.vec] using this
  have hz : q.z = 0 := by have := congrArg Vec3.z hv; simpa [Quat.vec] using this
  simp only [Quat.normSq, hx, hy, hz] at hu
  linarith

/-- `SO3` `Log` node at the identity element (`q = ±1`) -/
theorem so3_Log_identity_nodeOK (dJ : DJ ℝ) (eps : ℝ) (heps : 0 < eps) (lt : List Ty) (env : ℝ → List (DVec ℝ)) (tan : List (DVec ℝ))
    (p : Prog) (hp : NodeOK dJ eps lt env tan p) (hv : (qt (eval eps (env 0) p)).vec = ⟨0, 0, 0⟩) :
    NodeOK dJ eps lt env tan (.un .Log .SO3 p) := by
  refine log_nodeOK_of dJ eps lt env tan .SO3 p hp ?_
  intro τ hτ hX hu _
  obtain ⟨a0, a1, a2, rfl⟩ := len3 _ hτ
  exact SO3Log_tangent_identity eps heps _ a0 a1 a2 hX hv (by simpa [qt] using w_sq_of_unit _ hu hv)

/-- `SE3` `Log` node at rotation part identity (any translation) -/
theorem se3_Log_identity_nodeOK (dJ : DJ ℝ) (eps : ℝ) (heps : 0 < eps) (lt : List Ty) (env : ℝ → List (DVec ℝ)) (tan : List (DVec ℝ))
    (p : Prog) (hp : NodeOK dJ eps lt env tan p) (hv : (qt (eval eps (env 0) p) 3).vec = ⟨0, 0, 0⟩) :
    NodeOK dJ eps lt env tan (.un .Log .SE3 p) := by
  refine log_nodeOK_of dJ eps lt env tan .SE3 p hp ?_
  intro τ hτ hX hu _
  obtain ⟨a0, a1, a2, a3, a4, a5, rfl⟩ := len6 _ hτ
  exact SE3Log_tangent_identity eps heps _ a0 a1 a2 a3 a4 a5 hX hv (by simpa [qt] using w_sq_of_unit _ hu hv)

/-- `RxSO3` `Log` node at rotation part identity (any scale) -/
theorem rxso3_Log_identity_nodeOK (dJ : DJ ℝ) (eps : ℝ) (heps : 0 < eps) (lt : List Ty) (env : ℝ → List (DVec ℝ)) (tan : List (DVec ℝ))
    (p : Prog) (hp : NodeOK dJ eps lt env tan p) (hv : (qt (eval eps (env 0) p)).vec = ⟨0, 0, 0⟩) :
    NodeOK dJ eps lt env tan (.un .Log .RxSO3 p) := by
  refine log_nodeOK_of dJ eps lt env tan .RxSO3 p hp ?_
  intro τ hτ hX hu hs
  obtain ⟨a0, a1, a2, a3, rfl⟩ := len4 _ hτ
  exact RxSO3Log_tangent_identity eps heps _ a0 a1 a2 a3 hX hs hv (by simpa [qt] using w_sq_of_unit _ hu hv)

/-- `Sim3` `Log` node at the identity element -/
theorem sim3_Log_identity_nodeOK (dJ : DJ ℝ) (eps : ℝ) (heps : 0 < eps) (lt : List Ty) (env : ℝ → List (DVec ℝ)) (tan : List (DVec ℝ))
    (p : Prog) (hp : NodeOK dJ eps lt env tan p) (ht : v3 (eval eps (env 0) p) = ⟨0, 0, 0⟩)
    (hv : (qt (eval eps (env 0) p) 3).vec = ⟨0, 0, 0⟩) (hs1 : nth (eval eps (env 0) p) 7 = 1) :
    NodeOK dJ eps lt env tan (.un .Log .Sim3 p) := by
  refine log_nodeOK_of dJ eps lt env tan .Sim3 p hp ?_
  intro τ hτ hX hu _
  obtain ⟨a0, a1, a2, a3, a4, a5, a6, rfl⟩ := len7 _ hτ
  exact Sim3Log_tangent_identity eps heps _ a0 a1 a2 a3 a4 a5 a6 hX ht hv (by simpa [qt] using w_sq_of_unit _ hu hv) hs1

/-- `SE3` `Log` node in the closed-form regime -/
theorem se3_Log_nodeOK (dJ : DJ ℝ) (eps : ℝ) (heps : 0 ≤ eps) (lt : List Ty) (env : ℝ → List (DVec ℝ)) (tan : List (DVec ℝ))
    (p : Prog) (hp : NodeOK dJ eps lt env tan p)
    (hv : eps < (qt (eval eps (env 0) p) 3).vec.norm) (hw : eps < |(qt (eval eps (env 0) p) 3).w|)
    (hφ : eps < (v3 (logF .SE3 eps (eval eps (env 0) p)) 3).norm) (hq : (5:ℝ)/100 < (v3 (logF .SE3 eps (eval eps (env 0) p)) 3).norm)
    (hs : Real.sin (1/2 * (v3 (logF .SE3 eps (eval eps (env 0) p)) 3).norm) ≠ 0) :
    NodeOK dJ eps lt env tan (.un .Log .SE3 p) := by
  refine log_nodeOK_of dJ eps lt env tan .SE3 p hp ?_
  intro τ hτ hX hu _
  obtain ⟨a0, a1, a2, a3, a4, a5, rfl⟩ := len6 _ hτ
  exact SE3Log_tangent eps heps _ a0 a1 a2 a3 a4 a5 hX hu hv hw hφ hq hs

end PP.AD
